"""Per-property configuration for ./check. One file checks/props/<id>.py per property, defining CFG with keys:
  modules        Lean theorem modules of the property (every `theorem` in them is audited)
  extractors     extractor commands (extract/cmd/<name>) whose Gen files the property depends on
  drivers        correspondence streams: harness/cmd/<D> (Go, real code) + lean/VaxisModel/Driver/<D>.lean (model+oracle)
  stateful       True if cases are multi-line (introduced by `#case` lines)
  trivial_prefix model-canon prefixes that mark a case as trivial (not counted in distinct_nontrivial)
  rule, trusted_base, assumptions, level_text, level_note, technique, design_ref, timeout
"""
import importlib, os, glob, sys
sys.path.insert(0, os.path.join(os.path.dirname(os.path.abspath(__file__)), "props"))
PROPS = {}
for p in sorted(glob.glob(os.path.join(os.path.dirname(os.path.abspath(__file__)), "props", "C*.py"))):
    name = os.path.basename(p)[:-3]
    PROPS[name] = importlib.import_module(name).CFG

# Properties not claimed (yet), with the reason shown in MANIFEST.not_applicable.
NOT_CLAIMED = {}
