"""C01 configuration for ./check (keys: see checks/propcfg.py)."""
CFG = {
    "modules": ["VaxisModel.Props.C01", "VaxisModel.Props.C01Display", "VaxisModel.Props.C01Clip", "VaxisModel.Props.C01Sixel", "VaxisModel.Props.C01App", "VaxisModel.Witness.C11ShowCursor", "VaxisModel.Props.C01Facts", "VaxisModel.Props.C01Seq"],
    "extractors": ["C07", "C04", "C18", "C11", "C01"],
    "drivers": ["C01"],
    "stateful": True,
    "trivial_prefix": ("-", "bytes="),
    "rule": "frame histories on a real Vaxis over the fake console: bounded-exhaustive two-frame histories on a 1x4 screen "
            "(5 graphemes x 3 styles x positions x Clear/no Clear) and random histories (<= 8 frames of Clear/Fill/SetCell/"
            "SetStyle/Print/ShowCursor/HideCursor then Render/Refresh/resize; screens up to 8x4 quick, 40x12 thorough; all "
            "combinations of rgb/styledUnderlines/explicitWidth/sync/unicodeCore); a case = one history; non-trivial = a frame "
            "line (render/refresh) that produced tokens; distinct by the op list up to that frame",
    "trusted_base": ["Spec.Display (reference terminal for the renderer vocabulary), Spec.Sgr, Spec.Tokenize (byte lexer; grapheme "
                     "segmentation by longest match over the run's alphabet)",
                     "uniseg/runewidth character widths are parameters (cw) supplied per run by the real library"],
    "level_text": "Proved for the executable model of render()/writer.Flush (Model/Render.lean), for all grids, styles, capability sets, width "
                  "oracles and histories: frame_displays_partial / history_displays (after every frame of any admissible history - refreshes and "
                  "diff frames in any order, refresh from ANY well-formed prior grid - the reference terminal shows exactly the application's screen "
                  "and nothing terminal-specific was relied on), flush_epilogue (pen reset, hyperlink closed, sync balanced), cursor_as_requested. "
                  "The model is tied to vaxis.go/writer.go by token-for-token comparison with the bytes the real code writes on generated "
                  "frame histories, and the property itself is evaluated on the real bytes through Spec.Display.",
    "level_note": "Hypotheses of the display theorem (each shown necessary by a decide-checked witness in Witness/C01Display.lean): glyphs fit "
                  "their row (known finding F02 otherwise), explicit widths are 0/correct/(>1 with OSC 66), a space has width 1, the prior grid is "
                  "well-formed on refresh, a visible cursor lies inside the screen, no stale hyperlink params. Sixel cells and graphics placements "
                  "are outside the model (C20). Spec.Display is a model of a standards-conforming terminal, not a physical one.",
    "assumptions": ["terminal width of a raw-printed grapheme equals Vaxis's characterWidth under the same capability set (C07 width method)",
                    "explicit cell widths given by the application are either 0 (auto) or correct, or any width > 1 when OSC 66 is available"],
}
