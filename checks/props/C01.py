"""C01 configuration for ./check (keys: see checks/propcfg.py)."""
CFG = {
    "modules": ["VaxisModel.Props.C01", "VaxisModel.Props.C01Display", "VaxisModel.Props.C01Clip", "VaxisModel.Props.C01Sixel", "VaxisModel.Props.C01SixelRest", "VaxisModel.Props.C01Cluster", "VaxisModel.Props.C01App", "VaxisModel.Props.C01AppCluster", "VaxisModel.Props.C01Ops", "VaxisModel.Witness.C11ShowCursor", "VaxisModel.Props.C01Facts", "VaxisModel.Props.C01Seq", "VaxisModel.Props.C01Link", "VaxisModel.Props.C01Body"],
    "extractors": ["C07", "C04", "C18", "C11", "C01"],
    "drivers": ["C01", "C01Ops"],
    "stateful": True,
    "trivial_prefix": ("-", "bytes="),
    "rule": "two streams. C01Ops (op-level): every drawing call is an op line (window chains with New / struct-literal children, offsets and sizes from -1 to parent+1; "
            "SetCell/SetStyle/Fill/Clear/Print/PrintTruncate/Println/Wrap with 1-2 Segments, ShowCursor through windows, HideCursor; Render/Refresh/resize; all capability "
            "combinations), the driver computes buffer and frame through Model.App, histories are replayable (corpus/C01Ops first). C01 (snapshot): "
            "frame histories on a real Vaxis over the fake console: corpus scenarios (corpus/C01/*.ops: minimised past failures F01, F02, F113) first; "
            "bounded-exhaustive two-frame histories on a 1x4 screen (5 graphemes x 3 styles x positions x Clear/no Clear) and random histories "
            "(<= 8 frames of Clear/Fill/SetCell/SetStyle/Print/ShowCursor/HideCursor, blocks of sixel-flagged cells in a quarter of the histories, "
            "then Render/Refresh/resize; screens up to 8x4 quick, 40x12 thorough; all combinations of rgb/styledUnderlines/explicitWidth/sync/"
            "unicodeCore); a case = one history; non-trivial = a frame line (render/refresh) that produced tokens; distinct by the op list up to that frame",
    "trusted_base": ["Spec.Display (reference terminal for the renderer vocabulary), Spec.Sgr, Spec.Tokenize (byte lexer; grapheme "
                     "segmentation by longest match over the run's alphabet)",
                     "uniseg/runewidth character widths are parameters (cw) supplied per run by the real library",
                     "hooks VerifScreenNext/VerifScreenLast/VerifCellSixel/VerifSixelCell (read-only / constructor of the cell Sixel.Draw places), VerifC11SetWidthCaps (sets the two width capabilities the fake console cannot negotiate)",
                     "joins (which graphemes form one cluster when written back to back) is a parameter of the clustering terminal; uniseg is not modelled"],
    "level_text": "Proved for the executable models of render()/writer.Flush and of the drawing API, for all grids, styles, capability sets, width oracles and "
                  "histories: app_history_displays / app_from_start (after EVERY frame of EVERY run of SetCell/SetStyle/Fill/Clear/Print/PrintTruncate/Println/Wrap on "
                  "arbitrary nested windows, ShowCursor/HideCursor, Render/Refresh and terminal size changes in any order, the reference terminal shows exactly the "
                  "screen the C11 window model computes, nothing terminal-specific relied on, terminal at rest), app_first_frame_after_resize (buffers reallocated, "
                  "refresh set, then whatever well-formed grid the terminal shows), app_screen_is_last_write (that screen = the writes of Spec.Window that hit each cell, "
                  "last wins, never-written blank), app_cursor / app_cursor_always (cursor as last requested after every frame, also after a size change to ANY size — an empty screen included — whatever the terminal did with the cursor) / showCursor_position, frame_displays / history_displays_clip (no 'glyph fits' hypothesis since the F02 "
                  "repair), frame_displays_current, sixel_cell_not_drawn, dropped_image_rewritten, flush_epilogue, cursor_as_requested, and for the renderer as it is now with image cells allowed: flush_epilogue_current / flush_resets_pen_current / "
                  "cursor_as_requested_current (pen reset, hyperlink closed, sync balanced, cursor as requested after EVERY frame of renderFrameS) and, round 4, the grid clause for screens WITH image cells: "
                  "frame_displays_images / frame_displays_images_full_holds (all grids, capability sets, width oracles, diff frames and refreshes, image cells anywhere — also over the head or the continuation of a wide glyph the "
                  "terminal still shows: nothing terminal-specific relied on and the terminal shows expectedC at every position that is not 'unknown pixels' = an image cell not covered by a wide glyph to its left; "
                  "the statement says what an image cell is — ImageCellsAsPlaced, what Sixel.Draw places — and images_need_placed_cells shows the round-3 wording without it was false of the model); "
                  "hyperlink parameters (F112b fixed): osc8_params_no_semicolon (no OSC 8 of the pen delta carries a ';' in its parameter field), model_field_is_spec_field, valid_params_shown_whole; on a terminal that clusters graphemes (mode 2027): "
                  "frame_displays_clustering_tight under the explicit hypothesis NoJoinNeighbours (no two horizontally consecutive shown cells of a row join; frame_displays_clustering for the coarser NoJoinRows), render_no_adjacent_join_tight (every frame of the current renderer, "
                  "image cells included), clustering_terminal_agrees, and no_join_needed (decide: the hypothesis is necessary, finding F112d); stream_*_is_sysStep / oracle_screen_is_model_screen "
                  "(the op-level stream runs sysStep, and its oracle's reference screen is the model's buffer). Structural tie: the statement "
                  "skeletons of render/showCursor/advance/Write/WriteString/Flush regenerated from the source — locals printed under their role names, so renaming a local does not alarm — equal the pinned transcription (facts_render, facts_writer, "
                  "render_fully_recognised) and the attribute delta is the interpretation of the extracted tables (attrToks_from_source, penDelta_order). Round 4 — interpreted, not only pinned (Model/RenderInterp "
                  "executes the regenerated lines; an unknown text sets Env.unknown): advance_body_eq_model, showCursor_body_eq_model, sixel_body_eq_model, clip_body_eq_model, unchanged_body_eq_model, reposition_body_eq_model, "
                  "hyperlink_body_eq_model, glyph_body_eq_model, written_cell_body_eq_model (the whole written-cell path of render() run from the text = tokens / pen / flags / dirty / last of the model), "
                  "render_written_branch_eq_interp / render_sixel_branch_eq_interp / render_unchanged_branch_eq_interp (every branch of the model's cell loop at a non-skipped cell continues with the interpreted state), "
                  "fg_body_eq_model / bg_body_eq_model / ul_body_eq_model / ulStyle_body_eq_model / macro_atoms_are_blocks (the colour and underline blocks line by line: tagged switches, ps / asIndex, writes by sequence name), "
                  "cell_loop_order / row_loop_order / blocks_are_the_loop_body (the glue order of the interpreted blocks = the order of the statements the interpreter reads), "
                  "render_frame_body_eq_model (pointer shape, trailing OSC 8 close, cursor show), nullLoop_body_eq_model (the two nulling loops, executed with break and the dirty extension), "
                  "Lemmas/RenderLoop.goRow_eq (the literal index loop with col += skip and in-place nulling = the model's list recursion with skip/track), and on top of them render_row_body_eq_model / render_body_eq_model / "
                  "render_frame_eq_interp / flush_body_eq_model: render() as a whole — every statement executed from the extracted text, the blocks glued in source order and iterated with the loops' own increments — computes "
                  "the last buffer and the tokens of renderBodyS for every frame, and one Render() is the interpreted writer over it. Behavioural tie: "
                  "token-for-token comparison with the bytes the real code writes, in the op-level stream also cell-for-cell comparison of the buffer Model.App computes from the draw ops with the real next-frame buffer; "
                  "the property itself is evaluated on the real bytes through Spec.Display, in the op-level stream against the Spec.Window fold of writes (no use of the window model).",
    "level_note": "Left to the application/terminal as explicit hypotheses (each shown necessary by a decide-checked witness): cells given to SetCell/Fill have width >= 0 and an "
                  "explicit width that is 0/correct/(>1 with OSC 66); uniseg's width is the terminal's when the text helpers do not re-measure; the ellipsis has width 1 for "
                  "PrintTruncate; a space has width 1; a visible cursor is inside the screen at Render (Window.ShowCursor does not clip: Witness/C11ShowCursor); after a size "
                  "change the terminal shows a well-formed grid. On a clustering terminal additionally: no two neighbouring shown cells join (NoJoinNeighbours; render() writes neighbouring cells back to back — F112d; a CUP between them was evaluated and rejected: it does not help on terminals that cluster against the cell left of the cursor). "
                  "F111c (Wrap put the halves of one cluster — a flag beginning a later Segment — into two cells, which such a terminal shows as one glyph; found by the op-level stream) is fixed in /repo 1f9a9ad. app_history_displays is stated over the plain terminal; app_history_displays_clustering (Props/C01AppCluster) is its form for the clustering terminal, with RunNoJoin (NoJoinNeighbours of the screen at every frame) as the extra hypothesis. Validated by correspondence only: "
                  "that the hand-written glue iterI / rowsI / renderBodyI (which interpreted block follows which; tied to the source by cell_loop_order and the pins, not by executing the loop body as one block) is the Go control flow "
                  "— every statement of the cell loop, the nulling loops included, is executed from the extracted text (Props/C01Body) and the loop frame is proved (goRow_eq). Screens WITH image cells: the one-frame theorem is proved (frame_displays_images) from a terminal that shows the previous frame everywhere; "
                  "a history-level statement through frames with image cells (the terminal then agrees with last only outside the image cells) is open; app_history_displays assumes no image cells (the draw ops of Model.App cannot make one). Placement loops of render() are C20's. Spec.Display is a model of a standards-conforming terminal, not a physical one.",
    "assumptions": ["terminal width of a raw-printed grapheme equals Vaxis's characterWidth under the same capability set (C07 width method)",
                    "explicit cell widths given by the application are either 0 (auto) or correct, or any width > 1 when OSC 66 is available",
                    "Style.Hyperlink and the part of Style.HyperlinkParams before its first ';' contain no byte that ends an OSC string early (ESC, BEL, ST, C0 controls): strings are opaque tokens of the model, the byte lexer Spec.Tokenize is trusted; "
                    "a ';' inside HyperlinkParams is handled (F112b: the parameter field is written up to it)"],
    "technique": "Lean 4 proof (invariants over frame histories with a don't-care mask at image cells, refinement of the repaired loop to the round-1 loop, composition with the C11 window model) + extractor "
                 "(statement skeletons executed by a small interpreter, tables) + differential correspondence",
}
