"""C01 configuration for ./check (keys: see checks/propcfg.py)."""
CFG = {
    "modules": ["VaxisModel.Props.C01"],
    "extractors": ["C07"],
    "drivers": ["C01"],
    "stateful": True,
    "trivial_prefix": ("-", "bytes="),
    "rule": "frame histories on a real Vaxis over the fake console: bounded-exhaustive two-frame histories on a 1x4 screen "
            "(5 graphemes x 3 styles x positions x Clear/no Clear) and random histories (<= 8 frames of Clear/Fill/SetCell/"
            "SetStyle/Print/ShowCursor/HideCursor then Render/Refresh/resize; screens up to 8x4 quick, 40x12 thorough; all "
            "combinations of rgb/styledUnderlines/explicitWidth/sync/unicodeCore); a case = one history; non-trivial = a frame "
            "line (render/refresh) that produced tokens; distinct by the op list up to that frame",
    "trusted_base": ["Spec.Display (reference terminal for the renderer vocabulary), Spec.Sgr, Spec.Tokenize (byte lexer; grapheme "
                     "segmentation by longest match over the run's alphabet)",
                     "uniseg/runewidth character widths are parameters (cw) supplied per run by the real library"],
    "level_text": "Theorems about the executable model of render()/writer.Flush (Model/Render.lean): flush epilogue (pen reset, link "
                  "closed, sync balanced), cursor state after every frame, and the per-frame display invariant, for all grids, styles, "
                  "capability sets and widths. The model is tied to vaxis.go/writer.go by token-for-token comparison with the bytes the "
                  "real code writes, and the property itself is evaluated on the real bytes through Spec.Display.",
    "level_note": "See notes in DESIGN.md §4 C01: which theorems are proved is listed in Props/C01.lean; the rest of the statement is "
                  "validated by the oracle on the implementation. Known finding F02 (wide glyph that does not fit) is excluded by hypothesis.",
    "assumptions": ["terminal width of a raw-printed grapheme equals Vaxis's characterWidth under the same capability set (C07 width method)",
                    "explicit cell widths given by the application are either 0 (auto) or correct, or any width >= 1 when OSC 66 is available"],
}
