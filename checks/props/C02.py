"""C02 configuration for ./check (see checks/propcfg.py for the keys)."""
CFG = {
    "modules": ["VaxisModel.Props.C02", "VaxisModel.Witness.F102"],
    "extractors": ["C02"],
    "drivers": ["C02"],
    "trivial_prefix": ("Z",),
    "rule": "byte streams through ansi.NewParser with a chunking reader: all strings over one representative per byte class "
            "(19 classes) up to length 4 (quick) / 5 (thorough) from ground and up to 3 / 4 after 23 prefixes reaching every state "
            "and every way a string ends; all 256 bytes after each prefix; text with every split into reads; grammar-generated long "
            "streams and raw fuzz (incl. invalid UTF-8) with random splits; non-trivial = the model delivers something besides EOF, "
            "distinct by (bytes, reads)",
    "trusted_base": [],
    "assumptions": [],
    "level_text": "",
    "level_note": "",
    "timeout": 1800,
}
