"""C02 configuration for ./check (see checks/propcfg.py for the keys)."""
CFG = {
    "modules": ["VaxisModel.Props.C02", "VaxisModel.Props.C02Acts", "VaxisModel.Props.C02Text", "VaxisModel.Props.C02Refine", "VaxisModel.Witness.F102"],
    "extractors": ["C02"],
    "drivers": ["C02"],
    "trivial_prefix": ("Z",),
    "rule": "byte streams through ansi.NewParser with a chunking reader: all strings over one representative per byte class "
            "(19 classes) up to length 4 (quick) / 5 (thorough) from ground and up to 3 / 4 after 23 prefixes reaching every state "
            "and every way a string ends; all 256 bytes after each prefix; text with every split into reads; short mixed streams "
            "(multi-byte text, invalid bytes, CSI/OSC/DCS/APC/SS3) with every split at every byte offset; parameters overflowing a Go int; "
            "grammar-generated long streams and raw fuzz (incl. invalid UTF-8) with random splits; non-trivial = the model delivers something besides EOF, "
            "distinct by (bytes, reads)",
    "trusted_base": ["Spec/VT500.lean: transcription of the Williams VT500 table and the seven documented extensions (reviewed by hand)",
                     "Model/ParserIO.lean: transcription of utf8.DecodeRune/FullRune and of bufio's fill loop (stdlib, by reading; validated by correspondence; the decoder is characterised "
                     "independently by the utf8_* theorems and equals the Spec's Table 3-7 decoder); readRune/print/emit bodies are pinned statement by statement (regenerated skeletons), not interpreted",
                     "uniseg is a parameter (clusterAt), computed by the harness with the real library; its prefix hypothesis and the Respects hypothesis (never joins a C0 control: counter oracle-joins-c0 = 0) are checked per case",
                     "extractor recognition of action bodies is by local variable name (a pure rename degrades to unknown: false alarm, never a miss)"],
    "assumptions": ["the cluster oracle never extends a cluster over a C0 control (uniseg GB4/GB5) - hypothesis Respects of the whole-stream theorems; text_blocks needs no hypothesis",
                    "Print width is outside the model (checked by the harness only)"],
    "level_text": "Proved for all states/runes/streams: regenerated transition table = Williams VT500 table + extensions (all 16 state functions x every rune and eof); "
                  "hand model = regenerated table; CSI/ESC/SS3/OSC/DCS/APC round trips from any state with exactly-once delivery; invariant (exit function matches state, ST flag only in strings/escape), "
                  "no panic, no leak of left-over intermediates/parameters, malformed sequences deliver nothing. "
                  "Round 2 - UTF-8: decode(encode r ++ rest) = r :: decode rest for every scalar, encode(decode) = the bytes consumed, invalid bytes delivered as themselves, decoder = the Spec's Table 3-7 decoder. "
                  "Reading side for ALL byte streams: for every split into reads at any byte offsets and every cluster oracle that never joins a C0 control or an invalid byte, the delivered items "
                  "(modulo merging adjacent Prints) equal the automaton run over the decoded stream - hence read-split independence and text conservation for every byte stream; for text and ANY oracle each Print is one "
                  "oracle cluster unless cut exactly at a read boundary, and carries U+FFFD for an absorbed invalid byte (= finding F102d, exactly). "
                  "Whole-stream refinement model <= Spec.VT500: simulation relation, table-wide step check kernel-decided for all states x control flags x runes, every byte stream and read splitting delivers exactly the Spec's items "
                  "with F102/F102c switched on (and the Spec proper on every stream avoiding the two trigger situations); inside the F102d region (oracle only assumed never to join a C0 control) "
                  "the items are the Spec's for the decoded stream with, at most, invalid bytes read as U+FFFD; both parameter decoders equal the Spec's on any collected bytes including Go int overflow "
                  "(CSI wraps mod 2^64, DCS >= 2^63 => error + nil parameters). Action bodies (collect ... csiDispatch, hook) are interpreted from statement skeletons regenerated from the source.",
    "level_note": "Proved: see notes/C02.md tables (Props/C02, C02Text, C02Refine, C02Acts: 80 theorems). Validated by correspondence only: the meaning of bufio/utf8 stdlib calls in Model/ParserIO.lean, Print width. "
                  "False with witness (recorded findings): F102 ST of an empty string delivered, F102c C0 inside ST, F102d invalid byte joined by the oracle -> U+FFFD "
                  "(negations of chunk_independent_full, text_conserved_full, model_refines_spec_full in Witness/F102.lean). Fixed in /repo: F05, F07, F102b.",
    "timeout": 1800,
}
