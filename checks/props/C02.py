"""C02 configuration for ./check (see checks/propcfg.py for the keys)."""
CFG = {
    "modules": ["VaxisModel.Props.C02", "VaxisModel.Props.C02Acts", "VaxisModel.Props.C02Text", "VaxisModel.Props.C02Refine", "VaxisModel.Witness.F102"],
    "extractors": ["C02"],
    "drivers": ["C02"],
    "trivial_prefix": ("Z",),
    "rule": "byte streams through ansi.NewParser with a chunking reader: all strings over one representative per byte class "
            "(19 classes) up to length 4 (quick) / 5 (thorough) from ground and up to 3 / 4 after 23 prefixes reaching every state "
            "and every way a string ends; all 256 bytes after each prefix; text with every split into reads; grammar-generated long "
            "streams and raw fuzz (incl. invalid UTF-8) with random splits; non-trivial = the model delivers something besides EOF, "
            "distinct by (bytes, reads)",
    "trusted_base": ["Spec/VT500.lean: transcription of the Williams VT500 table and the seven documented extensions (reviewed by hand)",
                     "action bodies (csiDispatch loop, hook, exit functions), the utf8/bufio/print look-ahead model: validated by correspondence only",
                     "uniseg is a parameter (clusterAt), computed by the harness with the real library; its prefix hypothesis is checked per case"],
    "assumptions": ["parameter values < 2^63 in the round-trip theorems and in the oracle (Go int wrap-around is modelled but not judged)"],
    "level_text": "Proved for all states/runes/streams: regenerated transition table = Williams VT500 table + extensions (all 16 state functions x every rune and eof); "
                  "hand model = regenerated table; CSI/ESC/SS3/OSC/DCS/APC round trips from any state with exactly-once delivery; parameter codec inverse for all "
                  "parameter lists with sub-parameters; invariant (exit function matches state, ST flag only in strings/escape), no panic, no leak of left-over intermediates/parameters, malformed sequences deliver "
                  "nothing; rune-level text order; text conservation and read-split independence through the reading side for printable ASCII with any cluster oracle. Multi-byte level (UTF-8 fallback, grapheme look-ahead, read boundaries): correspondence + Spec oracle.",
    "level_note": "Proved: see notes/C02.md table. Validated by correspondence only: action bodies, reading side (ParserIO). False with witness (recorded findings): "
                  "F102 ST of an empty string delivered, F102c C0 inside ST, F102d invalid byte after a Prepend character -> U+FFFD. Fixed in /repo: F05, F07, F102b.",
    "timeout": 1800,
}
