"""C02 configuration for ./check (see checks/propcfg.py for the keys)."""
CFG = {
    "modules": ["VaxisModel.Props.C02", "VaxisModel.Props.C02Acts", "VaxisModel.Props.C02Text", "VaxisModel.Props.C02Refine", "VaxisModel.Props.C02Stdlib", "VaxisModel.Props.C08Payload", "VaxisModel.Witness.F102"],
    "extractors": ["C02"],
    "drivers": ["C02"],
    "trivial_prefix": ("Z",),
    "rule": "byte streams through ansi.NewParser with a chunking reader: all strings over one representative per byte class "
            "(19 classes) up to length 4 (quick) / 5 (thorough) from ground and up to 3 / 4 after 23 prefixes reaching every state "
            "and every way a string ends; all 256 bytes after each prefix; text with every split into reads; short mixed streams "
            "(multi-byte text, invalid bytes, CSI/OSC/DCS/APC/SS3) with every split at every byte offset; parameters overflowing a Go int; "
            "C0 controls between the ESC and the \\ of an ST after every kind of control string (repaired F102c) and every kind of invalid byte after a character uniseg joins to what follows (repaired F102d), every split; "
            "streams longer than bufio's 4096-byte buffer in chunks that do not fit it (cut by bufio; the op carries the reads as really issued) with clusters, multi-byte runes, invalid bytes and sequences straddling the buffer boundary; "
            "grammar-generated long streams and raw fuzz (incl. invalid UTF-8) with random splits; oracles on the implementation's output: Spec machine (Prints merged), Print width, and for text streams 'a cluster is delivered in pieces only at a read boundary or in front of an invalid byte'; non-trivial = the model delivers something besides EOF, "
            "distinct by (bytes, reads)",
    "trusted_base": ["Spec/VT500.lean: transcription of the Williams VT500 table and the seven documented extensions (reviewed by hand)",
                     "Model/ParserIO.lean: transcription of utf8.DecodeRune/FullRune and of bufio's fill loop / ReadRune / UnreadRune / ReadByte / Buffered - since round 4 an explicit hypothesis structure (Model/ParserStdlib.lean: StdlibContract) "
                     "that the model meets (model_meets_stdlib_contract), that determines the functions (stdlib_contract_determines_*), and that is checked clause by clause against the REAL stdlib on every case of every run "
                     "(harness/cmd/C02/stdlibcontract.go; counters stdlib-contract-checked / stdlib-contract-broken = 0; a broken clause is a FAIL[stdlib-contract] verdict); the bodies of readRune/print are interpreted from the regenerated skeletons "
                     "(readRune_body_eq_model, print_body_eq_model, proved on the extracted bodies themselves) over this reader model; trusted: FirstGraphemeClusterInString = 'split the builder at the oracle's cluster length', "
                     "and that a read larger than bufio's free space is cut to it (the harness reader does what bufio's Read(buf[w:]) does; family buffer-boundary)",
                     "uniseg is a parameter (clusterAt, widths), computed by the harness with the real library; its prefix hypothesis, the Respects hypothesis (never joins a C0 control: counter oracle-joins-c0 = 0) "
                     "and the width hypothesis of print_width (verdict W!) are checked per case",
                     "extractor recognition of statements is by their printed source after the receiver, parameters and local variables have been renamed canonically in declaration order (round 4: a pure rename of locals no longer alarms); "
                     "an unknown statement degrades to .unknown + a 'fully recognised' theorem: a false alarm at worst, never a miss"],
    "assumptions": ["the cluster oracle never extends a cluster over a C0 control (uniseg GB4/GB5) - hypothesis Respects of the whole-stream theorems (needed: chunk_independent_needs_c0_oracle); text_blocks and text_conserved need no hypothesis",
                    "the width uniseg reports for a first cluster, when not 0, is StringWidth of that cluster (hypothesis of print_width)"],
    "level_text": "Proved for all states/runes/streams: regenerated transition table = Williams VT500 table + extensions (all 16 state functions x every rune and eof); "
                  "hand model = regenerated table; CSI/ESC/SS3/OSC/DCS/APC round trips from any state with exactly-once delivery; invariant (exit function matches state, ST flag only in strings/escape), "
                  "no panic, no leak of left-over intermediates/parameters, malformed sequences deliver nothing. "
                  "Round 2 - UTF-8: decode(encode r ++ rest) = r :: decode rest for every scalar, encode(decode) = the bytes consumed, invalid bytes delivered as themselves, decoder = the Spec's Table 3-7 decoder. "
                  "Reading side for ALL byte streams: for every split into reads at any byte offsets and every cluster oracle that never joins a C0 control, the delivered items "
                  "(modulo merging adjacent Prints) equal the automaton run over the decoded stream - hence read-split independence for every byte stream; text conservation for ANY oracle; for text each Print is one "
                  "oracle cluster unless cut exactly at a read boundary or in front of an invalid byte, and carries its units unaltered (F102d is repaired: the look-ahead leaves an invalid byte to readRune). "
                  "Whole-stream refinement model <= Spec.VT500: simulation relation, table-wide step check kernel-decided for all states x control flags x runes, every byte stream and read splitting delivers exactly the Spec's items "
                  "with F102 switched on (and the Spec proper on every stream avoiding an ESC into a control string without payload); the exclusions of round 2 for F102c (C0 inside ST) and F102d (invalid byte joined) are gone - both repaired in /repo; "
                  "both parameter decoders equal the Spec's on any collected bytes including Go int overflow "
                  "(CSI wraps mod 2^64, DCS >= 2^63 => error + nil parameters). Action bodies (collect ... csiDispatch, hook) and the bodies of readRune and print (incl. the Print width) are interpreted from statement skeletons regenerated from the source; "
                  "the interpretation equals the model functions for every reader state, the correspondence driver executes the interpreted bodies with the regenerated table, "
                  "and every Print of every stream is one oracle cluster or a piece cut at a read boundary / in front of an invalid byte (print_takes_one_cluster), with StringWidth of its grapheme (print_width).",
    "level_note": "Harness (round 4): a panic of the parser goroutine (run or the timer callback) is handed to the harness by the deferred yield points of the verification build and ends the case with the item ! (FAIL panic with the input named) instead of taking the harness down. Proved: see notes/C02.md tables (Props/C02, C02Text, C02Refine, C02Acts, C02Stdlib, C08Payload, Witness/F102: 98 theorems). Round 4: readRune_body_eq_model / print_body_eq_model / csiDispatch_body / hook_body are proved by evaluating the interpreter on the "
                  "regenerated bodies (no transcribed skeleton copy: a meaning-preserving reorder does not alarm, a meaning-changing one fails exactly that theorem; reader_skeleton_recognised = fully recognised). "
                  "Props/C08Payload (shared with C08) is in the module list: the list model cannot tell a fresh slice from one truncated in place or taken from a pool with its old length, so 'exact payload / parameters' also needs delivered_payloads_not_recycled and handover_takes_fresh_storage (seeded changes C02-m3, C02-m5 break these). "
                  "Validated by run-time contract check: the meaning of the bufio/utf8 stdlib calls (StdlibContract, every clause on every case against the real stdlib). "
                  "False with witness (recorded finding): F102 ST of an empty string delivered (negation of model_refines_spec_full in Witness/F102.lean; pinned by a baseline test). "
                  "Fixed in /repo: F05, F07, F102b, F102c (44d8b73), F102d (6b7d19e) - their witnesses are regression theorems and corpus cases now.",
    "timeout": 1800,
}
