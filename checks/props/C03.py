"""C03 configuration for ./check (see checks/propcfg.py for the keys)."""
CFG = {
    "modules": ["VaxisModel.Props.C03", "VaxisModel.Props.C03Query", "VaxisModel.Witness.F09", "VaxisModel.Witness.F10", "VaxisModel.Witness.F12", "VaxisModel.Witness.F303"],
    "extractors": ["C03"],
    "drivers": ["C03"],
    "stateful": True,
    "trivial_prefix": ("-",),
    "rule": "direct cases: 1-12 ops (handleSequence on one parsed sequence through the hook, set/clear the cursor-request "
            "flag, drain reply channels) on a real Vaxis over the fake console with a random capability mask; sequences "
            "are random CSI (all finals of handleSequence x intermediates x 0-6 params incl. empty lists the parser "
            "cannot produce), every reply shape as parsed, DCS/APC/OSC variants; stream cases: 1-40 grammar-level reports "
            "(legacy+kitty keys, SGR mouse, focus, paste with content, every reply shape complete/repeated/truncated) or "
            "1-30 garbage fragments, injected as bytes, sentinel appended; non-trivial = a seq/end line, distinct by case ops",
    "trusted_base": ["decodeKey (C09) is an opaque oracle: key events are compared by the token the real decodeKey gives for the same sequence",
                     "base64.StdEncoding.DecodeString is a parameter of the model (value supplied by the harness)",
                     "the parsed sequences given to the model in stream cases come from a second real ansi.Parser run on the same bytes"],
    "assumptions": ["the application keeps receiving from Events() (PostEventBlocking blocks by design otherwise)",
                    "real time abstracted: time-outs are nondeterministic labels of the LTS",
                    "runes delivered by the parser are valid code points (string([]rune) is the identity)"],
    "level_text": "Input loop: mouse_exact, handle_total, replies_internal, events_exact, never_wedges proved over the hand model of "
                  "handleSequence/parseMouseEvent and the LTS of the reply hand-offs; model tied to the source by Gen/Caps.lean "
                  "(switch skeleton, send kinds, guards) and by correspondence on direct and end-to-end cases.",
    "level_note": "Proved: statements about the model for all sequences / all reachable LTS states. Validated by correspondence only: "
                  "model = handleSequence (direct hook) and = the whole pipeline (fake console -> parser -> input goroutine -> Events()). "
                  "Modelled, not verified: real-time behaviour of time-outs; key decoding (C09); the parser (C02/C08).",
    "technique": "Lean 4 proof over an executable model + LTS invariants; go/ast extractor; differential harness with sentinel liveness",
    "timeout": 3000,
}
