"""C03 configuration for ./check (see checks/propcfg.py for the keys)."""
CFG = {
    "modules": ["VaxisModel.Props.C03", "VaxisModel.Props.C03Query", "VaxisModel.Props.C03Body", "VaxisModel.Props.C03Live", "VaxisModel.Witness.F09", "VaxisModel.Witness.F10", "VaxisModel.Witness.F12", "VaxisModel.Witness.F103", "VaxisModel.Witness.F303"],
    "extractors": ["C03"],
    "drivers": ["C03"],
    "stateful": True,
    "trivial_prefix": ("-",),
    "rule": "direct cases: 1-12 ops (handleSequence on one parsed sequence through the hook, set/clear the cursor-request "
            "flag, drain reply channels) on a real Vaxis over the fake console with a random capability mask; sequences "
            "are random CSI (all finals of handleSequence x intermediates x 0-6 params incl. empty lists the parser "
            "cannot produce), every reply shape as parsed, DCS/APC/OSC variants; stream cases: 1-40 grammar-level reports "
            "(legacy+kitty keys, SGR mouse, focus, paste with content, every reply shape complete/repeated/truncated) or "
            "1-30 garbage fragments, injected as bytes, sentinel appended; query cases: the real CursorPosition / reportWinsize / "
            "ClipboardPop against a console that answers or stays silent; race cases: CursorPosition against its 50 ms time-out with the "
            "input goroutine held at a yield point after it has taken the request flag (reply-first / timeout-first / recall); cquery "
            "cases: the real QueryColor / QueryForeground / QueryBackground against replies of every XParseColor digit count per channel, what a "
            "channel may also carry (blank, sign, 5+ digits, non-ASCII), trailing text, malformed bodies, other prefixes, optionally "
            "after an unsolicited reply; suspend cases: Suspend()+Resume() with the input goroutine blocked on a full queue (1-3 slots) "
            "and decoded sequences waiting in the parser's channel, the queue drained only afterwards, 40-80 keys typed after Resume; "
            "non-trivial = a seq/end/query/race/cquery/suspend line, distinct by case ops",
    "trusted_base": ["decodeKey (C09) is an opaque oracle: key events are compared by the token the real decodeKey gives for the same sequence",
                     "base64.StdEncoding.DecodeString is a parameter of the model (value supplied by the harness)",
                     "the parsed sequences given to the model in stream cases come from a second real ansi.Parser run on the same bytes",
                     "strings.HasPrefix/TrimPrefix/Split and strconv.ParseUint(ch, 16, 16) as used by parseColorReply are modelled by list functions "
                     "(matchLit, splitOn, hexNum); the libraries themselves are trusted, the model of the helper is validated by the cquery correspondence "
                     "and its statement list is pinned (query_requesters_shape)",
                     "the interpreter of the regenerated bodies (Model/InputBody.lean) gives the Go statement subset its meaning by hand: checked index "
                     "expressions, short-circuit && / ||, 64-bit wrap of '-', '&' for masks < 256, log/mutex/yield-point calls without effect, "
                     "EventType/modifier constants of key.go as in Model/Input.lean"],
    "assumptions": ["the application keeps receiving from Events() (PostEventBlocking blocks by design otherwise)",
                    "real time abstracted: time-outs are nondeterministic labels of the LTS",
                    "runes delivered by the parser are valid code points (string([]rune) is the identity)"],
    "level_text": "Proved: (1) the bodies of handleSequence, parseMouseEvent, Resize, parseColorReply, QueryColor/Foreground/Background and CursorPosition, regenerated from the source on every run as terms of the "
                  "GoBody statement language and EXECUTED by an interpreter, are the hand model for all decoders, states and sequences "
                  "(handleSequence_body_eq_model, parseMouse_body_eq_model, parseColorReply_body_eq_model, queryColor_body_eq_model / queryFgBg_body_eq_model (the three colour requesters as trace + result), cursorPosition_body_eq_model, events_exact_body: same new state, same effects in order, each send written as the LTS "
                  "assumes - blocking post / non-blocking post / select+default / select+time-out -, same early returns and breaks, a panic "
                  "exactly where the model has one; bodies_fully_recognised, body_never_stuck, body_sends_never_bare; lts_input_is_body: the "
                  ".input label of the LTS is a run of that body); (2) over that model and the LTS of the input goroutine, event queue, reply "
                  "channels and requesters: mouse_exact, handle_total, replies_internal, events_exact, never_wedges, and for ALL runs never_stuck "
                  "(an internal move is enabled whenever effects are pending, in every reachable state), internal_runs_terminate / "
                  "every_internal_run_settles (every maximal internal schedule ends idle within 2*pending+queued moves), requesters_do_not_add_work (requester labels change neither pending effects nor queue: any interleaving with requesters has at most that many internal moves), stream_reaches_end "
                  "(every stream is consumed to its end from every reachable state), stream_delivered_completely (for every stream a run exists after which the application has received every user-input event exactly once and in order), flow_preserved / input_never_lost / "
                  "input_never_lost_any_requester / input_never_lost_with_cpr, flag_lowered_only_by; (3) for the colour requesters (F303 repaired) "
                  "query_reply_exact: for every prefix and every 1-4 digit channel the answer is the XParseColor reading of the reply, "
                  "query_reply_rejected / malformed. Tied to the source by Gen/InputBody.lean (the bodies), Gen/Caps.lean (switch skeleton, send "
                  "kinds, guards, channel capacities, queue-size guard, CursorPosition / Query* / parseColorReply statement lists, the atomic take "
                  "of the request flag) and by correspondence on direct, end-to-end, query, race (yield point), colour-query and suspend cases.",
    "level_note": "Proved: statements about the interpreted bodies and the model for all sequences / all reachable LTS states / all runs / all "
                  "replies. Validated by correspondence only: interpreter + model = the real handleSequence (direct hook), = the whole pipeline "
                  "(fake console -> parser -> input goroutine -> Events()), = the real requesters (CursorPosition incl. the three forced "
                  "schedules, reportWinsize, ClipboardPop, QueryColor/Foreground/Background incl. parseColorReply); Suspend/Resume with a "
                  "blocked goroutine is judged by an oracle on the implementation only (no model of openTty's goroutine generations here - "
                  "C10 owns it). Findings: F303 repaired this round (Witness/F303 keeps the refutation for the old Sscanf parse). Modelled, not "
                  "verified: real-time behaviour of time-outs; key decoding (C09); the parser (C02/C08); the meaning the interpreter gives to "
                  "the Go subset. By design, not judged: a CSI r;c R report is a reply or a key depending on the request flag (no query ids in DSR 6); "
                  "DECRPM status 3 for modes 2026/2031.",
    "technique": "Lean 4 proof: interpreter of the regenerated Go bodies = executable model, LTS invariants and a termination measure; go/ast extractor (statement language of C09/C13); differential harness with sentinel liveness and forced schedules",
    "timeout": 3000,
}
