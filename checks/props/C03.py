"""C03 configuration for ./check (see checks/propcfg.py for the keys)."""
CFG = {
    "modules": ["VaxisModel.Props.C03", "VaxisModel.Props.C03Query", "VaxisModel.Props.C03Body", "VaxisModel.Props.C03Live", "VaxisModel.Witness.F09", "VaxisModel.Witness.F10", "VaxisModel.Witness.F12", "VaxisModel.Witness.F103", "VaxisModel.Witness.F303"],
    "extractors": ["C03"],
    "drivers": ["C03"],
    "stateful": True,
    "trivial_prefix": ("-",),
    "rule": "direct cases: 1-12 ops (handleSequence on one parsed sequence through the hook, set/clear the cursor-request "
            "flag, drain reply channels) on a real Vaxis over the fake console with a random capability mask; sequences "
            "are random CSI (all finals of handleSequence x intermediates x 0-6 params incl. empty lists the parser "
            "cannot produce), every reply shape as parsed, DCS/APC/OSC variants; stream cases: 1-40 grammar-level reports "
            "(legacy+kitty keys, SGR mouse, focus, paste with content, every reply shape complete/repeated/truncated) or "
            "1-30 garbage fragments, injected as bytes, sentinel appended; query cases: the real CursorPosition / reportWinsize / "
            "ClipboardPop against a console that answers or stays silent; race cases: CursorPosition against its 50 ms time-out with the "
            "input goroutine held at a yield point after it has taken the request flag (reply-first / timeout-first / recall); cquery "
            "cases: the real QueryColor / QueryForeground / QueryBackground against replies of every XParseColor digit count, what "
            "Sscanf also accepts, malformed bodies, other prefixes, optionally after an unsolicited reply; non-trivial = a "
            "seq/end/query/race/cquery line, distinct by case ops",
    "trusted_base": ["decodeKey (C09) is an opaque oracle: key events are compared by the token the real decodeKey gives for the same sequence",
                     "base64.StdEncoding.DecodeString is a parameter of the model (value supplied by the harness)",
                     "the parsed sequences given to the model in stream cases come from a second real ansi.Parser run on the same bytes",
                     "fmt.Sscanf / strconv.ParseInt are modelled only for the format shape of the three colour requesters (literal + %x/%x/%x into ints); "
                     "the library itself is trusted, the model of it is validated by the cquery correspondence"],
    "assumptions": ["the application keeps receiving from Events() (PostEventBlocking blocks by design otherwise)",
                    "real time abstracted: time-outs are nondeterministic labels of the LTS",
                    "runes delivered by the parser are valid code points (string([]rune) is the identity)"],
    "level_text": "Proved over the hand model of handleSequence/parseMouseEvent and the LTS of the input goroutine, event queue, reply "
                  "channels and requesters: mouse_exact, handle_total, replies_internal, events_exact, never_wedges (unconditional: every "
                  "reachable state, any requester activity), flow_preserved / input_never_lost (any schedule and queue capacity), "
                  "input_never_lost_any_requester / input_never_lost_with_cpr (also with CursorPosition calls, answers and time-outs at any "
                  "moment and CSI..R sequences anywhere in the stream: everything but the keys sharing that encoding is delivered exactly "
                  "once, in order), flag_lowered_only_by, and for the colour requesters query_reply_parsed / exact_8bit / "
                  "exact_16bit_repeated / rejected over a model of their Sscanf parse. Tied to the source by Gen/Caps.lean (switch "
                  "skeleton, send kinds, guards, channel capacities, CursorPosition and Query* statement lists, the atomic take of the "
                  "request flag) and by correspondence on direct, end-to-end, query, race (yield point) and colour-query cases.",
    "level_note": "Proved: statements about the model for all sequences / all reachable LTS states / all reply texts of the stated shape. "
                  "Validated by correspondence only: model = handleSequence (direct hook), = the whole pipeline (fake console -> parser -> "
                  "input goroutine -> Events()), = the real requesters (CursorPosition incl. the three forced schedules, reportWinsize, "
                  "ClipboardPop, QueryColor/Foreground/Background incl. the Sscanf model). False of the code and recorded: F303 (colour "
                  "answers keep the low byte of each channel; Witness/F303). Modelled, not verified: real-time behaviour of time-outs; "
                  "key decoding (C09); the parser (C02/C08); fmt/strconv outside the modelled format shape. By design, not judged: a "
                  "CSI r;c R report is a reply or a key depending on the request flag (no query ids in DSR 6).",
    "technique": "Lean 4 proof over an executable model + LTS invariants; go/ast extractor; differential harness with sentinel liveness",
    "timeout": 3000,
}
