"""C04 configuration for ./check (keys: see checks/propcfg.py)."""
CFG = {
    "modules": ["VaxisModel.Props.C04"],
    "extractors": ["C04", "C07", "C18", "C11", "C01"],
    "drivers": ["C04"],
    "stateful": True,
    "trivial_prefix": ("-",),
    "rule": "real Vaxis sessions on the fake console for subsets of the capabilities that gate start-up/shutdown "
            "(kittyKeyboard, sixel, unicodeCore, explicitWidth, colorTheme, inBandResize, osc176, sync) x DisableMouse "
            "(a rotating quarter of the 512 configurations in quick, all 512 in thorough) x session shapes "
            "(start-up+Close; frames, Suspend/Resume cycles with a cursor request pending, Close, second Close; frames then Close triggered by a kill "
            "signal on the input goroutine; Close while suspended; input-goroutine panic in a child process); non-trivial = a startup/suspend/resume/close line; distinct by case op list",
    "trusted_base": ["Spec.ModeTerm (mode terminal: ignores private modes it does not implement), Spec.Tokenize",
                     "writer prologue/epilogue model shared with C01 (tied by the C01 correspondence)"],
    "level_text": "balanced / resume_reestablishes are proved by kernel evaluation (decide +kernel) over ALL 2^9 assignments of the guard "
                  "variables x 4 cursor-flag combinations of the statement lists regenerated from vaxis.go on every run (Gen/Modes.lean): "
                  "every mode, the kitty keyboard stack, keypad mode, alternate screen, cursor visibility/shape, pointer, app id, pen, hyperlink "
                  "and sync are back at their prior values after Close and after Suspend; Resume re-establishes the start-up modes; a second "
                  "Close writes nothing. The token sequences of the model are compared with the real bytes of start-up/Suspend/Resume/Close, "
                  "and the real bytes are run through the mode terminal.",
    "level_note": "Prior values: modes Vaxis never queries are assumed reset before start-up; a terminal ignores private modes it did not "
                  "advertise. Run-time values (kitty flags, user cursor style, app id) are representative constants in the theorems and real "
                  "values in the correspondence. Signal path (Close on the input goroutine) and panic path (an injected malformed report makes "
                  "handleSequence panic in a child process; recover → Close → re-panic; the mirrored console bytes are judged) are exercised dynamically. Real-time and OS behaviour (signals, console reset) not modelled.",
    "assumptions": ["the fake console answers DA1 at once (Suspend's provoke-a-reply dance terminates)"],
}
