"""C04 configuration for ./check (keys: see checks/propcfg.py)."""
CFG = {
    "modules": ["VaxisModel.Props.C04", "VaxisModel.Props.C04Exit", "VaxisModel.Props.C04Prior", "VaxisModel.Props.C04Start", "VaxisModel.Props.C04Lex", "VaxisModel.Props.C04AllGuards", "VaxisModel.Witness.F404", "VaxisModel.Witness.F406"],
    "extractors": ["C04", "C07", "C18", "C11", "C01", "C10"],
    "drivers": ["C04"],
    "stateful": True,
    "trivial_prefix": ("-",),
    "rule": "real Vaxis sessions on the fake console for subsets of the capabilities that gate start-up/shutdown "
            "(kittyKeyboard, sixel, unicodeCore, explicitWidth, colorTheme, inBandResize, osc176, sync) x DisableMouse "
            "(a rotating quarter of the 512 configurations in quick, all 512 in thorough) x random kitty keyboard masks (default or 1..31) x session shapes "
            "(start-up+Close; frames, SetAppID with ids incl. the original/empty/';'/non-ASCII, mouse shapes, titles, Suspend/Resume cycles with a cursor request pending, Close, second Close; "
            "between frames also Notify (OSC 9 / OSC 777), ClipboardPush, Bell; Close with the event queue filled to capacity and input pending (F53's region); "
            "frames then Close triggered by a kill signal on the input goroutine, half of them with 2-9 keys pending (F13's region); Close while suspended; SetAppID then input-goroutine panic in a child process; a real SIGTERM sent by the parent to a child process whose Vaxis has its signal handlers installed "
            "(with / without in-band resize: setupSignals branches on it) — the process must survive and restore the terminal); "
            "round 4, every eighth configuration each: kill signal while suspended (served by the input goroutine Resume starts; wire = Resume's tokens then Close's), kill signal before the first frame, kill signal mid-frame forced through console.Reset() (F404); "
            "New failing half-way on a console whose size cannot be read (six capability sets: `startupfail`, F405 repaired); the four signal children get SIGTERM / SIGINT / SIGQUIT / SIGABRT; with mouse reporting disabled the pointer shape is changed in the last frame; "
            "a session is judged only when start-up saw the fake terminal's answers (stored cursor style / app id / capability flags = configured ones; otherwise start-up is repeated, finally `incomplete`); "
            "the oracle compares with the fake terminal's own original cursor style / application id, not with what Vaxis stored; "
            "every frame line is also judged against the hypotheses Op.ok of the session theorem (admissible tokens, no hyperlink left open); "
            "non-trivial = a startup/setappid/suspend/resume/close line; distinct by case op list",
    "trusted_base": ["Spec.ModeTerm (mode terminal: ignores private modes it does not implement), Spec.Tokenize",
                     "writer prologue/epilogue model shared with C01 (tied by the C01 correspondence)",
                     "direct token mapping of the three run-time writes — no longer trusted: Props/C04Lex proves agreement with the lexer for EVERY value (kittyPush_lexes_all and userStyle_lexes_all for every natural number, "
                     "appIdRestore_lexes_all for every id whose UTF-8 bytes contain neither BEL nor ESC): String.toUTF8 / ByteArray.toList, the lexer's CSI and OSC branches, both hex encoders, Nat.toDigits / ofDigitChars"],
    "level_text": "balanced is proved for ALL run-time values and ALL sessions: for every one of the 2^9 assignments of the guard variables, every kitty flags value, user cursor style, "
                  "prior kitty stack depth (Nat), every application id except the one-character id '?' (which OSC 176 reads as the query: unsettable_id_is_query), and every list of operations "
                  "(frames with any renderer output - renderFrame_ok -, cursor requests with any position/style/visibility, SetAppID with any id, Suspend, Resume, in any number and order) "
                  "followed by shutdown, every mode, the kitty keyboard stack, keypad mode, alternate screen, cursor visibility/shape, pointer, application id, pen, hyperlink and sync are back at "
                  "their prior values. Method: the lifecycle interpreter (over the statement lists regenerated from vaxis.go) emits tokens with named holes for run-time values and never sees a value; "
                  "a symbolic mode terminal is evaluated by the kernel (decide +kernel, 16 chunk modules) for every guard assignment x cursor-visibility flags from a running state in which everything "
                  "frames may change is unknown; runS_sound (proved for every value) lifts the verdicts to all concrete values (prior value and set value are distinct symbols, so coinciding values are covered "
                  "and cannot make the statement true for the wrong reason); induction over the operation list gives all sessions. resume_reestablishes: while suspended everything is restored, while "
                  "running the mode table / screen / kitty depth / keypad mode are exactly those of start-up. close_idempotent (every state), close_twice, close_while_suspended_writes_nothing (every "
                  "session). Signal and panic paths are model statements: the skeleton of openTty's goroutine is regenerated (facts_inputLoop) and signal_path_is_close / panic_path_is_close prove that "
                  "both write exactly what Close writes from every state. facts_savedValueWrites pins that appIDLast / userCursorStyle / kittyFlags are written only by start-up code. "
                  "The token sequences of the model are compared with the real bytes of start-up/SetAppID/Suspend/Resume/Close and of the signal- and panic-triggered shutdown (model = the regenerated signal arm / recover handler), and the real bytes are run through the mode terminal.",
    "level_note": "Round 4 — prior values are ARBITRARY (Props/C04Prior): balanced_any_prior / resume_reestablishes_any_prior hold from every terminal state before start-up (any mode table — withPrior lifting, "
                  "step_withPrior / runOps_withPrior —, any cursor visibility / screen / keypad mode / pointer / pen — unknown symbols, priorB kernel-evaluated for all 512 assignments): a mode the session wrote ends reset, "
                  "a mode it never wrote keeps its prior value, kitty stack / cursor shape / application id return to their prior values; decided reading of the text: for what Vaxis does not query, 'prior value' = reset "
                  "(literal_restored_iff, prior_set_mode_ends_reset say what the literal reading would need). Exit paths (decided: Close, the eight signals setupSignals registers — not SIGHUP —, a panic of the input goroutine; "
                  "not a panic of the application's goroutine): every_exit_restores_at_every_point (each path from every point of every session) + exit_path_completes (every schedule); on the real code also a kill signal while suspended "
                  "(served at Resume, serialised by suspendMu), before the first frame, and MID-FRAME by a forced schedule (gateConsole.Reset) — the latter is finding F404 (recorded: the application's frame follows the restore sequence; "
                  "root cause C10 F410; Witness/F404); a real SIGTERM DURING New (before setupSignals, the last step of New) kills the process with mode 2048 left set: finding F406 (recorded; sessions `closeby sigstartup`, Witness/F406). Failing paths (Props/C04Start): New's error exits are regenerated (Gen.Modes.newSequence); finding F405 (a New that failed after the terminal was set up returned (nil, err) and left everything on) is repaired in /repo 8985b23; "
                  "failed_startup_restores (every assignment, all values: what a failing New has written restores the terminal), early_exits_write_nothing, resume_failure_writes_nothing (the I/O-error guard of Resume true: nothing written, still suspended); sessions `startupfail` on a console whose size cannot be read. "
                  "Still assumed of the prior terminal (PriorOK): it implements what it advertises, answers the two queries with its current values, no hyperlink open. "
                  "The cursor style the terminal reports (0 if it does not answer) and the id of its "
                  "OSC 176 reply are the prior ones; a terminal ignores private modes it did not advertise. balanced_all_guards restates balanced over guard functions (every String -> Bool that is false outside the nine guard variables is one of the 512 assignments: C04Guards.v_eq); round 4: Props/C04AllGuards.balanced_no_io_error drops that hypothesis — ANY guard function whose I/O-error guard `expr:err != nil` is false (C04Restrict.interpS_restrict: the interpreter sees the guard function only through the nine variables, Vaxis's two flags and that error guard; lists_are_safe kernel-evaluated on the regenerated lists); the error guard true is resume_failure_writes_nothing / failed_startup_restores. "
                  "Sessions: while suspended the application only resumes or shuts down (Resume without Suspend / rendering while suspended are skipped). "
                  "Validated by correspondence only: that the model's token lists are the real bytes (incl. the writer prologue/epilogue and the direct-mapped run-time writes at real values); the signal path "
                  "(Close on the input goroutine) and panic path (an injected malformed report makes handleSequence panic in a child process; recover -> Close -> re-panic) are also exercised dynamically. "
                  "Which goroutine runs Close and whether it can block is C10's LTS: since round 3 (F13, F53, F210 repaired in /repo) C10.shutdown_completes / close_completes "
                  "hold with no hypothesis on the queue, the consumer, signals or the calling goroutine, so every exit path reaches its end on every schedule; Props/C04Exit joins the two halves in Lean: exit_path_completes "
                  "(from every invariant state, once the input goroutine has taken its kill-signal arm or caught a panic, every maximal run ends with Close returned, everything done, chQuit closed once) and "
                  "exit_paths_complete_and_restore (… and what the path writes is what Close writes). Real-time and OS behaviour (console reset) not modelled; signal delivery through os/signal is exercised by the sigproc child "
                  "sessions (four capability sets per run), not modelled.",
    "assumptions": ["the fake console answers DA1 at once (Suspend's provoke-a-reply dance terminates)"],
}
