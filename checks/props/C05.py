"""C05 configuration for ./check (see checks/propcfg.py for the keys)."""
CFG = {
    "modules": ["VaxisModel.Props.C05", "VaxisModel.Props.C05Bodies", "VaxisModel.Props.C05Dispatch", "VaxisModel.Props.C05Payload", "VaxisModel.Props.C05Overflow", "VaxisModel.Props.C05Replies", "VaxisModel.Witness.F105i", "VaxisModel.Props.C05Events", "VaxisModel.Props.C05Draw", "VaxisModel.Props.C05DrawBody", "VaxisModel.Props.C05Loop", "VaxisModel.Witness.F105g", "VaxisModel.Witness.F105h",
                "VaxisModel.Witness.F15", "VaxisModel.Witness.F16", "VaxisModel.Witness.F17", "VaxisModel.Witness.F18",
                "VaxisModel.Witness.F19", "VaxisModel.Witness.F20", "VaxisModel.Witness.F105a", "VaxisModel.Witness.F105b",
                "VaxisModel.Witness.F105c", "VaxisModel.Witness.F105d", "VaxisModel.Witness.F105e", "VaxisModel.Witness.F105f"],
    "extractors": ["C05", "C12"],
    "drivers": ["C05", "C05Events", "C05Draw"],
    "stateful": True,
    "trivial_prefix": ("-",),
    "rule": "C05: cases = `new W H` + ops on a PTY-less term.Model (hooks VerifNew/VerifFeed/VerifResize/VerifSnapshot); after EVERY op the "
            "full state snapshot (dims, cursor, lastCol, margins, modes, active screen, pen, charsets, saved cursors, tab stops, both grids "
            "with grapheme/width/style/wrapped) of the implementation is compared with the model's, and the state clause of C05 is evaluated "
            "on the implementation's snapshot, and for every `resize` op the pen after it is compared with the pen before it (F112c); panic/hang are outcomes. Streams: corpus (19 witnesses of fixed findings), grammar-generated "
            "sequences (print narrow/wide/zero-width/combining, C0, ESC, every CSI final of csi() + unknown ones, parameters omitted/0/1/2/"
            "size-1/size/size+1/65535/65536/2^31/2^63-1/negative (overflowed), sub-parameters, modes, SGR incl. malformed, OSC (fixed and generated payloads: known/unknown/empty selectors, 0-5 separators, empty fields, NUL, non-ASCII, long, invalid base64), APC, DCS through the REAL ansi.DCS arm (finals, intermediates, parameters, sixel data around the 4096 limit, oversized raster attributes and repeat counts), resizes; "
            "sizes 1x1..80x24), a slice of the C06 bounded-exhaustive vocabulary sequences (after setup prefixes, `adopt` lines), raw byte fuzz through the real ansi parser. C05Draw: Vaxis on a fake console filled with a marker, emulator drawn into windows partly off-screen / nested / of a different size; oracle: every changed host cell and the cursor lie inside the window. C05Events: the REAL PTY goroutine loop on a real child process "
            "(VerifRunLoop) with 0-40 (thorough: up to 300) event-raising sequences. Round 5: 300 / 3000 reply cases in the C05 stream (modes set/reset, text up to and over the right edge, CUP, then `rp <op>` lines for DA1, DA2, DSR 5/6/other, DECRQM of every mode of decrqm() and unknown ones): the implementation result is the bytes the emulator wrote to its pty (VerifTakeReplies), the model result is Model.EmuReply.replyOf on the regenerated translated body. distinct = distinct op sequences.",
    "trusted_base": ["uniseg grapheme widths are parameters of the model (passed in the op line by the harness, computed by the real library); "
                     "the safety theorems hold for EVERY width (parameters_needed) and the harness checks Width >= 0 on the real parser's output",
                     "base64 validity of an OSC 52 payload is passed in by the harness (OscInfo); safety holds for either verdict",
                     "the external sixel decoder (go-sixel) is a parameter: safety of the DCS arm is proved under the hypothesis DecoderTame "
                     "(no panic / unbounded allocation / unbounded loop on a payload that sixelTooLarge lets through), which the C05 stream "
                     "checks on the real library on every generated payload (counter dcs:DECODER-CRASH-WITHIN-LIMIT, note hypothesis_violations)",
                     "Go int is modelled by unbounded Int: proved sound for 42 of the 73 translated bodies (round 5: + the arguments of the cursor-position report, range_csi_arm_6e, and decrqm) (print() and resize() included) (Props/C05Overflow range_<fn>: every +/- "
                     "stays within 2^62 on every good state with parameters clamped to 0..65535; round 4: range_cht, range_cbt for EVERY state and tab-stop list — "
                     "the counter of the walk stays within 0..ps; range_print: print() on every good state (insert mode on or off) with glyph width <= 65535, across the wrap's vt.nel() call and the insert-mode shift loop); "
                     "range_resize: resize() through rangeR = rangeS + the function-level loops, the allocation statements, the saved-cursor clamp and printCell, for every good old state with stored cell widths <= 65535 and every new size 1..65535); "
                     "for the bodies with little or no arithmetic "
                     "(sgr, osc, modes, decsc/decrc/ris, the reply arms) it still rests on the bounds of the safety lemmas and the correspondence run",
                     "evalBody (the meaning of the translated bodies) fixes loop bounds, vt.width()/height() and the pen at loop entry and treats a "
                     "return inside a final loop as break; function-level loops (forS over the snapshot of the old screen, forParams, forSgr walking the "
                     "parameter list relative to i) run their body at function level; string locals of osc() follow Go block scoping: all justified "
                     "syntactically (Body.wf incl. bndStable/sLoopWf/sgrLoopWf/paramLoopWf, proved for every generated body; checks in the translator), "
                     "not against a Go semantics",
                     "primitives of the statement language whose Go source is pinned by text in the translator: cutString (Stmt.cut = cutSemi; its source is "
                     "the generated fact cutStringSrc, theorem cutString_pinned), the composite literals of decsc/decrc/ris (saved-cursor record, charsets, "
                     "mode reset), the DEC-special translation and single shift of print, screen allocation and saved-cursor clamp of resize",
                     "dispatchers: csi()/esc()/c0() = regenerated table (label, callee, how the parameters are passed) composed with the regenerated "
                     "body of the callee or of the inline arm (csi_is_generated, esc_is_generated, c0_is_generated); since round 4 EVERY arm has a translated body "
                     "(csi_arms_all_translated ...): the reply-only arms DA1/DA2/DSR (Stmt.reply = builds or writes a reply, no effect on the emulator state; since round 5 the reply "
                     "TEXT is carried by Stmt.reply (literals, %d formats, int arguments, regenerated) and Props/C05Replies proves the bytes the translated DA1/DA2/DSR/DECRQM bodies write equal to "
                     "C12's literals (Gen/TermReplies.lean) and to C12's reply model on the wire (replies_are_translated); osc() 11's answer is Reply.opaque: text not carried), the empty arms CSI $ p / ESC # 8, BEL (one event), the statements of csi() in front of its switch "
                     "(body_csi_pre = clampParams for every list) and update() (its type switch as the regenerated table updateArms: update_is_generated, update_shape)",
                     "Draw: the translated body (Gen/TermDraw.lean, language Model/EmuDrawLang.lean) is the model drawG for all states and window sizes (body_Draw); "
                     "conventions of evalDraw: the row loop reads its bound at entry, the column loop gets fuel = width (running out = Panic.hang, unreachable by draw_clipped); "
                     "not modelled: the mutex, vt.dirty, the pty ioctl of Resize, win.Width/Height (a copy), the loop over vt.graphics (its source text is pinned: graphics_loop_pinned)",
                     "C05Events: the LTS of the PTY goroutine is tied to the source by the translated loop (Gen/TermLoop.lean: the select statements with their arms; "
                     "loop_is_generated: the transition system read off that data is Model.EmuEvents.step for every capacity, state and label), by the extracted facts eventCap, "
                     "postEventIsPlainSend, loopArms, loopDrainsFirst, and validated against the real loop by the C05Events stream; the reading of a select "
                     "(an arm is enabled when its channel is ready; default only when no receive arm is ready; parser and timer may be ready at any time) is Model/EmuLoop.lean"],
    "assumptions": ["terminal sizes between 1x1 and 65535x65535 (winsize fields are uint16; the property starts at 1x1)",
                    "one parsed sequence raises at most one event (theorem events_per_op_le_one for the model)",
                    "the host terminal answers an OSC 11 query (QueryBackground blocks on its reply; outside the child-output model)"],
    "level_text": "C05: for every state satisfying the invariant (cursor on the screen, margins ordered and within the screen, all rows of both "
                  "grids exactly the terminal's width), every terminal size 1x1..65535x65535, EVERY parsed sequence with EVERY parameter list in Z, "
                  "every OSC payload, every DCS (under DecoderTame for sixel) and every resize, the model of the current code neither panics nor hangs "
                  "and re-establishes the invariant (emu_safe_step, dcs_safe), lifted to all histories by induction (emu_safe_run, session_safe; translated_session_safe: the same for runs through the code as translated from the source only — update()'s regenerated type switch, the regenerated dispatch tables and bodies, the translated resize()). Draw "
                  "writes only inside the host window (draw_clipped). The PTY goroutine never blocks in postEvent for any number of events and any "
                  "schedule (events_never_stall_current; translated_loop_never_stalls for the loop as translated from the source). The model functions ARE the Go bodies: for ALL control functions — 73 translated bodies (all of csi.go, c0.go, "
                  "esc.go incl. decsc/decrc/ris, mode.go sm/rm/decset/decrst/decrqm with every arm, sgr(), osc(), print, resize incl. the reflow loop "
                  "nest, scrollUp/Down) the body translated from the source on every run evaluates to the model function for all states and all "
                  "parameter lists / payloads (body_<fn>); since round 4 also the arms that only answer the child or are empty, BEL, the parameter clamp of csi() (body_csi_pre), update() (update_is_generated), Draw (body_Draw: the translated body is the model the clipping theorems are about) and the PTY goroutine's loop (loop_is_generated). A resize leaves the pen alone (resize_preserves_pen, resize_frame; F112c repaired). Round 5: the replies of the translated DA1/DA2/DSR/DECRQM bodies are, byte for byte, the literals C12 pins and what C12's reply model renders (Props/C05Replies: reply_da1, reply_da2, reply_dsr, reply_decrqm for every mode number, replies_are_translated). The "
                  "statement was false before the repairs F15-F20, F105a-i: Witness/F*.lean prove it from concrete inputs.",
    "level_note": "Proved (all inputs, all sizes, all histories, all schedules): safety + invariant for the model; Draw clipping; event loop "
                  "deadlock-freedom; model function = translated Go body for all 73 bodies (51 functions + the 21 arms of the dispatchers + the statements of csi() in front of its switch), update(), Draw and the goroutine loop: no transcription-only residue in widgets/term's dispatch path (Gen/TermBodies.lean, Gen/TermDraw.lean, Gen/TermLoop.lean "
                  "regenerated every run; unknown statements fail bodies_fully_recognised; all_generated_covered); no int64 overflow in 40 of them (print and resize included) "
                  "(range_<fn>); osc()/DCS/APC total for arbitrary payloads; pen, cursor shape, modes, tab stops, alternate grid, margins, saved-cursor "
                  "clamps and LastColOk across a resize for every old state (resize_frame). Also tied by Gen/TermModes.lean (dispatch labels with their callee, mode tables, sgr labels, attribute bits, tab stops, "
                  "event channel, loop shape, DCS guards and size limit) and by the correspondence check (snapshot after every op, real DCS/OSC "
                  "payloads). Validated by correspondence only: nothing of the control functions' bodies (the dispatch skeleton goes through generated "
                  "tables); the pinned primitives listed in the trusted base. Hypotheses checked at run time: Width >= 0, CSI parameters non-empty, sixel decoder tame within the size limit. Not judged (recorded in notes/C05.md, round 5): DSR 6 in the pending-wrap state reports column width+1 (a VT/xterm reports the last column) — outside C06's text (deferred-wrap state unconstrained; DSR not in its vocabulary) and unreachable in C12's start-up exchange (CSI H precedes the request); the reply bytes are tied by theorems (and, through replies_are_translated, to C12's reply model, which C12's stream compares with the real replies read back through VerifTakeReplies); since the end of round 5 the C05 stream compares them too (`rp` lines: bytes read back from the emulator's pty vs replyOf on the translated body).",
    "technique": "Lean 4 proof (invariant + per-operation safety lemmas + induction over histories; LTS invariant for the event loop)",
    "timeout": 1500,
}
