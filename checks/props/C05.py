"""C05 configuration for ./check (see checks/propcfg.py for the keys)."""
CFG = {
    "modules": [],
    "extractors": ["C05"],
    "drivers": ["C05"],
    "stateful": True,
    "trivial_prefix": ("-",),
    "rule": "wip",
    "timeout": 1200,
}
