"""C06 configuration for ./check (see checks/propcfg.py for the keys)."""
CFG = {
    "modules": ["VaxisModel.Props.C06", "VaxisModel.Props.C06Bridge", "VaxisModel.Props.C06Gen", "VaxisModel.Witness.F21", "VaxisModel.Witness.F22", "VaxisModel.Witness.F54",
                "VaxisModel.Witness.F106a", "VaxisModel.Witness.F106b", "VaxisModel.Witness.F106c", "VaxisModel.Witness.F106d", "VaxisModel.Witness.F106e", "VaxisModel.Witness.F106f"],
    "extractors": ["C05"],
    "drivers": ["C06"],
    "stateful": True,
    "trivial_prefix": ("-",),
    "rule": "C06: same hooks and snapshot protocol as C05, ops restricted to the property's vocabulary (print narrow/wide, CR, LF/VT/FF, CUP/HVP/"
            "CHA/HPA/VPA, CUU/CUD/CUF/CUB/CNL/CPL, EL, ED, ECH, ICH, DCH, IL, DL, SU, SD, DECSTBM, IND, RI, NEL, DECSC/DECRC, ?1049 h/l, SGR). "
            "Oracle: the reference terminal Spec.Term (written from DESIGN Appendix A) is run on the same ops and must accept the IMPLEMENTATION's "
            "grid (grapheme, width, style, bce background), cursor, pending-wrap, pen and margins after every op (accept-sets where DEC and xterm "
            "differ; `unconstrained` results re-synchronise; round 4: judged through tokOfJ — a non-SGR function with a colon in its parameter string must be IGNORED, "
            "known finding F106f). Streams: corpus (14 witnesses), bounded-exhaustive: every sequence of length 1 (full "
            "alphabet, ~104 ops: parameters omitted,0,1,2,size-1,size,size+1) and length 2 (quick: reduced x full, thorough: full x full) after "
            "5-6 setup prefixes (empty, filled, filled+scroll region, wide glyphs, pending wrap, cursor below region) on 2x2, 3x2, 3x3, 4x3; "
            "sampled length 3 (and 4 in thorough); random sequences of 5-40 ops on screens up to 20x8. distinct = distinct op sequences.",
    "trusted_base": ["Spec.Term (lean/VaxisModel/Spec/Term.lean) and Spec.sgr are the reference; DESIGN Appendix A fixes their semantics; its header states the decisions on "
                     "the edge of the vocabulary (colon sub-parameters outside SGR: ignored, as DEC STD 070 and xterm do; DECSTR: not a token; cursor shape: not constrained by C06)",
                     "Spec.Display (the renderer-side reference of C01/C07/C11/C12) is the SAME terminal on the common vocabulary: display_refines_term (Props/C06Bridge.lean) — "
                     "the hex decoder `dec` of the glyph strings is a parameter (DecOk: dec \"\" = [], dec \"20\" = [32])",
                     "uniseg grapheme widths are passed in the op line by the harness",
                     "a space glyph without underline/strike/reverse and a blank cell of the same background are treated as the same display "
                     "(TCell.norm); the content under the right half of a wide glyph is not compared"],
    "assumptions": ["autowrap on, origin mode off, insert mode off, no left/right margins (the property's vocabulary cannot change them)"],
    "level_text": "C06: the emulator model refines the reference terminal Spec.Term (DESIGN Appendix A): emu_refines_term — for every pair of "
                  "states related by the simulation relation Sim2 (the reference accepts the emulator's size, selector, cursor/pending-wrap, pen, "
                  "margins, every cell with bce background, saved cursors), every screen 1x1..65535^2, every operation of the vocabulary (print "
                  "narrow/wide, CR, LF, IND, NEL, RI, CUP/HVP, CHA/HPA, VPA, CUU, CUD, CUF, CUB, CNL, CPL, EL, ED, ECH, ICH, DCH, IL, DL, SU, SD, "
                  "DECSTBM, DECSC, DECRC, ?1049h/l) with every parameter value, the emulator step succeeds and is accepted by the reference "
                  "(accept-sets) unless the reference leaves it unconstrained; lifted to all histories from start-up (emu_refines_histories, "
                  "emu_refines_from_start). Round 3: also CUP/HVP/DECSTBM with more than two parameters (emu_refines_term_two), OSC 8 hyperlinks "
                  "through the real dispatcher (emu_refines_term_osc8; Spec.Term has the token osc8), RIS from every state (emu_refines_term_ris), "
                  "and all histories over the extended vocabulary incl. long parameter lists, CUP/DECSTBM beyond two parameters, RIS and OSC 8 "
                  "(emu_refines_histories_X, emu_refines_from_start_X). Witness/F21,F22,F54,F106a-e prove the statement was false before the repairs. "
                  "Round 4: ONE reference terminal — display_refines_term: for every token list of the renderer's vocabulary common to both (CUP, SGR, text of width 1 or 2, "
                  "OSC 8, ?25 h/l, DECSCUSR) that Spec.Display runs without `bad`, every Spec.Term step returns a singleton accept-set (never unconstrained) and the two "
                  "end states are related (cursor, pending wrap, pen, link, visibility, shape, every cell up to TCell.norm; cont and poison cells in exactly the same places); "
                  "init_related, display_refines_term_from_start. The full statement over the oracle's vocabulary tokOfJ is FALSE of the current code exactly on non-SGR "
                  "sequences with colon sub-parameters (Witness/F106f refines_J_fails; tokOfJ_region: elsewhere tokOfJ = tokOfX, the vocabulary of the proved theorems). "
                  "translated_emu_refines_from_start_X (Props/C06Gen.lean): the history theorem for runs through the code as translated from the source only "
                  "(update()'s regenerated type switch, the regenerated dispatch tables and bodies, the translated resize(); C05's runGen_eq).",
    "level_note": "Proved for all states/parameters/histories: every operation of the vocabulary, SGR included (emu_refines_term_all, "
                  "emu_refines_histories_all, emu_refines_from_start_all; sgr_refines_spec: on every well-formed SGR sequence the emulator's pen "
                  "abstracts to Spec.sgr). Restrictions: grapheme string non-empty (the parser never emits an empty one); a non-SGR function with a colon anywhere in "
                  "its parameter string is ignored by the reference (Spec.Term Tok.ignored: DEC STD 070 and xterm agree) while the emulator executes it on the main values "
                  "(emu_subparams_ignored) — finding F106f, recorded (known-findings.d/C06.json; not repaired: the repair changes CSI ? 1:5 h, which C13's child-mode "
                  "specification reads the other way), excluded from the refinement theorems (they are stated over tokOfX; NOTE tokOfX still maps a list whose LATER "
                  "parameters carry sub-parameters to the function of the first — an emulator-side fact inside F106f's region, tokOfJ_ignored_of); OSC 8 is inside the history theorem under 'the widget's OSC8 switch is on' (the default), "
                  "which no operation changes (osc8_switch_stable); DSR 6 (CSI 6 n) in the deferred-wrap state answers column width+1 where xterm answers the last column — decided round 5: not in the property's vocabulary (a report changes neither grid nor cursor) and inside the region the text leaves unconstrained; not judged (the fact is Props/C05Replies reply_dsr); DECSTR (CSI ! p) has no arm in csi() and is ignored — decided in Spec.Term: "
                  "soft reset is not in the property's vocabulary, no token, not judged (for C13: a child that resets DECCKM/keypad mode through DECSTR keeps the application "
                  "modes — recorded in notes/C05.md 'For C13'); RIS keeps the cursor SHAPE (C06 constrains grid and cursor position only: not judged); SGR 6, 21, values > 255 and four malformed SGR shapes (notes/C06.md "
                  "D1-D4) are terminal specific and outside the judged vocabulary. Model tied to the source by Gen/TermModes.lean (dispatch through "
                  "the regenerated tables) and by the C05 correspondence stream (snapshot after every op, incl. a slice of the C06 sequences); "
                  "the reference is additionally evaluated as oracle on the IMPLEMENTATION after every op of the bounded-exhaustive and random "
                  "histories (driver C06, independent of the transcribed functions; since round 2 through tokOfX, the random generator appends "
                  "1-3 further parameters to every fifth one-parameter function; round 3: also to every fifth two-parameter CUP/HVP/DECSTBM, and it "
                  "sends OSC 8 and RIS; T.accepts compares the pen's hyperlink too). The bodies of sgr(), osc(), ris(), decset()/decrst(), cup(), "
                  "decstbm() are tied to the source structurally as well (body_<fn> in Props/C05Bodies.lean). Spec adjustments vs Appendix A (accept-sets added): DECRC "
                  "may restore the pending-wrap flag; ?1049h may clear with the current background.",
    "technique": "Lean 4 proof (refinement of an abstract reference terminal) + oracle evaluation on the real code",
    "timeout": 2400,
}
