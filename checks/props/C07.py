"""C07 configuration for ./check (keys: see checks/propcfg.py)."""
CFG = {
    "modules": ["VaxisModel.Props.C07", "VaxisModel.Props.C07Caps", "VaxisModel.Props.C07Writers", "VaxisModel.Props.C07Width", "VaxisModel.Props.C07Image", "VaxisModel.Props.C07Body"],
    "extractors": ["C07", "C04", "C18", "C03", "C07caps", "C07writers", "C07sel"],
    "drivers": ["C07", "C07caps", "C01", "C04"],
    "stateful_drivers": ["C01", "C04"],
    "trivial_prefix": ("id:", "-", "bytes="),
    "rule": "C07: asIndex on default + all 256 indexed colours, every palette colour, 23^3 boundary channel values, random direct "
            "colours (quick) / all 2^24 direct colours (thorough); C07caps: real vaxis.New on the fake console for advertised "
            "capability subsets (3000 random + the cursor-in-column-2 scenarios in quick, all 2^16 subsets in thorough), detected "
            "flags and Can* accessors, RenderedWidth of 14 graphemes under the detected method; non-trivial = a direct colour / a caps "
            "or width line; distinct by op line; C07caps also runs ~700 start-up reply streams through the real New (replayed through the start-up LTS, judged by specCaps) and 120 fixtures of API calls (clipboard, notify, title, app id, bell, cursor-position and colour queries) whose bytes must be the sequences.go template - and nothing for a colour query whose report was not advertised; and 288 (quick) / 4800 image scenarios (`img` lines: all 2^3 graphics advertisements x 3 pixel-size situations x random other capabilities, picture kinds and sizes, resize targets, windows): real NewImage, Resize, five real frames (drawn, again, moved or Refresh, without, after Destroy) and Destroy, the bytes of every phase lexed by the driver (APC with the kitty control keys a= i= m= f=, sixel DCS, CSI, OSC, rest) and judged: kitty graphics APCs only if the kitty graphics query was answered, sixel DCS only if sixel was advertised, with neither no APC / DCS at all, no direct-colour SGR without RGB, no 2026 bracket unless advertised; the class NewImage hands out and the image escapes it produces are compared with the model (NewImage interpreted from the regenerated switch); plus the C01 frame-history stream and the C04 session stream, whose drivers also judge every real token against the gated vocabulary (allowedTok / allowedLife) under the detected capability set",
    "trusted_base": ["float64 distance step modelled by exact integer score x10^4 (DESIGN §3.5); compared by score of the chosen entry",
                     "uniseg.StringWidth / runewidth.RuneWidth are parameters (the three candidate measurements are computed by the harness)",
                     "renderer and lifecycle models are those of C01/C04 (tied to the code by their correspondence checks)"],
    "level_text": "Proved: asIndex returns a nearest palette entry 16..255 for every direct colour (palette regenerated from color.go = xterm "
                  "formula palette); render_gated: every token of every frame is baseline or allowed by the capability set (no direct-colour SGR "
                  "without RGB, no 4:n/58/59 without styled underlines, no OSC 66 / 2026 unless advertised) for all grids and styles; "
                  "lifecycle_gated: by kernel evaluation over all 2^9 guard assignments of the lists regenerated from vaxis.go, start-up after "
                  "DA1, Suspend and Resume write only baseline or advertised vocabulary; width_method; caps_exact / caps_sound / "
                  "reply_notices_exact (and reply_notices_exact_body: the same over the body of handleSequence regenerated from the source and interpreted, equal to the hand model by C03's handleSequence_body_eq_model) over the start-up LTS (the loop of New running concurrently with the model of handleSequence): for "
                  "every reply stream, order, interleaving, queue capacity and probe outcome, each capability flag is set iff a reply "
                  "advertising it arrived no later than the first DA1 reply, and every stream has a complete run attaining it (startup_completes, caps_exact_attained, caps_exact_attained_probe; loop_interpreted: the loop's type switch is executed from the regenerated table; facts_* pin the loop, the probe, applyQuirks, every write of "
                  "the capability record and the Can* accessors to the source); writers_classified / gated_sequences_guarded / "
                  "request_writers_exact / new_image_by_protocol: every one of the ~130 terminal writers of the root package (regenerated "
                  "with its guard stack) is a start-up probe, a gated sequence under a guard testing its capability, an "
                  "application-request API write (listed exactly), baseline/plumbing, or a statement of a modelled function. "
                  "Round 4: width_method_interpreted / facts_rendered_width / facts_gwidth / width_method_source: the width-method selection of the model is the "
                  "interpretation of the statement chain of RenderedWidth regenerated from vaxis.go (conditions in source order, method handed to gwidth) for every "
                  "capability record, and the three method constants mean what the model assumes; image_objects_only_from_constructors / "
                  "image_buffers_written_by_own_type / image_escape_literals_exact / image_writers_are_methods_of_the_constructed_types: kitty / sixel image "
                  "objects are created only by the two constructors, which the library calls only from NewImage, and their buffers are filled only by their own "
                  "Resize; detected_interpreted / protocol_steps_complete_and_order_free / new_image_interpreted / new_image_class_gated(_source): graphicsProtocol (interpreted from every regenerated guarded assignment of the field in New / applyQuirks) and NewImage (interpreted from the regenerated switch) "
                  "hands out a kitty / sixel image only if that protocol was advertised and the pixel size is known, else the half-block fallback.",
    "level_note": "Validated by correspondence only: the start-up LTS = the real New() on ~700 (quick) / 12000 reply streams and on capability "
                  "subsets (all 2^16 in thorough); API writers = sequences.go templates on the real calls; image data writers: the bytes real NewImage / Resize / Draw+Render / Destroy write in 288 (quick) / 4800 scenarios "
                  "are lexed and judged at run time by an oracle written from the protocols (kitty APC / sixel DCS only when advertised, none at all with neither; replayable: the op line "
                  "determines the scenario); how reportWinsize learns the pixel size is varied by the harness, not modelled; CellSize and window sizes of the image scenarios "
                  "are taken from the implementation (resizeImage's float arithmetic is C20's); the kitty chunk order is shown, not judged. Modelled not verified: float64 "
                  "rounding (validated on all 2^24 colours in thorough); uniseg/runewidth; real time of the two start-up time-outs (labels); "
                  "caps_exact assumes the loop ended by DA1 with nothing dropped (startup_completes / caps_exact_attained prove that every stream "
                  "ending in a DA1 reply has such a run); the RGB fallback inside render is gated by assignment and covered by render_gated, "
                  "not by the guard classification; which sequences count as baseline xterm is a table of the spec.",
    "assumptions": ["IEEE-754 double rounding error << 1e-4 for channel differences <= 255",
                    "environment overrides (COLORTERM, VAXIS_FORCE_*) are unset: they are configuration, not terminal advertisement"],
}
