"""C07 configuration for ./check (see checks/propcfg.py for the keys)."""
CFG = {
    "modules": ["VaxisModel.Props.C07"],
    "extractors": ["C07"],
    "drivers": ["C07"],
    "trivial_prefix": ("id:",),
    "rule": "asIndex: default + all 256 indexed colours, every palette colour, 23^3 boundary channel "
            "values, random direct colours (quick) / all 2^24 direct colours (thorough); non-trivial = a "
            "direct (RGB-flag) colour, distinct by colour value",
    "trusted_base": ["float64 distance step modelled by exact integer score ×10^4 (DESIGN §3.5); "
                     "compared by score of the chosen entry"],
    "level_text": "Colour fallback: theorems asIndex_nearest / asIndex_id / asIndex_params proved for every 32-bit colour value "
                  "over the palette regenerated from color.go (proved equal to the xterm formula palette). Other clauses of C07 "
                  "(capability gating, width method) are being added; see level_note.",
    "level_note": "Proved: nearest-entry for all colours (integer model). Modelled not verified: float64 rounding (validated on all 2^24 colours "
                  "in the thorough tier by comparing scores). Model tied to source by Gen/Palette.lean (regenerated) and VerifAsIndex correspondence.",
    "assumptions": ["IEEE-754 double rounding error ≪ 1e-4 for channel differences ≤ 255"],
}
