"""C08 configuration for ./check (see checks/propcfg.py for the keys)."""
CFG = {
    "modules": ["VaxisModel.Props.C08", "VaxisModel.Props.C08Fine", "VaxisModel.Props.C08Pools", "VaxisModel.Witness.F29"],
    "extractors": ["C02"],
    "drivers": ["C08"],
    "trivial_prefix": ("Z |",),
    "rule": "scripted readers through ansi.NewParser: end of input or read error at every byte offset of 46 corpus streams and of "
            "generated streams (three chunkings), Close() issued while blocked in a read at every chunk boundary, four consumers "
            "(Finish at once / retain everything / Finish 1..5 items late) with deep copies compared to the retained originals, "
            "Escape-timer scripts with 40 ms pauses after a lone ESC and back-to-back reads otherwise; distinct by (consumer, script)",
    "trusted_base": ["atomicity of the steps that run under Parser.mu; FIFO order of emit; time.AfterFunc/Stop and sync.Pool semantics as stated in notes/C08.md",
                     "pool ownership model (Own) follows escapeDispatch/csiDispatch/hook/Finish by reading, validated by the retention harness"],
    "assumptions": ["the consumer keeps receiving (emit blocks otherwise, by design)", "each delivered sequence is passed to Finish at most once",
                    "40 ms >> 10 ms >> back-to-back reads on the test machine (prompt cases with surplus Escape reports are re-run)"],
    "level_text": "Proved for every schedule of reads, end of input, Close(), timer firings and late timer callbacks: exactly one EOF, last, then the channel is closed, "
                  "nothing emitted afterwards; no panic; end of input / Close+read return stop the loop; no deadlock; number of Escape reports = number of (up-to-date) "
                  "timer firings; lone ESC => one C0 1B then ground; prompt ESC => none; a late callback is the Escape key or a no-op; pool ownership: the parser never "
                  "writes to an array of a delivered, unfinished sequence. Real time is abstracted to the order of timer and read events.",
    "level_note": "LTS tied to the code by the regenerated table/timer shape and by scripted-reader correspondence (incl. hook-forced callback delays in a child process). "
                  "Fixed in /repo: F108 (ignoreST after Escape key inside a string), F29 (unguarded timer callback: late Escape, torn sequence, send on closed channel).",
    "timeout": 1800,
}
