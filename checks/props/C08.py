"""C08 configuration for ./check (see checks/propcfg.py for the keys)."""
CFG = {
    "modules": ["VaxisModel.Props.C08", "VaxisModel.Witness.F29"],
    "extractors": ["C02"],
    "drivers": ["C08"],
    "trivial_prefix": ("Z |",),
    "rule": "scripted readers through ansi.NewParser: end of input or read error at every byte offset of 46 corpus streams and of "
            "generated streams (three chunkings), Close() issued while blocked in a read at every chunk boundary, four consumers "
            "(Finish at once / retain everything / Finish 1..5 items late) with deep copies compared to the retained originals, "
            "Escape-timer scripts with 40 ms pauses after a lone ESC and back-to-back reads otherwise; distinct by (consumer, script)",
    "trusted_base": [],
    "assumptions": [],
    "level_text": "",
    "level_note": "",
    "timeout": 1800,
}
