"""C08 configuration for ./check (see checks/propcfg.py for the keys)."""
CFG = {
    "modules": ["VaxisModel.Props.C08", "VaxisModel.Props.C08Fine", "VaxisModel.Props.C08Pools", "VaxisModel.Props.C08Live", "VaxisModel.Props.C08Spec", "VaxisModel.Props.C08FineChan", "VaxisModel.Props.C08Order", "VaxisModel.Props.C08Drive", "VaxisModel.Witness.F29"],
    "extractors": ["C02"],
    "drivers": ["C08"],
    "trivial_prefix": ("Z |",),
    "rule": "scripted readers through ansi.NewParser: end of input or read error at every byte offset of 46 corpus streams and of "
            "generated streams (three chunkings), Close() issued while blocked in a read at every chunk boundary, four consumers "
            "(Finish at once / retain everything / Finish 1..5 items late) with deep copies compared to the retained originals, "
            "Escape-timer scripts with 40 ms pauses after a lone ESC and back-to-back reads otherwise; distinct by (consumer, script)",
    "trusted_base": ["Model/ParserRunFine.lean lists the statements of run/readRune/the timer callback in source order (by reading; shape flags regenerated); "
                     "sync.Mutex gives sequential consistency for the fields it guards; FIFO order of emit; time.AfterFunc/Stop and sync.Pool semantics as stated in notes/C08.md",
                     "pool models (explicit arrays in Model/ParserPools.lean, refining to Own) follow escapeDispatch/csiDispatch/hook/Finish/clear/collect by reading, validated by the retention harness"],
    "assumptions": ["the consumer keeps receiving (emit blocks otherwise, by design: consumer_stops_blocks; with a receiving consumer every finite input terminates: finite_input_terminates)", "each delivered sequence is passed to Finish at most once",
                    "40 ms >> 10 ms >> back-to-back reads on the test machine (prompt cases with surplus Escape reports are re-run)"],
    "level_text": "Proved for every schedule of reads, end of input, Close(), timer firings and late timer callbacks: exactly one EOF, last, then the channel is closed, "
                  "nothing emitted afterwards; no panic; end of input / Close+read return stop the loop; no deadlock; number of Escape reports = number of (up-to-date) "
                  "timer firings; lone ESC => one C0 1B then ground; prompt ESC => none; a late callback is the Escape key or a no-op. "
                  "Atomicity of the mutex-protected steps is proved, not assumed: the statement-grained system (explicit mutex and escGen, Stop/Lock/escGen++/anywhere/Unlock and the "
                  "callback's Lock/check/emit/state/ignoreST/Unlock as separate steps, any number of callbacks in flight) refines the atomic one for every interleaving "
                  "(forward simulation), with mutual exclusion, EOF once and last, no send on the closed channel, no panic, Escape report only for a lone ESC, mutex never held for ever. "
                  "Pools over explicit backing arrays (aliasing visible, Get returning stale lengths, params and parameter lists included): the cells [0,len) of every delivered, "
                  "unfinished sequence are unchanged since delivery; fails without the Get at dispatch or with a double Finish (witnesses). "
                  "Bounded channel (capacity regenerated) with an explicit consumer: FIFO, a blocked emit is enabled by one receive, no deadlock, a fair schedule delivers every finite input "
                  "and ends closed within an explicit step bound; a consumer that stops receiving blocks the parser for ever (witness). "
                  "Conversely every atomic run is a schedule of single statements (same outputs at quiescent points). "
                  "Composition with C02 (Props/C08Spec): for every schedule the delivered items are exactly what the reference machine of Spec/VT500.lean prescribes for the same labels - runes through the VT500 machine "
                  "(F102/F102c on), the Escape key = Spec escKey at every up-to-date timer firing and nowhere else, the open control string at end of input, one EOF; for segment scripts this is Spec.runWithEscKeysD, the driver's oracle. "
                  "Real time is abstracted to the order of timer and read events.",
    "level_note": "LTS tied to the code by the regenerated table/timer shape and by scripted-reader correspondence (incl. hook-forced callback delays in a child process). "
                  "Fixed in /repo: F108 (ignoreST after Escape key inside a string), F29 (unguarded timer callback: late Escape, torn sequence, send on closed channel).",
    "timeout": 1800,
}
