"""C08 configuration for ./check (see checks/propcfg.py for the keys)."""
CFG = {
    "modules": ["VaxisModel.Props.C08", "VaxisModel.Props.C08Fine", "VaxisModel.Props.C08Pools", "VaxisModel.Props.C08Live", "VaxisModel.Props.C08Spec", "VaxisModel.Props.C08FineChan", "VaxisModel.Props.C08Order", "VaxisModel.Props.C08Drive", "VaxisModel.Props.C08Payload", "VaxisModel.Props.C08Sched", "VaxisModel.Props.C08DriveParams", "VaxisModel.Props.C08FineFair", "VaxisModel.Props.C08SchedNormal", "VaxisModel.Props.C08SchedGroup", "VaxisModel.Props.C08SchedEnum", "VaxisModel.Witness.F29"],
    "extractors": ["C02"],
    "drivers": ["C08", "C08Sched"],
    "trivial_prefix": ("Z |",),
    "rule": "scripted readers through ansi.NewParser: end of input or read error at every byte offset of 46 corpus streams and of "
            "generated streams (three chunkings), Close() issued while blocked in a read at every chunk boundary, four consumers "
            "(Finish at once / retain everything / Finish 1..5 items late) with deep copies compared to the retained originals, "
            "Escape-timer scripts with silence after a lone ESC (the reader waits for the callback's report at a yield point - no sleep; a report later than 60 ms on four tries is a failure time-out) and back-to-back reads otherwise "
            "(incl. a C0 control executed in the escape state before the pause); "
            "the same timing shapes with a slow consumer (25 ms before every receive: emit blocks, a timer callback blocks in emit holding the mutex); "
            "hook-held timer callbacks released before / inside / after the following bytes; distinct by (consumer, script). "
            "Stream C08Sched (round 4): schedules enumerated by the Lean model from the statement-grained LTS - every interleaving of the statements of run(), the reader's returns, Close() and timer expiries "
            "with the statements of the timer callbacks for 15 scripted inputs (all of them where there are at most 300 quick / 6000 thorough per input, a seed-dependent stride otherwise, plus random ones) - "
            "replayed on the real parser label by label: every goroutine parked at a yield point (verifSched), exactly one released per label; no elapsed time in any verdict; distinct by schedule",
    "trusted_base": ["the statement order of run/readRune/the timer callback in Model/ParserRunFine.lean is pinned to the regenerated skeletons (Gen/ParserRun.lean, Gen/ParserReader.lean: "
                     "model_order_is_source_order; the yield points of the forced-schedule harness: yield_points_in_front_of_statements); what each statement *does* (mainStep/cbStep) is by reading, and since round 4 "
                     "compared with the real code after EVERY statement of every enumerated interleaving (program point, escGen, state, ignoreST, items: stream C08Sched); "
                     "sync.Mutex gives sequential consistency for the fields it guards; FIFO order of emit; time.AfterFunc/Stop and sync.Pool semantics as stated in notes/C08.md",
                     "pool models (explicit arrays in Model/ParserPools.lean, refining to Own): the intermediate pool is driven by the automaton's statements in table order (Model/ParserPoolsDrive.lean); "
                     "the parameter pools are driven by the automaton too (Model/ParserParamsDrive.lean), the expansion of csiDispatch into Get/append/push/emit is proved equal to a walk of the regenerated body "
                     "(expansion_is_regenerated_body); what collect/clear/Finish do to a slice follows the Go methods by reading, validated by the retention harness; "
                     "that every hand-over is followed by a pool Get and parameter slices are taken with Get()[:0] is re-decided against the regenerated bodies (handover_takes_fresh_storage)",
                     "forced schedules: the reductions of the enumeration (Close() issued in front of a select; a timer expires right after arming or never) are theorems: closeSig_commutes / expire_commutes, closeSig_moves_later / expire_moves_earlier and their iteration closeSig_normal_form / expire_normal_form / joint_normal_form "
                     "(Props/C08SchedNormal: every schedule of single statements has a permutation with the same final state and items in which every Close() stands in front of a select or at the end and every expiry right behind the arming statement); "
                     "the grouping of statements into harness labels loses nothing either (Props/C08SchedGroup: complete_schedule_is_harness_schedule - every complete schedule of single statements from the initial state has a harness-label schedule with the same final state and items); "
                     "and the loop is closed (Props/C08SchedEnum: complete_schedule_is_reduced / _close - every complete schedule of single statements from the initial state, without Close() or with one observed Close(), has the same final state and items as a "
                     "harness-label schedule that is Reduced for the script of its reads and hence, under the cap, a member of the enumerated list); not covered: an unobserved / repeated Close(); "
                     "the scheduler cannot park between ReadRune's return and the Stop() in readRune nor between a failed check and the deferred Unlock (no yield point)"],
    "assumptions": ["the consumer keeps receiving (emit blocks otherwise, by design: consumer_stops_blocks; with a receiving consumer every finite input terminates: finite_input_terminates on the atomic layer, fchan_fair_run_terminates at statement grain)", "each delivered sequence is passed to Finish at most once",
                    "back-to-back reads of the scripted reader are less than 10 ms apart on the test machine (prompt cases with surplus Escape reports are re-run); no other elapsed time enters a verdict"],
    "level_text": "Proved for every schedule of reads, end of input, Close(), timer firings and late timer callbacks: exactly one EOF, last, then the channel is closed, "
                  "nothing emitted afterwards; no panic; end of input / Close+read return stop the loop; no deadlock; number of Escape reports = number of (up-to-date) "
                  "timer firings; lone ESC => one C0 1B then ground; prompt ESC => none; a late callback is the Escape key or a no-op. "
                  "Atomicity of the mutex-protected steps is proved, not assumed: the statement-grained system (explicit mutex and escGen, Stop/Lock/escGen++/anywhere/Unlock and the "
                  "callback's Lock/check/emit/state/ignoreST/Unlock as separate steps, any number of callbacks in flight) refines the atomic one for every interleaving "
                  "(forward simulation), with mutual exclusion, EOF once and last, no send on the closed channel, no panic, Escape report only for a lone ESC, mutex never held for ever. "
                  "Pools over explicit backing arrays (aliasing visible, Get returning stale lengths, params and parameter lists included): the cells [0,len) of every delivered, "
                  "unfinished sequence are unchanged since delivery; fails without the Get at dispatch or with a double Finish (witnesses). "
                  "Bounded channel (capacity regenerated) with an explicit consumer: FIFO, a blocked emit is enabled by one receive, no deadlock, a fair schedule delivers every finite input "
                  "and ends closed within an explicit step bound; a consumer that stops receiving blocks the parser for ever (witness). "
                  "Conversely every atomic run is a schedule of single statements (same outputs at quiescent points). "
                  "Round 3 - bounded channel on the statement-grained system (every emit of every goroutine blocks on a full channel): it projects onto the system without channel with "
                  "received ++ queued ++ pending = its output, so EOF once and last / no panic hold of what the consumer receives; a callback blocked in emit holds the mutex (its statement disabled, "
                  "main blocked at Lock, no other callback can move, one receive unblocks it; reachable witness with capacity 2), likewise the main goroutine blocked inside anywhere; no deadlock with a receiving consumer. "
                  "Pools driven by the automaton: walking the statements of the anywhere row and the state function's row in source order (early return included, Get exactly when the slice is non-empty, "
                  "any Get answers, Finish interleaved) is always a run of the pool model, so delivered sequences are immutable for the real action order; outside the dead states (ground, dcsPassthrough) the "
                  "slice reads the automaton's inter, and every hand-over delivers exactly the intermediates the automaton put into the sequence (table-wide check). "
                  "Statement order: run (both select arms, tail) and the timer callback are extracted as skeletons; the model's program counters stand in front of these statements in source order. "
                  "Parameter pools: negative witnesses (storage kept by the parser at emit / double Finish => a held CSI is overwritten). "
                  "Payload storage: the regenerated bodies of oscEnd/unhook/apcUnhook replace the accumulator by a fresh slice after the emit, never truncate it in place (delivered_payloads_not_recycled). "
                  "The callback as it was before F29 reaches the three failures at statement grain (fine_pre_F29_callback_fails). "
                  "Composition with C02 (Props/C08Spec): for every schedule the delivered items are exactly what the reference machine of Spec/VT500.lean prescribes for the same labels - runes through the VT500 machine "
                  "(F102 on; F102c is repaired), the Escape key = Spec escKey at every up-to-date timer firing and nowhere else, the open control string at end of input, one EOF; for segment scripts this is Spec.runWithEscKeysD, the driver's oracle. "
                  "Round 4 - forced schedules: every schedule the model hands to the harness is a complete run of the statement-grained LTS (enumerate_sound), the list is exactly the set of complete interleavings under two commuting reductions "
                  "(enumerate_complete), and conversely every complete schedule of single statements of the LTS (without Close() or with one observed Close()) has the same final state and items as one of the enumerated schedules "
                  "(normal forms by commuting moves + grouping into harness labels: Props/C08SchedNormal, C08SchedGroup, C08SchedEnum: complete_schedule_is_reduced); "
                  "every replayed label is one or two statements of FSys.step (srun_is_fine_run), so the theorems above speak about each replay; the oracle clauses of the replay are theorems of the LTS: "
                  "guarded fields are written only by the goroutine holding the mutex (fine_writes_under_mutex), a lone ESC followed by silence is reported in every interleaving (fine_lone_esc_reported); without escGen++ before emit(EOF) the callback of a lone ESC sends on the closed channel, "
                  "with the bump moved into escape() a SUB does not outdate it (statement-grained witnesses = the replays found on the changed code). "
                  "Fair-run termination at statement grain (Props/C08FineFair): for every finite input, every expiry policy and any capacity >= 1 the fair scheduler over the bounded-channel statement system ends within an explicit bound with run() returned, "
                  "the channel closed and drained, every callback returned, received = pre ++ [EOF], nothing lost; for the parser's table every scripted input is read and the received stream is the Spec's; after Close() and the return of the pending read "
                  "(any reachable state) the run ends within an explicit bound without another read, and in no schedule is the read entered again; with Close() issued at any point inside the fair run it still ends within the same bound, "
                  "EOF last, reads taken a prefix of the script (fchan_fair_run_terminates_with_close). "
                  "Parameter pools driven by the automaton (Props/C08DriveParams): for any table, runes, Get answers (stale lengths), growth and Finish-Puts interleaved anywhere (also inside a dispatch) the composite is a run of the pool model, "
                  "every delivered unfinished CSI reads its parameters as delivered at every point, each hand-over reads decodeParams of the collected bytes, and the expansion equals a walk of the regenerated csiDispatch body. "
                  "Real time is abstracted to the order of timer and read events.",
    "level_note": "Harness (round 4): a panic of the parser goroutine (run or the timer callback) is handed to the harness by the deferred yield points of the verification build and ends the case with the item ! (FAIL panic with the input named) instead of taking the harness down. LTS tied to the code by the regenerated table/timer shape, the regenerated run/callback skeletons (Props/C08Order) and by scripted-reader correspondence (incl. hook-forced callback delays in a child process); "
                  "since round 4 also by the forced-schedule replay: the model's statement-grained state is compared with the real parser after every statement of every enumerated interleaving, and the oracle there is evaluated on the "
                  "implementation's observations alone (no panic, EOF once and last, guarded fields written only under the mutex, Escape report only while the ESC is the last byte parsed, lone ESC reported, Close stops the loop, items = Spec). "
                  "Validated by correspondence only: what each statement of run/the callback does (by reading + replay); the two enumeration reductions; collect/clear/Finish on slices. Modelled, not verified: real time (the 10 ms are the order of events). "
                  "Fixed in /repo: F108 (ignoreST after Escape key inside a string), F29 (unguarded timer callback: late Escape, torn sequence, send on closed channel).",
    "timeout": 1800,
}
