"""C09 configuration for ./check (see checks/propcfg.py for the keys)."""
CFG = {
    "modules": ["VaxisModel.Props.C09", "VaxisModel.Props.C09Body", "VaxisModel.Props.C09Uni", "VaxisModel.Witness.F209", "VaxisModel.Witness.F210"],
    "extractors": ["C09"],
    "drivers": ["C09"],
    "trivial_prefix": (),
    "rule": "e2e: every 3rd (quick) / 4th (thorough) dec case injected into a real Vaxis on the fake console, Key read from Events(); dec: every printable ASCII byte, other scripts, raw bytes 0x80-0xFF, all C0, ESC+byte, SS3+byte, CSI reports over a "
            "number grid (0-40, 32-127, 57340-57460, other scripts) x finals x 15 field combinations x modifier masks (sampled quick / "
            "all 256 thorough), parameterless CSI, 27;m;k~, raw CSI fuzz incl. 2^31+ parameters; mat: chord sample x related binding "
            "runes x all 256 masks (+ a 9-bit mask); mstr/str: own String(), case/ordering variants, random binding strings, every "
            "Key* constant x masks; xp: every chord the xterm legacy encoder expresses x kitty forms x bindings. Distinct by op line.",
    "trusted_base": ["unicode.IsUpper/IsLower/IsLetter/IsGraphic/IsPrint/ToUpper/ToLower and simple case folding are parameters of the "
                     "model (structure Uni); theorems hold for all such functions; the harness passes Go's values per case",
                     "byte level <-> parsed sequence is the ansi parser (C02); the harness uses the real parser"],
    "level_text": "Key decoding/matching: all Props/C09 theorems proved for all inputs over the model of key.go tied to the source by "
                  "Gen/Keys.lean (tables, constants, labels; regenerated) and by correspondence of decodeKey/Matches/MatchString/String.",
    "level_note": "Proved for all masks/keys/unicode tables: match_strong_mods, locks_irrelevant, shift_forgiveness, decode_exact_*, "
                  "self_match (every pressed chord, table parts by kernel decide), cross_protocol. Validated by correspondence only: the hand-transcribed "
                  "bodies of decodeKey/Matches/MatchString/String (0 mismatches required). Modelled not verified: unicode tables, parser.",
    "assumptions": ["binding strings and Key.Text are valid UTF-8 (modelled as code-point lists)",
                    "ModifierMask values are non-negative (decodeKey clamps)"],
    "timeout": 900,
}
