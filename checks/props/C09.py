"""C09 configuration for ./check (see checks/propcfg.py for the keys)."""
CFG = {
    "modules": ["VaxisModel.Props.C09", "VaxisModel.Props.C09Body", "VaxisModel.Props.C09Uni", "VaxisModel.Witness.F209", "VaxisModel.Witness.F210", "VaxisModel.Props.C09Driver", "VaxisModel.Props.C09Int64", "VaxisModel.Props.C09Sound", "VaxisModel.Props.C09CrossUni"],
    "extractors": ["C09"],  # Gen/Keys.lean, Gen/Mouse.lean, Gen/KeyBody.lean
    "drivers": ["C09"],
    "trivial_prefix": (),
    "rule": "e2e: every 3rd (quick) / 4th (thorough) dec case injected into a real Vaxis on the fake console, Key read from Events(); dec: every printable ASCII byte, other scripts, raw bytes 0x80-0xFF, all C0, ESC+byte, SS3+byte, CSI reports over a "
            "number grid (0-40, 32-127, 57340-57460, other scripts) x finals x 15 field combinations x modifier masks (sampled quick / "
            "all 256 thorough), parameterless CSI, 27;m;k~, raw CSI fuzz incl. 2^31+ parameters; mat: chord sample x related binding "
            "runes x all 256 masks (+ a 9-bit mask); mstr/str: own String(), case/ordering variants, random binding strings, every "
            "Key* constant x masks; xp: every chord the xterm legacy encoder expresses x kitty forms x bindings. "
            "self: every event type but release (repeat / paste / motion / unknown) x special keys x masks; hypl: the law UpperHasLower on all lower-case runes of Unicode; "
            "hypa/hyp: hypotheses of self_match / cross_protocol_char_* evaluated on Go's unicode tables; xpu: character keys of other scripts "
            "(fixed awkward list, all 27 title-case targets, 25/830 lower-without-upper, 60/3000 random) under legacy vs kitty on the real code; "
            "dec:csi-minint64: modifier / event parameters that wrap to math.MinInt64. "
            "Every line also runs the bodies extracted from key.go on this run (Gen/KeyBody.lean, interpreted) against the hand model. Distinct by op line.",
    "trusted_base": ["unicode.IsUpper/IsLower/IsLetter/IsGraphic/IsPrint/ToUpper/ToLower and simple case folding are parameters of the "
                     "model (structure Uni); theorems hold for all such functions; the harness passes Go's values per case",
                     "byte level <-> parsed sequence is the ansi parser (C02); the harness uses the real parser",
                     "the Go-body interpreter Model/GoInterp.lean (meaning of the extracted statement language) and the go/ast translator "
                     "extract/cmd/C09/gobody - validated against the implementation on every case"],
    "level_text": "Key decoding/matching: all Props/C09* theorems proved for all inputs over the model of key.go tied to the source by "
                  "Gen/Keys.lean (tables, constants, labels; regenerated), Gen/KeyBody.lean (the four function bodies as decision-structure terms; "
                  "regenerated, interpreted) and by correspondence of decodeKey/Matches/MatchString/String.",
    "level_note": "Proved for all masks/keys/unicode tables: match_strong_mods, locks_irrelevant, shift_forgiveness, decode_exact_*, "
                  "self_match (every pressed chord, table parts by kernel decide), cross_protocol (ASCII table) and cross_protocol_char_* "
                  "(character keys of any script, every Uni meeting explicit hypotheses, checked at run time on Go's tables), decode_csi_total "
                  "(every CSI parameter list over Z). Body tie: matches_body_eq_model (the interpreted body of Key.Matches extracted this run = "
                  "the hand model, all inputs); round 4: string_body_eq_model, matchString_body_eq_model (calling the interpreted Matches) and decodeKey_body_eq_model "
                  "(per arm: print / esc / csi without hypothesis, c0 / ss3 for int32 payloads - ansi.C0 / ansi.SS3 are Go runes; all loops by a generic loop-invariant "
                  "lemma over GoInterp.loop): the interpreted bodies extracted this run = the hand model for ALL inputs, so every theorem about decodeKey / String / MatchString "
                  "is about the code's own decision structure; the syntactic pins (facts_*_body) stay and every case still runs the bodies next to model and implementation. "
                  "Round 4 also: Props/C09Sound - binding_soundness (ONE statement: Matches => strong modifiers and every bit but Shift/Caps/Num identical, locks irrelevant, "
                  "Shift forgiven only by rules 3/5/6, key agrees under one of the six rules; all runes, any Uni), self_match_every_event / _decoded / _pasted (every event type "
                  "but a release: repeat, paste, motion, any value - Spec.bindableEvent; the self oracle and generator cover them), cross_protocol_char_plain_keycode "
                  "(the plain-key theorem with the kitty protocol's own domain condition ToLower c = c plus the table law UpperHasLower, checked over ALL of Unicode on Go's tables by the hypl op: "
                  "the 27 title-case letters are decided OUTSIDE - not kitty key codes - and are still run on the real code, class outside:not-a-kitty-key-code). "
                  "F513 fixed (dd2d171): SS3 E = Begin (Spec.ss3Table row; ss3_is_spec). Props/C09CrossUni: cross_protocol_any_uni - the 376-chord cross-protocol table for EVERY oracle that agrees with Go on ASCII and the key codes "
                  "and satisfies UpperHasLower (decodeKey_congr + xp_dom + sameForMatching_sound_agree; both hypotheses evaluated on Go's tables by hypk / hypl). matches_body_variadic (the extracted Matches body on ANY variadic modifier list = the model with the OR of the list; _0/_1/_2 instances; every mat case also calls the real variadic forms). F209 (rule 6 on runes that are their own upper case) and F210 (Shift-text work-around ignored the reported "
                  "shifted code) are fixed in the source (2174a90, 4ca4c24): cross_protocol_char_plain now only excludes lower-case runes WITH an "
                  "upper case of their own mapping to the key (27 title-case letters of Go's tables, not keys; Witness/F209 proves the hypothesis "
                  "is needed), cross_protocol_char_shift has no hypothesis on ToUpper any more (Witness/F210: regression theorems). "
                  "Round 3: cross_protocol_grapheme_plain/_shift (multi-code-point clusters), Props/C09Driver (hdom of the _checked theorems "
                  "discharged for the driver's mkUni), Props/C09Int64 (Go's 64-bit int: int64_sub_one, decode_int64_agrees, "
                  "decode_min_int64_mods; the driver compares the implementation with decodeKey64, MinInt64 cases in the dec stream), "
                  "rune_conversion_wraps_32, shift_forgiven_only_documented, decode64_csi_total; xpg stream (grapheme clusters under both encodings on the real code). Modelled not verified: unicode tables, parser.",
    "assumptions": ["binding strings and Key.Text are valid UTF-8 (modelled as code-point lists)",
                    "ModifierMask values are non-negative (decodeKey clamps)",
                    "Go int modelled as Z; the 64-bit wrap of pm[0]-1 / EventType(ps)-1 at math.MinInt64 is modelled by decodeKey64 "
                    "(Props/C09Int64: equal to the Z model everywhere else); CSI parameters are assumed to be int64 values (what the parser delivers)"],
    "timeout": 900,
}
