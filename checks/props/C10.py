"""C10 configuration for ./check (see checks/propcfg.py for the keys)."""
CFG = {
    "modules": ["VaxisModel.Props.C10", "VaxisModel.Props.C10Shutdown", "VaxisModel.Props.C10Use", "VaxisModel.Props.C10Inventory", "VaxisModel.Props.C10Spinner", "VaxisModel.Props.C10Resume", "VaxisModel.Props.C10Protect", "VaxisModel.Props.C10Timer", "VaxisModel.Witness.F13", "VaxisModel.Witness.F33", "VaxisModel.Witness.F53", "VaxisModel.Witness.F210", "VaxisModel.Witness.F410"],
    "extractors": ["C10"],
    "drivers": ["C10"],
    "stateful": True,
    "trivial_prefix": ("-",),
    "rule": "one seeded many-goroutine schedule per case on a real Vaxis over the fake console: post (1-8 posters x 1-200 posts "
            "mixing PostEvent/PostEventBlocking/SyncFunc/Resize, concurrent CursorPosition/ClipboardPop and unsolicited replies, queue "
            "capacity 1..64 or default, 0-60 keys, a consumer), suspend (1-4 Suspend/Resume cycles under posters and input incl. lone ESC "
            "around the 10 ms timer), cycles (sessions S/R/C of a sequential main goroutine on a tty-like console, the shutdown DA1 reply "
            "arriving early / at once / late; returned? and goroutines gone? after every Suspend and Close, compared with the LTS), forced "
            "(schedules forced through the verifC10 yield points — second Close in the first's window, Close during input handling, kill "
            "signal with sequences pending, full queue — replayed label by label on the LTS, incl. the drain steps of WaitClose and the quit arm "
            "of the blocking post), cycles with nocons=1 (no consumer, queue full from the start: the input goroutine blocked in its first post, "
            "Resume while the previous input goroutine is still alive), fullclose, sigclose (F53 / F13 schedules, now expected to return with "
            "nothing left), sigsuspend (the application's Suspend against the kill-signal Close, both orders), dblclose, lostkey (F3-like keys after a cursor-position query given up / answered / absent, control run as reference), sigblocked (kill signal while the input goroutine is blocked in a post), "
            "contract (Resume's precondition violated: witness), race (the post/suspend, dblclose, sigsuspend and sigrender schedules in a child built with -race); non-trivial = every schedule "
            "line, distinct by its parameters",
    "trusted_base": ["the trace conditions checked by the driver for post schedules (per-poster order, no duplicate, nothing invented, no blocking post "
                     "missing) are the observable consequences of the queue LTS",
                     "replayTrace: the parser's rune steps, the terminal's reply and the application's receives have no yield point and are hidden labels (weak trace "
                     "inclusion, searched over two schedules of the hidden labels: lazy and eager); round 4: the three steps of the tail of Parser.run (loop left / EOF emitted / channel closed) ARE recorded "
                     "(C08's verifSched points 20 / 25 / 29) and replayed as labels (a trace that does not replay with them because of a cross-goroutine order flip is replayed once more without them)",
                     "`close(p.sequences); p.closed <- true` is one step of the parser in the LTS (the `!ok` arm of WaitClose is then the same step as its `closed` arm)",
                     "stack-dump classification of library goroutines (ansi.(*Parser).run, openTty.func1); bounds 3 s / 0.7 s for 'returns'",
                     "Go race detector (supporting evidence only; a reported race is treated as a violation)"],
    "assumptions": ["the terminal answers the DA1 query written by Suspend",
                    "real time abstracted (time-outs / the 10 ms escape timer are nondeterministic labels)",
                    "Resume is called by the application after its Suspend has returned (nobody inside Close/Suspend) and not after Close; "
                    "Close and Suspend by any goroutine at any time (input goroutines included: signal arm, panic path)"],
    "level_text": "Concurrency, message level. Queue: fifo_per_poster, delivered_sublist_posted for all interleavings and any number of posters; "
                  "blocking_post_never_dropped until Close has completed (PostEventBlocking gives up only on the closed chQuit: "
                  "blocking_post_dropped_only_after_quit); the same over ONE LTS with all actors (posters, queries over the hand-off channels with "
                  "their real capacities, input goroutine, application): no lost event, input never blocked by a hand-off, no deadlock while the "
                  "application receives. Shutdown (F13, F33, F53 all repaired in /repo): a variant function strictly decreases on every scheduler "
                  "label in every state (no schedule runs for ever, no fairness needed); under the protocol invariant — which has NO hypothesis on "
                  "the queue, the consumer, kill signals, the goroutine Close runs on, or who calls Suspend when — EVERY maximal run ends with all callers of Close/Suspend "
                  "returned, the parser goroutine done, and once closed every input goroutine done and chQuit closed exactly once "
                  "(shutdown_completes, close_completes); after a bare Suspend an input goroutine can only be left blocked in a post the application "
                  "has not received (postBlocked; suspend_leaves_nothing otherwise). The invariant holds along every history: any number of "
                  "Suspend/Resume cycles, Resume while the previous input goroutine is alive (it is a component of the LTS), input, SIGWINCH, kill "
                  "signals, panics of an input goroutine, Close AND Suspend from any goroutine at any moment (Suspend/Resume serialised by suspendMu = "
                  "suspLock of the LTS; only Resume keeps a side condition) (session_invariant). chQuit closed at most once in every reachable "
                  "state unconditionally. lock_order over all lock sites; goroutine / timer / mutex / lock-site / channel inventory complete (extractor).",
    "level_note": "Partial by nature: data-race freedom (Go memory model) is outside any Lean theorem; -race stress runs are supporting evidence for the "
                  "correspondence only. Round 4: the locking discipline IS a theorem over regenerated facts (extract/cmd/C10/protect.go: every access to a field of Vaxis / writer / Parser / spinner.Model "
                  "with kind and mutexes held incl. call-site sets; goroutine roles by call graph): protected_by (which shared field is under which mutex / atomic), shared_fields_protected (the unprotected shared fields are EXACTLY "
                  "the 12 of confinedBy, each with its reason), any_goroutine_api, roles_complete — a new unprotected access changes a Gen fact. Finding F410 (recorded): the Close run by the kill-signal arm / panic handler on the input "
                  "goroutine is concurrent with the main goroutine's frame (writer.buf, cursorNext, cursorLast, charCache unprotected: Witness/F410; race group sigrender reports the pairs). "
                  "Resume's side condition is an explicit precondition theorem (Props/C10Resume.resume_precondition; resume_after_close_leaves_goroutines and op `contract` show what happens without it); a kill signal that finds the "
                  "input goroutine blocked in a post is decided outside the text (kill_signal_waits_for_the_consumer, served_signal_completes; op `sigblocked`). No-lost-event is also exercised for keys shaped like a cursor-position "
                  "report around a query given up / answered / absent (op `lostkey`). Goroutine-leak freedom is a theorem of the LTS (goroutines done at rest) and checked on the real code by stack "
                  "dumps after every Suspend/Close of the cycles sessions and after fullclose / sigclose. Source facts the theorems need, pinned to "
                  "Gen/Conc.lean: statement order of Suspend, Resume clearing `suspended`, Close's test-and-set, and (round 3) the statement skeletons "
                  "of Parser.WaitClose / Close / emit / run's tail, PostEvent / PostEventBlocking and the input goroutine (waitclose_drains, "
                  "input_loop_leaves_on_closed_channel, blocking_post_selects_quit; the first and the last also configure the LTS — waitDrains, postQuitArm — and "
                  "drain_matters / quit_arm_matters show the old stuck / leaking states without them). Assumed, not guaranteed by the code: Resume only after the "
                  "application's Suspend returned and not after Close. lock_order (round 3): branch-structured events, callees qualified by receiver type (by the receiver "
                  "expression's last component: vx/Vx, tw/w, parser/p, m, win), every transitively locking function listed; mutexes are named by the same "
                  "convention, no type checker is run. Round 4: the escape timer IS a component of the shutdown LTS "
                  "(Model/ConcTimer: TSys = SSys x timer slot, Parser.mu exclusion between the callback's emit and the parser's rune steps / run's tail, stale generation, any number of lone ESCs): "
                  "Props/C10Timer.shutdown_completes_with_timer (variant muT, both invariants preserved, at rest all callers returned / parser done / no timer pending), timer_never_emits_into_closed_channel, run_tail_bumps_before_close. The spinner's loop is its own component (SpSys, "
                  "Props/C10Spinner: one live goroutine, ticks never block, Stop ends every spinner goroutine, its posts are posts of the queue LTS); "
                  "nothing in Close stops a spinner (the widget's own Start/Stop life cycle).",
    "technique": "Lean 4 invariants over labelled transition systems; go/ast extractor (lock sites, channel capacities); seeded stress harness, -race child",
    "timeout": 3000,
}
