"""C10 configuration for ./check (see checks/propcfg.py for the keys)."""
CFG = {
    "modules": ["VaxisModel.Props.C10", "VaxisModel.Props.C10Shutdown", "VaxisModel.Props.C10Use", "VaxisModel.Props.C10Inventory", "VaxisModel.Witness.F13", "VaxisModel.Witness.F33", "VaxisModel.Witness.F53"],
    "extractors": ["C10"],
    "drivers": ["C10"],
    "stateful": True,
    "trivial_prefix": ("-",),
    "rule": "one seeded many-goroutine schedule per case on a real Vaxis over the fake console: post (1-8 posters x 1-200 posts "
            "mixing PostEvent/PostEventBlocking/SyncFunc/Resize, concurrent CursorPosition/ClipboardPop and unsolicited replies, queue "
            "capacity 1..64 or default, 0-60 keys, a consumer), suspend (1-4 Suspend/Resume cycles under posters and input incl. lone ESC "
            "around the 10 ms timer), cycles (sessions S/R/C of a sequential main goroutine on a tty-like console, the shutdown DA1 reply "
            "arriving early / at once / late; returned? and goroutines gone? after every Suspend and Close, compared with the LTS), forced "
            "(schedules forced through the verifC10 yield points — second Close in the first's window, Close during input handling, kill "
            "signal with sequences pending, full queue — replayed label by label on the LTS), fullclose, sigclose, dblclose, race (the "
            "post/suspend and dblclose schedules in a child built with -race); non-trivial = every schedule line, distinct by its parameters",
    "trusted_base": ["the trace conditions checked by the driver for post schedules (per-poster order, no duplicate, nothing invented, no blocking post "
                     "missing) are the observable consequences of the queue LTS",
                     "replayTrace: parser steps, the terminal's reply and the application's receives have no yield point and are hidden labels (weak trace inclusion)",
                     "stack-dump classification of library goroutines (ansi.(*Parser).run, openTty.func1); bounds 3 s / 0.7 s for 'returns'",
                     "Go race detector (supporting evidence only; a reported race is treated as a violation)"],
    "assumptions": ["the terminal answers the DA1 query written by Suspend",
                    "real time abstracted (time-outs / the 10 ms escape timer are nondeterministic labels)",
                    "Suspend/Resume are called by one (main) goroutine sequentially; Close by any goroutine",
                    "a consumer that keeps receiving, or room in the queue for the events in flight (otherwise F53), and Close not on the input goroutine (otherwise F13)"],
    "level_text": "Concurrency, message level. Queue: fifo_per_poster, blocking_post_never_dropped, delivered_sublist_posted for all interleavings; the same "
                  "over ONE LTS with all actors (posters, queries over the hand-off channels with their real capacities, input goroutine, application): "
                  "no lost event, input never blocked by a hand-off, no deadlock while the application receives. Shutdown: a variant function strictly "
                  "decreases on every scheduler label in every state (no schedule runs for ever, no fairness needed); under the protocol invariant "
                  "(any number of Close callers, Suspend/Resume cycles by induction over histories) EVERY maximal run ends with all callers returned, "
                  "parser and input goroutine done, chQuit closed once; chQuit closed at most once in every reachable state unconditionally (F33 fixed). "
                  "lock_order over all lock sites; goroutine / timer / mutex / lock-site / channel inventory complete (extractor). F13, F53 remain "
                  "reachable stuck states (witnesses), reproduced on the real code incl. through forced schedules.",
    "level_note": "Partial by nature: data-race freedom (Go memory model) is outside any Lean theorem; -race stress runs are supporting evidence for the "
                  "correspondence only. Goroutine-leak freedom is a theorem of the LTS (goroutines done at rest) and checked on the real code by stack "
                  "dumps after every Suspend/Close of the cycles sessions. The statement order of Suspend and Resume's clearing of `suspended` are "
                  "Gen facts the theorems need. A Resume while the previous input goroutine is still draining, the escape timer (C08) and the "
                  "spinner loop are not components of the shutdown LTS.",
    "technique": "Lean 4 invariants over labelled transition systems; go/ast extractor (lock sites, channel capacities); seeded stress harness, -race child",
    "timeout": 3000,
}
