"""C10 configuration for ./check (see checks/propcfg.py for the keys)."""
CFG = {
    "modules": ["VaxisModel.Props.C10", "VaxisModel.Props.C10Shutdown", "VaxisModel.Props.C10Use", "VaxisModel.Props.C10Inventory", "VaxisModel.Witness.F13", "VaxisModel.Witness.F33", "VaxisModel.Witness.F53"],
    "extractors": ["C10"],
    "drivers": ["C10"],
    "stateful": True,
    "trivial_prefix": ("-",),
    "rule": "one seeded many-goroutine schedule per case on a real Vaxis over the fake console: post (1-8 posters x 1-200 posts "
            "mixing PostEvent/PostEventBlocking/SyncFunc/Resize, queue capacity 1..64 or default, 0-60 keys of terminal input, a "
            "consumer), suspend (1-4 Suspend/Resume cycles under posters and input incl. lone ESC around the 10 ms timer), "
            "fullclose (Close with a full queue and pending input), sigclose (Close from the input goroutine's signal arm), "
            "dblclose (concurrent Close), race (the post/suspend and dblclose schedules in a child built with -race); "
            "non-trivial = every schedule line, distinct by its parameters",
    "trusted_base": ["the trace conditions checked by the driver (per-poster order, no duplicate, nothing invented, no blocking post "
                     "missing) are the observable consequences of the queue LTS; the interleaving itself is not observable without yield points",
                     "Go race detector (supporting evidence only; a reported race is treated as a violation)"],
    "assumptions": ["the terminal answers the DA1 query written by Suspend",
                    "real time abstracted (time-outs / the 10 ms escape timer are nondeterministic labels)",
                    "weak fairness of the Go scheduler for the shutdown progress statement"],
    "level_text": "Concurrency, message level: fifo_per_poster, blocking_post_never_dropped, delivered_sublist_posted proved for all "
                  "interleavings of the queue LTS; lock_order proved over the regenerated lock sites; shutdown_completes proved under "
                  "explicit hypotheses (room in the queue, a single Close caller that is not the input goroutine); F13, F33, F53 are "
                  "reachable stuck/panicking states of the shutdown LTS (witnesses) and are reproduced on the real code.",
    "level_note": "Partial by nature: data-race freedom (Go memory model) is outside any Lean theorem; -race stress runs are supporting "
                  "evidence for the correspondence only. Goroutine-leak freedom is checked by the harness (stack dump), not proved, beyond "
                  "the LTS statement that all modelled goroutines reach done.",
    "technique": "Lean 4 invariants over labelled transition systems; go/ast extractor (lock sites, channel capacities); seeded stress harness, -race child",
    "timeout": 3000,
}
