"""C11 configuration for ./check (see checks/propcfg.py for the keys)."""
CFG = {
    "modules": ["VaxisModel.Props.C11", "VaxisModel.Props.C01App", "VaxisModel.Props.C11Gfx", "VaxisModel.Props.C11Display", "VaxisModel.Witness.C11ShowCursor", "VaxisModel.Witness.F111", "VaxisModel.Props.C11Body"],
    "extractors": ["C11", "C07", "C20"],
    "drivers": ["C11"],
    "stateful": False,
    "trivial_prefix": (),
    "rule": "one case = (capabilities, screen <= 6x4, window chain of struct-literal / New steps with offsets and sizes in "
            "[-3, parent+3], one draw op). Geometry: depth <= 2 enumerated exhaustively per axis (x against sampled y and "
            "vice versa; the code treats the axes by separate identical expressions) with Fill (all in-window offsets at "
            "once) and SetCell/SetStyle at the 16 boundary offset classes; random chains of depth <= 4 with every op "
            "(setcell setstyle fill clear print trunc println wrap); all strings of length <= 3 (4 thorough) over "
            "{a, 世, NL, TAB, combining, space} on widths 0..4; random strings over the DESIGN §3.1 alphabet. "
            "distinct = distinct op line; a case is counted non-trivial whatever it draws (drawing nothing is the "
            "expected result for most out-of-range geometries; the distribution shows draws-something/draws-nothing).",
    "trusted_base": ["uniseg grapheme/line segmentation, uniseg/runewidth widths and strings.ContainsRune are parameters "
                     "(Lib, Raw): computed by the real libraries in the harness and passed to the model per case",
                     "the observation hooks VerifC11NextCells (copy of the next-frame buffer), VerifC11CursorNext and the setter VerifC11SetWidthCaps"],
    "assumptions": ["the next-frame buffer has the shape resize() gives it (Screen.WF) — resize is the only writer of buf/rows/cols"],
    "level_text": "Proved for all integer geometries, chains, screens, texts and library functions: setCell_clip / setStyle_clip "
                  "(changed cell = origin+offset, inside the window, every ancestor and the screen; else unchanged), "
                  "drawops_clip and its instances for Fill/Clear/Print/PrintTruncate/Println/Wrap, fill_covers, "
                  "screen_index_ok (no index panic), print_is_layout / println_is_layout / printTruncate_is_layout / "
                  "wrap_is_layout (the SetCell calls are the reading-order layout of the spec, which since the F111 repair starts a new row for a cluster that does not fit in the rest of the row and skips one wider than the window), "
                  "print_order / wrap_order (strictly increasing reading order), layout_one_call_per_cluster, new_region; print_fits / wrap_fits / println_fits / printTruncate_fits (every call has col + width <= window width), "
                  "cluster_extent_clip / text_extent_clip (on a right-nested chain — everything vx.Window() and New build: new_rightNested — every cluster written into the clip region occupies only columns of the clip region: "
                  "containment at the property's observation point without the F111 exclusion); calls_display_clip with instances for SetCell, Fill, Print, PrintTruncate, Println, Wrap (Props/C11Display: what the terminal shows after a Render "
                  "— expectedC of the buffer — at every screen cell outside the clip region is the same before and after the call, given that no glyph of the row left of the clip region's right edge reached it before, a state the call re-establishes); composed with the C01 renderer and the "
                  "reference terminal: app_history_displays, app_screen_is_last_write (Props/C01App: what the terminal shows after a Render is "
                  "the fold of the Spec.Window writes that hit each cell); showCursor_position / showCursor_in_screen (Window.ShowCursor = origin + "
                  "offset, unclipped); clear_resets_all_placements / render_after_clear_deletes_all (Clear on any window empties the next-frame "
                  "placement list, joined with C20's placement model).",
    "level_note": "Model tied to the source by Gen/WindowFacts.lean (guards, clamp switch, tab count, re-measure sites, pen conditions, and the full statement skeletons of ShowCursor/Fill/Origin/Clear/Print/"
                  "PrintTruncate/Println/Wrap with locals under role names: facts_helper_skeletons, helpers_fully_recognised; "
                  "theorems facts_* fail to compile when window.go/screen.go/character.go change shape, renaming a local does not) and by the "
                  "correspondence run through real Window values on a real Vaxis (fake console), now including Window.ShowCursor. "
                  "The oracle also observes the text helpers through the reference terminal's reading (continuation columns of wide "
                  "clusters): F111 (Print/Wrap put a cluster wider than the rest of the window's row on its last column; it was displayed beyond the window) is FIXED in /repo 05ee32f "
                  "(Witness/F111.lean keeps the old loop and shows both behaviours). Round 4: the primitives are interpreted, not only pinned — Props/C11Body: setCell_body_eq_model / setStyle_body_eq_model / "
                  "screen_put_body_eq_model (Win.put, Screen.setCell, Screen.setStyle = the guards, delegation calls and assignments extracted from window.go / screen.go on this run, evaluated; "
                  "an unknown disjunct rejects, an unknown call is none), showCursor_body_eq_model / origin_body_eq_model / fill_body_eq_model / clear_body_eq_model (Window.ShowCursor, Origin, Fill, Clear run from their regenerated skeletons "
                  "= cursorPos / Win.origin / fillOps). Known finding: F111b (a struct-literal child reaching beyond its parent's right edge accepts a wide cluster on the parent's last column — "
                  "hypothesis rightNested of text_extent_clip, shown necessary; left to the application as window.go documents; its general form is SetCell with a wide cell on a window's last column — the repair in SetCell was evaluated in round 4 and is not safe: "
                  "C14's paint oracle and C16 alarm on the repaired code, literal child windows carry no Vx; notes/C11.md) . F111c (Wrap's line segmentation could end inside a grapheme cluster: a flag that begins a later "
                  "Segment, space + combining mark) is FIXED in /repo 1f9a9ad; oracle 'clusters of the line segments = clusters of the Segment text' (the line segments are a parameter of the model, computed by the harness with Wrap's own loop). Validated by correspondence only: that the Lean transcription of the loops equals the Go loops "
                  "beyond their pinned statement structure. The spill oracle covers the four text helpers and SetCell/Fill (F111b is the general form: SetCell looks at the cell's column only).",
    "technique": "Lean 4 proof (induction on the parent chain / on the text) + extractor + differential correspondence",
    "timeout": 900,
}
