"""C12 configuration for ./check (keys: see checks/propcfg.py)."""
CFG = {
    "modules": ["VaxisModel.Props.C12", "VaxisModel.Props.C12Read", "VaxisModel.Props.C12Resize", "VaxisModel.Props.C12Startup", "VaxisModel.Witness.F112b", "VaxisModel.Witness.F112c", "VaxisModel.Witness.F112d"],
    "extractors": ["C07", "C04", "C05", "C03", "C12", "C07caps"],
    "drivers": ["C12"],
    "stateful": True,
    "trivial_prefix": ("-", "bytes="),
    "rule": "end to end on the real code: a Vaxis whose console is the real embedded emulator (term.Model without PTY; bytes -> real "
            "ansi parser -> update(); the emulator's replies are the console input); the same frame histories as C01 "
            "(bounded-exhaustive two-frame histories on 1x4 + random histories with resizes, 1 in 3 starting with content a shell left on the primary screen + scenarios lp-semicolon, merge-0..2, resize-pen/-wrap/-scroll/-link/-grow); per frame "
            "(1) emurender/emurefresh: the emulator snapshot against the application's screen and cursor (oracle on the implementation), "
            "(2) emustate: THE COMPOSITION OF THE MODELS - renderer model (renderFrameC) -> wire (Model.C12Compose.opsOfToks) -> emulator "
            "model (runOps) against the real emulator's full state, (3) emudraw: the cells Draw puts into a host Vaxis window; per session "
            "(every 8th) emuquery/emucaps: every start-up sequence with the real reply against Model.C12Replies.replies, the derived "
            "capabilities (C03's handleSequence model on the modelled replies) against the detected ones, startupQueries against what "
            "Vaxis really wrote; non-trivial = an emurender/emustate/emudraw/emuquery/emucaps line; distinct by case op list",
    "trusted_base": ["Spec.Expected (meaning of the application's screen), Shows/CellRel/HostRel (what 'the emulator cell shows the "
                     "display cell' means; erased cell = default-style space with the stored background; shadow reading under wide glyphs)",
                     "the wire Model.C12Compose.opsOf (tokens -> parsed sequences; validated per frame by the composition stream)",
                     "renderer model and Spec.Display theorems of C01 (history of Ready terminals, bad = none), emulator model of C05, "
                     "C06's exact-result lemmas for print and sgr_pen, C03's handleSequence model; round 3 also C05's resize_frame / resize_safe, C01's Lemmas/RenderCursor, "
                     "C07's Model/Startup + caps_exact (each tied to the code by its owner's stream)",
                     "Model.C12Read.readScreen / readCursor (what 'reading the emulator back' means; evaluated on the real state every frame)"],
    "level_text": "Round 3: (a) emu_shows_across_resizes / emu_reads_back_across_resizes (Props/C12Resize) - THE COMPOSITION THEOREM FOR WHOLE HISTORIES "
                  "INCLUDING RESIZES: from any state of an application on the alternate screen whose last flush is complete (LinkedR; established by "
                  "the real start-up stream: emu_real_startup_on_alt, and re-established by every frame and every resize), for every list of segments "
                  "(resize of the emulator to any size 1x1..65535^2 - directly or by Draw into a window of another size: draw_resizes_linked - then any "
                  "number of admissible frames at that size, the first a refresh) the emulator model never panics and after every frame of every segment "
                  "its grid shows the application's screen and its cursor is as requested at that segment's size; uses C05's resize_frame / resize_safe "
                  "after the F112c repair (aefad78) and C01's cursor_nonempty (the refresh frame does not rely on the cursor position). (b) shows_reads_back / "
                  "emu_reads_back_every_frame (Props/C12Read) - the conclusion as EQUATIONS: readScreen enc e.active = expectedC (a function of the emulator "
                  "grid: glyph cells decoded by enc, erased cells blank with their background, cells under a wide glyph = continuation) and readCursor e = the "
                  "requested cursor; enc must invert dec on the strings of the frame. (c) emu_dialogue_caps (Props/C12Startup) - THE START-UP DIALOGUE FOR EVERY "
                  "INTERLEAVING: with the emulator model's replies to sendQueries() as the inputs of Vaxis' input goroutine, every run of C07's start-up system "
                  "(input goroutine || explicit-width probe answered or timed out || collection loop || applyQuirks, any queue capacity) that ends by the DA1 "
                  "notification with nothing dropped, no env override and COLORTERM unset leaves exactly {sixels, unicodeCore, osc11 iff the background was "
                  "reported}; the renderer's capabilities are emuCaps (C07's caps_exact + the invariant PInv: nothing on its way to the probe carries a column "
                  "other than 1); emu_dialogue_completes: TERMINATION FOR EVERY INTERLEAVING - a run without time-outs whose inputs are the emulator's replies and "
                  "that cannot be continued without a time-out has New() past applyQuirks with exactly these capabilities (queue >= 7, non-blocking reply sends, "
                  "buffered chCursorPos: liveP_ok, from the regenerated source facts; invariant LInv); emu_dialogue_terminates: such a run exists for every emulator state. "
                  "Earlier rounds - proved over the composed models, for ALL frame histories: emu_shows_application / emu_shows_application_now - from any "
                  "emulator state showing the blank screen with the cursor hidden (one exists for every size 1x1..65535^2: emu_start_related), "
                  "for every history of admissible frames rendered under the capability set detected inside the emulator (first frame a "
                  "refresh), feeding the emulator model the parsed sequences of the renderer model's tokens never panics and after every frame "
                  "the emulator's active grid shows the application's screen cell for cell (grapheme bytes, width, displayed colours and "
                  "attributes, underline, hyperlink URL and parameters; cells under a wide glyph by shadowing; a glyph that does not fit = "
                  "blank in its style, the renderer as repaired by 990e1a4) and the cursor is hidden or visible at the requested position and "
                  "shape. draw_reproduces_screen / draw_shows_cursor: Draw into a host window of the same size makes exactly one SetCell per "
                  "glyph cell, carrying a cell that shows it, at the same coordinates, and shows the application's cursor. emu_caps_exact: from "
                  "any emulator state the model's replies to sendQueries() are DECRPM 2026->0, 2027->3, 2031->0, CPR 1;1, (OSC 11 iff host "
                  "known), DA1 ?62;4;22c, and C03's model of handleSequence/New() derives exactly sixels + unicodeCore (+osc11) - the renderer "
                  "capabilities are emuCaps; undetected_is_ignored: modes 2026/2031/2048, kitty keyboard CSI u and the OSC 66 probe are "
                  "no-ops of the emulator model. emu_shows_application_clustered: the same with the emulator's parser re-segmenting consecutive text "
                  "(opsOfToksM), for histories in which no two graphemes of a frame merge. emu_shows_every_frame: the same after EVERY frame k, and the run over the whole history passes "
                  "through that state. emu_real_startup_related: the emulator model fed the byte stream the real Vaxis writes at start-up "
                  "(startupAll, compared with the real stream on every run) ends in a start state of the composition theorem (20x6, kernel "
                  "evaluation). facts_device_attributes / facts_cursor_report / facts_decrpm / facts_queries / facts_wire: the reply literals of "
                  "csi()/decrqm(), the statements of sendQueries() and the renderer's templates of sequences.go, regenerated from the source on "
                  "every run (extract/cmd/C12 -> Gen/TermReplies.lean), are what Model/C12Replies and the wire opsOf say, for all arguments. "
                  "emu_frames_vocabulary, emu_reference_display (round 1).",
    "level_note": "Hypotheses (explicit, with non-vacuity examples): C01's FrameInOkC; every grapheme has width <= 2 and, if its width is "
                  "positive, at least one byte; no ';' in hyperlink parameter strings (necessary: known finding F112b, Witness/F112b, replayed on "
                  "the real code by scenario lp-semicolon); cursor shape value <= 65535; the emulator's parser gives a grapheme the width "
                  "Vaxis' characterWidth gives it (parameter; validated per frame by the composition stream); no two graphemes of a frame "
                  "form ONE cluster when written back to back (NoMergeGrid, hypothesis of emu_shows_application_clustered, where the parser's "
                  "re-segmentation of consecutive text is modelled with parameters merges/cat; necessary: known finding F112d, regional "
                  "indicators / Hangul jamo / emoji+ZWJ in adjacent cells, Witness/F112d over the models, scenarios merge-0..2 on the real code; "
                  "render() writes consecutive cells without a CUP - renderer side, C01 builder informed). The theorems are over the models; the models are tied to the code per frame by the composition stream (full "
                  "emulator state), per start-up by the reply-exchange stream, and by the C01/C05/C03 streams. Sixel graphics behind DA1 "
                  "attribute 4 are outside the emulator model (modelled-not-verified). Resizes: covered by emu_shows_across_resizes for an application on the alternate "
                  "screen (hypothesis mode.smcup, which the real start-up establishes and no token of the vocabulary changes); F112c (resize() left the pen at the "
                  "style of the last reflowed primary-screen cell) was repaired in /repo by the C05 builder (aefad78) - Witness/F112c proves the old code fails and "
                  "the current code keeps the pen, scenarios resize-* and the emuresize verdict replay it on the real code. emu_dialogue_caps / emu_dialogue_completes are over C07's model of New(), "
                  "in which real time is abstracted (a time-out is a label): that the 50 ms / 3 s timers do not fire is an assumption. COLORTERM=truecolor "
                  "inherited from the host sets rgb without a reply (the emulator implements direct colour; the composition theorems are at emuCaps, rgb=false): "
                  "explicit hypothesis colorterm=false. F112b: decision recorded in notes/C12.md - a violation of the text with a one-line repair in render(), not "
                  "made because render()'s skeleton and the raw parameter string are pinned by C01's model (C01 builder declined for this round). "
                  "F02 was repaired in /repo by the C01 builder; the oracle follows.",
    "assumptions": ["the host resizes the emulator before the application is told about a new size"],
    "technique": "Lean 4 proof (simulation Spec.Display ~ emulator model per renderer token, induction over frame histories; kernel "
                 "evaluation of the reply exchange with a symbolic emulator state; invariant over C07's start-up transition system) + correspondence of the composed models with the real code",
}
