"""C12 configuration for ./check (keys: see checks/propcfg.py)."""
CFG = {
    "modules": ["VaxisModel.Props.C12", "VaxisModel.Witness.F112b"],
    "extractors": ["C07", "C04"],
    "drivers": ["C12"],
    "stateful": True,
    "trivial_prefix": ("-", "bytes="),
    "rule": "end to end on the real code: a Vaxis whose console is the real embedded emulator (term.Model without PTY; bytes -> real "
            "ansi parser -> update(); the emulator's replies are the console input); the same frame histories as C01 "
            "(bounded-exhaustive two-frame histories on 1x4 + random histories with resizes); per frame the emulator snapshot is "
            "compared with the application's screen and cursor, and the cells Draw puts into a host Vaxis window with the "
            "emulator grid; the detected capabilities are compared with what the emulator implements; non-trivial = an "
            "emurender/emudraw/emucaps line; distinct by case op list",
    "trusted_base": ["Spec.Expected (meaning of the application's screen), shadow reading of the emulator grid",
                     "renderer theorems of C01/C07 at the emulator's capability set; emulator refinement is C06"],
    "level_text": "Proved: emu_frames_vocabulary (every frame rendered under the capability set Vaxis detects inside the emulator uses only "
                  "CUP, basic/256-colour SGR, OSC 8, raw text, mode 25, cursor shape, pointer shape) and emu_reference_display (C01 display "
                  "theorem at that capability set). The composition with the real emulator is validated end to end on the implementation "
                  "(real renderer bytes into the real emulator) on every frame of every generated history, as is Draw into a host window and "
                  "the start-up reply exchange.",
    "level_note": "The emulator half of the composition theorem is C06's refinement (in progress); until it is complete C12 rests on the "
                  "end-to-end correspondence for the emulator side. Known finding F02 (wide glyph that does not fit) applies here too.",
    "assumptions": ["the host resizes the emulator before the application is told about a new size"],
}
