"""C13 configuration for ./check (see checks/propcfg.py for the keys)."""
CFG = {
    "modules": ["VaxisModel.Props.C13", "VaxisModel.Props.C13Body", "VaxisModel.Props.C13Ext", "VaxisModel.Props.C13Shift", "VaxisModel.Props.C13Child", "VaxisModel.Props.C13Parse", "VaxisModel.Props.C13Keypad", "VaxisModel.Props.C13KeypadPipe", "VaxisModel.Props.C13Uni", "VaxisModel.Props.C13PipeUni", "VaxisModel.Witness.F413"],
    "extractors": ["C09", "C13", "C05", "C02"],
    "drivers": ["C13"],
    "trivial_prefix": ("-|-|", "-|-"),
    "rule": "key: every Key* constant and alias x 8 xterm modifier sets (+ kitty-only modifier sets), every printable ASCII key x 8 "
            "modifier sets as decoded by the real decodeKey from each legacy and kitty encoding of the chord, other scripts, hand-made "
            "odd events; each x 4 (deckpam, decckm) combinations. paste: start/end x all 512 mode combinations. mouse: every MouseButton "
            "constant x press/release/motion x positions from {0,1,94,95,222,223,1000}^2 (sampled quick, all 49 thorough) x 128 "
            "combinations of (1000,1002,1003,1006,1007,1049,DECCKM), odd buttons/event types/modifiers, all 512 modes. "
            "ckey/cmouse/cpaste: the modes are established by child output scripts (DECSET/DECRST of 1,1000,1002,1003,1006,1007,1049,2004 and "
            "distractors, DECKPAM/DECKPNM, RIS; systematic singles/pairs/after-RIS/across-1049 + random scripts) fed through the real "
            "parser and Model.update, then 7 keys, 6 mouse events and both paste boundaries are forwarded; expected modes from Spec.specModes. "
            "Round 2: text productions (grapheme clusters, caps lock / AltGr / compose texts), Ctrl x every printable ASCII key x 4 modifier sets, "
            "cased letters of many scripts (all lower-case code points in the thorough tier) x 17 event shapes with the CasedPair hypotheses checked "
            "on Go's tables (hyp_ok / hyp_violated:*); ppaste: whole bracketed pastes (fixed + random payloads, inner markers) injected into a real "
            "host Vaxis, the posted events forwarded with the real Model.Update, bytes compared with the payload. "
            "Round 3: child scripts are token lists of ANY sequences (mode sequences + other CSI/ESC by label, text, OSC, resizes; c/e tokens "
            "checked with the real parser): noise (about 115 non-mode sequences x alone / after all modes enabled / before RIS / after RIS: ANSI SM/RM of the "
            "private numbers, DECSTR, XTSAVE/XTRESTORE, DECSC/DECRC, movement, erase, SGR, requests, numbers beyond the 65535 clamp, 47/1047/1048), "
            "full-screen sessions (start, work, clean exit / crash + RIS / restart), noise inside the random scripts; release-events / repeat-events "
            "(every special key x 4 modifier sets, ASCII keys plain/Ctrl/Alt, other scripts, decoded kitty release reports). "
            "Round 4: keypad-keys (29 key codes x 8 modifier sets x Num/Caps Lock x bare / legend text / repeat), decoded kitty keypad reports, keypad keys after child scripts. "
            "Non-trivial = something is written towards the child; distinct by op line.",
    "trusted_base": ["unicode.IsLower etc. are parameters of the model (structure Uni)",
                     "bytes -> sequences: the real ansi parser in the harness; in Lean the parser model of C02 (Props/C13Parse) for special keys, ASCII keys, SGR mouse reports, paste markers, text; "
                     "a lone ESC is resolved as the escape time-out does (C08)",
                     "decimal rendering of fmt.Sprintf(\"%d\") and UTF-8 encoding of %c / WriteRune are modelled at the code-point level",
                     "the Go-body interpreter Model/GoInterp.lean and the go/ast translator extract/cmd/C09/gobody (validated against the implementation on every case)",
                     "the emulator model Model/Emu.lean (C05: transcribed bodies tied by C05's own body/correspondence checks) for Props/C13Child; "
                     "its dispatch and mode tables are regenerated (Gen/TermModes, extractor C05) and proved equal to C13's Gen/TermInputModes for every number"],
    "level_text": "Forwarded keys/paste/mouse: Props/C13 theorems proved over the model of widgets/term/key.go, mouse.go and the "
                  "forwarding arms of Update, tied to the source by Gen/TermKeys.lean, Gen/Keys.lean, Gen/Mouse.lean (tables), Gen/TermBody.lean (the three function bodies as "
                  "decision-structure terms, regenerated and interpreted; Props/C13Body proves interpreted body = model for all inputs) and by correspondence.",
    "level_note": "Proved: key_roundtrip (table part by kernel decide over the regenerated tables, all four key-mode combinations), "
                  "cursor_mode_selects, child_modes_conform (decset/decrst/DECKPAM/DECKPNM/RIS tables vs the standard meaning), mouse_roundtrip (all buttons of the API, all positions), mouse_gated, paste_gated; "
                  "C13Ext: text_forwarded, ctrl_char_total, alt_ctrl_letter_is_xterm, shift_/alt_shift_letter_roundtrip (any script, hypotheses on the unicode tables explicit and checked at run time), "
                  "forward_paste_items / paste_payload_intact (any payload, any interleaving of boundaries; BS excluded with a witness), mouse_legacy_total. "
                  "Outside the round-trip domain with the reason in Spec.XtermDomain: Ctrl+Alt+char and Alt+non-ASCII (host parser cannot read xterm's form; bytes pinned). "
                  "Body tie (Props/C13Body): encodeXterm_body_eq_model, handleMouse_body_eq_model, update_body_eq_model - the bodies extracted from "
                  "widgets/term on this run, executed by Model/GoInterp over the regenerated tables, equal the model for every key / mouse event / mode state / unicode oracle; "
                  "the driver also runs them on every case. Validated by correspondence only: the meaning the interpreter gives to the Go statement subset "
                  "(fmt.Sprintf %d/%c, bytes.Buffer, map index, switch) and the go/ast translator. "
                  "Round 3, Props/C13Child (modes selected by the child's own stream, through the emulator model Model/Emu of C05): child_step_conform_all "
                  "(DECSET/DECRST with any parameter list over Z, DECKPAM/DECKPNM/RIS = the standard meaning, from every state), dispatch_is_standard (only CSI ?h / ?l, ESC = > c "
                  "select input modes, any label / parameters, incl. the 65535 clamp), emu_step_selects_modes (every Emu operation, any state), child_stream_selects_modes, "
                  "forwarded_encoding_is_selected (Emu.runOps then Update: the bytes are the encoder's output for the modes the stream last selected), "
                  "ris_restores_input_defaults / after_ris_nothing_enabled, cursor_keys_/paste_/mouse_gated_ follow_child_stream (compositions with cursor_mode_selects, "
                  "paste_gated, mouse_gated). release_not_forwarded (F313 fixed b3daf4e: key releases write nothing). The oracle on the real code uses Spec.specModesOfStream on token scripts "
                  "fed through the real parser and Model.update. "
                  "Props/C13Parse (composition with the parser model of C02, Model.Parser.run over the regenerated table): special_key_reports_parse_back, ascii_key_reports_parse_back "
                  "(every xterm legacy report the encoder writes, as bytes, parses back from ground to exactly that sequence; kernel decide), sgr_mouse_report_parses_back (any button / position < 2^63, "
                  "via C02.csi_roundtrip and decimal = digitsOf), paste_markers_parse_back, text_parses_back, alt_char_parses_back + alt_domain_is_parser_domain (the Alt exclusions of the round-trip "
                  "domain are exactly the bytes the parser's escape state does not dispatch). "
                  "Round 4: F413 FIXED (/repo 77b235a, keypad block of encodeXterm + two tables): Props/C13Keypad - keypad_application_mode (DECKPAM, no Shift/Alt/Ctrl/NumLock: SS3 + xterm's final, "
                  "any event shape / Uni), keypad_is_its_legend (otherwise the key is encoded exactly as the key its legend names, so every theorem about ordinary keys transfers), "
                  "keypad_mode_selects (the statement that was the witness of F413, now a theorem; xterm's Num Lock override explicit), keypad_roundtrip (29 keypad keys x 8 modifier sets x Num Lock x 3 shapes x 4 modes, "
                  "kernel decide over the regenerated tables: application code, or bytes of the legend key + its round trip; Begin = CSI E / SS3 E / CSI 1;m E decoded back), table theorems in both directions; "
                  "Props/C13KeypadPipe - key_pipeline / keypad_key_pipeline (bytes of encodeXterm -> parser model -> one sequence -> decodeKey matches, over the whole 4880-event and 1392-event domains x 4 modes), the keypad reports parse back through the parser model, keypad_follows_child_stream (modes as last selected by the child's stream); Witness/F413 keeps the regression statements. "
                  "encodeXterm_body_eq_model re-proved compositionally (keypad prefix evaluated symbolically + coreBody = encodeXtermCore for both environment shapes). "
                  "Props/C13PipeUni: key_pipeline_any_uni (the byte-level pipeline statement for every such oracle). Props/C13Uni: key_roundtrip_any_uni / keypad_roundtrip_any_uni - the two kernel-evaluated tables for EVERY unicode oracle that agrees with Go on ASCII and the key codes (congruence lemmas Lemmas/KeyCongr, TermKeyCongr; hypothesis evaluated on Go's tables by the hypk op). "
                  "F513 fixed (dd2d171, root decodeKey: SS3 E = Begin) so that Begin under DECCKM reads back. The oracle judges a keypad key by Spec.keypadJudgedAs (application code, or as the event of its legend key). "
                  "Observations, not defects of the property: DECSTR / XTSAVE / XTRESTORE unimplemented (select nothing), Alt + text production "
                  "is sent as ESC + key. Modelled not verified: parser, unicode tables, pty write.",
    "assumptions": ["Key.Text and the strings written are valid UTF-8"],
    "timeout": 900,
}
