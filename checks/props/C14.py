"""C14 configuration for ./check (see checks/propcfg.py for the keys)."""
CFG = {
    "modules": ["VaxisModel.Props.C14", "VaxisModel.Props.C14Facts", "VaxisModel.Props.C14Body", "VaxisModel.Props.C14Bounds", "VaxisModel.Witness.C14Paint", "VaxisModel.Witness.F39", "VaxisModel.Witness.F40",
                "VaxisModel.Witness.F41", "VaxisModel.Witness.F42", "VaxisModel.Witness.F114"],
    "extractors": ["C11", "C14"],
    "drivers": ["C14"],
    "stateful": False,
    "trivial_prefix": (),
    "rule": "stateless streams through the exported vxfw API, the render entry hooks and the real App.Run: "
            "ws = NewSurface(W,H)+WriteCell(col,row) for every size in {0,1,2,255,256,257,300}^2 and every "
            "coordinate class (0,1,W-1,W,W+1,65535 x 0,1,H/2,H-1,H,H+1,65535 and the rows where row*W crosses 65536), exhaustive; "
            "draw = Draw(ctx) of Text/RichText (hard and soft wrap), TextField, Button, Center and nestings to depth 3 for "
            "Max in {0,1,2,3,5,80,255,256,65534,65535}^2 with contents empty / multi-line / wide / longer / taller than the "
            "constraint (lines from the real scanners and the real Characters); "
            "drawz = Draw(ctx) of a real list.Dynamic in its fresh scroll state (DrawCursor on/off, Gap 0..2, 0..9 items Text/RichText/TextField "
            "and the widgets a list cannot hold: Button, Center, Dynamic; also inside a Center) for the same Max grid and random small Max, "
            "the items Draw drew recorded through the Builder, sizes and origins of every surface compared; "
            "drawzs (round 3) = long lists drawn again after SetCursor/NextItem/PrevItem/SetPendingScroll (scrolled states, items above the viewport): "
            "oracle only (no panic, every surface within its own Max, buffers exact); "
            "render = hand-built surface trees (depth <= 3, <= 4 children, offsets from -2 to beyond the parent, z in -1..2, root smaller/equal/larger "
            "than the screen, every root size 0..5 x 0..4 on a 4x3 screen, surfaces with more than 65535 cells) painted on screens <= 6x4 through the hook "
            "that evaluates App.Run's render call; run = the same families as the root surface of one frame of the real App.Run on a fake console; "
            "bare = random trees through the bare recursive render. distinct = distinct op line.",
    "trusted_base": ["the wrap scanners (C16), text.hardLines (hook VerifC14HardLines; modelled and proved a split in C16) and Characters are parameters: "
                     "the harness passes the lines the real scanners produce for the constraint each leaf receives; theorems hold for every list of lines",
                     "hooks vxfw.VerifC14Render / VerifC14RenderRoot (call the unexported Surface.render; facts_run_render ties the latter's window "
                     "expression to the one in App.Run, and the run stream drives App.Run itself), VerifC14AppVaxis and the C11 snapshot hook",
                     "sort.Slice is modelled as a stable sort (it is an insertion sort below 12 elements); trees have < 12 children",
                     "Model/SurfExec (round 4): the interpreter's reading of Go (typed uint16/int arithmetic, checked index stores, block scoping, pointer receivers updating the receiver variable, "
                     "sort.Slice in place, range evaluating its collection once) is trusted as a semantics of the translated subset; anything outside it is Err.stuck",
                     "which items a list.Dynamic draws (scroll state, heights: property C19) is a parameter of the model; the correspondence run "
                     "covers the fresh scroll state with the model and scrolled states with the oracle only (drawzs); the gutter and cursor-glyph cells of Dynamic "
                     "are not modelled (no effect on sizes)"],
    "assumptions": ["constraints for widgets that allocate Max.Width x Max.Height buffers (Center, Button, Dynamic) are generated only up to "
                    "2,000,000 cells: larger ones are covered by the theorems, not by the correspondence run"],
    "level_text": "Proved for all uint16 constraints, contents and sizes: newSurface_len, writeCell_exact (inside: exactly cell "
                  "row*W+col as a natural number changes; outside: nothing, never a panic); size_le_max for every built-in widget — Text, RichText, "
                  "TextField, Center, Button and list.Dynamic (for every list of items it draws) — and every nesting: either the tree is accepted and the "
                  "surface is no larger than Max, or it stops with the documented bounded-constraint panic, which happens exactly when a Center/Button/Dynamic "
                  "of the tree receives an unbounded Max (accepts_plain, rejects_unbounded, accepts_noDynamic, dynamic_child_needs_unbounded_ok: a Center/Button/"
                  "Dynamic item of a list always panics); widget_inventory_complete (the Draw-bearing types of vxfw/*/ in the source = the modelled widgets); "
                  "center_fits (child inside, margins within one); render_paints at full strength for the render call of App.Run (the rendered screen equals the "
                  "painter's algorithm of Spec.Surface: every surface at parent origin + offset, clipped to itself and every ancestor, the root included, and "
                  "the screen, children after parents in z-order with ties in child order; F114 is fixed), run_frame_paints (Clear + render), render_bare_paints "
                  "(the recursive render without the root window), zorder_is_spec, render_clip, render_last_wins, paint_structure, child_window_clip. "
                  "Round 3: src_guards_strict now also states that each Text/RichText draw function allocates NewSurface(size.Width, size.Height) (interpreted arguments), "
                  "facts_ellipsis_cond. Witness/F39-F42, F114 prove that the uint16 / non-strict / un-clipped variants (the code before the fixes) fail. "
                  "ROUND 4: Props.C14Body (28 theorems) - the bodies of NewSurface, NewSubSurface, AddChild, WriteCell, Fill, HasUnboundedWidth/Height, Surface.render, Center.Draw, "
                  "Text/RichText findContainerSize (soft and hard), Text/RichText drawSoftwrap, Text/RichText Draw (hard wrap, with the ellipsis branch), Button.Draw and TextField.Draw, REGENERATED from the source each run (Gen/SurfaceBodies) and EXECUTED by the statement "
                  "interpreter Model/SurfExec, equal the hand-written model for all inputs (*_body_eq_model; render with the recursive calls being the model - the model is the fixed point of the "
                  "body - and with the receiver's Children left sorted IN PLACE); composed: the executed drawSoftwrap / Draw = Layout.drawText in the soft- / hard-wrap mode of the source. "
                  "Props.C14Bounds: paint_is_painters_algorithm (every own cell, none skipped, then the children SORTED by ZIndex, each in its window), own_cells_all_painted, sorted_children, "
                  "later_call_covers (a later call decides the cell, blank or not); the uint16 boundaries of every size computation for all constraints: size_height_exact (Height += 1 never wraps), "
                  "line_width_mod / line_width_exact (uint16 line width = true width mod 65536), center_offset / center_offset_fits, dynamic_child_width. Witness.C14Paint: skipping blank cells, "
                  "sorting only for positive z, and sorting a copy all differ from the model on concrete trees.",
    "level_note": "Round 4 tie: Gen/SurfaceBodies.lean (go/ast -> tree syntax of Model/SurfLang, statement by statement; unknown shapes degrade to .unknown, bodies_fully_recognised) is EXECUTED by "
                  "Model/SurfExec in the body_eq_model theorems: a rewrite of those bodies that keeps the meaning keeps the theorems (self-test H1: five bodies rewritten at once), one that changes it "
                  "fails the theorem of that function (seeded C14-m3: centerDraw_body_eq). The syntactic pins of these functions were removed (facts_surface is gone; C14Facts keeps "
                  "hardLines and App.Run's frame clause); the driver also EXECUTES the bodies beside the hand model (ws, and draw with any widget but Dynamic at the root) and compares with the real code. Limits: loop proofs name variables by position (a rewrite that adds or removes a local breaks the SCRIPT, not the "
                  "statement); calls of NewSurface/AddChild/WriteCell/Fill inside other bodies are the model functions (each proved equal to its own body); scanners, Characters, the child's Draw and "
                  "recursive render are parameters of the interpreter. Tie (rounds 1-3): Gen/SurfaceFacts.lean regenerated each run. Used by the model: int vs uint16 length and index, >= vs > guards, which window App.Run "
                  "renders into (renderRoot), which widgets have the bounded-constraint panic, the size arguments of every NewSurface call incl. the four Text/RichText "
                  "functions (TextMode.sz; round 3), the conjuncts of the ellipsis condition of the two hard-wrap loops (EllAtom; round 3: the model followed the F316 "
                  "fix without an edit). Pinned by theorems that stop compiling when the source changes "
                  "(src_arith_exact, src_guards_strict, facts_run_render, facts_layout, widget_inventory_complete, and one Props.C14Facts theorem "
                  "per function for the alpha-normalised statement skeletons of Surface.render, App.Run's frame clause, Text/RichText Draw/drawSoftwrap/"
                  "findContainerSize, Center.Draw, Button.Draw, TextField.Draw, text.hardLines; the printer normalises a<b/b>a, x++/x+=1/x=x+1 and the operand order of "
                  "==, && and || between pure operands, so those rewrites do not alarm). Validated by correspondence only: that the Lean transcription of those bodies "
                  "means what the Go statements mean (the skeleton pins fix *which* statements were transcribed, the differential run compares behaviour), and "
                  "Dynamic's placement of its items. Modelled-not-verified: widget content placement (which grapheme where) is compared model vs code but is "
                  "outside C14; Dynamic's scroll logic is C19's.",
    "technique": "Lean 4 proof (UInt16 arithmetic, structural/mutual induction; symbolic execution of the regenerated Go bodies by a statement interpreter, loops as pure folds) + go/ast extractor "
                 "(bodies, facts, skeletons, inventory) + differential correspondence incl. the real App.Run",
    "timeout": 1200,
}
