"""C14 configuration for ./check (see checks/propcfg.py for the keys)."""
CFG = {
    "modules": ["VaxisModel.Props.C14", "VaxisModel.Props.C14Facts", "VaxisModel.Witness.F39", "VaxisModel.Witness.F40",
                "VaxisModel.Witness.F41", "VaxisModel.Witness.F42", "VaxisModel.Witness.F114"],
    "extractors": ["C11", "C14"],
    "drivers": ["C14"],
    "stateful": False,
    "trivial_prefix": (),
    "rule": "three stateless streams through the exported vxfw API (plus the render entry hook): "
            "ws = NewSurface(W,H)+WriteCell(col,row) for every size in {0,1,2,255,256,257,300}^2 and every "
            "coordinate class (0,1,W-1,W,W+1,65535 x 0,1,H/2,H-1,H,H+1,65535 and the rows where row*W crosses 65536), exhaustive; "
            "draw = Draw(ctx) of Text/RichText (hard and soft wrap), TextField, Button, Center and nestings to depth 3 for "
            "Max in {0,1,2,3,5,80,255,256,65534,65535}^2 with contents empty / multi-line / wide / longer / taller than the "
            "constraint (lines from the real scanners and the real Characters); render = hand-built surface trees (depth <= 3, "
            "<= 4 children, offsets from -2 to beyond the parent, z in -1..2, root smaller/equal/larger than the screen) painted on "
            "screens <= 6x4, bounded-exhaustive single-child and two-children families plus random trees. distinct = distinct op line.",
    "trusted_base": ["the wrap scanners (C16), bufio.Scanner and Characters are parameters: the harness passes the lines the real "
                     "scanners produce for the constraint; theorems hold for every list of lines",
                     "hook vxfw.VerifC14Render (calls the unexported Surface.render) and the C11 snapshot hook",
                     "sort.Slice is modelled as a stable sort (it is an insertion sort below 12 elements); trees have < 12 children"],
    "assumptions": ["constraints for widgets that allocate Max.Width x Max.Height buffers (Center, Button) are generated only up to "
                    "2,000,000 cells: larger ones are covered by the theorems, not by the correspondence run"],
    "level_text": "Proved for all uint16 constraints, contents and sizes: newSurface_len, writeCell_exact (inside: exactly cell "
                  "row*W+col as a natural number changes; outside: nothing, never a panic), size_le_max for every built-in widget and "
                  "nesting (only the documented bounded-constraint panic of Center/Button remains), center_fits (child inside, margins "
                  "within one), render_paints (the rendered screen equals the painter's algorithm of Spec.Surface: every surface at "
                  "parent origin + offset, clipped to itself and its ancestors and the window, children after parents in z-order with "
                  "ties in child order; root's own rectangle not clipping = finding F114), zorder_is_spec, render_clip, "
                  "render_last_wins, paint_structure, child_window_clip. Witness/F39-F42 prove that the uint16 / non-strict variants (the code before the fixes) fail.",
    "level_note": "Tie: Gen/SurfaceFacts.lean regenerated each run gives the model its arithmetic (int vs uint16 length and index, >= vs > "
                  "guards); src_arith_exact / src_guards_strict / facts_surface fail to compile when the source goes back. Correspondence on "
                  "the real widgets and a real Vaxis. Only validated by correspondence: that the Lean transcription of the Draw loops and of render "
                  "equals the Go code; widget content placement (which grapheme where) is compared model vs code but is outside C14.",
    "technique": "Lean 4 proof (UInt16 arithmetic, structural/mutual induction) + extractor + differential correspondence",
    "timeout": 1200,
}
