"""C15 configuration for ./check (see checks/propcfg.py for the keys)."""
CFG = {
    "modules": ["VaxisModel.Props.C15", "VaxisModel.Props.C15Gen", "VaxisModel.Witness.F43", "VaxisModel.Witness.F115a", "VaxisModel.Witness.F115b"],
    "extractors": ["C15"],
    "drivers": ["C15", "C15Run"],
    "stateful": True,
    "trivial_prefix": ("-;",),
    "rule": "cases = random widget sets (1..12 widgets, any subset capturing), random surface trees (depth <= 4, fan-out <= 3, "
            "overlapping children, z-order, children sticking out of the parent), 5..40 ops per case over the unexported focus/mouse "
            "handlers, hitTest, handleCommand and render's child sort; handler answers scripted per call (nil, redraw, refresh, quit, "
            "consume, debug, title, focus, nested batches). Non-trivial = a state op during which at least one handler was called; "
            "distinct by the whole case prefix.",
    "trusted_base": ["handlers returning a Go error (aborts Run) are outside the model",
                     "BatchCmd/[]Command traversal modelled as pre-order flattening; sort.Slice on <= 12 children modelled as stable insertion sort"],
    "level_text": "vxfw routing: key_routing proved for every oracle (widget behaviour), state and fuel over the model of focusHandler.handleEvent; "
                  "see level_note for the other clauses.",
    "level_note": "Model tied to vxfw.go by correspondence through verif_hooks_c15.go (call logs, focus, path, flags, hit lists compared per op).",
    "assumptions": ["widget handlers never return an error", "at most 12 children per surface (Go's sort.Slice is then a stable insertion sort)"],
    "timeout": 600,
}
