"""C15 configuration for ./check (see checks/propcfg.py for the keys)."""
CFG = {
    "modules": ["VaxisModel.Props.C15", "VaxisModel.Props.C15Err", "VaxisModel.Props.C15Gen", "VaxisModel.Props.C15Body",
                "VaxisModel.Witness.F43", "VaxisModel.Witness.F115a", "VaxisModel.Witness.F115b", "VaxisModel.Witness.F115c"],
    "extractors": ["C15"],
    "drivers": ["C15", "C15Run"],
    "stateful": True,
    "trivial_prefix": ("-;",),
    "technique": "Lean 4 proofs over an executable model of vxfw.go with arbitrary widget oracle (and an arbitrary set of failing handler calls); "
                 "model tied to the source by (a) Gen/VxfwCases.lean (switch arms of App.Run and App.handleCommand, statement skeletons of the ten "
                 "handler functions, regenerated every run, compared by theorem), (a') Gen/VxfwBodies.lean: the bodies of the six dispatcher functions "
                 "translated into syntax; the bodies of focusHandler.handleEvent, mouseHandler.handleEvent, focusHandler.focusWidget, mouseHandler.mouseExit and mouseEnter are EXECUTED by an interpreter (Model/VxfwInterp.lean) and proved equal to "
                 "the model's dispatch incl. the returned error, and (b) two correspondence streams: unexported handlers through "
                 "verif_hooks_c15.go, and the real App.Run on a fake console",
    "rule": "C15: random widget sets (1..12 widgets, any subset capturing), random surface trees (depth <= 4, fan-out <= 3, overlapping "
            "children, z-order, children sticking out of the parent, root surface sometimes owned by another widget; every widget drawn once — "
            "the drivers reject other trees), 5..40 ops per case over focusHandler.handleEvent/updatePath/focusWidget, "
            "mouseHandler.handleEvent/update/mouseExit/mouseEnter (terminal FocusIn), hitTest, handleCommand and render's child sort; handler "
            "answers scripted per call (nil, redraw, refresh, quit, consume, debug, title, focus, nested BatchCmd/[]Command, and in a fifth of the "
            "cases 'returns an error'). C15Run: the real App.Run on a fake console, 5..25 posted events per case (key, custom, mouse, FocusIn, "
            "FocusOut, Resize, Redraw), every frame observed, error answers too. Non-trivial = an op during which at least one handler was "
            "called; distinct by the whole case prefix.",
    "trusted_base": ["BatchCmd/[]Command traversal modelled as pre-order flattening (Cmd.flatten); nesting handleCommand -> focusWidget -> handler "
                     "-> handleCommand bounded by fuel (stack depth)",
                     "sort.Slice on <= 12 children modelled as Go's stable insertion sort (validated by the `render` ops)",
                     "SetMouseShape/SetTitle/CopyToClipboard/SendNotification are one abstract command `other k` (validated with SetTitle)",
                     "errors returned by Draw (layout) are outside the model (Run returns them)",
                     "the interpreter Model/VxfwInterp.lean (what a handler call, a type assertion w.(EventCapturer), app.handleCommand and a "
                     "return mean; a hit result is its widget) is the semantics of the Go subset handle_event_body_eq_model / "
                     "mouse_handle_event_body_eq_model / focus_widget_body_eq_model / mouse_exit_body_eq_model / mouse_enter_body_eq_model speak about; updatePath and mouseHandler.update are translated "
                     "(fully_recognised) but not interpreted (update is the model function inside the interpreted mouse dispatcher)"],
    "level_text": "vxfw routing, focus and hover, after the repairs of F115a/F115b/F43 in /repo. Proved for every widget behaviour (oracle), state, "
                  "history and nesting depth, without exclusions: key_routing (capture root->focused, target, bubble parent->root, stop at the first "
                  "consumed offer) and key_routing_drawn (after ANY history of the Run loop the path is the drawn chain of the widget focused now — "
                  "path_is_drawn_chain — so routing is over the drawn chain at all times), path_correct, mouse_routing, hit_chain (+ exact "
                  "characterisation for overlapping siblings), focus_change_once (pairs FocusOut(old)/FocusIn(new) for every handler behaviour), "
                  "hover_alternates over whole Run-loop histories including terminal FocusIn/FocusOut (precondition: a tree draws each widget once; "
                  "hover_needs_distinct shows it is necessary), closed on FocusOut / pointer leaving, commands_once and commands_once_history (every "
                  "command returned by any handler call of a history — all phases, notifications, Init, frames, nested batches — takes effect exactly "
                  "once, given the nesting budget did not run out). Handlers that return an error (Props/C15Err): Run returns at the failing call "
                  "(nothing after it, its command dropped), errors inside focusWidget are logged and the interpreter goes on. Round 3 (Props/C15Body): the "
                  "regenerated body of focusHandler.handleEvent, interpreted (range loop with the type assertion and continue, the three handler calls "
                  "with `if err != nil { return err }`, app.handleCommand, the consume test with `return nil`, the index loop with a checked path[i]) IS "
                  "eHandleEvent for every oracle/state/event/nesting budget: the new state and WHAT IS RETURNED (handle_event_body_eq_model, "
                  "handle_event_body_error), hence key_routing holds of the executed body (key_routing_body); the same for mouseHandler.handleEvent (mouse_handle_event_body_eq_model, "
                  "mouse_routing_body: target = the deepest hit, read live from m.lastHits, which the dispatch never changes) and for focusHandler.focusWidget (focus_widget_body_eq_model: which error is returned where), mouseExit and mouseEnter (mouse_exit_body_eq_model, mouse_enter_body_eq_model; "
                  "mouse_exit_body_closes: the executed mouseExit empties the hit list). commands_once_history_wf: no budget "
                  "hypothesis for handlers that do not answer focus notifications with focus commands (run_never_stuck). F115c (recorded): two widgets answering "
                  "FocusIn with a focus command for each other exhaust every nesting budget (ping_pong_stuck, all fuels) - on the real code a fatal "
                  "stack overflow.",
    "level_note": "Proved: 76 theorems (Props/C15 27, C15Err 7, C15Gen 12, C15Body 14, witnesses 16 showing the pre-fix code violating the statements and the fixed code meeting them). Validated by "
                  "correspondence only: that the model (incl. the error plumbing) equals vxfw.go (0 mismatches expected on ~38k quick / ~500k thorough op "
                  "lines, both streams), Go's sort.Slice stability for <= 12 children, uint16 coordinate arithmetic (proved equal to integer "
                  "arithmetic for sizes < 65536, hit_list_is_under). Modelled not verified: stack overflow on unbounded refocus recursion (fuel; Witness.F115c proves the budget runs out for every budget for ping-pong handlers; "
                  "commands_once_history keeps the hypothesis stuck = false), "
                  "timing of the 8 ms frame timer (frames are explicit steps), Draw errors.",
    "assumptions": ["at most 12 children per surface (Go's sort.Slice is then a stable insertion sort)",
                    "surface sizes fit uint16 (they are uint16 in Go)",
                    "hover statements: every drawn tree shows a widget at most once under any point (checked on every generated tree)"],
    "timeout": 900,
}
