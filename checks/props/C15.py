"""C15 configuration for ./check (see checks/propcfg.py for the keys)."""
CFG = {
    "modules": ["VaxisModel.Props.C15", "VaxisModel.Props.C15Err", "VaxisModel.Props.C15Gen", "VaxisModel.Props.C15Body",
                "VaxisModel.Witness.F43", "VaxisModel.Witness.F115a", "VaxisModel.Witness.F115b", "VaxisModel.Witness.F115c"],
    "extractors": ["C15"],
    "drivers": ["C15", "C15Run"],
    "stateful": True,
    "trivial_prefix": ("-;",),
    "technique": "Lean 4 proofs over an executable model of vxfw.go with arbitrary widget oracle (and an arbitrary set of failing handler calls); "
                 "model tied to the source by (a) Gen/VxfwCases.lean (switch arms of App.Run and App.handleCommand, statement skeletons of the ten "
                 "handler functions, regenerated every run, compared by theorem), (a') Gen/VxfwBodies.lean: the bodies of the handler functions "
                 "translated into syntax — round 4: twelve bodies, also mouseHandler.update (labelled continue resolved by the translator), App.handleCommand (type switch), hitTest, SubSurface.containsPoint, focusHandler.childHasFocus and findPath —; ALL TWELVE are EXECUTED by interpreters (Model/VxfwInterp.lean, two layers; Model/VxfwInterpTree.lean for the tree walks) and proved equal to "
                 "the model functions incl. the returned error; the Run loop calling the executed bodies (bRun) is proved equal to the model's eRun; and (b) two correspondence streams: unexported handlers through "
                 "verif_hooks_c15.go, and the real App.Run on a fake console",
    "rule": "C15: random widget sets (1..12 widgets, any subset capturing), random surface trees (depth <= 4, fan-out <= 3, overlapping "
            "children, z-order, children sticking out of the parent, root surface sometimes owned by another widget; every widget drawn once — "
            "the drivers reject other trees), 5..40 ops per case over focusHandler.handleEvent/updatePath/focusWidget, "
            "mouseHandler.handleEvent/update/mouseExit/mouseEnter (terminal FocusIn), hitTest, handleCommand and render's child sort; handler "
            "answers scripted per call (nil, redraw, refresh, quit, consume, debug, title, focus, nested BatchCmd/[]Command, and in a fifth of the "
            "cases 'returns an error'). C15Run: the real App.Run on a fake console, 5..25 posted events per case (key, custom, mouse, FocusIn, "
            "FocusOut, Resize, Redraw), every frame observed, error answers too. Non-trivial = an op during which at least one handler was "
            "called; distinct by the whole case prefix.",
    "trusted_base": ["BatchCmd/[]Command traversal modelled as pre-order flattening (Cmd.flatten); nesting handleCommand -> focusWidget -> handler "
                     "-> handleCommand bounded by fuel (stack depth)",
                     "sort.Slice on <= 12 children modelled as Go's stable insertion sort (validated by the `render` ops)",
                     "SetMouseShape/SetTitle/CopyToClipboard/SendNotification are one abstract command `other k` (validated with SetTitle)",
                     "errors returned by Draw (layout) are outside the model (Run returns them)",
                     "the interpreter Model/VxfwInterp.lean (what a handler call, a type assertion w.(EventCapturer), a type switch on a command value, "
                     "struct equality of hit results, a labelled continue, app.handleCommand and a return mean; in the dispatchers a hit result is its widget, "
                     "in update the whole struct) and Model/VxfwInterpTree.lean (composite literal hitResult{…}, uint16 subtraction with wrap-around, checked path[i] swaps, "
                     "recursion on the surface tree) are the semantics of the Go subset the twelve *_body_eq_model theorems speak about; the interpreter layers take their callees as parameters "
                     "(Model/VxfwInterpAll.lean, VxfwInterpKnot.lean); kRun plugs in only executed bodies (the knot by recursion on the budget) and is proved = eRun; also trusted: "
                     "Model/VxfwInterpRun.lean (type switch over the event, a.layout = oracle tree + observation draw, s.render = sortTree on the local, vaxis calls = no-ops); the select / channel / "
                     "timer, defer and the three statements of the prologue of App.Run are transcribed (pinned by run_prologue_order); the child sort of render is a model function (render_sort_call + the render ops)",
                     "the translator extract/cmd/C15/skel.go resolves `continue L` to a loop distance (label names, like local names, are not part of the tie)"],
    "level_text": "vxfw routing, focus and hover, after the repairs of F115a/F115b/F43 in /repo. Proved for every widget behaviour (oracle), state, "
                  "history and nesting depth, without exclusions: key_routing (capture root->focused, target, bubble parent->root, stop at the first "
                  "consumed offer) and key_routing_drawn (after ANY history of the Run loop the path is the drawn chain of the widget focused now — "
                  "path_is_drawn_chain — so routing is over the drawn chain at all times), path_correct, mouse_routing, hit_chain (+ exact "
                  "characterisation for overlapping siblings), focus_change_once (pairs FocusOut(old)/FocusIn(new) for every handler behaviour), "
                  "hover_alternates over whole Run-loop histories including terminal FocusIn/FocusOut (precondition: a tree draws each widget once; "
                  "hover_needs_distinct shows it is necessary), closed on FocusOut / pointer leaving, commands_once and commands_once_history (every "
                  "command returned by any handler call of a history — all phases, notifications, Init, frames, nested batches — takes effect exactly "
                  "once, given the nesting budget did not run out). Handlers that return an error (Props/C15Err): Run returns at the failing call "
                  "(nothing after it, its command dropped), errors inside focusWidget are logged and the interpreter goes on. Round 3 (Props/C15Body): the "
                  "regenerated body of focusHandler.handleEvent, interpreted (range loop with the type assertion and continue, the three handler calls "
                  "with `if err != nil { return err }`, app.handleCommand, the consume test with `return nil`, the index loop with a checked path[i]) IS "
                  "eHandleEvent for every oracle/state/event/nesting budget: the new state and WHAT IS RETURNED (handle_event_body_eq_model, "
                  "handle_event_body_error), hence key_routing holds of the executed body (key_routing_body); the same for mouseHandler.handleEvent (mouse_handle_event_body_eq_model, "
                  "mouse_routing_body: target = the deepest hit, read live from m.lastHits, which the dispatch never changes) and for focusHandler.focusWidget (focus_widget_body_eq_model: which error is returned where), mouseExit and mouseEnter (mouse_exit_body_eq_model, mouse_enter_body_eq_model; "
                  "mouse_exit_body_closes: the executed mouseExit empties the hit list). commands_once_history_wf: no budget "
                  "hypothesis for handlers that do not answer focus notifications with focus commands (run_never_stuck). F115c (recorded): two widgets answering "
                  "FocusIn with a focus command for each other exhaust every nesting budget (ping_pong_stuck, all fuels) - on the real code a fatal "
                  "stack overflow. Round 4: the regenerated bodies of focusHandler.updatePath, mouseHandler.update (the hit-list diff: MouseLeave to the old hits "
                  "that are not among the new ones as whole structs, then MouseEnter to the new ones not among the old, error returned at once with the hit list kept) "
                  "and App.handleCommand (type switch, recursion on BatchCmd / []Command to any depth = Cmd.flatten, focus arm with its error logged and dropped), "
                  "interpreted, ARE eUpdatePath / eMouseUpdate / eHandleCommand for every oracle, failing-call set, state and budget (update_path_body_eq_model, "
                  "mouse_update_body_eq_model, handle_command_body_eq_model; mouse_update_body_explicit spells the order out: first the MouseLeave calls in the old order, then the MouseEnter calls in the new order); the Run loop calling the executed bodies is eRun over every history "
                  "(run_bodies_eq_model), hence hover_alternates and closed-on-FocusOut hold of the loop over the executed bodies, frames that remove hovered widgets "
                  "and terminal focus in/out included (hover_alternates_bodies, hover_closed_bodies; non-failing handlers). commands_once_history_ranked: the "
                  "hypothesis stuck = false is replaced by a well-founded measure - a rank on widgets (<= R) such that focus commands issued from FocusIn/FocusOut "
                  "answers go strictly down in rank; then a budget >= 3R+4 never runs out over any history (generalises run_never_stuck; non-vacuity: A's FocusIn "
                  "focuses B, B answers nil). F115c decision: not a violation of C15's text (every focus change that happens is one FocusOut/FocusIn pair; what "
                  "fails is termination, which the text does not promise); the ping-pong oracle admits no rank (no_rank) and exhausts every budget also through the "
                  "executed handleCommand body (ping_pong_stuck_body). The tree walks: hitTest (uint16 local coordinates incl. wrap-around for negative origins, recursion to any depth), "
                  "SubSurface.containsPoint, focusHandler.childHasFocus and findPath (the in-place reversal loop proved to be List.reverse, checked indices) executed from "
                  "their regenerated bodies ARE the model's hitTest / containsPoint / childHasFocus / findPath for every tree, point, focus and state (hit_test_body_eq_model, "
                  "contains_point_body_eq_model, child_has_focus_body_eq_model, find_path_body_eq_model) - every function named in the property's anchors is now executed from "
                  "source syntax and proved equal to the model function the property theorems are about. New extractor facts pin the order of App.Run's frame step and prologue "
                  "(run_frame_order, run_prologue_order). Callers with callees: update + hitTest + containsPoint, updatePath + findPath + childHasFocus + focusWidget, handleCommand + "
                  "focusWidget executed together from their bodies are the model functions (mouse_update_bodies_eq_model, update_path_bodies_eq_model, handle_command_bodies_eq_model), and the Run loop whose frame step runs them that way is eRun too (run_all_bodies_eq_model). "
                  "c15_over_executed_bodies states ALL clauses of the property at once for the Run loop over the executed bodies (ranked oracles, any history): no error, budget never "
                  "exhausted, path = drawn chain of the widget focused now, focus notifications pair up, hover alternates with entered = hit list, every command once, and the next "
                  "event is routed capture/target/bubble over the drawn chain by the executed dispatcher. Last part of round 4: the two arms of the select in App.Run (event switch + shouldQuit test; "
                  "frame step) are translated and EXECUTED with executed callees and proved = eRunEvent / eRunFrame incl. the returned error (run_event_body_eq_model, run_frame_body_eq_model); "
                  "the knot handleCommand <-> focusWidget is tied by structural recursion on the nesting budget and kHandleCommand = eHandleCommand at EVERY budget (knot_eq_model; the interpreter "
                  "layers with callees as parameters equal the original layers for good callees: exec1_eq / execX1_eq); kRun - prologue + executed arms + executed bodies with the knot inside, NO model "
                  "function of the dispatch left - is eRun over every history (run_knot_eq_model). hover_after_error: for EVERY set of failing calls (returned errors and the logged ones inside "
                  "focusWidget) the hover notifications delivered so far alternate per widget wherever Run can end, and with no error returned the entered set is the hit list. Focus pairing and "
                  "commands-once over whole histories WITH failing handlers are proved too (focus_pairs_err: the failed FocusOut calls dropped; commands_once_err: only the answers of non-failing calls are owed); "
                  "raw_statements_fail_with_errors shows the literal forms are false there. Oracles (drivers): previous state only from the implementation's reports / op inputs (audited; the mupd pointer position fixed), and a FocusOut/FocusIn pair delivered "
                  "to one widget is rejected (a focus command for the focused widget must deliver nothing).",
    "level_note": "Proved: 122 theorems (Props/C15 31, C15Err 11, C15Gen 14, C15Body 48, witnesses 18 showing the pre-fix code violating the statements, the fixed code meeting them, and F115c). Validated by "
                  "correspondence only: that the model (incl. the error plumbing) equals vxfw.go (0 mismatches expected on ~38k quick / ~500k thorough op "
                  "lines, both streams), Go's sort.Slice stability for <= 12 children, uint16 coordinate arithmetic (proved equal to integer "
                  "arithmetic for sizes < 65536, hit_list_is_under; since round 4 the uint16 subtractions of hitTest are executed from the body: hit_test_body_eq_model). Modelled not verified: stack overflow on unbounded refocus recursion (fuel; Witness.F115c proves the budget runs out for every budget for ping-pong handlers; "
                  "commands_once_history keeps the hypothesis stuck = false, commands_once_history_ranked / _wf discharge it for ranked / focus-free notification handlers), "
                  "the select / channel / timer of App.Run, its three-statement prologue and the widgets' Draw (oracle trees) are not executed syntax, "
                  "timing of the 8 ms frame timer (frames are explicit steps), Draw errors.",
    "assumptions": ["at most 12 children per surface (Go's sort.Slice is then a stable insertion sort)",
                    "surface sizes fit uint16 (they are uint16 in Go)",
                    "hover statements: every drawn tree shows a widget at most once under any point (checked on every generated tree)"],
    "timeout": 900,
}
