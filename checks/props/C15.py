"""C15 configuration for ./check (see checks/propcfg.py for the keys)."""
CFG = {
    "modules": ["VaxisModel.Props.C15", "VaxisModel.Props.C15Err", "VaxisModel.Props.C15Gen",
                "VaxisModel.Witness.F43", "VaxisModel.Witness.F115a", "VaxisModel.Witness.F115b"],
    "extractors": ["C15"],
    "drivers": ["C15", "C15Run"],
    "stateful": True,
    "trivial_prefix": ("-;",),
    "technique": "Lean 4 proofs over an executable model of vxfw.go with arbitrary widget oracle; model tied to the source by "
                 "(a) Gen/VxfwCases.lean (switch arms of App.Run and App.handleCommand, regenerated every run, compared by theorem) and "
                 "(b) two correspondence streams: unexported handlers through verif_hooks_c15.go, and the real App.Run on a fake console",
    "rule": "C15: random widget sets (1..12 widgets, any subset capturing), random surface trees (depth <= 4, fan-out <= 3, overlapping "
            "children, z-order, children sticking out of the parent, root surface sometimes owned by another widget), 5..40 ops per case over "
            "focusHandler.handleEvent/updatePath/focusWidget, mouseHandler.handleEvent/update/mouseExit, hitTest, handleCommand and render's "
            "child sort; handler answers scripted per call (nil, redraw, refresh, quit, consume, debug, title, focus, nested BatchCmd/[]Command). "
            "C15Run: the real App.Run on a fake console, 5..25 posted events per case (key, custom, mouse, FocusIn, FocusOut, Resize, Redraw), "
            "every frame observed. Non-trivial = an op during which at least one handler was called; distinct by the whole case prefix.",
    "trusted_base": ["handlers returning a Go error (aborts Run) are outside the model",
                     "BatchCmd/[]Command traversal modelled as pre-order flattening (Cmd.flatten); nesting handleCommand -> focusWidget -> handler "
                     "-> handleCommand bounded by fuel (stack depth)",
                     "sort.Slice on <= 12 children modelled as Go's stable insertion sort (validated by the `render` ops)",
                     "SetMouseShape/SetTitle/CopyToClipboard/SendNotification are one abstract command `other k` (validated with SetTitle)"],
    "level_text": "vxfw routing, focus and hover. Proved for every widget behaviour (oracle), state and nesting depth: key_routing (capture root->focused, "
                  "target, bubble parent->root over the stored path, stop at the first consumed offer; general and explicit form), path_correct "
                  "(after a frame the path is the drawn chain of the focused widget, or [root] after the best-effort refocus), mouse_routing, "
                  "hit_chain (+ exact characterisation for overlapping siblings), focus_change_once (pairs FocusOut(old)/FocusIn(new); needs: no "
                  "FocusOut handler answers with a focus command — else false, Witness F115b), hover_alternates over whole Run-loop histories "
                  "(needs: no terminal FocusIn events — else false, Witness F43; trees draw each widget once), closed on FocusOut / pointer leaving, "
                  "commands_once. Routing over the *drawn* chain between a focus command and the next frame is false (Witness F115a).",
    "level_note": "Proved: 30 theorems incl. three negative ones from decide-checked witnesses. Validated by correspondence only: that the model equals "
                  "vxfw.go (0 mismatches expected on ~43k quick / ~555k thorough op lines, both streams), Go's sort.Slice stability for <= 12 children, "
                  "uint16 coordinate arithmetic (proved equal to integer arithmetic for sizes < 65536, hit_list_is_under). Modelled not verified: handler "
                  "errors, stack overflow on unbounded refocus recursion (fuel), timing of the 8 ms frame timer (frames are explicit steps).",
    "assumptions": ["widget handlers never return an error", "at most 12 children per surface (Go's sort.Slice is then a stable insertion sort)",
                    "surface sizes fit uint16 (they are uint16 in Go)"],
    "timeout": 900,
}
