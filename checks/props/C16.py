"""C16 configuration for ./check."""
CFG = {
    "modules": ["VaxisModel.Props.C16", "VaxisModel.Props.C16E2E", "VaxisModel.Props.C16Facts", "VaxisModel.Props.C16Draw", "VaxisModel.Witness.F316"],
    "extractors": ["C11", "C14", "C16"],
    "drivers": ["C16"],
    "trivial_prefix": ("L|L|L|L|L|L|L", "bad-op"),
    "design_ref": "DESIGN.md §5 C16; notes/C16.md",
    "technique": "Lean 4 proof over an executable model of both SoftwrapScanner.Scan loops, firstLineSegment, HardwrapScanner "
                 "and the Draw row loops (Unicode segmentation/width as oracle parameters); differential correspondence "
                 "model ≡ real scanners + Spec.Wrap oracle on the real output",
    "rule": "one case = one (scanner, text, width range 0..6 or w..w+1) for text.SoftwrapScanner (P), richtext.SoftwrapScanner (R), "
            "HardwrapScanner (H), Text.Draw/RichText.Draw (DP/DR). Texts: all strings over {a,b,space,-,\\n,世,e+U+0301,U+2060,tab} "
            "up to length 5 (quick) / 6 (thorough) × widths 0..6, random strings of length 6-7 (quick) / 7-9 (thorough), random "
            "word-structured texts up to 2000 graphemes over a 30-grapheme alphabet × widths 1..200, and one 65536-column word; "
            "distinct by op line; non-trivial = at least one line emitted",
    "trusted_base": [
        "uniseg (grapheme/line segmentation, trailing-break test), vaxis.Characters widths and unicode.IsSpace are oracle parameters: "
        "their values are computed by the real libraries in the harness and passed in each op line; theorems quantify over all such "
        "functions satisfying OracleOK (non-empty first segment; must-break at end of text), which the harness asserts on every query",
        "A-concat: the clustering of a word/line equals the global clustering restricted to it (screened per case; discarded cases are "
        "counted as plain:aconcat-discard:*; a tab inside an unbreakable word is the main discarded shape)",
    ],
    "assumptions": [
        "OracleOK for uniseg.FirstLineSegment (proved for the transcribed richtext.firstLineSegment, checked at run time for text)",
        "Character.Width >= 0; Go int does not overflow on width sums",
    ],
    "level_text": "Proved for every text, every width and every oracle meeting OracleOK: scan_terminates / lines_terminate (each Scan "
                  "returns and strictly shortens rest; width 0 returns false), conservation (non-whitespace graphemes with styles, in order), "
                  "line_width (no hypothesis at all), hard_break_ends_line (line structure: only the last segment of a line may carry a hard "
                  "break), no_needless_split (a segment is divided only if its word part is wider than the line); for richtext the oracle "
                  "hypotheses are proved of the transcribed firstLineSegment, so its statements are unconditional. F44 and F45 were real "
                  "violations of line_width and are fixed in /repo (one commit each).",
    "level_note": "Validated by correspondence only (not proved): the complete Draw surface (findContainerSize, WriteCell clipping, Fill; compared cell "
                  "by cell with the model and checked by the oracle against the scanner's own lines), HardwrapScanner (oracle: split at \\n), "
                  "the end-to-end Bool oracles hardBreakOK / noNeedlessSplit on real output. Modelled, not verified: tab inside an unbreakable word "
                  "(long-word split rewrites the tab as 8 spaces), CRLF terminator (only the LF rune is stripped), Max.Height clipping of Draw "
                  "(C14's F39/F42 fixes are followed by the model: containerSize uses >=; the clipped regime is exercised by random Max.Height values).",
    "timeout": 1500,
}
