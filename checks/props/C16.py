"""C16 configuration for ./check."""
CFG = {
    "modules": ["VaxisModel.Props.C16"],
    "extractors": [],
    "drivers": ["C16"],
    "trivial_prefix": ("L|L|L|L|L|L|L", "bad-op"),
    "rule": "one case = one (scanner, text, width range); distinct by op line",
    "trusted_base": [],
    "level_text": "WIP",
    "level_note": "WIP",
    "assumptions": [],
    "timeout": 1500,
}
