"""C16 configuration for ./check."""
CFG = {
    "modules": ["VaxisModel.Props.C16", "VaxisModel.Props.C16E2E", "VaxisModel.Props.C16Facts", "VaxisModel.Props.C16Draw", "VaxisModel.Props.C16Heap", "VaxisModel.Props.C16Obj", "VaxisModel.Props.C16DrawAll", "VaxisModel.Props.C16Exec", "VaxisModel.Witness.F316", "VaxisModel.Witness.C16StateEarly"],
    "extractors": ["C11", "C14", "C16"],
    "drivers": ["C16"],
    "trivial_prefix": ("L|L|L|L|L|L|L", "bad-op"),
    "design_ref": "DESIGN.md §5 C16; notes/C16.md",
    "technique": "Lean 4 proof over an executable model of both SoftwrapScanner.Scan loops, firstLineSegment, HardwrapScanner "
                 "and Text/RichText.Draw (scanner model composed with C14's surface model; Unicode segmentation/width as oracle "
                 "parameters); go/ast extractor pinning the guards of both scanners to the model; differential correspondence "
                 "model = real scanners / real Draw + Spec.Wrap / Spec.WrapDraw oracles on the real output",
    "rule": "one case = one (scanner, text, width range 0..6 or w..w+1) for text.SoftwrapScanner (P), richtext.SoftwrapScanner (R), "
            "HardwrapScanner (H), Text.Draw/RichText.Draw soft wrap (DP/DR), RichText.Draw hard wrap (DH), Text.Draw hard wrap (DT, round 3), "
            "the 65538-line row wrap-around witness (DW), both soft scanners on texts with one or two hard breaks of every UAX#14 mandatory class (MB, round 4). R and H also run the aliasing oracle (input cells, spare capacity behind them, "
            "every returned line unchanged after the iteration). Texts: all strings over {a,b,space,-,\\n,世,e+U+0301,U+2060,tab} "
            "up to length 5 (quick) / 6 (thorough) x widths 0..6, random strings of length 6-7 (quick) / 7-9 (thorough), random "
            "word-structured texts up to 2000 graphemes over a 30-grapheme alphabet x widths 1..200, one 65536-column word; Draw for "
            "lengths <= 3 x Max.Width 1..4 x Max.Height in {0,#lines-1,#lines,#lines+1,12,65535}; distinct by op line; non-trivial = "
            "at least one line emitted",
    "trusted_base": [
        "uniseg (grapheme/line segmentation, trailing-break test), vaxis.Characters widths and unicode.IsSpace are oracle parameters: "
        "their values are computed by the real libraries in the harness and passed in each op line; theorems quantify over all such "
        "functions satisfying OracleOK (non-empty first segment; must-break at end of text), OracleTermW (a terminator is only the last "
        "cell of a segment, with must-break, for every query whose state belongs to its position) and PosIndep (state -1 inside a "
        "segment returns the remainder; at a boundary it answers as the carried state) - each asserted by the harness on every query",
        "A-concat: the clustering of a word/line equals the global clustering restricted to it (screened per case; discarded cases are "
        "counted as plain:aconcat-discard:*; a tab inside an unbreakable word is the main discarded shape; 10 of 77400 quick cases are "
        "discarded because uniseg is not position independent there)",
        "C14's model of the drawing code (Model.Layout.drawText on Model.Surface, tied by C14's extractor and correspondence) is imported; "
        "its ellipsis condition and NewSurface arguments are read from the source (Gen.SurfaceFacts.EllAtom / SzArg) and pinned by facts_hard_mode / facts_size_ok",
        "Model.WrapHeap (heap-level transcription of richtext.SoftwrapScanner.Scan / HardwrapScanner.Scan over Go slices) is a hand transcription (no extractor): tied "
        "to richtext.go by the facts_* pins of the statements it rests on and to the value-level model by theorem (rich_scanner_on_the_heap, hard_scan_refines); "
        "Go's append growth policy is a parameter (any function)",
        "Model.WrapObj (the plain scanner as an object, round 4): []byte values are value-level lists - Text() copies, []byte{} allocates, s.rest = rest re-slices the private copy made by "
        "NewSoftwrapScanner, so no caller-visible aliasing exists (read from the source, not extracted)",
    ],
    "assumptions": [
        "OracleOK / OracleTermW / PosIndep for uniseg.FirstLineSegment (proved for the transcribed richtext.firstLineSegment, checked at run time for text)",
        "Character.Width >= 0; Go int does not overflow on width sums; line terminators are whitespace (BK, CR, LF, NL are unicode.IsSpace)",
    ],
    "level_text": "Proved for every text, every width and every oracle meeting the hypotheses: termination; whole-text conservation "
                  "(with styles); line_width (no hypothesis); END TO END for the whole iteration: hard_break_end_to_end (Spec.hardBreakOK, the "
                  "oracle run on the real output), lines_no_terminator (no emitted line contains a terminator), "
                  "rich_no_needless_split_end_to_end (Spec.noNeedlessSplit over the pairwise runs) and plain_no_needless_split_end_to_end (any "
                  "stateful oracle, runs = the segmenter's own segmentation), via the position-tracking invariant lines_are_pieces; for richtext "
                  "all oracle hypotheses are theorems of the transcribed firstLineSegment. DRAW: rich_draw_rows / text_draw_rows - the surface "
                  "returned by Draw (model = scanner model composed with C14's NewSurface/Fill/WriteCell/row-loop model) has min(#lines, Max.Height) "
                  "rows, the width findContainerSize computes, and row y shows line y cell by cell (grapheme j at column = width before it, wide "
                  "graphemes occupy width columns, every other column blank, lines beyond Max.Height dropped); rich_draw_nothing_clipped (every positive-width "
                  "grapheme of every emitted line, trailing whitespace aside, is on the surface); hardwrap_is_split_at_newline "
                  "(HardwrapScanner = split at \\n exactly); HARD WRAP (round 3): hard_draw_rows / text_hard_draw_rows / text_hard_draw_exactly_the_lines - row y of RichText.Draw and "
                  "Text.Draw with Softwrap=false shows Spec.hardLine of line y: hard_line_fits_unaltered (a line that fits, exact fit included, is drawn unaltered) and "
                  "hard_line_truncated_longest_prefix (a line that does not fit is its longest prefix that leaves room for the ellipsis, then the ellipsis), for all lines "
                  "narrower than 2^16 columns and all widths; text_hard_lines_are_split (text.hardLines = HardwrapScanner's lines = split at the hard breaks). "
                  "COMPOSED: rich_wrap_property (the whole property for richtext in one statement, no oracle hypothesis), plain_wrap_property; "
                  "plain_no_needless_split_needs_pos_indep (an explicit OracleOK segmenter shows PosIndep cannot be dropped). ALIASING: Props.C16Heap over the heap-level model "
                  "Model.WrapHeap (Go slices, append in place) - a Scan writes only into arrays it allocates: caller's cells and spare capacity untouched, returned lines stay valid; the same for HardwrapScanner plus hard_scan_refines (the heap-level Scan returns exactly the "
                  "value-level model's line and remaining cells, every heap, every growth policy); rich_scanner_on_the_heap - REFINEMENT proved for the soft-wrap scanner: the whole "
                  "iteration on the heap, with a caller that keeps the returned slices uncopied, yields exactly Model.Wrap.richLines (scan_loop_refines: all four exits of the loop, "
                  "long_word_loop_refines: the long-word loop with its two fresh slices), so the heap-free model is sound for the slice-level code. GEN: 19 facts_* theorems over the "
                  "extracted guards of both Scan functions, firstLineSegment, HardwrapScanner and the Draw loops - scanners_agree (text = rich), "
                  "operators proved to be the model's tests for all inputs, int sums (F45), state reset (F116). Real violations found and fixed "
                  "in /repo: F44, F45 (round 1), F116 (stale uniseg state after a long-word split: terminator inside a line, needless split), "
                  "F216 (row counter wraps at Max.Height 65535), F416/F516 (CRLF), and in round 3 F316 (hard-wrap Draw put an ellipsis on a line that "
                  "fits exactly; fixed in both packages, Witness.F316 shows the pre-fix conjuncts fail) and F616 (Text.Draw without soft wrap used bufio.Scanner: a line over "
                  "64 KiB silently ended the drawing, a lone CR did not end the line; found by the DT stream). "
                  "ROUND 4: Props.C16Obj over Model.WrapObj (text.SoftwrapScanner as an OBJECT: fields stored where text.go stores them, the placement of s.state = state read from the "
                  "regenerated facts) - plain_scanner_object_refines / src_scanner_is_value_model (one Scan and the whole iteration of the object = Model.Wrap.scan / plainLines, every oracle), "
                  "scan_state_is_function_of_consumed_text (at every Scan boundary (rest, state) lies on the segmenter's own path chain o k base ini from a point where the state was -1: "
                  "independent of the width and of which Scan call deferred a segment; no oracle hypothesis), scan_state_independent_of_width (two scanners of different widths that split no long word "
                  "hold the same state whenever the same non-empty text is left; OracleOK only), scan_keeps_path_or_resets, deferred_segment_leaves_fields; Witness.C16StateEarly (the store before the early "
                  "return leaves the path and changes the lines). Props.C16DrawAll: text_draw_exactly_the_lines (scanner result explicit, every Max.Width), rich_draw_wide_grapheme_exception / "
                  "text_draw_single_grapheme_row (the single grapheme wider than Max.Width - the exception of the property text - is drawn at column 0 of its row), wide_grapheme_at_width_one. "
                  "Props.C16Exec.executed_rich_draw_shows_the_lines / executed_text_draw_shows_the_lines: the regenerated bodies of RichText.drawSoftwrap and findContainerSize, EXECUTED on the lines of the scanner model, return a surface whose row y shows line y (C14Body x C16Draw joined). The soft-wrap Draw loops are now tied by execution: Props.C14Body runs the regenerated bodies of both drawSoftwrap / findContainerSize and proves them equal to Layout.drawText. "
                  "FINDING F716 (recorded, MB stream): richtext.SoftwrapScanner does not end the line at U+2028 / U+2029 / U+0085 / VT / FF (uniseg.HasTrailingLineBreak is false there while "
                  "FirstLineSegment must-breaks; text.SoftwrapScanner ends the line); the hard modes not breaking there is not a C16 violation (they draw the lines their own splitter emits).",
    "level_note": "Validated by correspondence only: that the real uniseg meets OracleOK / OracleTermW / PosIndep on the generated texts (asserted per "
                  "query); that Model.WrapHeap transcribes richtext.go (it is proved equal to Model.Wrap, which the correspondence run ties to the code). Modelled, not verified: tab inside an unbreakable word "
                  "(long-word split rewrites the tab as 8 spaces), hard-wrap lines of 2^16 columns or more (uint16 column counter), texts where uniseg is not "
                  "position independent (LB14 / LB25 contexts; discarded and counted). The DW witness compares the real surface with the proved "
                  "row specification instead of executing the List-based model on 65535 rows. Round 4: the scanner theorems are relative to the term flag = the library's "
                  "HasTrailingLineBreak; that this flag misses the BK / NL classes is checked by the MB stream against uniseg.FirstLineSegment's must-break (F716), not by a theorem. "
                  "Model.WrapObj is a hand transcription of text.go's Scan; only the placement of s.state = state is read from the source; it is proved equal to Model.Wrap and run by the driver.",
    "timeout": 1500,
}
