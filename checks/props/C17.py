"""C17 configuration for ./check."""
CFG = {
    "modules": ["VaxisModel.Props.C17"],
    "extractors": [],
    "drivers": ["C17"],
    "stateful": True,
    "trivial_prefix": ("-", "bad-op"),
    "rule": "one case = one op sequence from a starting content; distinct by the whole sequence",
    "trusted_base": [],
    "level_text": "WIP",
    "level_note": "WIP",
    "assumptions": [],
    "timeout": 1500,
}
