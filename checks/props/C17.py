"""C17 configuration for ./check."""
CFG = {
    "modules": ["VaxisModel.Props.C17"],
    "extractors": ["C17"],
    "drivers": ["C17"],
    "stateful": True,
    "trivial_prefix": ("-", "bad-op"),
    "design_ref": "DESIGN.md §5 C17; notes/C17.md",
    "technique": "Lean 4 refinement proof (simulation with abs s = (text, cursor), invariant cursor <= length) of executable models of "
                 "vxfw/textfield.TextField and widgets/textinput.Model against the ideal editor Spec.Editor; differential correspondence "
                 "on the exported API with Spec.Editor as oracle on the real widgets",
    "rule": "one case = one op sequence from a starting content; TextField: key events through HandleEvent (23 keys incl. unbound, releases, "
            "typed graphemes), InsertStringAtCursor/CursorTo/Delete*/Reset, Draw at widths 0..12; textinput: Update with keys, paste keys, "
            "PasteEnd, release, SetContent, Draw at widths 1..12 with/without prompt. Bounded-exhaustive: all sequences of length 4 (quick) / "
            "5 (thorough) over an 11-op alphabet per widget from 3 starting contents; random sequences up to 200 ops over 9 graphemes "
            "(narrow, wide, multi-codepoint, ZWJ emoji, zero-width). Distinct by the whole sequence.",
    "trusted_base": [
        "Key.Matches / Key.String (C09's subject) are evaluated by the real code in the harness; the model receives the 8 binding verdicts "
        "of HandleEvent in source order, resp. the msg.String() text",
        "A-concat: Value is modelled as the list of its clusters; the harness alphabet is merge-free and every observed value is re-clustered "
        "with uniseg (an unknown cluster would fail the comparison)",
        "TextField.cursor is observed through Draw's Cursor.Col (exported API only); textinput's through CursorPosition(); drawn cursor of "
        "textinput through the add-only hook VerifC17Cursor",
    ],
    "assumptions": ["graphemeCountInString(Value) = number of clusters (A-concat)", "uint cursor arithmetic does not wrap (guarded subtractions only)"],
    "level_text": "Proved for all histories from any starting content: textfield_refines (+ invariant n = count, cursor <= length), "
                  "textfield_callbacks_exact, textfield_cursor_column; textinput_refines (every Update/SetContent/Draw call returns - no index "
                  "panic, no hang - and equals the ideal operation), draw_terminates, textinput_cursor_column (whatever the old scroll offset). "
                  "Gen theorems: the case labels of Update's switch, its default-arm guards, the scroll-loop condition, scrolloff and the if-chain "
                  "of HandleEvent, extracted from the source on every run, equal the tables the models dispatch on. F46, F47 and F117 were real "
                  "violations, fixed in /repo (one commit each).",
    "level_note": "Validated by correspondence only: that Key.String()/Key.Matches produce the strings/verdicts the tables list (C09's subject; 23 keys "
                  "per widget are run through the real code). Modelled, not verified: combining "
                  "marks typed separately into TextField (cluster merge; cursor can exceed the count until the next clamp - see notes open items), "
                  "textinput cell contents (truncator, invisibleChar).",
    "timeout": 1500,
}
