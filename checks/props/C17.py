"""C17 configuration for ./check."""
CFG = {
    "modules": ["VaxisModel.Props.C17", "VaxisModel.Props.C17Ext", "VaxisModel.Props.C17Facts", "VaxisModel.Props.C17FactsTF", "VaxisModel.Props.C17FactsTI",
                "VaxisModel.Props.C17BodyBase", "VaxisModel.Props.C17BodyReset", "VaxisModel.Props.C17BodyCursorTo", "VaxisModel.Props.C17BodyInsert",
                "VaxisModel.Props.C17BodyDelRight", "VaxisModel.Props.C17BodyDelLeft", "VaxisModel.Props.C17BodyKill", "VaxisModel.Props.C17BodyCheck", "VaxisModel.Props.C17BodyDraw", "VaxisModel.Props.C17BodyWidth",
                "VaxisModel.Props.C17Body", "VaxisModel.Props.C17BodyTI", "VaxisModel.Props.C17Seg", "VaxisModel.Witness.F517"],
    "extractors": ["C17"],
    "drivers": ["C17"],
    "stateful": True,
    "trivial_prefix": ("-", "bad-op"),
    "design_ref": "DESIGN.md §5 C17; notes/C17.md",
    "technique": "Round 4: the editing functions of both widgets are translated statement by statement by the extractor into a small statement language (Gen/EditorLang.lean), "
                 "run by an interpreter (Model/EdLang.lean) in the driver, and proved equal to the hand-written models function by function (*_body_eq_model); on top of that: "
                 "Lean 4 refinement proof (simulation with abs s = (text, cursor), invariant cursor <= length) of executable models of "
                 "vxfw/textfield.TextField and widgets/textinput.Model against the ideal editor Spec.Editor - for graphemes that never merge "
                 "(apply) and for texts of code points under any segmentation meeting three laws (applyC = grapheme editor + re-segmentation); "
                 "differential correspondence on the exported API with Spec.Editor as oracle on the real widgets",
    "rule": "one case = one op sequence from a starting content. Kinds tf/ti (13 graphemes that never merge): TextField key events through "
            "HandleEvent (24 keys incl. unbound, releases, typed graphemes), InsertStringAtCursor/CursorTo/Delete*/Reset, Draw at widths 0..12; "
            "textinput Update with keys, paste keys, PasteEnd, release, SetContent, SetInvisibleChar, Draw at widths 1..40 with/without prompt "
            "(cursor column and every cell of the row observed). Bounded-exhaustive: all sequences of length 4 (quick) / 5 (thorough) over an "
            "11-op alphabet per widget from 3 starting contents; word motions: every start of length <= 4 over letter/blank/'.'/'-'/wide/ZWJ "
            "emoji x every cursor position x Alt+b, Alt+f, Ctrl+w, Ctrl+Left, Ctrl+Right, Alt+d; random sequences up to 200 ops. Kinds tfc/tic "
            "(19 code points: combining mark, ZWJ, VS16, regional indicators, emoji, Hangul jamo, skin tone, tab): every start of length <= 4 x "
            "every cursor position x 18 inserts typed one code point at a time and pasted (InsertStringAtCursor, one key event, paste bracket), "
            "then letter, BackSpace, Left, Delete, Draw; deletions that bring two parts of a grapheme together followed by cursor probes; random sequences over all code points. "
            "Round 3, the scrolled case of textinput.Draw: 6 texts (narrow, wide, mixed) x every window width 1..12 (thorough ..16) x 4 prompts (width 0, 1, 2 as one wide grapheme, 2 as two narrow) x the cursor "
            "walking from the end to the beginning and back with a Draw after every step, Home/End, a one-column-wider window, every fifth case in password mode (288 cases; row and cursor column compared). Round 4: every eighth random tf / tfc case runs with no callbacks installed (op nocb: the OnSubmit == nil / OnChange == nil branches); TextField observations carry the cursor index and the cached count (hook VerifC17State); op seg <text> = the three segmentation laws on the real uniseg and the driver's clUax "
            "for every text over the 19 code points up to length 3 (thorough 4) and 3000 (thorough 40000) random texts of length 4..14. Distinct by the whole sequence.",
    "trusted_base": [
        "Key.Matches / Key.String (C09's subject) are evaluated by the real code in the harness; the model receives the 8 binding verdicts "
        "of HandleEvent in source order, resp. the msg.String() text",
        "the segmentation cl (uniseg / vaxis.Characters) is a parameter of the clustered models; the theorems hold for every cl meeting "
        "Spec.Editor.Segmentation (clusters concatenate to the text; the first i clusters re-segment to i clusters; appending never lowers the "
        "count). Round 4: the driver's UAX #29 oracle clUax IS proved to meet the laws for every class assignment (Props/C17Seg); that uniseg equals clUax on the code points at hand is the run-time comparison: clUax is compared with uniseg's clustering of the "
        "widget's value on every op, widths of clusters come from vaxis.Characters per op; the driver checks the three laws on every text it meets",
        "kinds tf/ti: Value is modelled as the list of its clusters; that alphabet never merges and every observed value is re-clustered "
        "with uniseg (an unknown cluster would fail the comparison)",
        "the interpreter's reading of the libraries (Model/EdLang.lean): uniseg.FirstGraphemeClusterInString with the state threaded through yields the clusters cl of the string it "
        "was started on, vaxis.Characters = cl, Go slice expressions are checked against len (not cap), callbacks return (nil, nil); the extractor's translation go/ast -> EdLang "
        "(extract/cmd/C17/lang.go) is trusted to be faithful (tied by the correspondence run: the driver's model column is the interpreter on the regenerated bodies, 0 mismatches)",
        "TextField.cursor is observed through Draw's Cursor.Col and (round 4) directly through the read-only hook VerifC17State (cursor index and cached count n); textinput's through CursorPosition(); drawn cursor and "
        "drawn cells of textinput through the add-only read-only hooks VerifC17Cursor / VerifC17Row; Window.Fill/SetCell clipping is renderRow "
        "in the driver (one cell per SetCell, last write wins, outside the window dropped)",
    ],
    "assumptions": ["ClSane cl (the empty string has no cluster, a non-empty one has one, clusters concatenate to the text: a theorem of Segmentation) for the TextField loop theorems of Props/C17Body; cl [] = [] for ti_update_body_eq_model",
                    "Segmentation cl (three laws, see trusted_base) for the *_clustered theorems; cl = singletons for the others",
                    "uint cursor arithmetic does not wrap (guarded subtractions only)",
                    "textinput_cursor_at_grapheme_wide: graphemes at most 2 columns wide and more than 6 columns after the prompt; textinput_cursor_scrolled: non-negative widths"],
    "level_text": "Proved for all histories from any starting content, for graphemes that never merge AND for texts whose graphemes merge under any "
                  "Segmentation (typed/pasted combining marks, joiners, variation selectors, flags, jamo; deletions that bring parts of a grapheme "
                  "together): textfield_refines(_clustered) (+ invariant n = count, cursor <= length), textfield_callbacks_exact(_clustered), "
                  "textfield_cursor_column(_clustered) (display width = total width of the characters a grapheme is drawn as, e.g. 8 for a tab); "
                  "textinput_refines(_clustered) (every Update/SetContent/Draw call returns - no index panic, no hang - equals the ideal operation, "
                  "content stays the segmentation of its text), clustered_editor_merge_free_instance (applyC with the never-merging segmentation is apply), draw_terminates, textinput_cursor_column and textinput_cells_fit (while prompt + "
                  "text + scrolloff fit, whatever the old offset: the cells written are exactly the prompt then the text's graphemes - or the mask - "
                  "each at the column = display width before it, no truncator); for every window width: textinput_draw_offset_bounds (0 <= offset <= cursor after Draw) and textinput_cells_in_window (no cell outside the window). Gen theorems: case labels of Update's switch, default-arm guards, "
                  "scroll-loop condition, scrolloff, the if-chain of HandleEvent, and (facts_*_bodies) for every modelled function all writes to "
                  "receiver fields, receiver calls, returns and loops in full, extracted from the source on every run, equal what the models "
                  "transcribe. F46, F47, F117 (round 1) and F217, F317, F417 (round 2) were real violations, fixed in /repo (one commit each). "
                  "Round 3: textinput_models_agree (+_inv): the model over merging graphemes run with the never-merging segmentation on single-atom content IS the merge-free model, "
                  "event by event, panic for panic, and (textinput_models_agree_run) over all histories - the two textinput models are one; the scrolled case of textinput.Draw for EVERY window width: textinput_cells_scrolled (the cells are the "
                  "prompt then the window of the text from the final offset on, left truncator iff offset > 0, right truncator at the grapheme that reaches the edge and nothing after it, mask in "
                  "password mode) and textinput_cursor_scrolled (cursor column in closed form); textinput_cursor_at_grapheme_partial says exactly when the drawn cursor is at its grapheme, textinput_cursor_at_grapheme_wide that it always is when graphemes are at most 2 wide and more than 6 columns follow the prompt, "
                  "Witness.F517 that it is not always (narrow windows: drawn at the prompt's end) - observed on the real code, outside the property text ('while the text fits'), recorded not repaired.",
    "level_text_round4": "Round 4 (Props/C17Body.lean): tf_reset/cursorTo/insertString/deleteRight/deleteLeft/killToEnd/checkChanged/handleEvent_body_eq_model - each TextField function as "
                  "translated from the source on this run (Gen/EditorLang.lean) and interpreted IS the model function (value, cursor, cached count n, result command, callbacks); textfield_source_refines - for every Segmentation and every "
                  "history the interpreted source refines the ideal editor (cursor within the text, n = count); ti_setContent/ti_resegment_body_eq_model and ti_update_body_eq_model - textinput.Update for EVERY event and state (type switch, paste bracket, "
                  "release test, all nineteen key labels with their loops, index and slice panics, default arm, clamping, resegment) is the model's update, result for result, panic for panic; textinput_source_refines (end to end for every Segmentation and history); "
                  "tf_draw_body_eq_model - TextField.Draw as translated computes the model's cursor column (uint16 = integer modulo 65536); editor_bodies_fully_recognised; Props/C17Seg: every streaming segmentation (each code point starts a cluster or extends the last) "
                  "meets the three laws, the driver's UAX #29 oracle clUax is one for every class assignment, so the two end-to-end theorems hold for it with no hypothesis (what stays outside Lean: uniseg = clUax, compared on every op). "
                  "The driver's model column is the interpreter on the regenerated bodies for all four kinds, so a changed statement changes the model, breaks the theorem of that function, and is judged by the ideal-editor oracle "
                  "(which since round 4 also judges the TextField's cursor INDEX, not only the drawn column). Segmentation laws checked on the real uniseg for every text over the 19 atoms up to length 3 (thorough 4) and thousands of random ones.",
    "level_note": "Validated by correspondence only: that Key.String()/Key.Matches produce the strings/verdicts the tables list (C09's subject); that "
                  "uniseg is a Segmentation and equals the driver's clUax (compared on every op); which offset Draw settles on when the line does NOT fit (the scroll policy: modelled in draw/scrollLoop, compared cell by cell; theorems say what is "
                  "shown for the offset it settles on and bound it by 0 <= offset <= cursor, not which offset it is). New oracle on the implementation (round 3): in the scrolled case the drawn row is the prompt followed by a window of the ideal text for some offset 0..cursor, truncators at the cut ends. Modelled, not "
                  "verified: nothing in the editing functions; since round 4 every statement of the editing functions (guards included) is in the translated bodies the theorems speak about; textinput.Draw is still a hand model (its helper widthToCursor is translated and proved equal to the model's, ti_widthToCursor_body_eq_model) tied by the round-2 text pins (printed with canonical variable names since round 4) and the correspondence run; the cells TextField.Draw writes are not modelled. Not modelled: "
                  "direct assignment to the public field TextField.Value, HideCursor, a tab typed into textinput (vaxis.Characters turns it into 8 "
                  "blanks before the editor sees it).",
    "timeout": 1500,
}
CFG["level_text"] += " " + CFG.pop("level_text_round4")
