"""C18 configuration for ./check (see checks/propcfg.py for the keys)."""
CFG = {
    "modules": ["VaxisModel.Props.C18", "VaxisModel.Props.C18Bytes", "VaxisModel.Props.C18Links", "VaxisModel.Props.C18Terminal", "VaxisModel.Props.C18Delta", "VaxisModel.Props.C18DeltaBytes", "VaxisModel.Props.C18Reader",
                "VaxisModel.Witness.F118"],
    "extractors": ["C07", "C18", "C02"],
    "drivers": ["C18"],
    "stateful": False,
    "trivial_prefix": ("-\t",),
    "rule": "enc: every ordered pair of the 128 attribute masks (all pairs for EncodeCells in quick, for all nine "
            "producer configurations — EncodeCells, StyledString.Encode, render x {rgb, styledUnderlines}, legacy "
            "quirk on/off — in thorough) combined with colour classes (default, 0-7, 8-15, 16-255, RGB)^3 and the 6 "
            "underline styles paired along; all 125x125 class pairs x 36 underline-style pairs sampled (quick) / "
            "enumerated for the two codecs and sampled 1/12 for the renderer (thorough); every index colour; random "
            "cell sequences; out-of-range styles (model ≡ code only). dec: every first parameter 0..110 alone and "
            "with sub-parameters from an empty and two busy pens, the producers' whole range, producer-like streams, "
            "every truncation of the extended-colour forms, random parameter lists (with non-numeric junk for "
            "NewStyledString), all through real strings (and the real ansi parser) into ParseStyledString, "
            "NewStyledString and the emulator pen. rt: random cell sequences and single-field transitions through "
            "both codecs. Round 2: encb (exact producer strings), decb (both string parsers on exact strings with the uniseg cluster table: half of all dec "
            "cells|ss cases incl. junk parameter texts, the strings of a third of the rt cases and of all rtl cases), rtl / encbl (cells with hyperlinks: "
            "4 URLs incl. one with ; and non-ASCII, parameters a function of the URL). distinct = distinct op line",
    "trusted_base": ["A-concat as the explicit hypothesis TextOK of the byte-level theorems: every grapheme is non-empty, starts with a rune >= 0x20 and is one "
                     "grapheme cluster (uniseg oracle cl) of the text that follows it; checked per case by the decb stream (real functions on the real "
                     "strings, cluster table from the real uniseg)",
                     "the reader side of the ansi parser (bufio, UTF-8 decoding, Parser.print's look-ahead inside the buffer) is C02/C08's ParserIO model; "
                     "here a Print swallows the oracle's cluster of the remaining runes. The automaton itself is C02's model (hand table proved equal to "
                     "the regenerated one)",
                     "Spec.sgr (Spec/Sgr.lean, written from ECMA-48 / xterm ctlseqs) as the meaning of SGR; "
                     "shown / shownCaps (Model/Sgr.lean) as the terminal-level meaning of a vaxis Style",
                     "extractor cmd/C18 for labels / arities / producer call sequences (fails closed); the SGR templates it parses are no longer trusted: "
                     "every template is proved to be what its regenerated format string prints (Lemmas.SgrBytes.b_*)"],
    "assumptions": ["styles are well formed: colours built by IndexColor/RGBColor or default, attribute mask over the seven "
                    "defined bits, underline style 0..5; hyperlinks are not in the model's Style (theorems are about cells without hyperlinks)",
                    "SGR parameters are < 2^63 (the ansi parser's int accumulation does not overflow)"],
    "level_text": "SGR codecs and producer/consumer agreement, on tokens and on BYTES: for all attribute-mask pairs (per-bit proof), all colours and "
                  "underline styles, all cell sequences: the sequences EncodeCells / StyledString.Encode / render write mean (under Spec.sgr) exactly "
                  "the next style (attr_delta, pen_delta_correct_*, encoded_shows_*, render_frame_shows); every producible sequence, colon forms and "
                  "legacy semicolon forms, is understood as the spec says and identically by parseSGR, the embedded terminal and NewStyledString "
                  "(consumer_refines_spec_*, producers_consumers_agree — unconditional since the F118 repair — producers_consumers_agree_all), with "
                  "decide-checked label coverage over the regenerated case labels; parse∘encode = id for both codecs and both cross directions "
                  "(roundtrip_cells, roundtrip_ss, roundtrip_cells_via_ss, roundtrip_ss_via_cells), pen reset at the end (ends_reset_*); no consumer "
                  "panics on any list of non-empty parameter lists. Byte level (Props/C18Bytes): the regenerated format strings printed with %d are "
                  "the canonical printing of the templates (format_strings_print_templates, delta_bytes_eq, encodeCells_bytes_eq), C02's parser model "
                  "reads every producible sequence back as exactly its parameter list (sgr_bytes_parse, composing csi_roundtrip), NewStyledString's own "
                  "Cut/Split/Atoi does too (sgr_bytes_split), hence ParseStyledString(EncodeCells cs) = cs and NewStyledString(Encode cs) = cs over "
                  "List Nat (roundtrip_cells_bytes, roundtrip_ss_bytes, roundtrip_cross_bytes, producers_consumers_agree_bytes).",
    "level_note": "Proved for all inputs on the model (70 theorems, axioms propext/Classical.choice/Quot.sound only). Fixed in /repo: F48, F35 (round 1), "
                  "F118 (NewStyledString reads the legacy semicolon colour forms; witness of the old behaviour kept in Witness/F118), F119 (NewStyledString "
                  "reads OSC 8 instead of turning it into cells), F121 (the encoders close a hyperlink still open at the end; ends_link_closed). Validated by correspondence only: that the byte-level model is the code (encb: exact "
                  "producer strings; decb: both string parsers on exact strings incl. junk parameter texts, with the uniseg cluster table), grapheme "
                  "segmentation (hypothesis TextOK), what each handled label does (the set of labels and arities is extracted). Outside the theorems: "
                  "hyperlinks (the model's Style has no hyperlink fields; that graphemes and SGR styles survive hyperlinks and that NewStyledString "
                  "restores them is an oracle on the real code, op rtl); cell widths (not in the property text; re-measured by the parsers).",
    "timeout": 1800,
}
