"""C18 configuration for ./check (see checks/propcfg.py for the keys)."""
CFG = {
    "modules": ["VaxisModel.Props.C18", "VaxisModel.Props.C18Bytes", "VaxisModel.Props.C18Links", "VaxisModel.Props.C18Terminal", "VaxisModel.Props.C18Delta", "VaxisModel.Props.C18DeltaBytes", "VaxisModel.Props.C18Reader", "VaxisModel.Props.C18Total", "VaxisModel.Props.C18Agree", "VaxisModel.Props.C18Quirk", "VaxisModel.Props.C18LinksIff",
                "VaxisModel.Witness.F118"],
    "extractors": ["C07", "C18", "C02"],
    "drivers": ["C18"],
    "stateful": False,
    "trivial_prefix": ("-\t",),
    "rule": "enc: every ordered pair of the 128 attribute masks (all pairs for EncodeCells in quick, for all nine "
            "producer configurations — EncodeCells, StyledString.Encode, render x {rgb, styledUnderlines}, legacy "
            "quirk on/off — in thorough) combined with colour classes (default, 0-7, 8-15, 16-255, RGB)^3 and the 6 "
            "underline styles paired along; all 125x125 class pairs x 36 underline-style pairs sampled (quick) / "
            "enumerated for the two codecs and sampled 1/12 for the renderer (thorough); every index colour; random "
            "cell sequences; out-of-range styles (model ≡ code only). dec: every first parameter 0..110 alone and "
            "with sub-parameters from an empty and two busy pens, the producers' whole range, producer-like streams, "
            "every truncation of the extended-colour forms, random parameter lists (with non-numeric junk for "
            "NewStyledString), all through real strings (and the real ansi parser) into ParseStyledString, "
            "NewStyledString and the emulator pen. rt: random cell sequences and single-field transitions through "
            "both codecs. Round 2: encb (exact producer strings), decb (both string parsers on exact strings with the uniseg cluster table: half of all dec "
            "cells|ss cases incl. junk parameter texts, the strings of a third of the rt cases and of all rtl cases), rtl / encbl (cells with hyperlinks: "
            "4 URLs incl. one with ; and non-ASCII, parameters a function of the URL). Round 3: decbl (NewStyledString with hyperlinks on exact strings: all rtl strings, "
            "default styles with and without a link, 14 hand-made strings around the link state), genLong (strings of 4-8 kB, thorough 16 kB: every rune boundary of four "
            "multi-rune graphemes on and next to the 4096-byte buffer boundaries of the parser's reader: rt cells|ss, decb cells|ss). Round 4: dec-truncated-pos (every cut of the legacy and colon forms of "
            "38/48/58 after 0-5 leading and before 0-2 trailing parameters, all three consumers: 3 x 1188), agr (the three real consumers side by side on arbitrary well-printed parameter lists: "
            "vocabulary alone / prefixed / suffixed / embedded, 16x16 pairs, 3 000 random lists of 1-7 parameters with 1-7 sub-parameters; thorough 60 000), rdf (850 real rendered frames, every "
            "capability setting and the legacy quirk, read back by the real ParseStyledString / NewStyledString / emulator sgr()), 47 documentation cases of the nine consumer-disagreement classes (corpus). distinct = distinct op line",
    "trusted_base": ["A-concat as the explicit hypothesis TextOK of the byte-level theorems: every grapheme is non-empty, starts with a rune >= 0x20 and is one "
                     "grapheme cluster (uniseg oracle cl) of the text that follows it; checked per case by the decb stream (real functions on the real "
                     "strings, cluster table from the real uniseg)",
                     "the reader side of the ansi parser is C02/C08's ParserIO model (bufio fill loop, UTF-8 decoding, readRune, Parser.print's look-ahead over the buffer); "
                     "round 3: composed with it (Props/C18Reader) for strings of Unicode scalar values delivered in one read, hypothesis Agrees (the byte-offset oracle "
                     "of ParserIO = the oracle on the remaining runes); how ParseStyledString builds its reader is extracted (Gen.SgrCases.parseStyledReader). "
                     "The automaton itself is C02's model (hand table proved equal to the regenerated one)",
                     "Spec.sgr (Spec/Sgr.lean, written from ECMA-48 / xterm ctlseqs) as the meaning of SGR; "
                     "shown / shownCaps (Model/Sgr.lean) as the terminal-level meaning of a vaxis Style",
                     "extractor cmd/C18 for labels / arities / producer call sequences (fails closed); the SGR templates it parses are no longer trusted: "
                     "every template is proved to be what its regenerated format string prints (Lemmas.SgrBytes.b_*)",
                     "round 4: the numbers of the bounds checks / jumps / selectors under case 38/48/58 of the two [][]int consumers are extracted, READ by the model (Cfg.nums in extColour) and pinned (facts_ext_forms); sgr_total rests on cfgs_nums_ok; "
                     "C02's model of csiDispatch (decodeLoop; tied to the source by C02's csiDispatch_body) for 'the parser never delivers an empty parameter'; "
                     "strings.Split / Cut as modelled by splitB / cutM (decb correspondence on junk bodies)"],
    "assumptions": ["styles are well formed: colours built by IndexColor/RGBColor or default, attribute mask over the seven "
                    "defined bits, underline style 0..5; hyperlinks: cells carry a Link beside the Style (Model/SgrLinks); they come back through Encode / NewStyledString "
                    "exactly under LinksRestorable (no ; in parameters, none for the empty URL, equal parameters for neighbouring cells with equal URLs: "
                    "roundtrip_ss_links_iff, round 4)",
                    "SGR parameters are < 2^63 (the ansi parser's int accumulation does not overflow)"],
    "level_text": "SGR codecs and producer/consumer agreement, on tokens and on BYTES: for all attribute-mask pairs (per-bit proof), all colours and "
                  "underline styles, all cell sequences: the sequences EncodeCells / StyledString.Encode / render write mean (under Spec.sgr) exactly "
                  "the next style (attr_delta, pen_delta_correct_*, encoded_shows_*, render_frame_shows); every producible sequence, colon forms and "
                  "legacy semicolon forms, is understood as the spec says and identically by parseSGR, the embedded terminal and NewStyledString "
                  "(consumer_refines_spec_*, producers_consumers_agree — unconditional since the F118 repair — producers_consumers_agree_all), with "
                  "decide-checked label coverage over the regenerated case labels; parse∘encode = id for both codecs and both cross directions "
                  "(roundtrip_cells, roundtrip_ss, roundtrip_cells_via_ss, roundtrip_ss_via_cells), pen reset at the end (ends_reset_*); no consumer "
                  "panics on any list of non-empty parameter lists. Byte level (Props/C18Bytes): the regenerated format strings printed with %d are "
                  "the canonical printing of the templates (format_strings_print_templates, delta_bytes_eq, encodeCells_bytes_eq), C02's parser model "
                  "reads every producible sequence back as exactly its parameter list (sgr_bytes_parse, composing csi_roundtrip), NewStyledString's own "
                  "Cut/Split/Atoi does too (sgr_bytes_split), hence ParseStyledString(EncodeCells cs) = cs and NewStyledString(Encode cs) = cs over "
                  "List Nat (roundtrip_cells_bytes, roundtrip_ss_bytes, roundtrip_cross_bytes, producers_consumers_agree_bytes). Round 3: the nine producer x consumer pairs as named forall-theorems "
                  "(delta_{encodeCells,ssEncode,render}_{parseSGR,emuSgr,ssParse}: all wf styles = all 128x128 masks x all colour classes x all underline styles, both format "
                  "variants, every capability setting via capStyle) and over bytes (delta_*_bytes); encoded_shows_*, render_frame_shows and the emulator round trip over bytes (Props/C18Terminal); "
                  "hyperlinks at full strength: NewStyledString(Encode cs) = cs and NewStyledString(EncodeCells cs) = cs including URL and parameters (roundtrip_ss_links_full_bytes, roundtrip_cells_links_via_ss_full_bytes, hypothesis LinksRestorable = what the rtl oracle evaluates; "
                  "negation without it proved from a witness); ParseStyledString with its reading side inside the model (reader_single_read, parseStyledIO_eq, "
                  "roundtrip_cells_io: C02's ParserIO on the whole string in one read = the oracle model; reader_recognised: that is the reader the source builds). "
                  "Round 4: never-panic WITHOUT hypothesis at the byte level (sgr_total_parser_delivers: csiDispatch never builds an empty parameter, any table / state / input; sgr_total_parseStyled_bytes, "
                  "sgr_total_pen_bytes, sgr_total_newStyledString_bytes for every string; sgr_total_parseStyled_io for every byte string through the ParserIO reader incl. invalid UTF-8; sgr_total_esc_m_bytes); "
                  "agreement on EVERY parameter list: parseSGR = emulator sgr for all lists and styles (consumers_int_agree_all), NewStyledString agrees on the decidable class agreeClass which contains the "
                  "producers' whole range (consumers_agree_on_class, producers_range_in_class, string_parsers_agree_on_class over strings), EXACTLY on the decidable set agreeExact (consumers_agree_iff: every consumer is a "
                  "field-wise keep/constant, bit-wise keep/set/clear transformer of the style, so two probe styles decide agreement from every style) and provably not everywhere (nine disagreement classes with "
                  "decide-checked witnesses, all outside the producers' range: disagreement_witnesses, disagreement_noncanonical_bytes, consumers_agree_all_full_fails); the legacy-SGR quirk as named statements "
                  "(quirk_is_replace_colon, quirk_strings, quirk_prints_legacy_forms: legacy = true is what quirks.go does; legacy_quirk_no_effect_ssEncode from the extracted mutability facts; nine "
                  "legacy_quirk_<producer>_<consumer> at token and byte level; legacy_quirk_roundtrip_*; render_frame_read_bytes / legacy_quirk_frame: a rendered frame's SGR+text bytes read back by all three "
                  "consumers under every capability setting); hyperlinks: LinksRestorable is EXACT (roundtrip_ss_links_iff, roundtrip_cells_links_via_ss_iff, links_restorable_iff_clauses).",
    "level_note": "Proved for all inputs on the model (162 theorems, axioms propext/Classical.choice/Quot.sound only). Fixed in /repo: F48, F35 (round 1), "
                  "F118, F119, F121 (round 2), F122 (round 3: ParseStyledString split a grapheme that straddled the parser's 4096-byte buffer; it now buffers the whole "
                  "string; parse_chunked_cuts_cluster shows the old reader failing on the model). Validated by correspondence only: that the byte-level model is the code "
                  "(encb / encbl: exact producer strings; decb: both string parsers on exact strings incl. junk parameter texts, with the uniseg cluster table, and the "
                  "ParserIO-based reader model beside the oracle model on every decb cells string; decbl: NewStyledString with hyperlink fields), grapheme segmentation "
                  "(hypotheses TextOK / Agrees), what each handled label does (the set of labels and arities is extracted); round 4: that the three real consumers are the three models on arbitrary well-printed lists (agr: real ParseStyledString / NewStyledString / emulator side by side; verdict: never "
                  "panic, equal on producible sequences; agreement exactly on agreeExact follows from consumers_agree_iff and this correspondence), that the nine disagreement classes are stable on the real code (corpus R4, model = implementation), that a real "
                  "rendered frame is read back as capCells (rdf). Not findings: the disagreements lie outside the producers' range. "
                  "Outside the theorems: what ParseStyledString returns for "
                  "invalid UTF-8 (C02's streams; that it does not panic is sgr_total_parseStyled_io), negative parameter values from int overflow (read as 0 by the model), hyperlinks through ParseStyledString (it drops them: not in the property text), cell widths (not in the "
                  "property text; re-measured by the parsers), cursor movement / mode sequences of rendered frames (the SGR and text part is inside: renderFromB, render_frame_shows_bytes, op encb render).",
    "technique": "Lean 4 proofs over executable models of the three producers and three consumers (token level and byte level, composed with C02's parser model and ParserIO reader); "
                 "decidable classes / ranges with decide-checked witnesses for false full statements; extractor-regenerated labels, arities, format strings, quirk rewrites and producer call sequences; "
                 "differential correspondence on the real code (enc/dec/rt/rtq/rtl/encb/decb/decbl/encbl/agr/rdf) with Spec.sgr as the independent oracle",
    "timeout": 1800,
}
