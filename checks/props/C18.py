"""C18 configuration for ./check (see checks/propcfg.py for the keys)."""
CFG = {
    "modules": ["VaxisModel.Props.C18", "VaxisModel.Witness.F118"],
    "extractors": ["C07", "C18"],
    "drivers": ["C18"],
    "stateful": False,
    "trivial_prefix": ("-\t",),
    "rule": "enc: every ordered pair of the 128 attribute masks (all pairs for EncodeCells in quick, for all nine "
            "producer configurations in thorough) combined with colour classes (default, 0-7, 8-15, 16-255, RGB)^3 "
            "and the 6 underline styles paired along, all 125x125 class pairs x 36 underline-style pairs sampled "
            "(quick) / enumerated for the two codecs (thorough), every index colour, random cell sequences; "
            "dec: every first parameter 0..110 alone and with sub-parameters, the producers' whole range, every "
            "truncation of the extended-colour forms, random parameter lists (with non-numeric junk for "
            "NewStyledString) through real strings and the real ansi parser into ParseStyledString, NewStyledString "
            "and the emulator pen; rt: random cell sequences through both codecs. distinct = distinct op line",
    "trusted_base": ["A-concat: the ansi parser / uniseg split the concatenated string back into the SGR sequences and the "
                     "graphemes it was built from (graphemes are opaque tokens in the model; checked by running the real "
                     "functions on real strings)",
                     "string level of NewStyledString (split on ; and :, strconv.Atoi) and the parser's decimal accumulation are "
                     "executable driver code validated by correspondence only"],
    "assumptions": ["styles are well formed: colours built by IndexColor/RGBColor or default, attribute mask over the seven "
                    "defined bits, underline style 0..5, no hyperlink; graphemes non-empty and self-delimiting"],
    "level_text": "SGR codecs: see level_note",
    "level_note": "see notes/C18.md",
    "timeout": 1800,
}
