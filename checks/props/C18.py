"""C18 configuration for ./check (see checks/propcfg.py for the keys)."""
CFG = {
    "modules": ["VaxisModel.Props.C18", "VaxisModel.Props.C18Bytes", "VaxisModel.Props.C18Links", "VaxisModel.Props.C18Terminal", "VaxisModel.Props.C18Delta", "VaxisModel.Props.C18DeltaBytes", "VaxisModel.Props.C18Reader", "VaxisModel.Props.C18Total", "VaxisModel.Props.C18Agree", "VaxisModel.Props.C18Quirk", "VaxisModel.Props.C18LinksIff",
                "VaxisModel.Witness.F118"],
    "extractors": ["C07", "C18", "C02"],
    "drivers": ["C18"],
    "stateful": False,
    "trivial_prefix": ("-\t",),
    "rule": "enc: every ordered pair of the 128 attribute masks (all pairs for EncodeCells in quick, for all nine "
            "producer configurations — EncodeCells, StyledString.Encode, render x {rgb, styledUnderlines}, legacy "
            "quirk on/off — in thorough) combined with colour classes (default, 0-7, 8-15, 16-255, RGB)^3 and the 6 "
            "underline styles paired along; all 125x125 class pairs x 36 underline-style pairs sampled (quick) / "
            "enumerated for the two codecs and sampled 1/12 for the renderer (thorough); every index colour; random "
            "cell sequences; out-of-range styles (model ≡ code only). dec: every first parameter 0..110 alone and "
            "with sub-parameters from an empty and two busy pens, the producers' whole range, producer-like streams, "
            "every truncation of the extended-colour forms, random parameter lists (with non-numeric junk for "
            "NewStyledString), all through real strings (and the real ansi parser) into ParseStyledString, "
            "NewStyledString and the emulator pen. rt: random cell sequences and single-field transitions through "
            "both codecs. Round 2: encb (exact producer strings), decb (both string parsers on exact strings with the uniseg cluster table: half of all dec "
            "cells|ss cases incl. junk parameter texts, the strings of a third of the rt cases and of all rtl cases), rtl / encbl (cells with hyperlinks: "
            "4 URLs incl. one with ; and non-ASCII, parameters a function of the URL). Round 3: decbl (NewStyledString with hyperlinks on exact strings: all rtl strings, "
            "default styles with and without a link, 14 hand-made strings around the link state), genLong (strings of 4-8 kB, thorough 16 kB: every rune boundary of four "
            "multi-rune graphemes on and next to the 4096-byte buffer boundaries of the parser's reader: rt cells|ss, decb cells|ss). distinct = distinct op line",
    "trusted_base": ["A-concat as the explicit hypothesis TextOK of the byte-level theorems: every grapheme is non-empty, starts with a rune >= 0x20 and is one "
                     "grapheme cluster (uniseg oracle cl) of the text that follows it; checked per case by the decb stream (real functions on the real "
                     "strings, cluster table from the real uniseg)",
                     "the reader side of the ansi parser is C02/C08's ParserIO model (bufio fill loop, UTF-8 decoding, readRune, Parser.print's look-ahead over the buffer); "
                     "round 3: composed with it (Props/C18Reader) for strings of Unicode scalar values delivered in one read, hypothesis Agrees (the byte-offset oracle "
                     "of ParserIO = the oracle on the remaining runes); how ParseStyledString builds its reader is extracted (Gen.SgrCases.parseStyledReader). "
                     "The automaton itself is C02's model (hand table proved equal to the regenerated one)",
                     "Spec.sgr (Spec/Sgr.lean, written from ECMA-48 / xterm ctlseqs) as the meaning of SGR; "
                     "shown / shownCaps (Model/Sgr.lean) as the terminal-level meaning of a vaxis Style",
                     "extractor cmd/C18 for labels / arities / producer call sequences (fails closed); the SGR templates it parses are no longer trusted: "
                     "every template is proved to be what its regenerated format string prints (Lemmas.SgrBytes.b_*)"],
    "assumptions": ["styles are well formed: colours built by IndexColor/RGBColor or default, attribute mask over the seven "
                    "defined bits, underline style 0..5; hyperlinks: cells carry a Link beside the Style (Model/SgrLinks); they come back through Encode / NewStyledString "
                    "under LinksRestorable (no ; in parameters, none for the empty URL, equal parameters for neighbouring cells with equal URLs — false without it: "
                    "roundtrip_ss_links_unrestricted_fails)",
                    "SGR parameters are < 2^63 (the ansi parser's int accumulation does not overflow)"],
    "level_text": "SGR codecs and producer/consumer agreement, on tokens and on BYTES: for all attribute-mask pairs (per-bit proof), all colours and "
                  "underline styles, all cell sequences: the sequences EncodeCells / StyledString.Encode / render write mean (under Spec.sgr) exactly "
                  "the next style (attr_delta, pen_delta_correct_*, encoded_shows_*, render_frame_shows); every producible sequence, colon forms and "
                  "legacy semicolon forms, is understood as the spec says and identically by parseSGR, the embedded terminal and NewStyledString "
                  "(consumer_refines_spec_*, producers_consumers_agree — unconditional since the F118 repair — producers_consumers_agree_all), with "
                  "decide-checked label coverage over the regenerated case labels; parse∘encode = id for both codecs and both cross directions "
                  "(roundtrip_cells, roundtrip_ss, roundtrip_cells_via_ss, roundtrip_ss_via_cells), pen reset at the end (ends_reset_*); no consumer "
                  "panics on any list of non-empty parameter lists. Byte level (Props/C18Bytes): the regenerated format strings printed with %d are "
                  "the canonical printing of the templates (format_strings_print_templates, delta_bytes_eq, encodeCells_bytes_eq), C02's parser model "
                  "reads every producible sequence back as exactly its parameter list (sgr_bytes_parse, composing csi_roundtrip), NewStyledString's own "
                  "Cut/Split/Atoi does too (sgr_bytes_split), hence ParseStyledString(EncodeCells cs) = cs and NewStyledString(Encode cs) = cs over "
                  "List Nat (roundtrip_cells_bytes, roundtrip_ss_bytes, roundtrip_cross_bytes, producers_consumers_agree_bytes). Round 3: the nine producer x consumer pairs as named forall-theorems "
                  "(delta_{encodeCells,ssEncode,render}_{parseSGR,emuSgr,ssParse}: all wf styles = all 128x128 masks x all colour classes x all underline styles, both format "
                  "variants, every capability setting via capStyle) and over bytes (delta_*_bytes); encoded_shows_*, render_frame_shows and the emulator round trip over bytes (Props/C18Terminal); "
                  "hyperlinks at full strength: NewStyledString(Encode cs) = cs and NewStyledString(EncodeCells cs) = cs including URL and parameters (roundtrip_ss_links_full_bytes, roundtrip_cells_links_via_ss_full_bytes, hypothesis LinksRestorable = what the rtl oracle evaluates; "
                  "negation without it proved from a witness); ParseStyledString with its reading side inside the model (reader_single_read, parseStyledIO_eq, "
                  "roundtrip_cells_io: C02's ParserIO on the whole string in one read = the oracle model; reader_recognised: that is the reader the source builds).",
    "level_note": "Proved for all inputs on the model (106 theorems, axioms propext/Classical.choice/Quot.sound only). Fixed in /repo: F48, F35 (round 1), "
                  "F118, F119, F121 (round 2), F122 (round 3: ParseStyledString split a grapheme that straddled the parser's 4096-byte buffer; it now buffers the whole "
                  "string; parse_chunked_cuts_cluster shows the old reader failing on the model). Validated by correspondence only: that the byte-level model is the code "
                  "(encb / encbl: exact producer strings; decb: both string parsers on exact strings incl. junk parameter texts, with the uniseg cluster table, and the "
                  "ParserIO-based reader model beside the oracle model on every decb cells string; decbl: NewStyledString with hyperlink fields), grapheme segmentation "
                  "(hypotheses TextOK / Agrees), what each handled label does (the set of labels and arities is extracted). Outside the theorems: ParseStyledString on "
                  "invalid UTF-8 (C02's streams), hyperlinks through ParseStyledString (it drops them: not in the property text), cell widths (not in the "
                  "property text; re-measured by the parsers), cursor movement / mode sequences of rendered frames (the SGR and text part is inside: renderFromB, render_frame_shows_bytes, op encb render).",
    "timeout": 1800,
}
