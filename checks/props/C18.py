"""C18 configuration for ./check (see checks/propcfg.py for the keys)."""
CFG = {
    "modules": ["VaxisModel.Props.C18", "VaxisModel.Props.C18Bytes", "VaxisModel.Witness.F118"],
    "extractors": ["C07", "C18", "C02"],
    "drivers": ["C18"],
    "stateful": False,
    "trivial_prefix": ("-\t",),
    "rule": "enc: every ordered pair of the 128 attribute masks (all pairs for EncodeCells in quick, for all nine "
            "producer configurations — EncodeCells, StyledString.Encode, render x {rgb, styledUnderlines}, legacy "
            "quirk on/off — in thorough) combined with colour classes (default, 0-7, 8-15, 16-255, RGB)^3 and the 6 "
            "underline styles paired along; all 125x125 class pairs x 36 underline-style pairs sampled (quick) / "
            "enumerated for the two codecs and sampled 1/12 for the renderer (thorough); every index colour; random "
            "cell sequences; out-of-range styles (model ≡ code only). dec: every first parameter 0..110 alone and "
            "with sub-parameters from an empty and two busy pens, the producers' whole range, producer-like streams, "
            "every truncation of the extended-colour forms, random parameter lists (with non-numeric junk for "
            "NewStyledString), all through real strings (and the real ansi parser) into ParseStyledString, "
            "NewStyledString and the emulator pen. rt: random cell sequences and single-field transitions through "
            "both codecs. distinct = distinct op line",
    "trusted_base": ["A-concat: the ansi parser / uniseg split the concatenated string back into the SGR sequences and the "
                     "graphemes it was built from (graphemes are opaque tokens in the model; exercised by running the real "
                     "functions on real strings)",
                     "string level of NewStyledString (split on ; and :, strconv.Atoi, exact string case labels) and the "
                     "parser's decimal accumulation are executable driver code validated by correspondence only",
                     "Spec.sgr (Spec/Sgr.lean, written from ECMA-48 / xterm ctlseqs) as the meaning of SGR; "
                     "shown / shownCaps (Model/Sgr.lean) as the terminal-level meaning of a vaxis Style",
                     "extractor cmd/C18: SGR templates parsed from the string constants by the extractor (fails closed)"],
    "assumptions": ["styles are well formed: colours built by IndexColor/RGBColor or default, attribute mask over the seven "
                    "defined bits, underline style 0..5, no hyperlink; graphemes non-empty and self-delimiting",
                    "SGR parameters are < 2^63 (the ansi parser's int accumulation does not overflow)"],
    "level_text": "SGR codecs and producer/consumer agreement: for all attribute-mask pairs (per-bit proof), all colours and "
                  "underline styles, all cell sequences: the sequences EncodeCells / StyledString.Encode / render write mean "
                  "(under Spec.sgr) exactly the next style (attr_delta, pen_delta_correct_*, encoded_shows_*, "
                  "render_frame_shows); every producible sequence is understood as the spec says by parseSGR, the embedded "
                  "terminal and NewStyledString (consumer_refines_spec_*, producers_consumers_agree), with decide-checked "
                  "label coverage over the regenerated case labels; parse∘encode = id for both codecs on token sequences "
                  "(roundtrip_cells, roundtrip_ss) and the pen is reset at the end (ends_reset_*); no consumer panics on any "
                  "list of non-empty parameter lists (sgr_total, sgr_total_ss).",
    "level_note": "Proved for all inputs on the model (38 theorems, axioms propext/Classical.choice/Quot.sound only). False of "
                  "the current code and proved so: NewStyledString on the legacy semicolon colour forms (F118, Witness/F118, "
                  "known finding). Fixed in /repo: F48 (NewStyledString case 59), F35 (emulator case 59). Validated by "
                  "correspondence only: byte level (format strings → parameter lists through the real ansi parser; string "
                  "splitting / Atoi of NewStyledString), grapheme segmentation (A-concat), what each handled label does "
                  "(the set of labels and arities is extracted). Modelled not verified: hyperlinks (OSC 8) are left out; "
                  "cell widths are not compared.",
    "timeout": 1800,
}
