"""C19 configuration for ./check (see checks/propcfg.py for the keys)."""
CFG = {
    "modules": ["VaxisModel.Props.C19", "VaxisModel.Props.C19Tie", "VaxisModel.Witness.F49", "VaxisModel.Witness.F50", "VaxisModel.Witness.F119"],
    "extractors": ["C19"],
    "drivers": ["C19"],
    "stateful": True,
    "trivial_prefix": ("-", "idx=0\t"),
    "rule": "one widget per case, driven through its public API; cases = op histories. widgets/list: every history "
            "over {down,up,home,end,pgdn,pgup,set 0/2/n+1,draw} up to length 3 (quick) / 4 (thorough) for every item count "
            "0..4 x viewport 0..5, plus a reduced alphabet up to length 5 / 7 on counts {0,1,3} x viewports {0,1,2}, "
            "plus random histories (counts 0..40, viewports 0..8, length 5..40); every case ends with a draw whose "
            "cells are read back from a fake-console Vaxis. widgets/pager: every text of up to 4 pieces over "
            "{a,b,space,newline,wide CJK} x width 0..4 x height 0..3, plus random texts (CRLF, combining marks, emoji, "
            "1-3 segments) with random draw/scroll/offset/relayout histories. widgets/scrollbar: all (total,view,top,h) "
            "in [-1,6]x[-1,7]x[-2,7]x[0,5] plus random valid positions. vxfw/list Dynamic: every history over "
            "{next,prev,wheel up/down,draw,setcursor,pending -2} up to length 3 / 5 on 9 height patterns (0..4 items, "
            "heights 1..3) x viewports {0,1,2,3,5} x (gap, cursor gutter) in {(0,off),(0,on),(1,off)}, plus random "
            "histories with item replacement, heights up to 9, gaps 0..2. distinct = whole op history; non-trivial = "
            "anything but the constructor line.",
    "trusted_base": [
        "vaxis.Characters (uniseg segmentation, widths) is a parameter of the pager model: the harness passes the characters",
        "Window.Println / SetCell / Fill (clipping, C11) are not re-modelled here: the list model prints item i on row i when i < height",
        "uint is 64 bit (Go on amd64/arm64) in the Dynamic list model",
    ],
    "level_text": "widgets/list: no panic, index in range and the selected row inside the viewport are proved for every item "
                  "count >= 0, every viewport height >= 0 and every finite history, over the index expressions regenerated from "
                  "list.go. widgets/pager: the laid-out lines reproduce every character of every text incl. an unterminated "
                  "last line, respect the width, and Draw clamps the offset - proved for all texts/widths/offsets. "
                  "widgets/scrollbar: bar inside the track proved for all valid positions. vxfw/list Dynamic: layout "
                  "(order, contiguity, heights) proved for one Draw from ANY state for gap = 0 or no upward scroll; for gap 0 and "
                  "any fixed builder, no panic and 'selected item visible after SetCursor/NextItem/PrevItem + Draw' are proved for "
                  "ALL histories (invariants Inv3/Inv4); for gap > 0 visibility is proved from any settled scroll state only.",
    "level_note": "Proved for all inputs/histories: simple_list_safe, simple_list_selected_visible, pager_complete, "
                  "pager_offset_clamped, scrollbar_in_track, dyn_no_panic_empty, dyn_no_panic (gap 0), dyn_cursor_visible and "
                  "dyn_next_prev_visible (gap 0, all histories). Proved with an explicit extra hypothesis "
                  "(full statement kept as def): dyn_layout_partial (gap = 0 or no upward scroll; full statement refuted by "
                  "Witness.F119.dyn_layout_full_fails = finding F119c), dyn_cursor_visible_partial / dyn_next_prev_visible_partial "
                  "(any gap >= 0, state assumed settled; dyn_cursor_visible_full for gap > 0 open). Validated by correspondence only: "
                  "Dynamic with gap > 0 or with items replaced during the history (oracle evaluated on the real "
                  "code on every generated history; recorded findings F119b-e), what Println/SetCell do with the rows. "
                  "Model tied to source by Gen/ListFacts.lean (index expressions translated, Draw/Layout/scrollbar bodies "
                  "pinned statement by statement, Dynamic's methods pinned by digest, three repair facts as Bools) and by the "
                  "public-API correspondence (0 mismatches allowed).",
    "assumptions": [
        "Dynamic list: child heights and their sums stay below 2^16 (uint16 arithmetic not modelled); cursors passed to SetCursor are below 2^63",
        "Draw contexts are bounded (Max.Width, Max.Height != 65535), as Dynamic.Draw itself requires",
    ],
    "technique": "Lean 4 proof over an executable model; extractor + differential correspondence harness",
    "timeout": 1500,
}
