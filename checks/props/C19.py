"""C19 configuration for ./check (see checks/propcfg.py for the keys)."""
CFG = {
    "modules": ["VaxisModel.Props.C19", "VaxisModel.Witness.F49", "VaxisModel.Witness.F50", "VaxisModel.Witness.F119"],
    "extractors": ["C19"],
    "drivers": ["C19"],
    "stateful": True,
    "trivial_prefix": ("-", "idx=0\t"),
    "rule": "placeholder",
    "trusted_base": [],
    "level_text": "placeholder",
    "level_note": "placeholder",
    "assumptions": [],
    "timeout": 1500,
}
