"""C19 configuration for ./check (see checks/propcfg.py for the keys)."""
CFG = {
    "modules": ["VaxisModel.Props.C19", "VaxisModel.Props.C19Tie", "VaxisModel.Props.C19Exec", "VaxisModel.Props.C19Pager", "VaxisModel.Props.C19Wid", "VaxisModel.Props.C19C15", "VaxisModel.Props.C19All", "VaxisModel.Witness.F49", "VaxisModel.Witness.F50", "VaxisModel.Witness.F119", "VaxisModel.Witness.F119i"],
    "extractors": ["C19", "C11"],
    "drivers": ["C19"],
    "stateful": True,
    "trivial_prefix": ("-", "idx=0\t"),
    "rule": "one widget per case, driven through its public API; cases = op histories. widgets/list: every history "
            "over {down,up,home,end,pgdn,pgup,set 0/2/n+1,draw} up to length 3 (quick) / 4 (thorough) for every item count "
            "0..4 x viewport 0..5, plus a reduced alphabet up to length 5 / 7 on counts {0,1,3} x viewports {0,1,2}, "
            "plus random histories (counts 0..40, viewports 0..8, length 5..40); every case ends with a draw whose "
            "cells are read back from a fake-console Vaxis. widgets/pager: every text of up to 4 pieces over "
            "{a,b,space,newline,wide CJK} x width 0..4 x height 0..3, plus random texts (CRLF, combining marks, emoji, "
            "1-3 segments) with random draw/scroll/offset/relayout histories. widgets/scrollbar: all (total,view,top,h) "
            "in [-1,6]x[-1,7]x[-2,7]x[0,5] plus random valid positions. vxfw/list Dynamic: every history over "
            "{next,prev,wheel up/down,draw,setcursor,pending -2,items shrunk,items other heights} up to length 3 / 5 on 9 "
            "height patterns (0..4 items, heights 1..3) x viewports {0,1,2,3,5} x (gap, cursor gutter) in "
            "{(0,off),(0,on),(1,off),(2,on)}; an upward-scroll family; a replacement family (gaps 0..3 evenly, heights 0..6, "
            "the builder replaced often between pending scrolls of both signs, wheel events and selection changes); random "
            "long histories with item replacement, heights up to 9, gaps 0..3, and (round 3) arbitrary events delivered to CaptureEvent / "
            "HandleEvent (j, Down, k, Up, another key, wheel up/down, another button, a key to HandleEvent, a mouse event to CaptureEvent, "
            "FocusIn; a fifth of them with DisableEventHandlers set). distinct = whole op history; non-trivial = "
            "anything but the constructor line. The thorough tier (also the check's fallback search) is capped near 5 M lines: exhaustive "
            "histories of length >= 4 are sub-sampled with a seed-dependent stride.",
    "trusted_base": [
        "vaxis.Characters (uniseg segmentation, widths) is a parameter of the pager model: the harness passes the characters",
        "Window.Println / SetCell / Fill (clipping, C11) are not re-modelled here: the two facts used (a Println row >= height draws nothing; a SetCell outside the window changes nothing) are proved from C11's model (simple_list_println_rows, setcell_outside_ignored)",
        "uint is 64 bit (Go on amd64/arm64) in the Dynamic list model",
        "the interpreter of the regenerated bodies (Model/DynExec.lean: parser of the flat statement lines, uint typing rule, what it keeps of surfaces - index, row, height; columns, cells and the child of the cursor surface are not represented) is the semantics of the Go subset the theorems draw_body_eq_model / insert_children_body_eq_model / handle_event_body_eq_model / capture_event_body_eq_model speak about; it is validated against the real code by the correspondence run (every dl op is run through it)",
        "the *_body_eq_model theorems go through C19Tie.skeleton_* (regenerated body = the expected copy in Lemmas/DynSkelExpected.lean) and Lemmas/DynTrees.parse_* (kernel-evaluated parser): a change of list.go makes skeleton_* fail rather than re-proving the equality for the new body",
        "the interpreter of the widgets' regenerated bodies (Model/WidExec.lean: int fields and locals, calls of list.go's own min/max into their interpreted bodies (minmax_body_eq_model), Go's truncating division, characters/cells as bytes+width, a style as its attribute, the pager's line pointers with exact aliasing for the single pointer local (the positions of m.lines holding the same object are tracked and updated by l.append) instead of a general heap, the window with clipped SetCell/Println, range loops over snapshots of the collection, the call of Layout with fresh locals) is the semantics of the Go subset the theorems of Props/C19Wid.lean speak about; validated against the real code by the correspondence run (every sl/pg/sb op is run through it); all eighteen functions are executed (l.append(cell) is a call into the interpreted body of line.append)",
        "the *_body_eq_model theorems of Props/C19Wid.lean go through wid_bodies_as_expected (regenerated body = the copy in Lemmas/WidSkelExpected.lean) and Lemmas/WidTrees.parse_*: a change of list.go / pager.go / scrollbar.go makes wid_bodies_as_expected fail rather than re-proving the equality for the new body",
        "Props/C19.lean imports Spec/Surface.lean and Model/Window.lean (C14's spec of the painter's algorithm) for dyn_selected_on_top",
        "vxfw.NewSurface / AddChild / WriteCell (C14) are not re-modelled: the surface-size statement is syntactic (facts_surface_is_max) plus the harness reading s.Size",
    ],
    "level_text": "widgets/list: no panic, index in range, the selected row inside the viewport and rows in order/contiguous/"
                  "complete are proved for every item count >= 0, every viewport height >= 0 and every finite history incl. "
                  "SetItems, over the index expressions regenerated from list.go. widgets/pager: the laid-out lines reproduce "
                  "every character of every text incl. an unterminated last line, respect the width, every character of a line "
                  "is drawn in its own cell inside the window (wide grapheme at the edge included), Draw shows the lines from "
                  "the offset on and clamps the offset after every scroll history - proved for all texts/widths/offsets. "
                  "widgets/scrollbar: bar inside the track for all valid positions; for ALL inputs only window rows are touched "
                  "and nothing is drawn when the content fits or a size is zero. vxfw/list Dynamic (after the repairs F119, "
                  "F119b, F119c, F119d, F119f, F119g, F119h in /repo): layout (order, contiguity with the gap, heights, no overlap) proved for "
                  "one Draw from ANY state and ANY gap; no panic, 'selected item visible after SetCursor/NextItem/PrevItem + "
                  "Draw', and 'top/offset anchored on the child covering row 0' proved for ALL gaps >= 0 and ALL histories "
                  "including replacement of the Builder's items (visibility even from any state, with any scroll pending); the surface returned has "
                  "the size of the max constraint. Round 3: ALL methods of Dynamic are EXECUTED from their regenerated bodies by an "
                  "interpreter (loops with fuel, range loops, checked index expressions, the call of insertChildren, the event switches) "
                  "and proved equal to the model for every builder, gap, state, constraint and event (draw_body_eq_model, "
                  "insert_children_body_eq_model, handle_event_body_eq_model, capture_event_body_eq_model); the selected item is on top "
                  "of the painter's algorithm also with the cursor gutter (two-level tree); an endless Builder of zero-height widgets "
                  "makes Draw run out of fuel for every fuel (F119i, recorded); the pager's content-complete clause holds over scroll "
                  "histories (every line reachable by ScrollDown, each line once per screenful, paging meets every line). Round 4: the "
                  "bodies of widgets/list List (all methods, min, max), widgets/pager Model (Draw with the call of Layout, Layout, ScrollDown, "
                  "ScrollUp) and widgets/scrollbar Draw are no longer pinned textually: they are regenerated as syntax (Gen/WidSkel.lean), EXECUTED "
                  "by an interpreter (Model/WidExec.lean) and proved equal to the models for all states/sizes/texts (list_step_body_eq_model, "
                  "pager_draw_body_eq_model, pager_layout_body_eq_model, scrollbar_draw_body_eq_model) and over whole histories "
                  "(list_history_body_eq_model, pager_history_body_eq_model); pager_offset_clamped_body: after ANY history incl. width changes and "
                  "an Offset written before the first Draw, the executed Draw leaves 0 <= Offset <= max 0 (lines - h) for the lines laid out for "
                  "that window's width. F119i characterised from both sides: an endless Builder whose widgets make progress (height + gap >= 1) is drawn in one bounded frame "
                  "(endless_builder_with_progress_returns, ..._any_state: the executed Draw returns with a bounded number of children, from the initial state and from every "
                  "state in which no upward scroll is due), so Draw fails to return only for an endless Builder of zero-progress widgets; a cap on zero-progress iterations is not a repair (zero_heights_then_content: k empty "
                  "widgets followed by a visible one are drawn with the visible one at row 0, for every k).",
    "level_note": "Proved for all inputs/histories: simple_list_safe, simple_list_selected_visible, simple_list_rows_in_order, "
                  "pager_complete, pager_offset_clamped, pager_scroll_history, pager_draw_rows, pager_row_keeps_characters "
                  "(characters >= 1 column wide, window >= 1 column), scrollbar_in_track, scrollbar_all_inputs, dyn_layout and "
                  "dyn_no_overlap (any state), dyn_no_panic_empty, dyn_no_panic, dyn_top_valid, dyn_anchor, "
                  "dyn_next_prev_in_range, dyn_cursor_visible(_any_state), dyn_next_prev_visible(_any_state), dyn_selected_on_top "
                  "(with C14's painter's algorithm), pager_line_reachable - all gaps >= 0, "
                  "histories with item replacement; no _partial statement is left. Witnesses show each statement false of the "
                  "code before its repair (repair Bools of DynList.Facts). Validated by correspondence only: what "
                  "Println/SetCell do with the rows; that Model/DynList.lean transcribes the skeleton faithfully. "
                  "Model tied to source by Gen/ListFacts.lean (index expressions translated, Draw/Layout/scrollbar bodies "
                  "pinned statement by statement) and, for Dynamic, by Gen/DynSkel.lean: all eleven method bodies translated "
                  "into syntax (no digest), fully_recognised, skeleton_* (statement structure), facts_* (every arithmetic/"
                  "boolean expression evaluated = the model's expression, for all values), interp_* (ensureScroll, SetCursor, "
                  "SetPendingScroll, NextItem, PrevItem: the regenerated syntax run through an interpreter IS the model function, "
                  "for all states and builders), the six repair facts read off the skeleton in Lean; and by the public-API correspondence (0 mismatches allowed). "
                  "Round 3 (Props/C19Exec.lean, Props/C19Pager.lean, Witness/F119i.lean): Model/DynExec.lean interprets every method body "
                  "of Gen/DynSkel.lean; proved for ALL inputs: draw_body_eq_model (Draw incl. insertChildren call, cursor gutter, wants-cursor "
                  "block, re-anchoring loop = DynList.draw Facts.fixed, same panics), insert_children_body_eq_model, handle_event_body_eq_model, "
                  "capture_event_body_eq_model (every event), history_body_eq_model (whole histories with item replacement executed from the bodies = the "
                  "model's histories, never failing), dyn_selected_on_top_gutter, pager_line_reachable_by_scrolling, "
                  "pager_screen_lines_once, pager_pages_cover_text, zero_heights_draw_all + endless_builder_never_returns (F119i). So the "
                  "step from the regenerated syntax to Model/DynList.lean is no longer a transcription: it is a theorem (via skeleton_* and "
                  "the kernel-evaluated parser); validated by correspondence only: that the interpreter's semantics is Go's for this subset "
                  "(the driver runs every dl op through it: 0 disagreements with model and implementation), Println/SetCell rows. "
                  "Round 4 (Props/C19All.lean): dynamic_over_executed_bodies - all clauses for Dynamic in one statement over the executed bodies (history reaches a state; "
                  "SetCursor + Draw executed: order, contiguity with the gap, heights, no overlap, selected item visible). "
                  "Round 4 (Props/C19C15.lean): list_key composes C19 with C15 - in any application state whose focus path runs through a Dynamic list, a j key "
                  "is offered to the list in the capture phase, the list (its executed CaptureEvent) moves the selection and answers ConsumeAndRedraw, and the "
                  "dispatch ends there with redraw and consume taking effect once (no other handler sees the key); else the key goes on along the route. "
                  "Round 4 (Props/C19Wid.lean, 19 theorems; 125 theorems in all, 98 before the round): list_selected_visible_body, pager_presents_every_character_body, scrollbar_in_track_body (the clauses "
                  "end to end for the executed code: New + any history + Draw; Segments=text, Draw, ScrollDown x i, Draw shows every character of every line; "
                  "bar inside the track), list_new_body_eq_model, pager_zero_width_shares_cell (why the hypothesis 'characters at least one column wide' is needed), wid_fully_recognised, wid_bodies_as_expected, gen_bodies_parsed, list_rhs_is_gen, "
                  "minmax_body_eq_model, list_index_body_eq_model, list_step_body_eq_model (every List method incl. Draw's range loop over the checked "
                  "slice: same state, rows, panics), list_history_body_eq_model, pager_layout_body_eq_model, pager_draw_body_eq_model (state AND window "
                  "cell by cell), pager_scroll_body_eq_model, pager_history_body_eq_model, pager_offset_clamped_body, scrollbar_draw_body_eq_model "
                  "(all integers, fuel >= h+2: the loop terminates) - proved for all inputs. The textual pins of the extractor (embedded expected bodies) "
                  "are gone; the extractor degrades (UNTRANSLATED placeholder) instead of failing. Validated by correspondence only: that "
                  "Model/WidExec.lean's semantics is Go's for this subset (every sl/pg/sb op is run through it beside the model: 0 disagreements). "
                  "Modelled, not verified: the Fill cell, styles beyond the attribute. Oracles on the implementation's output added in round 4 (independent of the model: the driver "
                  "tracks the offset the implementation reported last): Draw clamps the offset as a projection onto 0..max 0 (lines-h) for the lines after the draw; ScrollDown/ScrollUp move "
                  "it by exactly one; a line is broken only at a newline, at the end of the text or when its width has reached the window width.",
    "assumptions": [
        "Dynamic list: the Builder has fewer than 2^63 items and is prefix-closed (nil from the first missing index on); an endless Builder is covered by F119i only: Draw does not return when all its widgets have height 0 and the gap is 0 (endless_builder_never_returns) and returns within a bounded frame when every widget has height + gap >= 1 (endless_builder_with_progress_returns, initial scroll state)",
        "integer arithmetic of widgets/list, widgets/pager and widgets/scrollbar does not overflow Go's int (64 bit): index+height, ViewHeight*h, Top*h stay below 2^63 (the models use unbounded integers)",
        "Draw contexts are bounded (Max.Width, Max.Height != 65535), as Dynamic.Draw itself requires",
    ],
    "technique": "Lean 4 proof over an executable model; extractor + differential correspondence harness",
    "timeout": 1500,
}
