"""C20 configuration for ./check (see checks/propcfg.py for the keys)."""
CFG = {
    "modules": ["VaxisModel.Props.C20", "VaxisModel.Witness.F51", "VaxisModel.Witness.F52"],
    "extractors": ["C20"],
    "drivers": ["C20"],
    "stateful": True,
    "trivial_prefix": ("-",),
    "rule": "dims: (wPix,hPix,w,h) x cell geometries {1x2,8x16,10x20} through the real resizeImage; quick = every "
            "coinciding-scale-factor case of [1,12]^4 plus a 1/40 sample of [1,24]^4, thorough = all of [1,24]^4 "
            "(exhaustive), plus random realistic sizes and zero cell geometries; distinct by the op list of a case",
    "trusted_base": ["float64 steps of resizeImage are a parameter with the hypothesis Sound (exact comparison of the two "
                     "scale factors; int(a/b*x) within [ceil(q)-1, floor(q)]); the driver instantiates it with IEEE doubles "
                     "and asserts the hypothesis on every value it sees (DESIGN 3.5)"],
    "level_text": "Images: see notes/C20.md.",
    "level_note": "",
    "assumptions": ["box dimensions w,h >= 0 and image dimensions >= 1 (negative boxes are out of scope)"],
    "timeout": 1200,
}
