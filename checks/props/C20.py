"""C20 configuration for ./check (see checks/propcfg.py for the keys)."""
CFG = {
    "modules": ["VaxisModel.Props.C20", "VaxisModel.Props.C20Ext", "VaxisModel.Witness.F51", "VaxisModel.Witness.F52", "VaxisModel.Witness.F120"],
    "extractors": ["C20", "C11"],
    "drivers": ["C20"],
    "stateful": True,
    "trivial_prefix": ("-", "ok", "N=- L=- R=1"),
    "rule": "dims: (wPix,hPix,w,h) x cell geometries {1x2,8x16,10x20} through the real resizeImage (VerifResizeDims): quick = every "
            "coinciding-scale-factor case of [1,12]^4 plus a sample of [1,24]^4 biased to non-fitting boxes, thorough = all of "
            "[1,24]^4 (exhaustive), plus random realistic sizes (images <= 160 px, boxes incl. empty ones, 8 geometries, 1/4 forced to "
            "coinciding factors) and zero cell geometries. pixels: toRGB on color.NRGBA at all 256 alpha levels x boundary channels "
            "(thorough: all 256x256 (alpha, channel) pairs), premultiplied color.RGBA, raw 16-bit quadruples, averageColor of 1-5 "
            "colours. block images: real image.NRGBA 1x2 at every alpha level for top and bottom pixel, alpha pairs round the "
            "threshold, random images <= 4x5 px, through New{Half,Full}BlockImage/Resize/CellSize/Draw on a fake-console Vaxis "
            "incl. too-small boxes and clipping windows. placements: kitty images on a fake console reporting pixel sizes; random "
            "frame histories that keep / move / drop / add placements, draw twice, skip Clear, resize between frames, Render or "
            "Refresh; graphics sequences parsed from the console output. A case = one #case block; distinct by its op list; "
            "non-trivial = not a bare state snapshot",
    "trusted_base": [
        "float64 steps of resizeImage are a parameter of the model with the hypothesis Sound (the comparison of the two scale "
        "factors is exact; int((a/b)*x) lies in [ceil(q)-1, floor(q)] for q = a*x/b). The driver instantiates the parameter with "
        "IEEE doubles (same operations, same order as the Go code) and asserts the hypothesis on every value it sees (verdict "
        "'float hypothesis violated' otherwise) (DESIGN 3.5)",
        "draw.NearestNeighbor.Scale, the PNG / base64 / sixel encoders and octreequant are not modelled (pixels of *rescaled* "
        "images are only checked for size and for staying inside the image / window)",
        "Go's image/color conversions NRGBA.RGBA() / RGBA.RGBA() are transcribed in Spec.Images (nrgbaRGBA, rgbaRGBA) and "
        "validated by the nrgba / rgba / half / full streams",
        "Window.New / SetCell clipping (C11's subject) is re-stated in the driver for the block-image stream"],
    "level_text": "Proved for all inputs (Lean, no bound): fit, no_upscale, aspect, no_panic and the CellSize corollaries for "
                  "kitty/sixel/half/full over the arm structure regenerated from image.go, for every float step meeting Sound; "
                  "placement_diff for all op histories (induction; invariant last = previous frame) against an independent frame-"
                  "history spec; opaque_exact (NRGBA and RGBA sources, half and full block), translucent_within_one (kernel "
                  "evaluation of all 255x256 pairs), alpha_kept, transparent_default (four-way glyph table, full-block threshold). "
                  "F51 repaired (witness: fit is false of the old arm structure); F52 recorded (witness: zero cell size panics).",
    "level_note": "Validated by correspondence only: that the model is the code (VerifResizeDims / VerifToRGB / VerifAverageColor / "
                  "real block images / real kitty placements on a fake console, 0 mismatches), the float hypothesis on the values "
                  "seen, Window clipping of block images, upload bookkeeping of kitty images (k.buf accumulates encodings). "
                  "Modelled, not verified: nothing is proved about pixels of rescaled images (NearestNeighbor) or about Sixel "
                  "placements beyond the shared render loops.",
    "assumptions": ["box dimensions w,h >= 0 and image dimensions >= 1 (negative boxes and empty images are out of scope)",
                    "cell pixel size >= 1 in both directions for the fit theorems (the excluded point is finding F52)",
                    "col,row of a placement within 0..65535 (the kitty placement id packs col<<16|row)"],
    "timeout": 1800,
}
