"""C20 configuration for ./check (see checks/propcfg.py for the keys)."""
CFG = {
    "modules": ["VaxisModel.Props.C20", "VaxisModel.Props.C20Ext", "VaxisModel.Props.C20Pixels", "VaxisModel.Props.C20Compose", "VaxisModel.Witness.F51", "VaxisModel.Witness.F52", "VaxisModel.Witness.F120", "VaxisModel.Witness.F220"],
    "extractors": ["C20", "C11"],
    "drivers": ["C20"],
    "stateful": True,
    "trivial_prefix": ("-", "ok", "N=- L=- R=1"),
    "rule": "dims: (wPix,hPix,w,h) x cell geometries {1x2,8x16,10x20} through the real resizeImage (VerifResizeDims): quick = every "
            "coinciding-scale-factor case of [1,12]^4 plus a sample of [1,24]^4 biased to non-fitting boxes, thorough = all of "
            "[1,24]^4 (exhaustive), plus random realistic sizes (images <= 160 px, boxes incl. empty ones, 8 geometries, 1/4 forced to "
            "coinciding factors) and zero cell geometries. pixels: toRGB on color.NRGBA at all 256 alpha levels x boundary channels "
            "(thorough: all 256x256 (alpha, channel) pairs), premultiplied color.RGBA, raw 16-bit quadruples, averageColor of 1-5 "
            "colours. block images: real image.NRGBA 1x2 at every alpha level for top and bottom pixel, alpha pairs round the "
            "threshold, random images <= 4x5 px, through New{Half,Full}BlockImage/Resize/CellSize/Draw on a fake-console Vaxis "
            "incl. too-small boxes and clipping windows. placements: kitty images on a fake console reporting pixel sizes; random "
            "frame histories that keep / move / drop / add placements, draw twice, skip Clear, resize between frames, Render or "
            "Refresh; graphics sequences parsed from the console output. Round 2: signed boxes (dimsi: 400 quick / 6000 thorough, one or both "
            "dimensions negative; kresize with negative boxes), terminals reporting fewer pixels than cells or none (5 reports), kitty images in windows of "
            "their own (1/8 of the placements) or anywhere on the screen (1/24), every Resize reports the pixel size of the real resizeImage result and the "
            "real cellPixelSize. A case = one #case block; distinct by its op list; "
            "non-trivial = not a bare state snapshot",
    "trusted_base": [
        "float64 steps of resizeImage are a parameter of the model with the hypothesis Sound (the comparison of the two scale "
        "factors is exact; int((a/b)*x) lies in [ceil(q)-1, floor(q)] for q = a*x/b); signed boxes use the same parameter through the sign "
        "symmetry of IEEE division, multiplication and truncation. The driver instantiates the parameter with IEEE doubles (same operations, "
        "same order as the Go code) and asserts the hypothesis on every value it sees (DESIGN 3.5)",
        "draw.NearestNeighbor.Scale, the PNG / base64 / sixel encoders and octreequant are not modelled: for a rescaled image the theorems cover "
        "its pixel size, for every image whatever its pixels which pixels each block cell reads, and under the stated hypothesis ScalerPicks (every result "
        "pixel is a source pixel; asserted by the driver on rescaled opaque half-block images) that the cells show exactly source colours — not the "
        "scaler's choice of source pixels",
        "Go's image/color conversions NRGBA.RGBA() / RGBA.RGBA() are transcribed in Spec.Images (nrgbaRGBA, rgbaRGBA) and "
        "validated by the nrgba / rgba / half / full streams; At() outside the bounds = zero colour (image.NRGBA / image.RGBA)",
        "C11's window model (Model/Window.lean, Props.C11.drawops_clip) for the clipping of the Draw methods",
        "Gen/ImageFlow.lean pins statement texts of the hand-transcribed code (cellPixelSize, Resize cell arithmetic, Draw gates, upload closure, "
        "block Draw loops, render's placement loops); the correspondence run checks the transcriptions themselves"],
    "level_text": "Proved for all inputs (Lean, no bound): fit, no_upscale, aspect, no_panic and the CellSize corollaries for "
                  "kitty/sixel/half/full over the arm structure regenerated from image.go, for every float step meeting Sound; round 2: no_panic_term "
                  "(no division by zero for ANY terminal report, F52 repaired), fit_term, CellSize exactly = cells the resized pixels occupy "
                  "(cell_size_exact_*), all Int boxes (box_negative_empty, fit_box), the cell<->pixel mapping of half/full block images for every image "
                  "(block_cell_pixels, block_pixel_rows, resized_opaque_half under the scaler hypothesis), drawing stays inside the window composed with C11 (block_draw_clipped, sixel_draw_clipped, "
                  "sixel_placement_inside), upload bookkeeping of kitty images over all histories (upload_conservation, no_reupload_while_unchanged, "
                  "upload_after_resize); placement_diff for all op histories against an independent frame-history spec; opaque_exact (NRGBA and RGBA "
                  "sources, half and full block), translucent_within_one (kernel evaluation of all 255x256 pairs), alpha_kept, transparent_default. "
                  "F51, F52 repaired; F120 recorded (a kitty placement can exceed its window: Witness/F120, kitty_placement_inside_partial).",
    "level_note": "Validated by correspondence only: that the model is the code (VerifResizeDims / VerifToRGB / VerifAverageColor / "
                  "real block images / real kitty and sixel placements on a fake console incl. degenerate pixel reports, signed boxes, windows of their "
                  "own; 0 mismatches), the float hypothesis on the values seen. Oracles on the implementation independent of the model: fit / no-upscale / "
                  "aspect, cell geometry, CellSize = ceil(px/cell) exactly, negative box => empty, glyph table and colours, mustWrite / mustDelete, kitty "
                  "placement inside its window (F120). Modelled, not verified: nothing is proved about which source pixels NearestNeighbor picks, nor about "
                  "the content of the PNG / sixel data.",
    "assumptions": ["image dimensions >= 1 (empty images are out of scope); box dimensions are any Int (round 2)",
                    "col,row of a placement within 0..65535 (the kitty placement id packs col<<16|row)"],
    "timeout": 1800,
}
