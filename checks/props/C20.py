"""C20 configuration for ./check (see checks/propcfg.py for the keys)."""
CFG = {
    "modules": ["VaxisModel.Props.C20", "VaxisModel.Props.C20Ext", "VaxisModel.Props.C20Pixels", "VaxisModel.Props.C20Compose", "VaxisModel.Props.C20Float", "VaxisModel.Props.C20Term", "VaxisModel.Props.C20Generic", "VaxisModel.Witness.F51", "VaxisModel.Witness.F52", "VaxisModel.Witness.F120", "VaxisModel.Witness.F220", "VaxisModel.Witness.F320", "VaxisModel.Witness.F420", "VaxisModel.Witness.F520"],
    "extractors": ["C20", "C11"],
    "drivers": ["C20"],
    "stateful": True,
    "trivial_prefix": ("-", "ok", "N=- L=- R=1"),
    "rule": "dims: (wPix,hPix,w,h) x cell geometries {1x2,8x16,10x20} through the real resizeImage (VerifResizeDims): quick = every "
            "coinciding-scale-factor case of [1,12]^4 plus a sample of [1,24]^4 biased to non-fitting boxes, thorough = all of "
            "[1,24]^4 (exhaustive), plus random realistic sizes (images <= 160 px, boxes incl. empty ones, 8 geometries, 1/4 forced to "
            "coinciding factors) and zero cell geometries. pixels: toRGB on color.NRGBA at all 256 alpha levels x boundary channels "
            "(thorough: all 256x256 (alpha, channel) pairs), premultiplied color.RGBA, raw 16-bit quadruples, averageColor of 1-5 "
            "colours. block images: real image.NRGBA 1x2 at every alpha level for top and bottom pixel, alpha pairs round the "
            "threshold, random images <= 4x5 px, through New{Half,Full}BlockImage/Resize/CellSize/Draw on a fake-console Vaxis "
            "incl. too-small boxes and clipping windows. placements: kitty images on a fake console reporting pixel sizes; random "
            "frame histories that keep / move / drop / add placements, draw twice, skip Clear, resize between frames, Render or "
            "Refresh; graphics sequences parsed from the console output. Round 2: signed boxes (dimsi: 400 quick / 6000 thorough, one or both "
            "dimensions negative; kresize with negative boxes), terminals reporting fewer pixels than cells or none (5 reports), kitty images in windows of "
            "their own (1/8 of the placements) or anywhere on the screen (1/24), every Resize reports the pixel size of the real resizeImage result and the "
            "real cellPixelSize. Round 3: kitty draws into tight windows (0..5 x 0..3 cells; about 1 in 11 draws is refused as too large), 400 rescaled block images of "
            "kinds half/full (image.NRGBA source) and halfp/fullp (image.RGBA source), half of them translucent, up to 9x12 px into boxes down to 1x1, compared cell by cell with the scaler model; unscaled "
            "premultiplied 1x2 images at every alpha level. Round 4: 1500 (thorough 15000) block images with real *image.Gray, *image.Paletted (color.NRGBA palette, half of them with translucent entries), *image.YCbCr (all four subsampling ratios, incl. values that clamp) and opaque *image.NRGBA64, crops (SubImage) of a larger *image.NRGBA "
            "sources, 2/3 rescaled; every rendered frame reports ALL graphics commands in the order written (Q=: delete / place / complete PNG transmission with its pixel size and, for opaque pictures, a digest of the decoded pixels / sixel); half of the kitty images are opaque, a third of the images of the directed in-place histories are crops. A case = one #case block; distinct by its op list; "
            "non-trivial = not a bare state snapshot",
    "technique": "Lean 4 proof over executable models of image.go / vaxis.go render / window.go Clear whose arm structure, guards, loops and statement order are regenerated from the source and INTERPRETED "
                 "(resizeImage arms, cellPixelSize, Resize arithmetic, Draw gates, render's placement stretch in source order, the kitty upload bodies, the block Draw loops); induction over all "
                 "application histories with invariants (placement_diff; terminal table = last frame; terminal data = last Resize) against an order-sensitive model of the terminal's kitty tables; exact integer reasoning for the "
                 "float steps under the standard model of floating-point arithmetic; kernel evaluation over all 8-bit (alpha, channel) pairs; differential correspondence on real images / a fake console with the property oracles "
                 "(incl. the terminal model run on the implementation's ordered command sequence) evaluated on the implementation",
    "trusted_base": [
        "float64 steps of resizeImage are a parameter of the model. Below 2^26 in every dimension (image and box) the theorems need only the standard model of floating-point arithmetic "
        "(Lemmas.FloatStd.StdModel: each operation within relative error 2^-53 of its exact result and a function of it, exact truncation, exact conversion of integers below 2^53 - what IEEE-754 "
        "guarantees per operation; Lean's Float is opaque, so this is a hypothesis about the hardware, not a theorem); outside that range the hypothesis Sound (the comparison of the two scale "
        "factors is exact; int((a/b)*x) lies in [ceil(q)-1, floor(q)] for q = a*x/b); signed boxes use the same parameter through the sign "
        "symmetry of IEEE division, multiplication and truncation. The driver instantiates the parameter with IEEE doubles (same operations, "
        "same order as the Go code) and asserts Sound on every value it sees (DESIGN 3.5)",
        "draw.NearestNeighbor.Scale is modelled (Model/Scaler.lean: index formula, the NRGBA/RGBA fast paths, the generic path scale_RGBA_Image_* and the Gray fast path of golang.org/x/image v0.9.0 draw/impl.go, hand-transcribed from the "
        "module cache - not regenerated by the extractor) and tied by the block streams (every rescaled image compared cell by cell); other source types are covered through the hypothesis SameAs (seen through At().RGBA() the source is pixel for pixel an "
        "NRGBA image: proved for *image.Gray, checked at run time for *image.Gray and *image.Paletted) or through the any-source model Scaler.resizeImgG (what At().RGBA() returns per pixel; proved to contain the fast-path model; *image.YCbCr via the "
        "transcribed color.YCbCr.RGBA() = Spec.ycbcrRGBA and the inlined conversion of the YCbCr fast paths, all four subsampling ratios and opaque *image.NRGBA64 checked at run time); translucent 16-bit types are not exercised; the Copy shortcut "
        "for equal sizes (proved unreachable from resizeImage under Sound), the PNG / base64 / sixel encoders and octreequant are not modelled",
        "Go's image/color conversions NRGBA.RGBA() / RGBA.RGBA() / Gray.RGBA() are transcribed in Spec.Images (nrgbaRGBA, rgbaRGBA, grayRGBA) and "
        "validated by the nrgba / rgba / half / full streams; since the F320 repair the block renderers do not call At() outside the bounds (the former assumption 'outside = zero colour' is gone)",
        "the terminal's side of the kitty graphics protocol (Model/KittyTerm.lean Term.apply: data table by image id, placement table by (image id, col, row); a=p replaces, a=d,d=i removes the addressed placement) is written from the protocol "
        "document; it is lenient about retransmission (kitty drops the placements of a retransmitted image: Term.applyDrop, witness retransmission_drops_kept_placements; strict_terminal_table_is_last_frame proves the refinement for the strict terminal under StrictFrames); in the correspondence run image data is identified by the pixel size of the transmitted PNG",
        "C11's window model (Model/Window.lean, Props.C11.drawops_clip) for the clipping of the Draw methods",
        "Gen/ImageFlow.lean pins as text only the format strings of the four kitty commands (data the harness's parser depends on); "
        "cellPixelSize, the cell arithmetic of both Resize methods, the Draw gates, the lower-pixel reads of both block Resize methods, the statement skeleton AND ORDER of render's placement stretch, the kitty upload bodies (Resize goroutine, writeTo closure), "
        "the placement id expression and the block Draw loops are structured Gen data the model interprets (the leaves of render's loops are recognised by their text)"],
    "level_text": "Proved for all inputs (Lean, no bound): fit, no_upscale, aspect, no_panic and the CellSize corollaries for "
                  "kitty/sixel/half/full over the arm structure regenerated from image.go, for every float step meeting Sound; round 2: no_panic_term "
                  "(no division by zero for ANY terminal report, F52 repaired), fit_term, CellSize exactly = cells the resized pixels occupy "
                  "(cell_size_exact_*), all Int boxes (box_negative_empty, fit_box), the cell<->pixel mapping of half/full block images for every image "
                  "(block_cell_pixels, block_pixel_rows, resized_opaque_half under the scaler hypothesis), drawing stays inside the window composed with C11 (block_draw_clipped, sixel_draw_clipped, "
                  "sixel_placement_inside), upload bookkeeping of kitty images over all histories (upload_conservation, no_reupload_while_unchanged, "
                  "upload_after_resize); placement_diff for all op histories against an independent frame-history spec; opaque_exact (NRGBA and RGBA "
                  "sources, half and full block), translucent_within_one (kernel evaluation of all 255x256 pairs), alpha_kept, transparent_default. "
                  "F51, F52 repaired. Round 3: F120 repaired (KittyImage.Draw gets Sixel.Draw's size guard): placement_inside_window - for both protocols, every size, window and image state a recorded "
                  "placement covers only cells of its window - and transmitted_placements_inside - over ALL application histories whatever a render transmits or deletes was recorded by a Draw at the origin of a "
                  "window containing all of it; the nearest-neighbour scaler is inside the model: nn_index_in_source (index in range, under the destination pixel), over_on_fresh_is_src, scaler_picks_opaque "
                  "(the round-2 hypothesis ScalerPicks is a theorem), half_pipeline_opaque / full_pipeline_opaque (stored image -> fit test -> any float step -> scaling -> cells: each cell shows exactly the colours / the "
                  "mean of two named source pixels under it), half_pipeline_transparency / full_pipeline_transparency (EVERY NRGBA/RGBA image, scaled or not: the alpha the renderer tests is the source pixel's alpha byte, so each cell is decided by the two source alphas against 50 exactly as the property says), scale_shrinks (Copy shortcut unreachable), translucent_scaled (alpha kept, channel loses at most 255/a + 1, all 255x256 pairs); F220 (odd-height full-block "
                  "last row at half brightness) found and repaired; cellPixelSize / Resize arithmetic / Draw gates interpreted from structured Gen data (cell_pixel_size_shape, resize_shape, draw_gates_shape, render_shape); "
                  "fit_no_upscale_aspect_std: fit, no upscale and aspect for every image and box below 2^26 per dimension WITHOUT the hypothesis Sound, from the standard model of floating-point arithmetic by exact integer reasoning (sound_in_range). "
                  "Round 4: the kitty upload bodies and the block Draw loops are interpreted from regenerated statement forms (kitty_resize_body_eq_model, kitty_write_body_eq_model - semantic, block_draw_body_eq_model for every image); render's placement stretch is interpreted "
                  "in SOURCE ORDER (render_order_shape) and refined to an order-sensitive terminal: terminal_table_is_last_frame / terminal_shows_what_was_drawn - for ALL histories of Resize/Draw/Clear/Render/Refresh whose frames hold no image twice at one origin in two sizes, "
                  "the terminal's placement table (commands applied in emission order) is exactly the table of the last frame; terminal_table_mixed (the same for histories that mix kitty and sixel images: the kitty table = the kitty placements of the last frame); order_matters (the loops swapped: false); strict_terminal_table_is_last_frame (the same on a terminal that drops the placements of a retransmitted image, when no placement is kept while its image has new data waiting); placement_id_injective over the regenerated id expression; data_is_latest / written_with_latest_data - all histories, "
                  "no hypothesis: a written placement finds the data of the image's last successful Resize on the terminal (re-upload after a second Resize); half_pipeline_translucent / full_pipeline_translucent - ONE statement per renderer for the colours of every cell of every "
                  "stored NRGBA image, scaled or not, translucent included (decision by the source alphas against 50 AND colours standing for the source pixels under the cell within 255/a + 1 levels); generic_path_eq_fast_path (sources of other types under the stated hypothesis SameAs, "
                  "gray_same_as_nrgba proved); half_pipeline_any_source / full_pipeline_any_source / half_pipeline_any_opaque_source - the renderers on a source of ANY concrete type given by its At().RGBA() (JPEG -> *image.YCbCr, Gray, Paletted, 16-bit; scaled or not): the property's table / mean on the "
                  "two seen source pixels under each cell, exact 8-bit colours for opaque sources; ycbcr_fast_path, generic_model_contains_fast_model; terminal_placements_inside - over all application histories every placement in the TERMINAL's table was drawn at the origin of a window containing all of it; F320 (HalfBlockImage drew what At() answers outside the bounds - black for image.Gray, palette[0] for image.Paletted - under the last row of an odd-height image) found and repaired, half_block_bottom_shape; F420 (images whose bounds do not start at the origin - SubImage crops - were measured by Bounds().Max: cell size of the crop plus its offset, wrong aspect) found and repaired, "
                  "Gen.resizeOriginNormalised, Witness.F420; F520 (KittyImage.Draw placed an image left without pixels by a Resize - the terminal then showed the older, larger picture) found and repaired, Gate.zeroSize, Witness.F520.",
    "level_note": "Validated by correspondence only: that the model is the code (VerifResizeDims / VerifToRGB / VerifAverageColor / "
                  "real block images / real kitty and sixel placements on a fake console incl. degenerate pixel reports, signed boxes, windows of their "
                  "own; 0 mismatches), the float hypothesis on the values seen. Oracles on the implementation independent of the model: fit / no-upscale / "
                  "aspect, cell geometry, CellSize = ceil(px/cell) exactly, negative box => empty, glyph table and colours, mustWrite / mustDelete, kitty "
                  "placement inside its window (F120), rescaled opaque images show colours of source pixels under each cell (independent of the index formula), last odd row of a full-block image "
                  "in its own colour (F220); round 4: the order-sensitive terminal model run on the implementation's ORDERED command sequence - every a=p finds the data of the image's last Resize and a picture that does not occupy more cells than the image's cell size (F520), after every frame the terminal's table = the (image, origin) pairs the application drew "
                  "(not judged from a frame with a key clash on: keyfun_needed); the hypothesis SameAs for *image.Gray / *image.Paletted sources and the transcribed YCbCr conversion / subsampling (1000 images per quick run through the real scaler and renderers). That the scaler model is x/image's code (hand-transcribed, tied by about 1 600 rescaled images per quick run). Modelled, not verified: translucent 16-bit source types (inside the any-source theorems, not exercised), which of the two terminal models a given terminal implements (the oracle runs the lenient one), "
                  "the content of the PNG a kitty placement transmits is compared with the model's scaling only for opaque images (digest of the decoded pixels; correspondence, no theorem about the encoder), nothing about the sixel data.",
    "assumptions": ["image dimensions >= 1 (empty images are out of scope); box dimensions are any Int (round 2); the model's images start at the origin - since the F420 repair resizeImage translates any other image there first (Gen.resizeOriginNormalised)",
                    "col,row of a placement within 0..65535 (the kitty placement id packs col<<16|row)",
                    "fit_no_upscale_aspect_std: every dimension of image and box below 2^26 and the standard model of floating-point arithmetic (StdModel); the other fit theorems: Sound",
                    "the pipeline theorems about pixels: source of concrete type *image.NRGBA or *image.RGBA (the scaler's fast paths), or any type meeting SameAs (generic_path_eq_fast_path); *_any_source: any type, given by what At(x,y).RGBA() returns, Bounds().Min = (0,0); *_opaque: every stored alpha byte 0xff; *_translucent: *image.NRGBA",
                    "terminal_table_*: no frame holds one image twice at one origin in two sizes (FramesKeyFun; needed: keyfun_needed); the terminal keeps an image's placements when its data is retransmitted"],
    "timeout": 1800,
}
