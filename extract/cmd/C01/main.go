// Extractor for C01: Gen/RenderFacts.lean — the statement structure of vaxis.go render() and of
// writer.go Write / WriteString / Flush, and the tables the pen delta of render() walks.
//
//   - skeletons: every statement of the function as (nesting depth, kind, text) in source order —
//     guards, loop headers, assignments, writes, continue/break — so that the order of the guards in
//     the cell loop (sixel, clip, unchanged, dirty, reposition), the nulling loops and their `dirty`
//     extension, the order of the fg/bg/ul/attribute/underline-style/hyperlink deltas, the
//     explicit-width switch and the writer's prologue/epilogue are visible to Lean, which pins them
//     (Props/C01Facts.lean).  Expression text is gofmt's, with white space removed; comments are not
//     part of it.
//   - attrOn / attrOff: the `if on&AttrX != 0 { write(seq) }` chain and the `if off&AttrX != 0
//     { write(seq); if next.Attribute&AttrY != 0 { write(seq2) } }` chain, by name, in source order:
//     the model's attribute delta is proved equal to the interpretation of these tables.
//   - deltaOrder: the style fields compared `cursor.F != next.F`, in source order.
//
// A statement form the extractor does not know becomes kind "unknown" (theorem
// `render_fully_recognised` then fails) instead of stopping the extraction.
package main

import (
	"fmt"
	"go/ast"
	"go/token"
	"sort"
	"strings"

	"verifextract/ex"
)

func main() { ex.Main([]string{"RenderFacts.lean"}, gen) }

type line struct {
	depth      int
	kind, text string
}

type sk struct {
	c   *ex.Ctx
	out []line
}

func (s *sk) src(n ast.Node) string {
	if n == nil {
		return ""
	}
	t := s.c.Src(n)
	var sb strings.Builder
	inStr := byte(0)
	for i := 0; i < len(t); i++ {
		ch := t[i]
		if inStr != 0 {
			sb.WriteByte(ch)
			if ch == '\\' && i+1 < len(t) {
				i++
				sb.WriteByte(t[i])
			} else if ch == inStr {
				inStr = 0
			}
			continue
		}
		switch ch {
		case '"', '\'', '`':
			inStr = ch
			sb.WriteByte(ch)
		case ' ', '\t', '\n', '\r':
		default:
			sb.WriteByte(ch)
		}
	}
	return sb.String()
}

func (s *sk) emit(d int, kind, text string) { s.out = append(s.out, line{d, kind, text}) }

// writeCall recognises the ways render() and the writer put bytes into a buffer / on the wire.
func (s *sk) writeCall(e ast.Expr) (kind, text string, ok bool) {
	call, isCall := e.(*ast.CallExpr)
	if !isCall {
		return
	}
	fn := s.src(call.Fun)
	var args []string
	for _, a := range call.Args {
		args = append(args, s.src(a))
	}
	switch {
	case strings.HasSuffix(fn, ".WriteString") || strings.HasSuffix(fn, ".Write") || strings.HasSuffix(fn, ".Printf"):
		return "write", fn + "(" + strings.Join(args, ",") + ")", true
	case fn == "fmt.Fprintf":
		return "write", fn + "(" + strings.Join(args, ",") + ")", true
	}
	return
}

func (s *sk) block(d int, b *ast.BlockStmt) {
	if b == nil {
		return
	}
	for _, st := range b.List {
		s.stmt(d, st)
	}
}

func (s *sk) stmt(d int, st ast.Stmt) {
	switch st := st.(type) {
	case *ast.ExprStmt:
		if k, t, ok := s.writeCall(st.X); ok {
			s.emit(d, k, t)
		} else {
			s.emit(d, "call", s.src(st.X))
		}
	case *ast.AssignStmt:
		// `_, _ = w.WriteString(x)` is a write
		if len(st.Rhs) == 1 {
			allBlank := true
			for _, l := range st.Lhs {
				if id, ok := l.(*ast.Ident); !ok || id.Name != "_" {
					allBlank = false
				}
			}
			if allBlank {
				if k, t, ok := s.writeCall(st.Rhs[0]); ok {
					s.emit(d, k, t)
					return
				}
			}
		}
		var l, r []string
		for _, e := range st.Lhs {
			l = append(l, s.src(e))
		}
		for _, e := range st.Rhs {
			r = append(r, s.src(e))
		}
		s.emit(d, "assign", strings.Join(l, ",")+st.Tok.String()+strings.Join(r, ","))
	case *ast.IncDecStmt:
		s.emit(d, "assign", s.src(st.X)+st.Tok.String())
	case *ast.IfStmt:
		s.ifStmt(d, "if", st)
	case *ast.SwitchStmt:
		hdr := ""
		if st.Init != nil {
			hdr = s.src(st.Init) + ";"
		}
		s.emit(d, "switch", hdr+s.src(st.Tag))
		for _, cc := range st.Body.List {
			c, ok := cc.(*ast.CaseClause)
			if !ok {
				s.emit(d+1, "unknown", s.src(cc))
				continue
			}
			if c.List == nil {
				s.emit(d+1, "default", "")
			} else {
				var es []string
				for _, e := range c.List {
					es = append(es, s.src(e))
				}
				s.emit(d+1, "case", strings.Join(es, ","))
			}
			for _, b := range c.Body {
				s.stmt(d+2, b)
			}
		}
	case *ast.ForStmt:
		s.emit(d, "for", s.src(st.Init)+";"+s.src(st.Cond)+";"+s.src(st.Post))
		s.block(d+1, st.Body)
	case *ast.RangeStmt:
		kv := s.src(st.Key)
		if st.Value != nil {
			kv += "," + s.src(st.Value)
		}
		s.emit(d, "range", kv+st.Tok.String()+"range "+s.src(st.X))
		s.block(d+1, st.Body)
	case *ast.BranchStmt:
		lbl := ""
		if st.Label != nil {
			lbl = st.Label.Name
		}
		if st.Tok == token.CONTINUE || st.Tok == token.BREAK {
			s.emit(d, st.Tok.String(), lbl)
		} else {
			s.emit(d, "unknown", s.src(st))
		}
	case *ast.LabeledStmt:
		s.emit(d, "label", st.Label.Name)
		s.stmt(d, st.Stmt)
	case *ast.DeferStmt:
		s.emit(d, "defer", s.src(st.Call))
	case *ast.DeclStmt:
		// one line per declared name: `var (a = x; b T)` -> "a=x", "b T"
		gd, ok := st.Decl.(*ast.GenDecl)
		if !ok || gd.Tok != token.VAR {
			s.emit(d, "unknown", s.src(st.Decl))
			return
		}
		for _, sp := range gd.Specs {
			vs, ok := sp.(*ast.ValueSpec)
			if !ok {
				s.emit(d, "unknown", s.src(sp))
				continue
			}
			for i, n := range vs.Names {
				t := n.Name
				if vs.Type != nil {
					t += " " + s.src(vs.Type)
				}
				if i < len(vs.Values) {
					t += "=" + s.src(vs.Values[i])
				}
				s.emit(d, "var", t)
			}
		}
	case *ast.ReturnStmt:
		var r []string
		for _, e := range st.Results {
			// `return w.w.Write(x)` writes
			if _, t, ok := s.writeCall(e); ok {
				r = append(r, t)
			} else {
				r = append(r, s.src(e))
			}
		}
		s.emit(d, "return", strings.Join(r, ","))
	case *ast.BlockStmt:
		s.block(d, st)
	default:
		s.emit(d, "unknown", s.src(st))
	}
}

func (s *sk) ifStmt(d int, kind string, st *ast.IfStmt) {
	hdr := ""
	if st.Init != nil {
		hdr = s.src(st.Init) + ";"
	}
	s.emit(d, kind, hdr+s.src(st.Cond))
	s.block(d+1, st.Body)
	switch e := st.Else.(type) {
	case nil:
	case *ast.IfStmt:
		s.ifStmt(d, "elseif", e)
	case *ast.BlockStmt:
		s.emit(d, "else", "")
		s.block(d+1, e)
	default:
		s.emit(d, "unknown", s.src(st.Else))
	}
}

// canon: the role names of the locals (receiver, parameters, results, labels, variables) of each
// pinned function, in order of declaration — the names they have in the pinned transcription.  The
// k-th declared local is printed under the k-th name whatever it is called in the source, so that
// renaming a local does not change the skeleton (adding or removing one shifts the roles and does).
var canon = map[string][]string{
	"render": {"vx", "reposition", "cursor", "outerLast", "p1", "p2", "outerNew", "p1", "p2", "row", "dirty", "col", "next", "end", "skip", "i", "end",
		"fg", "ps", "bg", "ps", "ul", "ps", "attr", "dAttr", "on", "off", "ulStyle", "link", "linkPs", "i", "skip", "i", "end"},
	"showCursor":  {"vx", "buf"},
	"advance":     {"vx", "cell", "w"},
	"Write":       {"w", "p", "n", "err"},
	"WriteString": {"w", "s", "n", "err"},
	"Flush":       {"w", "n", "err"},
}

// normalise renames, in place, every identifier that refers to a local of fd (go/parser's object
// resolution) to its role name.  Only used on a separately parsed copy of the file.
func normalise(fd *ast.FuncDecl) {
	if fd == nil {
		return
	}
	seen := map[*ast.Object]bool{}
	var objs []*ast.Object
	ast.Inspect(fd, func(n ast.Node) bool {
		id, ok := n.(*ast.Ident)
		if !ok || id.Obj == nil || id.Name == "_" || id.Obj.Kind == ast.Fun {
			return true
		}
		o := id.Obj
		if o.Pos() < fd.Pos() || o.Pos() >= fd.End() || seen[o] {
			return true
		}
		seen[o] = true
		objs = append(objs, o)
		return true
	})
	sort.Slice(objs, func(i, j int) bool { return objs[i].Pos() < objs[j].Pos() })
	names := canon[fd.Name.Name]
	role := map[*ast.Object]string{}
	for k, o := range objs {
		if k < len(names) {
			role[o] = names[k]
		} else {
			role[o] = fmt.Sprintf("L%d", k)
		}
	}
	ast.Inspect(fd, func(n ast.Node) bool {
		if id, ok := n.(*ast.Ident); ok && id.Obj != nil {
			if r, ok := role[id.Obj]; ok {
				id.Name = r
			}
		}
		return true
	})
}

func skeleton(c *ex.Ctx, fd *ast.FuncDecl) []line {
	s := &sk{c: c}
	if fd == nil || fd.Body == nil {
		return nil
	}
	s.block(0, fd.Body)
	return s.out
}

func leanLines(name string, ls []line) string {
	var sb strings.Builder
	fmt.Fprintf(&sb, "def %s : List (Nat × String × String) := [", name)
	for i, l := range ls {
		if i > 0 {
			sb.WriteString(",")
		}
		fmt.Fprintf(&sb, "\n  (%d, %s, %s)", l.depth, ex.LeanStr(l.kind), ex.LeanStr(l.text))
	}
	sb.WriteString("]\n\n")
	return sb.String()
}

// --- tables of the pen delta ---

// maskTest matches `<v>&<Name> != 0` and returns v, Name.
func maskTest(e ast.Expr) (v, name string, ok bool) {
	b, isB := e.(*ast.BinaryExpr)
	if !isB || b.Op != token.NEQ {
		return
	}
	if l, isL := b.Y.(*ast.BasicLit); !isL || l.Value != "0" {
		return
	}
	a, isA := b.X.(*ast.BinaryExpr)
	if !isA || a.Op != token.AND {
		return
	}
	id, isId := a.Y.(*ast.Ident)
	if !isId {
		return
	}
	switch x := a.X.(type) {
	case *ast.Ident:
		return x.Name, id.Name, true
	case *ast.SelectorExpr:
		return x.Sel.Name, id.Name, true
	}
	return
}

// writtenConst returns NAME for `_, _ = X.WriteString(NAME)`.
func writtenConst(st ast.Stmt) (string, bool) {
	var e ast.Expr
	switch st := st.(type) {
	case *ast.AssignStmt:
		if len(st.Rhs) != 1 {
			return "", false
		}
		e = st.Rhs[0]
	case *ast.ExprStmt:
		e = st.X
	default:
		return "", false
	}
	call, ok := e.(*ast.CallExpr)
	if !ok || len(call.Args) != 1 {
		return "", false
	}
	sel, ok := call.Fun.(*ast.SelectorExpr)
	if !ok || sel.Sel.Name != "WriteString" {
		return "", false
	}
	id, ok := call.Args[0].(*ast.Ident)
	if !ok {
		return "", false
	}
	return id.Name, true
}

type offRow struct{ bit, seq, reBit, reSeq string }

func gen(c *ex.Ctx) {
	var sb strings.Builder
	sb.WriteString("namespace VaxisModel.Gen.RenderFacts\n\n")
	var errs []string

	vf := c.Parse("vaxis.go")
	wf := c.Parse("writer.go")
	var render, wWrite, wWriteString, wFlush, showCursor, advance *ast.FuncDecl
	if vf != nil {
		render = ex.FindFunc(vf, "Vaxis", "render")
		showCursor = ex.FindFunc(vf, "Vaxis", "showCursor")
		advance = ex.FindFunc(vf, "Vaxis", "advance")
	}
	if wf != nil {
		wWrite = ex.FindFunc(wf, "writer", "Write")
		wWriteString = ex.FindFunc(wf, "writer", "WriteString")
		wFlush = ex.FindFunc(wf, "writer", "Flush")
	}
	for n, fd := range map[string]*ast.FuncDecl{"Vaxis.render": render, "Vaxis.showCursor": showCursor, "Vaxis.advance": advance,
		"writer.Write": wWrite, "writer.WriteString": wWriteString, "writer.Flush": wFlush} {
		if fd == nil {
			errs = append(errs, n+" not found")
		}
	}
	c.Errs = nil // a parse failure is reported through extractErrors; the file is always written

	// the skeletons are printed from a second parse of the files in which the locals carry their
	// role names (the tables below read the original names)
	var renderN, wWriteN, wWriteStringN, wFlushN, showCursorN, advanceN *ast.FuncDecl
	if vn := c.Parse("vaxis.go"); vn != nil {
		renderN, showCursorN, advanceN = ex.FindFunc(vn, "Vaxis", "render"), ex.FindFunc(vn, "Vaxis", "showCursor"), ex.FindFunc(vn, "Vaxis", "advance")
	}
	if wn := c.Parse("writer.go"); wn != nil {
		wWriteN, wWriteStringN, wFlushN = ex.FindFunc(wn, "writer", "Write"), ex.FindFunc(wn, "writer", "WriteString"), ex.FindFunc(wn, "writer", "Flush")
	}
	for _, fd := range []*ast.FuncDecl{renderN, showCursorN, advanceN, wWriteN, wWriteStringN, wFlushN} {
		normalise(fd)
	}
	c.Errs = nil
	sb.WriteString("/-! Statement skeletons: (nesting depth, kind, text) in source order; locals under their role names. -/\n")
	sb.WriteString(leanLines("render", skeleton(c, renderN)))
	sb.WriteString(leanLines("showCursor", skeleton(c, showCursorN)))
	sb.WriteString(leanLines("advance", skeleton(c, advanceN)))
	sb.WriteString(leanLines("writerWrite", skeleton(c, wWriteN)))
	sb.WriteString(leanLines("writerWriteString", skeleton(c, wWriteStringN)))
	sb.WriteString(leanLines("writerFlush", skeleton(c, wFlushN)))

	// tables
	var on [][2]string
	var off []offRow
	var order []string
	// read from the role-normalised copy: `cursor`, `next`, `on`, `off` are role names there
	if renderN != nil {
		ast.Inspect(renderN.Body, func(n ast.Node) bool {
			ifs, ok := n.(*ast.IfStmt)
			if !ok {
				return true
			}
			// cursor.F != next.F  (possibly the left operand of ||)
			cond := ifs.Cond
			if b, ok := cond.(*ast.BinaryExpr); ok && b.Op == token.LOR {
				cond = b.X
			}
			if b, ok := cond.(*ast.BinaryExpr); ok && b.Op == token.NEQ {
				l, lok := b.X.(*ast.SelectorExpr)
				r, rok := b.Y.(*ast.SelectorExpr)
				if lok && rok && l.Sel.Name == r.Sel.Name {
					if li, ok := l.X.(*ast.Ident); ok && li.Name == "cursor" {
						if ri, ok := r.X.(*ast.Ident); ok && ri.Name == "next" {
							order = append(order, l.Sel.Name)
						}
					}
				}
			}
			v, name, ok := maskTest(ifs.Cond)
			if !ok || len(ifs.Body.List) == 0 {
				return true
			}
			seq, ok := writtenConst(ifs.Body.List[0])
			if !ok {
				return true
			}
			switch v {
			case "on":
				if len(ifs.Body.List) != 1 {
					errs = append(errs, c.Pos(ifs)+": on-branch with more than one statement")
				}
				on = append(on, [2]string{name, seq})
			case "off":
				row := offRow{bit: name, seq: seq}
				switch len(ifs.Body.List) {
				case 1:
				case 2:
					in, ok := ifs.Body.List[1].(*ast.IfStmt)
					if ok {
						_, n2, ok2 := maskTest(in.Cond)
						s2, ok3 := "", false
						if len(in.Body.List) == 1 {
							s2, ok3 = writtenConst(in.Body.List[0])
						}
						if ok2 && ok3 {
							row.reBit, row.reSeq = n2, s2
						} else {
							ok = false
						}
					}
					if !ok {
						errs = append(errs, c.Pos(ifs)+": off-branch of unknown shape")
					}
				default:
					errs = append(errs, c.Pos(ifs)+": off-branch of unknown shape")
				}
				off = append(off, row)
				return false
			}
			return true
		})
	}
	sb.WriteString("/-- `if on&Bit != 0 { write(seq) }`, in source order. -/\n")
	sb.WriteString("def attrOn : List (String × String) := [")
	for i, r := range on {
		if i > 0 {
			sb.WriteString(", ")
		}
		fmt.Fprintf(&sb, "(%s, %s)", ex.LeanStr(r[0]), ex.LeanStr(r[1]))
	}
	sb.WriteString("]\n\n")
	sb.WriteString("/-- `if off&Bit != 0 { write(seq); if next.Attribute&Bit2 != 0 { write(seq2) } }` (Bit2/seq2 empty if absent). -/\n")
	sb.WriteString("def attrOff : List (String × String × String × String) := [")
	for i, r := range off {
		if i > 0 {
			sb.WriteString(", ")
		}
		fmt.Fprintf(&sb, "(%s, %s, %s, %s)", ex.LeanStr(r.bit), ex.LeanStr(r.seq), ex.LeanStr(r.reBit), ex.LeanStr(r.reSeq))
	}
	sb.WriteString("]\n\n")
	sb.WriteString("/-- The style fields compared `cursor.F != next.F`, in source order. -/\n")
	sb.WriteString("def deltaOrder : List String := [")
	for i, f := range order {
		if i > 0 {
			sb.WriteString(", ")
		}
		sb.WriteString(ex.LeanStr(f))
	}
	sb.WriteString("]\n\n")
	// --- the writer's prologue / cursor-only branch / epilogue as guarded writes ---
	type gw struct {
		guard [][2]string // (negated "1"/"0", atom)
		what  string
	}
	strip := func(t string) string {
		t = strings.ReplaceAll(t, "w.vx.", "")
		if strings.HasPrefix(t, "[]byte(") && strings.HasSuffix(t, ")") {
			t = t[len("[]byte(") : len(t)-1]
		}
		return t
	}
	sk0 := &sk{c: c}
	var conj func(e ast.Expr) [][2]string
	conj = func(e ast.Expr) [][2]string {
		switch x := e.(type) {
		case *ast.BinaryExpr:
			if x.Op == token.LAND {
				return append(conj(x.X), conj(x.Y)...)
			}
		case *ast.UnaryExpr:
			if x.Op == token.NOT {
				return [][2]string{{"1", strip(sk0.src(x.X))}}
			}
		case *ast.ParenExpr:
			return conj(x.X)
		}
		return [][2]string{{"0", strip(sk0.src(e))}}
	}
	// `X.WriteString(arg)` / `return w.w.Write([]byte(arg))` / `return 0, nil`
	written := func(st ast.Stmt) (string, bool) {
		var e ast.Expr
		switch x := st.(type) {
		case *ast.ExprStmt:
			e = x.X
		case *ast.ReturnStmt:
			if len(x.Results) == 2 {
				if l, ok := x.Results[0].(*ast.BasicLit); ok && l.Value == "0" {
					return "", true
				}
			}
			if len(x.Results) != 1 {
				return "", false
			}
			e = x.Results[0]
		default:
			return "", false
		}
		call, ok := e.(*ast.CallExpr)
		if !ok || len(call.Args) != 1 {
			return "", false
		}
		fn := sk0.src(call.Fun)
		if !(strings.HasSuffix(fn, ".WriteString") || strings.HasSuffix(fn, ".Write")) {
			return "", false
		}
		return strip(sk0.src(call.Args[0])), true
	}
	guarded := func(stmts []ast.Stmt, where string) []gw {
		var out []gw
		for _, st := range stmts {
			if ifs, ok := st.(*ast.IfStmt); ok && ifs.Init == nil && ifs.Else == nil && len(ifs.Body.List) == 1 {
				if wh, ok := written(ifs.Body.List[0]); ok {
					out = append(out, gw{conj(ifs.Cond), wh})
					continue
				}
			}
			if wh, ok := written(st); ok {
				out = append(out, gw{nil, wh})
				continue
			}
			errs = append(errs, where+": statement of unknown shape: "+sk0.src(st))
			out = append(out, gw{[][2]string{{"0", "?"}}, "?"})
		}
		return out
	}
	isBufEmpty := func(st ast.Stmt) *ast.IfStmt {
		ifs, ok := st.(*ast.IfStmt)
		if ok && sk0.src(ifs.Cond) == "w.buf.Len()==0" && ifs.Else == nil {
			return ifs
		}
		return nil
	}
	var wsPro, flCur, flEpi []gw
	if wWriteString != nil && len(wWriteString.Body.List) == 3 && isBufEmpty(wWriteString.Body.List[1]) != nil {
		wsPro = guarded(isBufEmpty(wWriteString.Body.List[1]).Body.List, "writer.WriteString")
	} else {
		errs = append(errs, "writer.WriteString: unknown shape")
	}
	if wFlush != nil && len(wFlush.Body.List) >= 2 && isBufEmpty(wFlush.Body.List[0]) != nil {
		b := isBufEmpty(wFlush.Body.List[0]).Body.List
		if sw, ok := b[0].(*ast.SwitchStmt); ok && len(b) == 1 && sw.Tag == nil && sw.Init == nil {
			for _, cc := range sw.Body.List {
				cl := cc.(*ast.CaseClause)
				wh, ok := "", false
				if len(cl.Body) == 1 {
					wh, ok = written(cl.Body[0])
				}
				if !ok || len(cl.List) > 1 {
					errs = append(errs, "writer.Flush: cursor-only case of unknown shape")
					wh = "?"
				}
				g := [][2]string(nil)
				if len(cl.List) == 1 {
					g = conj(cl.List[0])
				}
				flCur = append(flCur, gw{g, wh})
			}
		} else {
			errs = append(errs, "writer.Flush: cursor-only branch of unknown shape")
		}
		var epi []ast.Stmt
		for _, st := range wFlush.Body.List[1:] {
			if _, ok := st.(*ast.DeferStmt); ok {
				continue // buf.Reset / mutex
			}
			if es, ok := st.(*ast.ExprStmt); ok && sk0.src(es.X) == "w.mut.Lock()" {
				continue
			}
			if rs, ok := st.(*ast.ReturnStmt); ok && len(rs.Results) == 1 && sk0.src(rs.Results[0]) == "w.w.Write(w.buf.Bytes())" {
				continue // the buffer goes on the wire
			}
			epi = append(epi, st)
		}
		flEpi = guarded(epi, "writer.Flush")
	} else {
		errs = append(errs, "writer.Flush: unknown shape")
	}
	leanGW := func(name, doc string, l []gw) {
		fmt.Fprintf(&sb, "/-- %s -/\ndef %s : List (List (Bool × String) × String) := [", doc, name)
		for i, g := range l {
			if i > 0 {
				sb.WriteString(",")
			}
			sb.WriteString("\n  ([")
			for j, a := range g.guard {
				if j > 0 {
					sb.WriteString(", ")
				}
				fmt.Fprintf(&sb, "(%s, %s)", map[string]string{"1": "true", "0": "false"}[a[0]], ex.LeanStr(a[1]))
			}
			fmt.Fprintf(&sb, "], %s)", ex.LeanStr(g.what))
		}
		sb.WriteString("]\n\n")
	}
	leanGW("wsPrologue", "`WriteString` on an empty buffer: `if G { buf.WriteString(X) }` in source order; guard = conjunction of (negated?, atom).", wsPro)
	leanGW("flushCursorOnly", "`Flush` on an empty buffer: the switch cases in order (what is written directly; \"\" = nothing).", flCur)
	leanGW("flushEpilogue", "`Flush` otherwise: what is appended to the buffer before it goes on the wire.", flEpi)

	sb.WriteString("def extractErrors : List String := [")
	for i, e := range errs {
		if i > 0 {
			sb.WriteString(", ")
		}
		sb.WriteString(ex.LeanStr(e))
	}
	sb.WriteString("]\n\nend VaxisModel.Gen.RenderFacts\n")
	c.Write("RenderFacts.lean", sb.String())
	for _, e := range errs {
		c.Fail("%s", e)
	}
}
