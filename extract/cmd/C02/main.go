// Extractor for C02/C08: Gen/ParserTable.lean — the transition table of ansi/parser.go.
//
// For `anywhere` and every function of type stateFn (signature `func X(r rune, p *Parser) stateFn`)
// it emits: the statements before the switch, every `case` arm in source order with its guards
// (in(r,a,b) / r == c / r == eof), the sequence of action calls and flag writes of the arm and the
// returned next state, and the default arm.  It also emits a few facts about the action bodies that
// the model hard-codes (digit base and offset in csiDispatch, the separators, the timer delay and
// body, the capacity of the output channel).  Anything whose shape is not recognised is an error
// (fail closed): the Gen file is then not written and every theorem over it stops checking.
package main

import (
	"fmt"
	"go/ast"
	"go/token"
	"regexp"
	"sort"
	"strconv"
	"strings"

	"verifextract/ex"
)

func main() {
	ex.Main([]string{"ParserTable.lean", "ParserActs.lean", "ParserReader.lean", "ParserRun.lean"}, gen)
}

var stateNames = map[string]bool{
	"ground": true, "escape": true, "escapeIntermediate": true, "csiEntry": true, "csiParam": true,
	"csiIntermediate": true, "csiIgnore": true, "dcsEntry": true, "dcsParam": true, "dcsIntermediate": true,
	"dcsPassthrough": true, "dcsIgnore": true, "oscString": true, "sosPm": true, "apc": true, "ss3": true,
}

// simple statements (printed source, whitespace-normalised) → Act constructor
var simpleActs = map[string]string{
	"p.execute(r)":                     ".execute",
	"p.print(r)":                       ".print",
	"p.collect(r)":                     ".collect",
	"p.param(r)":                       ".param",
	"p.csiDispatch(r)":                 ".csiDispatch",
	"p.escapeDispatch(r)":              ".escapeDispatch",
	"p.hook(r)":                        ".hook",
	"p.put(r)":                         ".put",
	"p.oscStart()":                     ".oscStart",
	"p.oscPut(r)":                      ".oscPut",
	"p.apcData = append(p.apcData, r)": ".apcPut",
	"p.clear()":                        ".clear",
	"p.emit(SS3(r))":                   ".emitSS3",
	"p.ignoreST = true":                ".setIgnoreST",
	"p.ignoreST = false":               ".clearIgnoreST",
	"p.exit = p.unhook":                ".setExitUnhook",
	"p.exit = p.apcUnhook":             ".setExitApc",
	"p.exit()":                         ".runExit",
	"p.exit = nil":                     ".clearExit",
}

// statements that belong to starting the timer (captured generation): no action of their own
var timerPrelude = map[string]bool{"gen := p.escGen": true}

type gctx struct {
	c *ex.Ctx
}

func norm(s string) string { return strings.Join(strings.Fields(s), " ") }

func (g *gctx) lit(e ast.Expr) (uint64, bool) {
	bl, ok := e.(*ast.BasicLit)
	if !ok || bl.Kind != token.INT {
		return 0, false
	}
	n, err := strconv.ParseUint(bl.Value, 0, 32)
	return n, err == nil
}

func (g *gctx) guard(e ast.Expr) (string, bool) {
	switch x := e.(type) {
	case *ast.ParenExpr:
		return g.guard(x.X)
	case *ast.CallExpr:
		if id, ok := x.Fun.(*ast.Ident); ok && id.Name == "in" && len(x.Args) == 3 {
			if a, ok := x.Args[0].(*ast.Ident); ok && a.Name == "r" {
				lo, ok1 := g.lit(x.Args[1])
				hi, ok2 := g.lit(x.Args[2])
				if ok1 && ok2 {
					return fmt.Sprintf(".range 0x%02X 0x%02X", lo, hi), true
				}
			}
		}
	case *ast.BinaryExpr:
		if x.Op == token.EQL {
			if a, ok := x.X.(*ast.Ident); ok && a.Name == "r" {
				if c, ok := g.lit(x.Y); ok {
					return fmt.Sprintf(".eq 0x%02X", c), true
				}
				if id, ok := x.Y.(*ast.Ident); ok && id.Name == "eof" {
					return ".isEof", true
				}
			}
		}
	}
	return "", false
}

func (g *gctx) next(e ast.Expr) (string, bool) {
	switch x := e.(type) {
	case *ast.Ident:
		if x.Name == "nil" {
			return ".stop", true
		}
		if stateNames[x.Name] {
			return ".st ." + x.Name, true
		}
	case *ast.CallExpr:
		if norm(g.c.Src(x)) == "p.state(r, p)" {
			return ".dispatch", true
		}
	}
	return "", false
}

// stmts translates the statements of an arm (or of the function prologue); the last statement of an
// arm must be the return.
func (g *gctx) stmts(list []ast.Stmt, wantReturn bool) (acts []string, next string, ok bool) {
	for i, s := range list {
		last := i == len(list)-1
		src := norm(g.c.Src(s))
		if a, found := simpleActs[src]; found {
			acts = append(acts, a)
			continue
		}
		if timerPrelude[src] {
			sawGenCapture = true
			continue
		}
		switch x := s.(type) {
		case *ast.ReturnStmt:
			if !wantReturn || !last || len(x.Results) != 1 {
				g.c.Fail("%s: unexpected return", g.c.Pos(s))
				return nil, "", false
			}
			n, ok := g.next(x.Results[0])
			if !ok {
				g.c.Fail("%s: unrecognised return value %s", g.c.Pos(s), src)
				return nil, "", false
			}
			return acts, n, true
		case *ast.IfStmt:
			cond := norm(g.c.Src(x.Cond))
			if x.Init != nil || x.Else != nil {
				g.c.Fail("%s: if with init/else", g.c.Pos(s))
				return nil, "", false
			}
			if cond == "p.exit != nil" {
				b, _, ok := g.stmts(x.Body.List, false)
				if ok && len(b) == 2 && b[0] == ".runExit" && b[1] == ".clearExit" {
					acts = append(acts, ".runExitIfSet")
					continue
				}
				if ok && len(b) == 3 && b[0] == ".runExit" && b[1] == ".clearExit" && b[2] == ".setIgnoreST" {
					acts = append(acts, ".runExitIfSetST")
					continue
				}
				unrecognised = append(unrecognised, g.c.Pos(s)+": "+src)
				acts = append(acts, ".unknown")
				continue
			}
			if cond == "p.ignoreST" {
				b, n, ok := g.stmts(x.Body.List, true)
				if ok && len(b) == 0 && n != "" {
					acts = append(acts, "(.retIfIgnoreST ("+n+"))")
					continue
				}
				unrecognised = append(unrecognised, g.c.Pos(s)+": "+src)
				acts = append(acts, ".unknown")
				continue
			}
			unrecognised = append(unrecognised, g.c.Pos(s)+": "+src)
			acts = append(acts, ".unknown")
			continue
		case *ast.DeferStmt:
			// only in the prologue (an arm-level defer is outside the model: `.unknown`)
			if !wantReturn && norm(g.c.Src(x.Call)) == "func() { p.ignoreST = false }()" {
				acts = append(acts, ".deferClearIgnoreST")
				continue
			}
		case *ast.ExprStmt:
			if strings.HasPrefix(src, "p.emit(fmt.Errorf(") {
				acts = append(acts, ".emitErr")
				continue
			}
		case *ast.AssignStmt:
			if strings.HasPrefix(src, "p.escTimeout = time.AfterFunc(") {
				if !g.timer(x) {
					return nil, "", false
				}
				acts = append(acts, ".startTimer")
				continue
			}
		}
		if _, isRet := s.(*ast.ReturnStmt); !isRet {
			unrecognised = append(unrecognised, g.c.Pos(s)+": "+src)
			acts = append(acts, ".unknown")
			continue
		}
		g.c.Fail("%s: unrecognised statement %q", g.c.Pos(s), src)
		return nil, "", false
	}
	if wantReturn {
		g.c.Fail("arm does not end in a return")
		return nil, "", false
	}
	return acts, "", true
}

var timerDelay string
var timerBody []string
var sawGenCapture bool

// statements of arms / prologues that are not in the vocabulary: they become `.unknown` (the driver
// must still build so that the harness can look for a failing input) and are listed in the Gen file;
// a theorem requires the list to be empty.
var unrecognised []string

// timer checks the shape of `p.escTimeout = time.AfterFunc(D*time.Millisecond, func() { … })`.
// `verifSched(p, N)` / `defer verifSched(p, N)`: yield points for forced schedules (C08), empty without the build tag
var schedYield = regexp.MustCompile(`^(defer )?verifSched\(p, (\d+)\)$`)
var schedYieldAny = regexp.MustCompile(`(defer )?verifSched\(p, \d+\)`)

func (g *gctx) timer(as *ast.AssignStmt) bool {
	call, ok := as.Rhs[0].(*ast.CallExpr)
	if !ok || len(call.Args) != 2 {
		g.c.Fail("%s: AfterFunc shape", g.c.Pos(as))
		return false
	}
	d := norm(g.c.Src(call.Args[0]))
	if !strings.HasSuffix(d, "*time.Millisecond") && !strings.HasSuffix(d, "* time.Millisecond") {
		g.c.Fail("%s: timer delay %q is not N*time.Millisecond", g.c.Pos(as), d)
		return false
	}
	n := strings.TrimSpace(strings.Split(d, "*")[0])
	if _, err := strconv.Atoi(n); err != nil {
		g.c.Fail("%s: timer delay %q", g.c.Pos(as), d)
		return false
	}
	timerDelay = n
	fl, ok := call.Args[1].(*ast.FuncLit)
	if !ok {
		g.c.Fail("%s: timer callback is not a func literal", g.c.Pos(as))
		return false
	}
	timerBody = nil
	for _, s := range fl.Body.List {
		t := norm(g.c.Src(s))
		if t == "verifEscTimer(0)" || t == "defer verifEscTimer(1)" || schedYield.MatchString(t) {
			continue // verification yield points (no-ops without the build tag)
		}
		timerBody = append(timerBody, t)
	}
	return true
}

func leanList(xs []string) string { return "[" + strings.Join(xs, ", ") + "]" }

func (g *gctx) stateFn(fd *ast.FuncDecl) (string, bool) {
	var sw *ast.SwitchStmt
	var pre []ast.Stmt
	for i, s := range fd.Body.List {
		if x, ok := s.(*ast.SwitchStmt); ok {
			if i != len(fd.Body.List)-1 {
				g.c.Fail("%s: statements after the switch in %s", g.c.Pos(s), fd.Name.Name)
				return "", false
			}
			sw = x
			break
		}
		pre = append(pre, s)
	}
	if sw == nil || sw.Tag != nil || sw.Init != nil {
		g.c.Fail("%s: %s is not `switch { … }`", g.c.Pos(fd), fd.Name.Name)
		return "", false
	}
	// `if <label> || <label> … { …; return <state> }` statements at the very top of the function:
	// early arms (tried in order before the prologue runs).  Anything else stays in the prologue.
	var early []string
	for len(pre) > 0 {
		is, ok := pre[0].(*ast.IfStmt)
		if !ok || is.Init != nil || is.Else != nil {
			break
		}
		gs, ok := g.orGuards(is.Cond)
		if !ok || len(is.Body.List) == 0 {
			break
		}
		if _, isRet := is.Body.List[len(is.Body.List)-1].(*ast.ReturnStmt); !isRet {
			break
		}
		acts, next, ok := g.stmts(is.Body.List, true)
		if !ok {
			return "", false
		}
		early = append(early, fmt.Sprintf("    { guards := %s, acts := %s, next := %s }", leanList(gs), leanList(acts), next))
		pre = pre[1:]
	}
	preActs, _, ok := g.stmts(pre, false)
	if !ok {
		return "", false
	}
	var arms []string
	dflt := ""
	for _, cs := range sw.Body.List {
		cc := cs.(*ast.CaseClause)
		acts, next, ok := g.stmts(cc.Body, true)
		if !ok {
			return "", false
		}
		if cc.List == nil {
			if dflt != "" {
				g.c.Fail("%s: two default arms", g.c.Pos(cc))
				return "", false
			}
			dflt = fmt.Sprintf("{ guards := [], acts := %s, next := %s }", leanList(acts), next)
			continue
		}
		if dflt != "" {
			// Go evaluates cases in order and default last wherever it is written; keep it simple
			g.c.Fail("%s: case after default", g.c.Pos(cc))
			return "", false
		}
		var gs []string
		for _, e := range cc.List {
			gd, ok := g.guard(e)
			if !ok {
				g.c.Fail("%s: unrecognised case label %q", g.c.Pos(e), norm(g.c.Src(e)))
				return "", false
			}
			gs = append(gs, gd)
		}
		arms = append(arms, fmt.Sprintf("    { guards := %s, acts := %s, next := %s }", leanList(gs), leanList(acts), next))
	}
	if dflt == "" {
		g.c.Fail("%s: %s has no default arm", g.c.Pos(fd), fd.Name.Name)
		return "", false
	}
	earlyStr := ""
	if len(early) > 0 {
		earlyStr = fmt.Sprintf("early := [\n%s],\n  ", strings.Join(early, ",\n"))
	}
	return fmt.Sprintf("{ %spre := %s,\n  arms := [\n%s],\n  dflt := %s }", earlyStr, leanList(preActs), strings.Join(arms, ",\n"), dflt), true
}

// orGuards reads `g1 || g2 || …` where every operand is a case-label expression.
func (g *gctx) orGuards(e ast.Expr) ([]string, bool) {
	switch x := e.(type) {
	case *ast.ParenExpr:
		return g.orGuards(x.X)
	case *ast.BinaryExpr:
		if x.Op == token.LOR {
			l, ok1 := g.orGuards(x.X)
			r, ok2 := g.orGuards(x.Y)
			if ok1 && ok2 {
				return append(l, r...), true
			}
			return nil, false
		}
	}
	gd, ok := g.guard(e)
	if !ok {
		return nil, false
	}
	return []string{gd}, true
}

func isStateFnDecl(c *ex.Ctx, fd *ast.FuncDecl) bool {
	if fd.Recv != nil || fd.Type.Results == nil || len(fd.Type.Results.List) != 1 {
		return false
	}
	return norm(c.Src(fd.Type.Results.List[0].Type)) == "stateFn"
}

// canonLocals renames the receiver, the parameters and the local variables of fd — in the order in
// which they are declared — to the names the recognisers of this extractor are written with, so that
// a pure renaming in the source changes nothing that is extracted (round 4; it used to degrade to
// `.unknown`: a false alarm).  An identifier is renamed through its declaration object, so shadowed
// variables (the inner `err` of readRune) stay distinct; fields, methods, package-level names and
// anything declared beyond the names given are left alone.
func canonLocals(fd *ast.FuncDecl, names []string) {
	if fd == nil || fd.Body == nil {
		return
	}
	order := map[*ast.Object]int{}
	n := 0
	ast.Inspect(fd, func(nd ast.Node) bool {
		if id, ok := nd.(*ast.Ident); ok && id.Obj != nil && id.Obj.Kind == ast.Var && id.Name != "_" && id.Obj.Pos() == id.Pos() {
			if _, seen := order[id.Obj]; !seen {
				order[id.Obj] = n
				n++
			}
		}
		return true
	})
	ast.Inspect(fd, func(nd ast.Node) bool {
		if id, ok := nd.(*ast.Ident); ok && id.Obj != nil {
			if i, ok := order[id.Obj]; ok && i < len(names) && names[i] != "" {
				id.Name = names[i]
			}
		}
		return true
	})
}

// the names the recognisers expect, per function, in declaration order (receiver and parameters first)
var canonNames = map[string][]string{
	"escapeDispatch": {"p", "r", "esc"},
	"csiDispatch":    {"p", "r", "csi", "ps", "param", "i", "b"},
	"hook":           {"p", "r", "paramStr", "params", "param", "val", "err"},
	"print":          {"p", "r", "bldr", "rest", "grapheme", "w", "nextRune", "size"},
	"readRune":       {"p", "r", "size", "err", "b", "err"},
	"run":            {"p", "r"},
	"emit":           {"p", "seq"},
	"anywhere":       {"r", "p", "gen"},
}

func gen(c *ex.Ctx) {
	f := c.Parse("ansi/parser.go")
	if f == nil {
		return
	}
	for _, d := range f.Decls {
		fd, ok := d.(*ast.FuncDecl)
		if !ok {
			continue
		}
		if names, ok := canonNames[fd.Name.Name]; ok {
			canonLocals(fd, names)
		} else if isStateFnDecl(c, fd) {
			canonLocals(fd, []string{"r", "p"})
		} else if fd.Recv != nil && len(fd.Recv.List) == 1 && norm(c.Src(fd.Recv.List[0].Type)) == "*Parser" {
			for _, m := range actionMethods {
				if m.name == fd.Name.Name {
					canonLocals(fd, []string{"p", "r"})
				}
			}
		}
	}
	genActs(c, f)   // Gen/ParserActs.lean: written first and unconditionally (it degrades, never fails)
	genReader(c, f) // Gen/ParserReader.lean: readRune and print as statement skeletons (degrades, never fails)
	genRun(c, f)    // Gen/ParserRun.lean: run() and the timer callback as statement skeletons (degrades, never fails)
	g := &gctx{c: c}
	var sb strings.Builder
	sb.WriteString("import VaxisModel.Model.ParserTable\n\nnamespace VaxisModel.Gen.ParserTable\nopen VaxisModel.Model.ParserTable\n\n")

	found := map[string]string{}
	for _, d := range f.Decls {
		fd, ok := d.(*ast.FuncDecl)
		if !ok || !isStateFnDecl(c, fd) {
			continue
		}
		name := fd.Name.Name
		if name != "anywhere" && !stateNames[name] {
			c.Fail("%s: state function %s is not known to the model (add it to Model/ParserTable.lean)", c.Pos(fd), name)
			return
		}
		pl := fd.Type.Params.List
		if len(pl) != 2 || len(pl[0].Names) != 1 || len(pl[1].Names) != 1 || pl[0].Names[0].Name != "r" || pl[1].Names[0].Name != "p" ||
			norm(c.Src(pl[0].Type)) != "rune" || norm(c.Src(pl[1].Type)) != "*Parser" {
			c.Fail("%s: %s does not have parameters (r rune, p *Parser)", c.Pos(fd), name)
			return
		}
		s, ok := g.stateFn(fd)
		if !ok {
			return
		}
		found[name] = s
	}
	for n := range stateNames {
		if _, ok := found[n]; !ok {
			c.Fail("ansi/parser.go: state function %s not found", n)
		}
	}
	if _, ok := found["anywhere"]; !ok {
		c.Fail("ansi/parser.go: anywhere not found")
	}
	if len(c.Errs) > 0 {
		return
	}
	names := make([]string, 0, len(found))
	for n := range found {
		names = append(names, n)
	}
	sort.Strings(names)
	for _, n := range names {
		fmt.Fprintf(&sb, "def %sFn : StateFn :=\n%s\n\n", n, found[n])
	}
	sb.WriteString("def stateFn : StateId → StateFn\n")
	for _, n := range names {
		if n != "anywhere" {
			fmt.Fprintf(&sb, "  | .%s => %sFn\n", n, n)
		}
	}
	sb.WriteString("\n")

	// initial state, channel capacity: NewParser
	np := ex.FindFunc(f, "", "NewParser")
	initState, chanCap := "", ""
	if np != nil {
		ast.Inspect(np.Body, func(n ast.Node) bool {
			kv, ok := n.(*ast.KeyValueExpr)
			if !ok {
				return true
			}
			k := norm(c.Src(kv.Key))
			v := norm(c.Src(kv.Value))
			if k == "state" && stateNames[v] {
				initState = v
			}
			if k == "sequences" && strings.HasPrefix(v, "make(chan Sequence, ") {
				chanCap = strings.TrimSuffix(strings.TrimPrefix(v, "make(chan Sequence, "), ")")
			}
			return true
		})
	}
	if initState == "" {
		c.Fail("NewParser: initial state not found")
		return
	}
	if _, err := strconv.Atoi(chanCap); err != nil {
		c.Fail("NewParser: capacity of the sequences channel not found")
		return
	}
	fmt.Fprintf(&sb, "def initialState : StateId := .%s\n/-- capacity of the `sequences` channel -/\ndef chanCap : Nat := %s\n\n", initState, chanCap)

	// timer
	if timerDelay == "" {
		c.Fail("anywhere: no escape timer found")
		return
	}
	wantBody := []string{"p.emit(C0(0x1B))", "p.mu.Lock()", "p.state = ground", "p.mu.Unlock()"}
	wantBody2 := []string{"p.emit(C0(0x1B))", "p.mu.Lock()", "p.state = ground", "p.ignoreST = false", "p.mu.Unlock()"}
	wantBody3 := []string{"p.mu.Lock()", "defer p.mu.Unlock()", "if p.escGen != gen { return }", "p.emit(C0(0x1B))", "p.state = ground", "p.ignoreST = false"}
	clears, guarded := "", "false"
	cbUnknown := false
	switch strings.Join(timerBody, "|") {
	case strings.Join(wantBody, "|"):
		clears = "false"
	case strings.Join(wantBody2, "|"):
		clears = "true"
	case strings.Join(wantBody3, "|"):
		clears, guarded = "true", "true"
	default:
		// An unrecognised callback is not an extraction failure (the drivers must still build so that the
		// harnesses can look for a failing input): the model keeps the guarded callback, and the flag
		// `runLoopRecognised`, which `gen_lifecycle_constants` requires, is cleared; Gen/ParserRun.lean
		// lists the statements (`run_skeleton_recognised`).
		clears, guarded = "true", "true"
		cbUnknown = true
	}
	if !cbUnknown && (guarded == "true") != sawGenCapture {
		cbUnknown = true
	}
	// run(): the generation is bumped under the mutex before every transition and before EOF
	rf := ex.FindFunc(f, "Parser", "run")
	if rf == nil {
		c.Fail("Parser.run not found")
		return
	}
	runSrc := norm(schedYieldAny.ReplaceAllString(norm(c.Src(rf.Body)), " ")) // yield points of the verification build aside (pinned by Gen/ParserRun.lean)
	bumpLoop := strings.Contains(runSrc, "r := p.readRune() p.mu.Lock() p.escGen++ p.state = anywhere(r, p)")
	bumpEnd := strings.Contains(runSrc, "p.mu.Lock() p.escGen++ p.mu.Unlock() p.emit(EOF{}) close(p.sequences)")
	plainLoop := strings.Contains(runSrc, "r := p.readRune() p.mu.Lock() p.state = anywhere(r, p)")
	plainEnd := strings.Contains(runSrc, "p.emit(EOF{}) close(p.sequences) p.closed <- true")
	// An unrecognised run() is not an extraction failure (the driver must still build so that the
	// harness can look for a failing input): it is a flag that `gen_lifecycle_constants` requires.
	runKnown := "true"
	if !plainEnd || !(bumpLoop || plainLoop) {
		runKnown = "false"
	}
	if !strings.Contains(runSrc, "outer: for { select { case <-p.close: break outer default:") ||
		!strings.Contains(runSrc, "if p.state == nil { p.mu.Unlock() break outer }") {
		runKnown = "false"
	}
	if guarded == "true" && !(bumpLoop && bumpEnd) {
		runKnown = "false"
	}
	if guarded == "false" && (bumpLoop || bumpEnd || strings.Contains(runSrc, "escGen")) {
		runKnown = "false"
	}
	if cbUnknown {
		runKnown = "false"
	}
	fmt.Fprintf(&sb, "/-- Parser.run has the shape the model knows (read; lock; [escGen++;] anywhere; … [lock; escGen++; unlock;] emit(EOF); close; closed<-true), consistent with the timer callback -/\ndef runLoopRecognised : Bool := %s\n\n", runKnown)
	fmt.Fprintf(&sb, "/-- delay of the Escape-key timer in ms; its callback is `emit(C0 0x1B); lock; state = ground; [ignoreST = false;] unlock` (shape checked by the extractor) -/\ndef escDelayMs : Nat := %s\n/-- the timer callback also resets ignoreST -/\ndef timerClearsIgnoreST : Bool := %s\n/-- the timer callback runs under the mutex and returns at once if the generation moved on (run() bumps it under the mutex before every transition and before EOF) -/\ndef timerGuarded : Bool := %s\n\n", timerDelay, clears, guarded)

	// facts about csiDispatch: separators, base, digit offset
	cd := ex.FindFunc(f, "Parser", "csiDispatch")
	if cd == nil {
		c.Fail("csiDispatch not found")
		return
	}
	var seps []string
	base, off := "", ""
	ast.Inspect(cd.Body, func(n ast.Node) bool {
		switch x := n.(type) {
		case *ast.CaseClause:
			for _, e := range x.List {
				if bl, ok := e.(*ast.BasicLit); ok && bl.Kind == token.CHAR {
					v, _, _, err := strconv.UnquoteChar(bl.Value[1:len(bl.Value)-1], '\'')
					if err == nil {
						seps = append(seps, fmt.Sprintf("0x%02X", v))
					}
				}
			}
		case *ast.AssignStmt:
			s := norm(c.Src(x))
			if strings.HasPrefix(s, "ps *= ") {
				base = strings.TrimPrefix(s, "ps *= ")
			}
			if strings.HasPrefix(s, "ps += int(b) - ") {
				off = strings.TrimPrefix(s, "ps += int(b) - ")
			}
		}
		return true
	})
	bn, err1 := strconv.ParseUint(base, 0, 32)
	on, err2 := strconv.ParseUint(off, 0, 32)
	if err1 != nil || err2 != nil || len(seps) != 2 {
		c.Fail("csiDispatch: expected `case ';'`, `case ':'`, `ps *= B`, `ps += int(b) - O`; got seps=%v base=%q off=%q", seps, base, off)
		return
	}
	fmt.Fprintf(&sb, "/-- csiDispatch: parameter separator, sub-parameter separator, number base, digit offset -/\ndef csiParamSep : Nat := %s\ndef csiSubSep : Nat := %s\ndef csiBase : Nat := %d\ndef csiDigit0 : Nat := 0x%02X\n\n", seps[0], seps[1], bn, on)

	// execute: the C0 range it emits
	exf := ex.FindFunc(f, "Parser", "execute")
	exRange := ""
	if exf != nil && len(exf.Body.List) == 1 {
		if is, ok := exf.Body.List[0].(*ast.IfStmt); ok {
			if gd, ok := g.guard(is.Cond); ok && len(is.Body.List) == 2 && norm(c.Src(is.Body.List[0])) == "p.emit(C0(r))" {
				exRange = gd
			}
		}
	}
	if exRange == "" {
		c.Fail("execute: expected `if in(r, a, b) { p.emit(C0(r)); return }`")
		return
	}
	fmt.Fprintf(&sb, "/-- execute emits `C0(r)` exactly for runes matching this guard -/\ndef executeGuard : Guard := %s\n\n", exRange)

	// clear: which fields it resets
	cl := ex.FindFunc(f, "Parser", "clear")
	var cleared []string
	if cl != nil {
		for _, s := range cl.Body.List {
			cleared = append(cleared, norm(c.Src(s)))
		}
	}
	wantClear := []string{"p.intermediate = p.intermediate[:0]", "p.final = rune(0)", "p.params = p.params[:0]"}
	// (any order: what the body does is interpreted statement by statement — Props.C02Acts.clear_body)
	sort.Strings(cleared)
	sort.Strings(wantClear)
	if strings.Join(cleared, "|") != strings.Join(wantClear, "|") {
		c.Fail("clear: body is %q, the model knows %q", cleared, wantClear)
		return
	}
	// readRune: the raw-byte fallback condition
	rr := ex.FindFunc(f, "Parser", "readRune")
	fallback := ""
	if rr != nil {
		ast.Inspect(rr.Body, func(n ast.Node) bool {
			if is, ok := n.(*ast.IfStmt); ok && fallback == "" {
				switch norm(c.Src(is.Cond)) {
				case "r == unicode.ReplacementChar":
					fallback = "false"
				case "r == unicode.ReplacementChar && size == 1":
					fallback = "true"
				}
			}
			return true
		})
	}
	if fallback == "" {
		c.Fail("readRune: raw-byte fallback condition not recognised")
		return
	}
	fmt.Fprintf(&sb, "/-- readRune falls back to the raw byte only when ReadRune reported an invalid byte (size 1), not for a well-formed U+FFFD -/\ndef fallbackOnlyInvalid : Bool := %s\n\n", fallback)
	// print: the look-ahead stops in front of an invalid byte (before it is written to the builder)
	stops := "false"
	if pf := ex.FindFunc(f, "Parser", "print"); pf != nil {
		ast.Inspect(pf.Body, func(n ast.Node) bool {
			fs, ok := n.(*ast.ForStmt)
			if !ok {
				return true
			}
			sawPeek := false
			for _, st := range fs.Body.List {
				switch norm(c.Src(st)) {
				case "nextRune, size, _ := p.r.ReadRune()":
					sawPeek = true
				case "if nextRune == unicode.ReplacementChar && size == 1 { p.r.UnreadRune() break }":
					if sawPeek {
						stops = "true"
					}
				case "grapheme, rest, w, _ = uniseg.FirstGraphemeClusterInString(bldr.String(), -1)":
					// the test must come before the cluster is measured (whether the rune was already
					// written to the builder does not matter: the builder is not read again after the break)
					sawPeek = false
				}
			}
			return false
		})
	}
	fmt.Fprintf(&sb, "/-- print's look-ahead leaves an invalid byte (ReadRune: U+FFFD, size 1) unread and stops, so that readRune delivers it raw -/\ndef lookaheadStopsAtInvalid : Bool := %s\n\n", stops)
	sb.WriteString("/-- statements in arms or prologues of the state functions that the extractor does not know (they appear as `.unknown` above) -/\ndef unrecognised : List String := [")
	for i, u := range unrecognised {
		if i > 0 {
			sb.WriteString(", ")
		}
		sb.WriteString(ex.LeanStr(u))
	}
	sb.WriteString("]\n\n")
	sb.WriteString("end VaxisModel.Gen.ParserTable\n")
	c.Write("ParserTable.lean", sb.String())
}

// ---------------------------------------------------------------------------------------------
// Gen/ParserActs.lean: the bodies of the action methods as statement skeletons (vocabulary and
// interpreter: Model/ParserActs.lean; theorems: Props/C02Acts.lean).  Nothing here fails the
// extractor: a statement outside the vocabulary becomes `.unknown "<source>"` and is listed in
// `unrecognised` (acts_fully_recognised requires that list to be empty), a missing method or an
// unexpected signature becomes a one-statement body `[.unknown …]`.
// ---------------------------------------------------------------------------------------------

type actx struct {
	c     *ex.Ctx
	fn    string
	unrec []string
}

func (a *actx) src(n ast.Node) string { return norm(a.c.Src(n)) }

func clip(s string) string {
	if len(s) > 160 {
		return s[:160] + "…"
	}
	return s
}

// unknown records a statement that is not in the vocabulary and returns `ctor "<source>"`.
func (a *actx) unknown(ctor string, n ast.Node) string {
	s := clip(a.src(n))
	a.unrec = append(a.unrec, a.fn+" ("+a.c.Pos(n)+"): "+s)
	return "(" + ctor + " " + ex.LeanStr(s) + ")"
}

var actFields = map[string]string{
	"p.intermediate": ".intermediate", "p.params": ".params", "p.oscData": ".oscData",
	"p.apcData": ".apcData", "p.dcs.Data": ".dcsData",
}
var exitFns = map[string]string{"p.oscEnd": ".oscEnd", "p.unhook": ".unhook", "p.apcUnhook": ".apcUnhook"}
var seqVars = map[string]string{"esc": ".esc", "csi": ".csi", "p.dcs": ".dcs"}
var seqTypes = map[string]string{"esc": "ESC", "csi": "CSI"}

// intLit: an integer or character literal → value.
func intLit(e ast.Expr) (int64, bool) {
	bl, ok := e.(*ast.BasicLit)
	if !ok {
		return 0, false
	}
	switch bl.Kind {
	case token.INT:
		n, err := strconv.ParseInt(bl.Value, 0, 64)
		return n, err == nil
	case token.CHAR:
		v, _, _, err := strconv.UnquoteChar(bl.Value[1:len(bl.Value)-1], '\'')
		return int64(v), err == nil
	}
	return 0, false
}

// emptyRuneSlice: `make([]rune, 0, n)` (any capacity) or `[]rune{}`.
func (a *actx) emptyRuneSlice(e ast.Expr) bool {
	if a.src(e) == "[]rune{}" {
		return true
	}
	call, ok := e.(*ast.CallExpr)
	if !ok || a.src(call.Fun) != "make" || len(call.Args) != 3 || a.src(call.Args[0]) != "[]rune" || a.src(call.Args[1]) != "0" {
		return false
	}
	_, ok = intLit(call.Args[2])
	return ok
}

// compLit: `T{K1: v1, …}` → type name and the key/value expressions.
func (a *actx) compLit(e ast.Expr) (string, map[string]ast.Expr, bool) {
	cl, ok := e.(*ast.CompositeLit)
	if !ok || cl.Type == nil {
		return "", nil, false
	}
	kv := map[string]ast.Expr{}
	for _, el := range cl.Elts {
		x, ok := el.(*ast.KeyValueExpr)
		if !ok {
			return "", nil, false
		}
		k := a.src(x.Key)
		if _, dup := kv[k]; dup {
			return "", nil, false
		}
		kv[k] = x.Value
	}
	return a.src(cl.Type), kv, true
}

// isSeqLit: `T{Final: r}`.
func (a *actx) isSeqLit(e ast.Expr, typ string) bool {
	t, kv, ok := a.compLit(e)
	return ok && t == typ && len(kv) == 1 && kv["Final"] != nil && a.src(kv["Final"]) == "r"
}

// loopOp: a statement of csiDispatch's decoder (inside or outside the loop).
func (a *actx) loopOp(s ast.Stmt) (string, bool) {
	as, ok := s.(*ast.AssignStmt)
	if !ok || len(as.Lhs) != 1 || len(as.Rhs) != 1 {
		return "", false
	}
	lhs, rhs := a.src(as.Lhs[0]), a.src(as.Rhs[0])
	switch as.Tok {
	case token.ASSIGN, token.DEFINE:
		def := as.Tok == token.DEFINE
		switch {
		case !def && lhs == "param" && rhs == "append(param, ps)":
			return ".appendParamPs", true
		case !def && lhs == "csi.Parameters" && rhs == "append(csi.Parameters, param)":
			return ".appendParamsParam", true
		case lhs == "param" && rhs == "p.paramPool.Get()[:0]":
			return ".newParam", true
		case !def && lhs == "csi.Parameters" && rhs == "p.paramListPool.Get()[:0]":
			return ".newParams", true
		case lhs == "ps" && rhs == "0":
			return ".psZero", true
		}
	case token.MUL_ASSIGN:
		if k, ok := intLit(as.Rhs[0]); ok && lhs == "ps" {
			return fmt.Sprintf("(.psMulConst %d)", k), true
		}
	case token.ADD_ASSIGN:
		if be, ok := as.Rhs[0].(*ast.BinaryExpr); ok && lhs == "ps" && be.Op == token.SUB && a.src(be.X) == "int(b)" {
			if off, ok := intLit(be.Y); ok {
				return fmt.Sprintf("(.psAddDigit 0x%02X)", off), true
			}
		}
	}
	return "", false
}

func (a *actx) loopOps(list []ast.Stmt) string {
	var ops []string
	for _, s := range list {
		if o, ok := a.loopOp(s); ok {
			ops = append(ops, o)
		} else {
			ops = append(ops, a.unknown("LoopOp.unknown", s))
		}
	}
	return leanList(ops)
}

// paramLoop: `for i := 0; i < len(p.params); i += 1 { b := p.params[i]; switch b {…} }`
// (or `i++`, or `for _, b := range p.params { switch b {…} }`).
func (a *actx) paramLoop(s ast.Stmt) (string, bool) {
	var body []ast.Stmt
	switch x := s.(type) {
	case *ast.ForStmt:
		if x.Init == nil || x.Cond == nil || x.Post == nil || a.src(x.Init) != "i := 0" || a.src(x.Cond) != "i < len(p.params)" {
			return "", false
		}
		if post := a.src(x.Post); post != "i += 1" && post != "i++" {
			return "", false
		}
		if len(x.Body.List) != 2 || a.src(x.Body.List[0]) != "b := p.params[i]" {
			return "", false
		}
		body = x.Body.List[1:]
	case *ast.RangeStmt:
		if x.Key == nil || x.Value == nil || x.Tok != token.DEFINE || a.src(x.Key) != "_" || a.src(x.Value) != "b" || a.src(x.X) != "p.params" || len(x.Body.List) != 1 {
			return "", false
		}
		body = x.Body.List
	default:
		return "", false
	}
	sw, ok := body[0].(*ast.SwitchStmt)
	if !ok || sw.Init != nil || sw.Tag == nil || a.src(sw.Tag) != "b" {
		return "", false
	}
	// labels must be literals (checked before anything is recorded as unknown)
	for _, cs := range sw.Body.List {
		for _, e := range cs.(*ast.CaseClause).List {
			if _, ok := intLit(e); !ok {
				return "", false
			}
		}
	}
	var cases []string
	dflt, seenDflt := "[]", false
	for _, cs := range sw.Body.List {
		cc := cs.(*ast.CaseClause)
		ops := a.loopOps(cc.Body)
		if cc.List == nil {
			if seenDflt {
				return "", false
			}
			dflt, seenDflt = ops, true
			continue
		}
		for _, e := range cc.List {
			v, _ := intLit(e)
			cases = append(cases, fmt.Sprintf("(0x%02X, %s)", v, ops))
		}
	}
	return fmt.Sprintf("(.paramLoop\n      %s\n      %s)", leanList(cases), dflt), true
}

// hookOp: a statement of the body of hook's range loop.
func (a *actx) hookOp(s ast.Stmt) (string, bool) {
	switch x := s.(type) {
	case *ast.IfStmt:
		if x.Init != nil || x.Else != nil || len(x.Body.List) != 2 {
			return "", false
		}
		switch a.src(x.Cond) {
		case `param == ""`:
			as, ok := x.Body.List[0].(*ast.AssignStmt)
			if !ok || as.Tok != token.ASSIGN || len(as.Lhs) != 1 || len(as.Rhs) != 1 || a.src(as.Lhs[0]) != "params" || a.src(x.Body.List[1]) != "continue" {
				return "", false
			}
			call, ok := as.Rhs[0].(*ast.CallExpr)
			if !ok || a.src(call.Fun) != "append" || len(call.Args) != 2 || a.src(call.Args[0]) != "params" {
				return "", false
			}
			if v, ok := intLit(call.Args[1]); ok {
				return fmt.Sprintf("(.ifEmptyAppendContinue %d)", v), true
			}
		case "err != nil":
			if strings.HasPrefix(a.src(x.Body.List[0]), "p.emit(fmt.Errorf(") && a.src(x.Body.List[1]) == "return" {
				return ".ifErrEmitReturn", true
			}
		}
	case *ast.AssignStmt:
		switch a.src(x) {
		case "val, err := strconv.Atoi(param)":
			return ".atoi", true
		case "params = append(params, val)":
			return ".appendVal", true
		}
	}
	return "", false
}

// hookLoop: `for _, param := range paramStr { … }`.
func (a *actx) hookLoop(s ast.Stmt) (string, bool) {
	x, ok := s.(*ast.RangeStmt)
	if !ok || x.Key == nil || x.Value == nil || x.Tok != token.DEFINE || a.src(x.Key) != "_" || a.src(x.Value) != "param" || a.src(x.X) != "paramStr" {
		return "", false
	}
	var ops []string
	for _, st := range x.Body.List {
		if o, ok := a.hookOp(st); ok {
			ops = append(ops, o)
		} else {
			ops = append(ops, a.unknown("HookOp.unknown", st))
		}
	}
	return "(.hookLoop " + leanList(ops) + ")", true
}

// bodyStmt: one top-level statement of an action method.
func (a *actx) bodyStmt(s ast.Stmt) (string, bool) {
	switch x := s.(type) {
	case *ast.AssignStmt:
		if len(x.Lhs) != 1 || len(x.Rhs) != 1 {
			return "", false
		}
		lhs, rhs := a.src(x.Lhs[0]), a.src(x.Rhs[0])
		if x.Tok == token.ASSIGN {
			if f, ok := actFields[lhs]; ok {
				switch {
				case rhs == "append("+lhs+", r)":
					return "(.appendField " + f + ")", true
				case rhs == lhs+"[:0]":
					return "(.truncField " + f + ")", true
				case a.emptyRuneSlice(x.Rhs[0]):
					return "(.resetField " + f + ")", true
				}
				return "", false
			}
			switch lhs {
			case "p.dcs":
				t, kv, ok := a.compLit(x.Rhs[0])
				if ok && t == "DCS" && len(kv) == 0 {
					return "(.resetField .dcs)", true
				}
				if ok && t == "DCS" && len(kv) == 2 && kv["Final"] != nil && kv["Data"] != nil && a.src(kv["Final"]) == "r" && a.emptyRuneSlice(kv["Data"]) {
					return "(.declSeq .dcs)", true
				}
				return "", false
			case "p.final":
				if rhs == "rune(0)" {
					return ".assignFinal0", true
				}
				return "", false
			case "p.exit":
				if fn, ok := exitFns[rhs]; ok {
					return "(.setExit " + fn + ")", true
				}
				return "", false
			case "p.dcs.Parameters":
				if rhs == "params" {
					return ".assignDcsParams", true
				}
				return "", false
			}
		}
		if x.Tok == token.DEFINE {
			if t, ok := seqTypes[lhs]; ok {
				if a.isSeqLit(x.Rhs[0], t) {
					return "(.declSeq " + seqVars[lhs] + ")", true
				}
				return "", false
			}
			if lhs == "paramStr" {
				call, ok := x.Rhs[0].(*ast.CallExpr)
				if ok && a.src(call.Fun) == "strings.Split" && len(call.Args) == 2 && a.src(call.Args[0]) == "string(p.params)" {
					if bl, ok := call.Args[1].(*ast.BasicLit); ok && bl.Kind == token.STRING {
						if sep, err := strconv.Unquote(bl.Value); err == nil && len(sep) == 1 && sep[0] < 0x80 {
							return fmt.Sprintf("(.splitParams 0x%02X)", sep[0]), true
						}
					}
				}
				return "", false
			}
			if lhs == "params" {
				if rhs == "make([]int, 0, len(paramStr))" {
					return ".hookNewParams", true
				}
				return "", false
			}
		}
		if o, ok := a.loopOp(s); ok {
			return "(.op " + o + ")", true
		}
	case *ast.ExprStmt:
		call, ok := x.X.(*ast.CallExpr)
		if !ok || a.src(call.Fun) != "p.emit" || len(call.Args) != 1 {
			return "", false
		}
		arg := a.src(call.Args[0])
		switch arg {
		case "esc", "csi":
			return "(.emitLocal " + seqVars[arg] + ")", true
		case "p.dcs":
			return ".emitDcs", true
		}
		if t, kv, ok := a.compLit(call.Args[0]); ok && len(kv) == 1 {
			if t == "OSC" && kv["Payload"] != nil && a.src(kv["Payload"]) == "p.oscData" {
				return ".emitOsc", true
			}
			if t == "APC" && kv["Data"] != nil && a.src(kv["Data"]) == "string(p.apcData)" {
				return ".emitApc", true
			}
		}
	case *ast.IfStmt:
		if x.Init != nil || x.Else != nil {
			return "", false
		}
		b := x.Body.List
		cond := a.src(x.Cond)
		if call, ok := x.Cond.(*ast.CallExpr); ok && a.src(call.Fun) == "in" && len(call.Args) == 3 && a.src(call.Args[0]) == "r" {
			lo, ok1 := intLit(call.Args[1])
			hi, ok2 := intLit(call.Args[2])
			if ok1 && ok2 && lo >= 0 && hi >= 0 && len(b) == 2 && a.src(b[0]) == "p.emit(C0(r))" && a.src(b[1]) == "return" {
				return fmt.Sprintf("(.emitC0IfIn 0x%02X 0x%02X)", lo, hi), true
			}
			return "", false
		}
		switch cond {
		case "len(p.intermediate) > 0":
			if len(b) != 2 || a.src(b[1]) != "p.intermediate = p.intermediatePool.Get()" {
				return "", false
			}
			for v, k := range seqVars {
				if a.src(b[0]) == v+".Intermediate = p.intermediate" {
					return "(.takeInter " + k + ")", true
				}
			}
		case "len(p.params) == 0":
			if len(b) == 1 && a.src(b[0]) == "return" {
				return ".retIfNoParams", true
			}
			if len(b) == 2 && a.src(b[1]) == "return" {
				for _, v := range []string{"esc", "csi"} {
					if a.src(b[0]) == "p.emit("+v+")" {
						return "(.emitRetIfNoParams " + seqVars[v] + ")", true
					}
				}
			}
		}
	case *ast.ForStmt:
		return a.paramLoop(s)
	case *ast.RangeStmt:
		if a.src(x.X) == "p.params" {
			return a.paramLoop(s)
		}
		return a.hookLoop(s)
	}
	return "", false
}

// action methods: name → has the parameter (r rune)
var actionMethods = []struct {
	name  string
	withR bool
}{
	{"collect", true}, {"param", true}, {"put", true}, {"oscPut", true}, {"clear", false}, {"execute", true},
	{"escapeDispatch", true}, {"oscStart", false}, {"oscEnd", false}, {"unhook", false}, {"apcUnhook", false},
	{"csiDispatch", true}, {"hook", true},
}

// paramSig prints a parameter list as `(n1 T1, n2 T2)`.
func (a *actx) paramSig(fl *ast.FieldList) string {
	var ps []string
	if fl != nil {
		for _, fld := range fl.List {
			for _, n := range fld.Names {
				ps = append(ps, n.Name+" "+a.src(fld.Type))
			}
			if len(fld.Names) == 0 {
				ps = append(ps, a.src(fld.Type))
			}
		}
	}
	return "(" + strings.Join(ps, ", ") + ")"
}

func genActs(c *ex.Ctx, f *ast.File) {
	a := &actx{c: c}
	var sb strings.Builder
	sb.WriteString("import VaxisModel.Model.ParserActs\n\nnamespace VaxisModel.Gen.ParserActs\nopen VaxisModel.Model.ParserActs\n\n")
	for _, m := range actionMethods {
		a.fn = m.name
		var stmts []string
		fd := ex.FindFunc(f, "Parser", m.name)
		sig := "()"
		if m.withR {
			sig = "(r rune)"
		}
		switch {
		case fd == nil || fd.Body == nil:
			a.unrec = append(a.unrec, m.name+": method not found")
			stmts = []string{"(.unknown \"method not found\")"}
		case len(fd.Recv.List) != 1 || len(fd.Recv.List[0].Names) != 1 || fd.Recv.List[0].Names[0].Name != "p" ||
			a.paramSig(fd.Type.Params) != sig || fd.Type.Results != nil:
			a.unrec = append(a.unrec, m.name+": signature is not func (p *Parser) "+m.name+sig)
			stmts = []string{"(.unknown \"unexpected signature\")"}
		default:
			for _, s := range fd.Body.List {
				if t, ok := a.bodyStmt(s); ok {
					stmts = append(stmts, t)
				} else {
					stmts = append(stmts, a.unknown(".unknown", s))
				}
			}
		}
		fmt.Fprintf(&sb, "/-- body of `func (p *Parser) %s%s` -/\ndef %sBody : List BStmt :=\n  [", m.name, sig, m.name)
		sb.WriteString(strings.Join(stmts, ",\n   "))
		sb.WriteString("]\n\n")
	}
	sb.WriteString("/-- statements of the action bodies that the extractor does not know (they appear as `.unknown` above) -/\ndef unrecognised : List String := [")
	for i, u := range a.unrec {
		if i > 0 {
			sb.WriteString(",\n  ")
		}
		sb.WriteString(ex.LeanStr(u))
	}
	sb.WriteString("]\n\nend VaxisModel.Gen.ParserActs\n")
	c.Write("ParserActs.lean", sb.String())
}

// Gen/ParserReader.lean: the statement skeletons of the reading side — Parser.readRune (ReadRune,
// stop the timer, raw-byte fallback, error ⇒ eof) and Parser.print (builder, look-ahead loop over
// what is buffered, UnreadRune when the cluster is complete, width, emit) — in the vocabulary of
// Model/ParserReaderSk.lean.  A statement that is not recognised becomes `.unknown "<source>"` and is
// listed in `unrecognised`; nothing here fails the extractor.
func genReader(c *ex.Ctx, f *ast.File) {
	var unrec []string
	unknown := func(fn string, n ast.Node) string {
		src := norm(c.Src(n))
		unrec = append(unrec, fn+": "+src)
		return "(.unknown " + ex.LeanStr(src) + ")"
	}
	simple := func(fn string, table map[string]string, list []ast.Stmt) []string {
		var out []string
		for _, st := range list {
			if t, ok := table[norm(c.Src(st))]; ok {
				out = append(out, t)
			} else {
				out = append(out, unknown(fn, st))
			}
		}
		return out
	}
	body := func(name string) []ast.Stmt {
		fd := ex.FindFunc(f, "Parser", name)
		if fd == nil || fd.Body == nil {
			unrec = append(unrec, name+": method not found")
			return nil
		}
		return fd.Body.List
	}
	fb := "err = p.r.UnreadRune() if err != nil { return eof } b, err := p.r.ReadByte() if err != nil { return eof } r = rune(b)"
	readTable := map[string]string{
		"r, size, err := p.r.ReadRune()":                              ".readRune",
		"if p.escTimeout != nil { p.escTimeout.Stop() }":              ".stopTimer",
		"if r == unicode.ReplacementChar && size == 1 { " + fb + " }": "(.fallback true)",
		"if r == unicode.ReplacementChar { " + fb + " }":              "(.fallback false)",
		"if err != nil { return eof }":                                ".retEofOnErr",
		"return r":                                                    ".retRune",
	}
	loopTable := map[string]string{
		"nextRune, _, _ := p.r.ReadRune()":                                               ".peekRune",
		"nextRune, size, _ := p.r.ReadRune()":                                            ".peekRuneSized",
		"if nextRune == unicode.ReplacementChar && size == 1 { p.r.UnreadRune() break }": ".ifInvalidUnreadBreak",
		"bldr.WriteRune(nextRune)":                                                       ".writeNext",
		"grapheme, rest, w, _ = uniseg.FirstGraphemeClusterInString(bldr.String(), -1)":  ".firstCluster",
		"if rest != \"\" { p.r.UnreadRune() break }":                                     ".ifRestUnreadBreak",
	}
	printTable := map[string]string{
		"bldr := strings.Builder{}":                          ".newBuilder",
		"bldr.WriteRune(r)":                                  ".writeFirst",
		"var ( rest string grapheme = bldr.String() w int )": ".declLocals",
		"if w == 0 { w = uniseg.StringWidth(grapheme) }":     ".measureIfZero",
		"p.emit(Print{Grapheme: grapheme, Width: w})":        ".emitPrint",
	}
	var sb strings.Builder
	sb.WriteString("import VaxisModel.Model.ParserReaderSk\n\nnamespace VaxisModel.Gen.ParserReader\nopen VaxisModel.Model.ParserReaderSk\n\n")
	rd := simple("readRune", readTable, body("readRune"))
	fmt.Fprintf(&sb, "/-- body of `func (p *Parser) readRune() rune` -/\ndef readRuneBody : List RStmt :=\n  [%s]\n\n", strings.Join(rd, ",\n   "))
	var pr []string
	for _, st := range body("print") {
		if fs, ok := st.(*ast.ForStmt); ok && fs.Init == nil && fs.Post == nil && fs.Cond != nil &&
			norm(c.Src(fs.Cond)) == "p.r.Buffered() > 0" {
			pr = append(pr, ".whileBuffered")
			pr = append(pr, simple("print", loopTable, fs.Body.List)...)
			pr = append(pr, ".endWhile")
			continue
		}
		src := norm(c.Src(st))
		if ds, ok := st.(*ast.DeclStmt); ok {
			if gd, ok := ds.Decl.(*ast.GenDecl); ok {
				cp := *gd
				cp.Doc = nil // a comment above the declaration is not part of it
				src = norm(c.Src(&cp))
			}
		}
		if t, ok := printTable[src]; ok {
			pr = append(pr, t)
		} else {
			pr = append(pr, unknown("print", st))
		}
	}
	fmt.Fprintf(&sb, "/-- body of `func (p *Parser) print(r rune)` -/\ndef printBody : List RStmt :=\n  [%s]\n\n", strings.Join(pr, ",\n   "))
	em := simple("emit", map[string]string{"p.sequences <- seq": ".sendSeq"}, body("emit"))
	fmt.Fprintf(&sb, "/-- body of `func (p *Parser) emit(seq Sequence)` -/\ndef emitBody : List RStmt :=\n  [%s]\n\n", strings.Join(em, ",\n   "))
	sb.WriteString("/-- statements of readRune / print / emit that the extractor does not know -/\ndef unrecognised : List String := [")
	for i, u := range unrec {
		if i > 0 {
			sb.WriteString(",\n  ")
		}
		sb.WriteString(ex.LeanStr(u))
	}
	sb.WriteString("]\n\nend VaxisModel.Gen.ParserReader\n")
	c.Write("ParserReader.lean", sb.String())
}

// ---------------------------------------------------------------------------------------------
// Gen/ParserRun.lean: `Parser.run` and the callback of the Escape timer as statement skeletons, in
// source order (vocabulary: Model/ParserRunSk.lean; theorems: Props/C08Order.lean).  Nothing here
// fails the extractor: an unknown statement becomes `.unknown "<source>"`, an unknown overall shape
// clears `runShapeOk` / leaves the lists empty.
func genRun(c *ex.Ctx, f *ast.File) {
	var unrec []string
	runTable := map[string]string{
		"r := p.readRune()":        ".callReadRune",
		"p.mu.Lock()":              ".lock",
		"p.mu.Unlock()":            ".unlock",
		"p.escGen++":               ".bumpGen",
		"p.state = anywhere(r, p)": ".anywhere",
		"if p.state == nil { p.mu.Unlock() break outer }": ".ifNilUnlockBreak",
		"if p.escTimeout != nil { p.escTimeout.Stop() }":  ".stopTimer",
		"p.emit(EOF{})":      ".emitEOF",
		"close(p.sequences)": ".closeSequences",
		"p.closed <- true":   ".signalClosed",
		"break outer":        ".recvCloseBreak",
	}
	conv := func(fn string, table map[string]string, list []ast.Stmt) []string {
		var out []string
		for _, st := range list {
			src := norm(c.Src(st))
			if t, ok := table[src]; ok {
				out = append(out, t)
			} else if m := schedYield.FindStringSubmatch(src); m != nil && m[1] == "" {
				out = append(out, "(.yield "+m[2]+")")
			} else if m != nil {
				out = append(out, "(.deferYield "+m[2]+")")
			} else {
				unrec = append(unrec, fn+": "+src)
				out = append(out, "(.unknown "+ex.LeanStr(src)+")")
			}
		}
		return out
	}
	var closeArm, dfltArm, tail, loopHead, runHead []string
	shape := false
	if rf := ex.FindFunc(f, "Parser", "run"); rf != nil && rf.Body != nil && len(rf.Body.List) >= 1 {
		// what stands in front of the loop (the deferred yield point of the verification build)
		nh := 0
		for nh < len(rf.Body.List)-1 {
			if _, isLoop := rf.Body.List[nh].(*ast.LabeledStmt); isLoop {
				break
			}
			nh++
		}
		runHead = conv("run", runTable, rf.Body.List[:nh])
		rf = &ast.FuncDecl{Name: rf.Name, Recv: rf.Recv, Type: rf.Type, Body: &ast.BlockStmt{List: rf.Body.List[nh:]}}
		if ls, ok := rf.Body.List[0].(*ast.LabeledStmt); ok && ls.Label.Name == "outer" {
			if fs, ok := ls.Stmt.(*ast.ForStmt); ok && fs.Init == nil && fs.Cond == nil && fs.Post == nil && len(fs.Body.List) >= 1 {
				nb := len(fs.Body.List)
				if sel, ok := fs.Body.List[nb-1].(*ast.SelectStmt); ok && len(sel.Body.List) == 2 {
					loopHead = conv("run", runTable, fs.Body.List[:nb-1]) // what stands in front of the select (yield points)
					c0, ok0 := sel.Body.List[0].(*ast.CommClause)
					c1, ok1 := sel.Body.List[1].(*ast.CommClause)
					if ok0 && ok1 && c0.Comm != nil && norm(c.Src(c0.Comm)) == "<-p.close" && c1.Comm == nil {
						shape = true
						closeArm = conv("run", runTable, c0.Body)
						dfltArm = conv("run", runTable, c1.Body)
					}
				}
			}
		}
		if shape {
			tail = conv("run", runTable, rf.Body.List[1:])
		}
	}
	if !shape {
		unrec = append(unrec, "run: not `outer: for { select { case <-p.close: …; default: … } }` + tail")
	}
	// the timer callback: the func literal given to time.AfterFunc in anywhere
	cbTable := map[string]string{
		"verifEscTimer(0)":              ".yield0",
		"defer verifEscTimer(1)":        ".deferYield1",
		"p.mu.Lock()":                   ".lock",
		"defer p.mu.Unlock()":           ".deferUnlock",
		"if p.escGen != gen { return }": ".ifGenChangedReturn",
		"p.emit(C0(0x1B))":              ".emitEsc",
		"p.state = ground":              ".setGround",
		"p.ignoreST = false":            ".clearIgnoreST",
	}
	var cb []string
	captures := false
	if af := ex.FindFunc(f, "", "anywhere"); af != nil {
		ast.Inspect(af.Body, func(n ast.Node) bool {
			cc, ok := n.(*ast.CaseClause)
			if !ok {
				return true
			}
			for i, st := range cc.Body {
				as, ok := st.(*ast.AssignStmt)
				if !ok || !strings.HasPrefix(norm(c.Src(st)), "p.escTimeout = time.AfterFunc(") {
					continue
				}
				if call, ok := as.Rhs[0].(*ast.CallExpr); ok && len(call.Args) == 2 {
					if fl, ok := call.Args[1].(*ast.FuncLit); ok {
						cb = conv("timer callback", cbTable, fl.Body.List)
					}
				}
				if i > 0 && norm(c.Src(cc.Body[i-1])) == "gen := p.escGen" {
					captures = true
				}
			}
			return false
		})
	}
	if cb == nil {
		unrec = append(unrec, "anywhere: time.AfterFunc(…, func() { … }) not found")
	}
	var sb strings.Builder
	sb.WriteString("import VaxisModel.Model.ParserRunSk\n\nnamespace VaxisModel.Gen.ParserRun\nopen VaxisModel.Model.ParserRunSk\n\n")
	b2s := map[bool]string{true: "true", false: "false"}
	fmt.Fprintf(&sb, "/-- `run` is `outer: for { select { case <-p.close: …; default: … } }` followed by the statements below -/\ndef runShapeOk : Bool := %s\n\n", b2s[shape])
	fmt.Fprintf(&sb, "/-- the statements of `run` in front of the loop -/\ndef runHead : List RunStmt :=\n  [%s]\n\n", strings.Join(runHead, ",\n   "))
	fmt.Fprintf(&sb, "/-- the statements of the loop body in front of the `select` -/\ndef runLoopHead : List RunStmt :=\n  [%s]\n\n", strings.Join(loopHead, ",\n   "))
	fmt.Fprintf(&sb, "/-- body of `case <-p.close:` -/\ndef runClose : List RunStmt :=\n  [%s]\n\n", strings.Join(closeArm, ",\n   "))
	fmt.Fprintf(&sb, "/-- body of the `default:` arm of the select -/\ndef runDefault : List RunStmt :=\n  [%s]\n\n", strings.Join(dfltArm, ",\n   "))
	fmt.Fprintf(&sb, "/-- the statements of `run` after the loop -/\ndef runTail : List RunStmt :=\n  [%s]\n\n", strings.Join(tail, ",\n   "))
	fmt.Fprintf(&sb, "/-- body of the callback given to `time.AfterFunc` in `anywhere` -/\ndef timerCallback : List CbStmt :=\n  [%s]\n\n", strings.Join(cb, ",\n   "))
	fmt.Fprintf(&sb, "/-- `gen := p.escGen` is the statement in front of `p.escTimeout = time.AfterFunc(…)` (same arm, under the mutex) -/\ndef timerCapturesGen : Bool := %s\n\n", b2s[captures])
	sb.WriteString("/-- statements of run / the timer callback that the extractor does not know -/\ndef unrecognised : List String := [")
	for i, u := range unrec {
		if i > 0 {
			sb.WriteString(",\n  ")
		}
		sb.WriteString(ex.LeanStr(u))
	}
	sb.WriteString("]\n\nend VaxisModel.Gen.ParserRun\n")
	c.Write("ParserRun.lean", sb.String())
}
