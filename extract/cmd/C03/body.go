// Gen/InputBody.lean: the bodies of Vaxis.handleSequence (vaxis.go), parseMouseEvent (mouse.go) and
// Vaxis.Resize (vaxis.go) as terms of the statement language VaxisModel.Model.GoBody (the language and
// the translator `gobody` of C09/C13 are reused as they are).  `Model/InputBody.lean` EXECUTES these
// terms; `Props/C03Body.lean` proves the execution equal to the hand model for all sequences and states.
//
// Before translation three shapes that `gobody` has no node for are rewritten into calls, so that the
// way a send is written stays visible in the term (everything else it does not know becomes `.unknown`):
//
//	select { case CH <- V: default: }        ->  trySend(CH, V)
//	select { case CH <- V: case <-D: }       ->  sendOrDone(CH, V, D)
//	CH <- V                                  ->  send(CH, V)
//	select { case <-CH: default: }           ->  tryRecv(CH)
//	<-CH  (in an expression)                 ->  recv(CH)
//	select { case <-A: B1  case x := <-C: B2 }  ->  if selectRecv(A, C) { B1 } else { x := recv(C); B2 }
//	a * b, a / b, a << b, a >> b             ->  mul(a, b), div(a, b), shl(a, b), shr(a, b)   (not both literals)
//	log.X(args…)                             ->  log.X()          (messages are not part of the behaviour)
//
// The arms of the outer switches are emitted as definitions of their own (`hs_a4`, `hs_a4_s0_a3`, …)
// so that a proof can unfold one arm at a time.
package main

import (
	"fmt"
	"go/ast"
	"go/token"
	"strings"

	"verifextract/cmd/C09/gobody"
	"verifextract/ex"
)

func call(name string, args ...ast.Expr) *ast.ExprStmt {
	return &ast.ExprStmt{X: &ast.CallExpr{Fun: ast.NewIdent(name), Args: args}}
}

func emptyBody(cc *ast.CommClause) bool { return len(cc.Body) == 0 }

// rewriteStmt returns the replacement of one statement (itself when nothing applies).
func rewriteStmt(s ast.Stmt) ast.Stmt {
	switch x := s.(type) {
	case *ast.SendStmt:
		return call("send", x.Chan, x.Value)
	case *ast.SelectStmt:
		if len(x.Body.List) != 2 {
			return s
		}
		c0, ok0 := x.Body.List[0].(*ast.CommClause)
		c1, ok1 := x.Body.List[1].(*ast.CommClause)
		if !ok0 || !ok1 {
			return s
		}
		if !emptyBody(c0) || !emptyBody(c1) {
			return rewriteSelectRecv2(s, c0, c1)
		}
		if es, ok := c0.Comm.(*ast.ExprStmt); ok && c1.Comm == nil {
			// select { case <-CH: default: }  ->  tryRecv(CH)
			if u, ok := es.X.(*ast.UnaryExpr); ok && u.Op == token.ARROW {
				return call("tryRecv", u.X)
			}
		}
		snd, ok := c0.Comm.(*ast.SendStmt)
		if !ok {
			return s
		}
		if c1.Comm == nil {
			return call("trySend", snd.Chan, snd.Value)
		}
		if es, ok := c1.Comm.(*ast.ExprStmt); ok {
			if u, ok := es.X.(*ast.UnaryExpr); ok && u.Op == token.ARROW {
				return call("sendOrDone", snd.Chan, snd.Value, u.X)
			}
		}
		return s
	case *ast.ExprStmt:
		if ce, ok := x.X.(*ast.CallExpr); ok {
			if se, ok := ce.Fun.(*ast.SelectorExpr); ok {
				if id, ok := se.X.(*ast.Ident); ok && id.Name == "log" {
					return &ast.ExprStmt{X: &ast.CallExpr{Fun: ce.Fun}}
				}
			}
		}
	}
	return s
}

// rewriteSelectRecv2: select { case <-A: B1  case x := <-C: B2 }  ->  if selectRecv(A, C) { B1 } else { x := recv(C); B2 }
// (`selectRecv` = "the first case fired": which one does is for the environment to say).
func rewriteSelectRecv2(s ast.Stmt, c0, c1 *ast.CommClause) ast.Stmt {
	es, ok := c0.Comm.(*ast.ExprStmt)
	if !ok || c1.Comm == nil {
		return s
	}
	u, ok := es.X.(*ast.UnaryExpr)
	if !ok || u.Op != token.ARROW {
		return s
	}
	as, ok := c1.Comm.(*ast.AssignStmt)
	if !ok || as.Tok != token.DEFINE || len(as.Lhs) != 1 || len(as.Rhs) != 1 {
		return s
	}
	u2, ok := as.Rhs[0].(*ast.UnaryExpr)
	if !ok || u2.Op != token.ARROW {
		return s
	}
	els := append([]ast.Stmt{&ast.AssignStmt{Lhs: as.Lhs, Tok: token.DEFINE, Rhs: []ast.Expr{&ast.CallExpr{Fun: ast.NewIdent("recv"), Args: []ast.Expr{u2.X}}}}}, c1.Body...)
	return &ast.IfStmt{
		Cond: &ast.CallExpr{Fun: ast.NewIdent("selectRecv"), Args: []ast.Expr{u.X, u2.X}},
		Body: &ast.BlockStmt{List: c0.Body},
		Else: &ast.BlockStmt{List: els},
	}
}

func rewriteList(l []ast.Stmt) {
	for i, s := range l {
		l[i] = rewriteStmt(s)
	}
}

func isLit(e ast.Expr) bool {
	switch x := e.(type) {
	case *ast.BasicLit:
		return true
	case *ast.ParenExpr:
		return isLit(x.X)
	}
	return false
}

// arithmetic operators `gobody` has no constructor for, as calls (operands not both literals)
var opCalls = map[token.Token]string{token.MUL: "mul", token.QUO: "div", token.SHL: "shl", token.SHR: "shr"}

// rwExpr rebuilds an expression with those operators turned into calls.
func rwExpr(e ast.Expr) ast.Expr {
	switch x := e.(type) {
	case *ast.BinaryExpr:
		x.X, x.Y = rwExpr(x.X), rwExpr(x.Y)
		if name, ok := opCalls[x.Op]; ok && !(isLit(x.X) && isLit(x.Y)) {
			return &ast.CallExpr{Fun: ast.NewIdent(name), Args: []ast.Expr{x.X, x.Y}}
		}
	case *ast.ParenExpr:
		x.X = rwExpr(x.X)
		if _, ok := x.X.(*ast.CallExpr); ok {
			return x.X
		}
	case *ast.UnaryExpr:
		x.X = rwExpr(x.X)
		if x.Op == token.ARROW {
			return &ast.CallExpr{Fun: ast.NewIdent("recv"), Args: []ast.Expr{x.X}}
		}
	case *ast.CallExpr:
		for i := range x.Args {
			x.Args[i] = rwExpr(x.Args[i])
		}
	case *ast.IndexExpr:
		x.X, x.Index = rwExpr(x.X), rwExpr(x.Index)
	case *ast.CompositeLit:
		for i := range x.Elts {
			x.Elts[i] = rwExpr(x.Elts[i])
		}
	case *ast.KeyValueExpr:
		x.Value = rwExpr(x.Value)
	}
	return e
}

func rwExprs(es []ast.Expr) {
	for i := range es {
		es[i] = rwExpr(es[i])
	}
}

func rewriteBody(b *ast.BlockStmt) {
	ast.Inspect(b, func(n ast.Node) bool {
		switch x := n.(type) {
		case *ast.BlockStmt:
			rewriteList(x.List)
		case *ast.CaseClause:
			rewriteList(x.Body)
			rwExprs(x.List)
		case *ast.CommClause:
			rewriteList(x.Body)
		case *ast.AssignStmt:
			rwExprs(x.Lhs)
			rwExprs(x.Rhs)
		case *ast.ExprStmt:
			x.X = rwExpr(x.X)
		case *ast.ReturnStmt:
			rwExprs(x.Results)
		case *ast.IfStmt:
			x.Cond = rwExpr(x.Cond)
		case *ast.SwitchStmt:
			if x.Tag != nil {
				x.Tag = rwExpr(x.Tag)
			}
		case *ast.RangeStmt:
			x.X = rwExpr(x.X)
		}
		return true
	})
}

type bodyGen struct {
	t    *gobody.T
	defs strings.Builder
	c    *ex.Ctx
}

func leanQ(s string) string { return ex.LeanStr(s) }

func (g *bodyGen) exprs(es []ast.Expr) string {
	if len(es) == 0 {
		return ".nil"
	}
	parts := make([]string, len(es))
	for i, e := range es {
		parts[i] = g.t.Expr(e)
	}
	return "(Es.ofList [" + strings.Join(parts, ", ") + "])"
}

// list emits `def <name> : Ss` for a statement list; the arms of switches directly in the list
// become definitions `<name>_s<k>_a<i>` (k = index of the statement, i = index of the arm), to
// `depth` levels.
func (g *bodyGen) list(name, doc string, ss []ast.Stmt, depth int) {
	parts := make([]string, len(ss))
	for k, s := range ss {
		parts[k] = "    " + g.stmt(fmt.Sprintf("%s_s%d", name, k), s, depth)
	}
	body := ".nil"
	if len(parts) > 0 {
		body = "(Ss.ofList [\n" + strings.Join(parts, ",\n") + "])"
	}
	fmt.Fprintf(&g.defs, "/-- %s -/\ndef %s : Ss :=\n  %s\n\n", doc, name, body)
}

func (g *bodyGen) stmt(name string, s ast.Stmt, depth int) string {
	if depth <= 0 {
		return g.t.Stmt(s, "    ")
	}
	switch x := s.(type) {
	case *ast.SwitchStmt:
		if x.Init != nil {
			break
		}
		arms, ok := g.arms(name, x.Body, depth, false)
		if !ok {
			break
		}
		return "(.switchS .nil " + g.t.Expr(x.Tag) + " " + arms + ")"
	case *ast.TypeSwitchStmt:
		if x.Init != nil {
			break
		}
		as, ok := x.Assign.(*ast.AssignStmt)
		if !ok || len(as.Lhs) != 1 || len(as.Rhs) != 1 {
			break
		}
		id, ok1 := as.Lhs[0].(*ast.Ident)
		ta, ok2 := as.Rhs[0].(*ast.TypeAssertExpr)
		if !ok1 || !ok2 {
			break
		}
		arms, ok := g.arms(name, x.Body, depth, true)
		if !ok {
			break
		}
		return "(.typeSwitch " + leanQ(id.Name) + " " + g.t.Expr(ta.X) + " " + arms + ")"
	}
	return g.t.Stmt(s, "    ")
}

func (g *bodyGen) arms(name string, body *ast.BlockStmt, depth int, isType bool) (string, bool) {
	var parts []string
	for i, st := range body.List {
		cc, ok := st.(*ast.CaseClause)
		if !ok {
			return "", false
		}
		lab := ".nil"
		if isType {
			var labs []string
			for _, l := range cc.List {
				labs = append(labs, "(.var "+leanQ(g.c.Src(l))+")")
			}
			if len(labs) > 0 {
				lab = "(Es.ofList [" + strings.Join(labs, ", ") + "])"
			}
		} else {
			lab = g.exprs(cc.List)
		}
		an := fmt.Sprintf("%s_a%d", name, i)
		var labSrc []string
		for _, l := range cc.List {
			labSrc = append(labSrc, g.c.Src(l))
		}
		g.list(an, "arm `case "+strings.Join(labSrc, ", ")+"` of "+name, cc.Body, depth-1)
		parts = append(parts, "      ("+lab+", "+an+")")
	}
	if len(parts) == 0 {
		return ".nil", true
	}
	return "(Cs.ofList [\n" + strings.Join(parts, ",\n") + "])", true
}

func genBody(c *ex.Ctx) {
	g := &bodyGen{t: &gobody.T{Fset: c.Fset}, c: c}
	var sb strings.Builder
	sb.WriteString("import VaxisModel.Model.GoBody\n\nnamespace VaxisModel.Gen.InputBody\nopen VaxisModel.Model.GoBody\n\n")
	for _, fn := range []struct {
		file, recv, name, lean string
		depth                  int
	}{
		{"vaxis.go", "Vaxis", "handleSequence", "hs", 2},
		{"mouse.go", "", "parseMouseEvent", "pm", 0},
		{"vaxis.go", "Vaxis", "Resize", "rz", 0},
		{"vaxis.go", "", "parseColorReply", "pr", 0},
		{"vaxis.go", "Vaxis", "QueryColor", "qc", 0},
		{"vaxis.go", "Vaxis", "QueryForeground", "qf", 0},
		{"vaxis.go", "Vaxis", "QueryBackground", "qb", 0},
		{"vaxis.go", "Vaxis", "CursorPosition", "cp", 0},
	} {
		f := c.Parse(fn.file)
		if f == nil {
			return
		}
		fd := ex.FindFunc(f, fn.recv, fn.name)
		if fd == nil || fd.Body == nil {
			fmt.Fprintf(&g.defs, "def %s : Ss := Ss.ofList [.unknown \"function %s not found\"]\n\n", fn.lean, fn.name)
			g.t.Unknown++
			continue
		}
		rewriteBody(fd.Body)
		g.list(fn.lean, fn.file+" `"+fn.name+"`", fd.Body.List, fn.depth)
	}
	sb.WriteString(g.defs.String())
	// the constants of key.go the interpreter's table (Model/InputBody.readGlobal) uses: the iota blocks
	// of EventType (`= iota`) and ModifierMask (`= 1 << iota`)
	if fk := c.Parse("key.go"); fk != nil {
		fmt.Fprintf(&sb, "/-- key.go: the `EventType` constants (iota block). -/\ndef eventTypes : List (String × Nat) := %s\n\n", iotaBlock(c, fk, "EventPress"))
		fmt.Fprintf(&sb, "/-- key.go: the `ModifierMask` constants (`1 << iota` block). -/\ndef modifierMasks : List (String × Nat) := %s\n\n", iotaBlock(c, fk, "ModShift"))
	}
	fmt.Fprintf(&sb, "/-- Number of nodes the translator could not render. -/\ndef unknownCount : Nat := %d\n\n", g.t.Unknown)
	sb.WriteString("end VaxisModel.Gen.InputBody\n")
	c.Write("InputBody.lean", sb.String())
}

// iotaBlock renders the const block whose first name is `first` and whose first value is `iota` or
// `1 << iota` as a list of (name, value); anything else gives the empty list.
func iotaBlock(c *ex.Ctx, f *ast.File, first string) string {
	for _, d := range f.Decls {
		gd, ok := d.(*ast.GenDecl)
		if !ok || gd.Tok != token.CONST || len(gd.Specs) == 0 {
			continue
		}
		vs0, ok := gd.Specs[0].(*ast.ValueSpec)
		if !ok || len(vs0.Names) != 1 || vs0.Names[0].Name != first || len(vs0.Values) != 1 {
			continue
		}
		shift := false
		switch c.Src(vs0.Values[0]) {
		case "iota":
		case "1 << iota":
			shift = true
		default:
			return "[]"
		}
		var parts []string
		for i, sp := range gd.Specs {
			vs, ok := sp.(*ast.ValueSpec)
			if !ok || len(vs.Names) != 1 || (i > 0 && len(vs.Values) != 0) {
				return "[]"
			}
			v := i
			if shift {
				v = 1 << uint(i)
			}
			parts = append(parts, fmt.Sprintf("(%s, %d)", ex.LeanStr(vs.Names[0].Name), v))
		}
		return "[" + strings.Join(parts, ", ") + "]"
	}
	return "[]"
}
