// Extractor for C03 (input loop): Gen/Caps.lean.
//
// Facts extracted (shape-fixed, fail-closed):
//   - the field list of `capabilities`;
//   - New(): which internal event type sets which capability field (the start-up collection loop);
//   - handleSequence: every switch (tag source, case labels), every HasPrefix/HasSuffix literal,
//     every index expression, every channel send with its kind (bare / select+default /
//     select+timeout), every PostEvent/PostEventBlocking call with its argument;
//   - parseMouseEvent: the operator of the first guard, index expressions, bit-mask constants;
//   - channel capacities in New() and the default event-queue size;
//   - CursorPosition(): its top-level statements (drain, flag, query, timer, select).
package main

import (
	"fmt"
	"go/ast"
	"go/token"
	"strconv"
	"strings"
	"verifextract/ex"
)

func main() { ex.Main([]string{"Caps.lean", "InputBody.lean"}, gen) }

func strList(xs []string) string {
	var q []string
	for _, x := range xs {
		q = append(q, ex.LeanStr(x))
	}
	return "[" + strings.Join(q, ", ") + "]"
}

func gen(c *ex.Ctx) {
	f := c.Parse("vaxis.go")
	fm := c.Parse("mouse.go")
	fs := c.Parse("sequences.go")
	if f == nil || fm == nil || fs == nil {
		return
	}
	var sb strings.Builder
	sb.WriteString("namespace VaxisModel.Gen.Caps\n\n")

	// 1. capabilities fields
	var fields []string
	for _, d := range f.Decls {
		gd, ok := d.(*ast.GenDecl)
		if !ok {
			continue
		}
		for _, s := range gd.Specs {
			ts, ok := s.(*ast.TypeSpec)
			if !ok || ts.Name.Name != "capabilities" {
				continue
			}
			st, ok := ts.Type.(*ast.StructType)
			if !ok {
				c.Fail("capabilities is not a struct")
				return
			}
			for _, fl := range st.Fields.List {
				if c.Src(fl.Type) != "bool" {
					c.Fail("%s: capabilities field is not bool", c.Pos(fl))
					return
				}
				for _, n := range fl.Names {
					fields = append(fields, n.Name)
				}
			}
		}
	}
	if len(fields) == 0 {
		c.Fail("vaxis.go: type capabilities not found")
		return
	}
	fmt.Fprintf(&sb, "/-- Fields of `capabilities` in declaration order. -/\ndef capFields : List String := %s\n\n", strList(fields))

	// 2. New(): collection loop
	fn := ex.FindFunc(f, "", "New")
	if fn == nil {
		c.Fail("vaxis.go: New not found")
		return
	}
	var ts *ast.TypeSwitchStmt
	ast.Inspect(fn.Body, func(n ast.Node) bool {
		if t, ok := n.(*ast.TypeSwitchStmt); ok && ts == nil {
			ts = t
			return false
		}
		return true
	})
	if ts == nil {
		c.Fail("New: type switch over queue events not found")
		return
	}
	sb.WriteString("/-- New(): start-up collection loop. (event type, capability fields set to true, other statements). -/\n")
	sb.WriteString("def collect : List (String × List String × List String) := [\n")
	for i, cl := range ts.Body.List {
		cc := cl.(*ast.CaseClause)
		var tys []string
		for _, e := range cc.List {
			tys = append(tys, c.Src(e))
		}
		var caps, other []string
		for _, st := range cc.Body {
			ast.Inspect(st, func(n ast.Node) bool {
				switch n := n.(type) {
				case *ast.AssignStmt:
					l := c.Src(n.Lhs[0])
					r := c.Src(n.Rhs[0])
					if strings.HasPrefix(l, "vx.caps.") && r == "true" && n.Tok == token.ASSIGN {
						caps = append(caps, strings.TrimPrefix(l, "vx.caps."))
					} else {
						other = append(other, l+" "+n.Tok.String()+" "+r)
					}
				case *ast.BranchStmt:
					other = append(other, n.Tok.String()+labelOf(n))
				case *ast.IfStmt:
					other = append(other, "if "+c.Src(n.Cond))
				}
				return true
			})
		}
		sep := ","
		if i == len(ts.Body.List)-1 {
			sep = ""
		}
		fmt.Fprintf(&sb, "  (%s, %s, %s)%s\n", ex.LeanStr(strings.Join(tys, ",")), strList(caps), strList(other), sep)
	}
	sb.WriteString("]\n\n")

	// channel capacities
	sb.WriteString("/-- Channels made in New(): (field, capacity expression; \"0\" = unbuffered). -/\ndef chanCaps : List (String × String) := [")
	first := true
	ast.Inspect(fn.Body, func(n ast.Node) bool {
		as, ok := n.(*ast.AssignStmt)
		if !ok || len(as.Lhs) != 1 || len(as.Rhs) != 1 {
			return true
		}
		call, ok := as.Rhs[0].(*ast.CallExpr)
		if !ok || c.Src(call.Fun) != "make" || len(call.Args) < 1 {
			return true
		}
		if _, ok := call.Args[0].(*ast.ChanType); !ok {
			return true
		}
		capx := "0"
		if len(call.Args) > 1 {
			capx = c.Src(call.Args[1])
		}
		if !first {
			sb.WriteString(", ")
		}
		first = false
		fmt.Fprintf(&sb, "(%s, %s)", ex.LeanStr(strings.TrimPrefix(c.Src(as.Lhs[0]), "vx.")), ex.LeanStr(capx))
		return true
	})
	sb.WriteString("]\n\n")
	// default queue size
	qs := ""
	ast.Inspect(fn.Body, func(n ast.Node) bool {
		as, ok := n.(*ast.AssignStmt)
		if ok && len(as.Lhs) == 1 && c.Src(as.Lhs[0]) == "opts.EventQueueSize" {
			qs = c.Src(as.Rhs[0])
		}
		return true
	})
	if _, err := strconv.Atoi(qs); err != nil {
		c.Fail("New: default EventQueueSize literal not found")
		return
	}
	fmt.Fprintf(&sb, "def defaultQueueSize : Nat := %s\n\n", qs)
	// the guard under which the default is installed, and the capacity expression of the queue
	qguard, qcapx := "", ""
	ast.Inspect(fn.Body, func(n ast.Node) bool {
		switch x := n.(type) {
		case *ast.IfStmt:
			for _, st := range x.Body.List {
				if as, ok := st.(*ast.AssignStmt); ok && len(as.Lhs) == 1 && c.Src(as.Lhs[0]) == "opts.EventQueueSize" && x.Else == nil && x.Init == nil {
					qguard = c.Src(x.Cond)
				}
			}
		case *ast.AssignStmt:
			if len(x.Lhs) == 1 && len(x.Rhs) == 1 && c.Src(x.Lhs[0]) == "vx.queue" {
				if call, ok := x.Rhs[0].(*ast.CallExpr); ok && c.Src(call.Fun) == "make" && len(call.Args) == 2 {
					qcapx = c.Src(call.Args[1])
				}
			}
		}
		return true
	})
	fmt.Fprintf(&sb, "/-- New(): condition of the `if` that installs the default queue size; capacity expression of `vx.queue` (\"\" = not recognised). -/\ndef queueSizeGuard : String := %s\ndef queueCapExpr : String := %s\n\n", ex.LeanStr(qguard), ex.LeanStr(qcapx))

	// 3. handleSequence skeleton
	hs := ex.FindFunc(f, "Vaxis", "handleSequence")
	if hs == nil {
		c.Fail("vaxis.go: handleSequence not found")
		return
	}
	skeleton(c, &sb, "hs", hs)

	// 4. parseMouseEvent
	pm := ex.FindFunc(fm, "", "parseMouseEvent")
	if pm == nil {
		c.Fail("mouse.go: parseMouseEvent not found")
		return
	}
	skeleton(c, &sb, "pm", pm)
	var guard *ast.IfStmt
	for _, st := range pm.Body.List {
		if is, ok := st.(*ast.IfStmt); ok {
			guard = is
			break
		}
	}
	if guard == nil {
		c.Fail("parseMouseEvent: no guard")
		return
	}
	be, ok := guard.Cond.(*ast.BinaryExpr)
	if !ok || (be.Op != token.LAND && be.Op != token.LOR) {
		c.Fail("%s: parseMouseEvent guard is not `a && b` / `a || b`", c.Pos(guard))
		return
	}
	fmt.Fprintf(&sb, "/-- First guard of parseMouseEvent: `%s`. -/\ndef mouseGuardLhs : String := %s\ndef mouseGuardRhs : String := %s\ndef mouseGuardIsOr : Bool := %v\n\n",
		c.Src(guard.Cond), ex.LeanStr(c.Src(be.X)), ex.LeanStr(c.Src(be.Y)), be.Op == token.LOR)
	for _, nm := range []string{"motion", "buttonBits", "mouseModShift", "mouseModAlt", "mouseModCtrl"} {
		v := ex.FindVarValue(fm, nm)
		bl, ok := v.(*ast.BasicLit)
		if !ok {
			c.Fail("mouse.go: const %s is not a literal", nm)
			return
		}
		n, err := strconv.ParseInt(bl.Value, 0, 64)
		if err != nil {
			c.Fail("mouse.go: const %s: %v", nm, err)
			return
		}
		fmt.Fprintf(&sb, "def %s : Nat := %d\n", nm, n)
	}
	v := ex.FindVarValue(fs, "colorThemeResp")
	if bl, ok := v.(*ast.BasicLit); ok {
		fmt.Fprintf(&sb, "def colorThemeResp : Int := %s\n", bl.Value)
	} else {
		c.Fail("sequences.go: colorThemeResp not a literal")
		return
	}
	// 5. CursorPosition: the requester side of the chCursorPos hand-off, statement by statement
	cp := ex.FindFunc(f, "Vaxis", "CursorPosition")
	if cp == nil {
		c.Fail("vaxis.go: CursorPosition not found")
		return
	}
	var cps []string
	for _, st := range cp.Body.List {
		cps = append(cps, ex.LeanStr(oneLine(c.Src(st))))
	}
	fmt.Fprintf(&sb, "\n/-- CursorPosition(): top-level statements in source order. -/\ndef cp_stmts : List String := [\n  %s\n]\n", strings.Join(cps, ",\n  "))
	// the exits of CursorPosition: each arm of its final select with the statements it runs
	var arms []string
	if n := len(cp.Body.List); n > 0 {
		if sel, ok := cp.Body.List[n-1].(*ast.SelectStmt); ok {
			for _, cl := range sel.Body.List {
				cc := cl.(*ast.CommClause)
				comm := "default"
				if cc.Comm != nil {
					comm = oneLine(c.Src(cc.Comm))
				}
				var body []string
				for _, st := range cc.Body {
					body = append(body, oneLine(c.Src(st)))
				}
				arms = append(arms, fmt.Sprintf("(%s, %s)", ex.LeanStr(comm), strList(body)))
			}
		}
	}
	fmt.Fprintf(&sb, "\n/-- CursorPosition(): the arms of its final select (communication, statements). Empty if the last statement is not a select. -/\ndef cp_select : List (String × List String) := [\n  %s\n]\n", strings.Join(arms, ",\n  "))
	// 6. every access of the cursor-position request flag in vaxis.go: (function, call as written)
	var flagOps []string
	for _, d := range f.Decls {
		fd, ok := d.(*ast.FuncDecl)
		if !ok || fd.Body == nil {
			continue
		}
		ast.Inspect(fd.Body, func(n ast.Node) bool {
			ce, ok := n.(*ast.CallExpr)
			if !ok {
				return true
			}
			for _, a := range ce.Args {
				if oneLine(c.Src(a)) == "&vx.reqCursorPos" {
					flagOps = append(flagOps, fmt.Sprintf("(%s, %s)", ex.LeanStr(fd.Name.Name), ex.LeanStr(oneLine(c.Src(ce)))))
				}
			}
			return true
		})
	}
	fmt.Fprintf(&sb, "\n/-- Every call that takes the address of vx.reqCursorPos, in source order: (function, call). -/\ndef reqFlagOps : List (String × String) := [\n  %s\n]\n", strings.Join(flagOps, ",\n  "))
	// the condition of the `if` that guards the cursor-position arm of handleSequence (case 'R')
	cprCond := ""
	ast.Inspect(hs.Body, func(n ast.Node) bool {
		cc, ok := n.(*ast.CaseClause)
		if !ok || len(cc.List) != 1 || c.Src(cc.List[0]) != "'R'" {
			return true
		}
		for _, st := range cc.Body {
			if is, ok := st.(*ast.IfStmt); ok && cprCond == "" {
				cprCond = oneLine(c.Src(is.Cond))
			}
		}
		return false
	})
	fmt.Fprintf(&sb, "\n/-- Condition of the first `if` of the `case 'R'` arm of handleSequence (\"\" = not recognised). -/\ndef cprCond : String := %s\n", ex.LeanStr(cprCond))
	// 7. the colour requesters: top-level statements of QueryColor / QueryForeground / QueryBackground
	// and the parser of the reply they share (since the F303 repair)
	for _, q := range [][3]string{{"QueryColor", "qc_stmts", "Vaxis"}, {"QueryForeground", "qf_stmts", "Vaxis"}, {"QueryBackground", "qb_stmts", "Vaxis"},
		{"parseColorReply", "pr_stmts", ""}} {
		fd := ex.FindFunc(f, q[2], q[0])
		var sts []string
		if fd != nil && fd.Body != nil {
			for _, st := range fd.Body.List {
				sts = append(sts, ex.LeanStr(oneLine(c.Src(st))))
			}
		}
		fmt.Fprintf(&sb, "\n/-- %s(): top-level statements in source order (empty = function not found). -/\ndef %s : List String := [\n  %s\n]\n", q[0], q[1], strings.Join(sts, ",\n  "))
	}
	sb.WriteString("\nend VaxisModel.Gen.Caps\n")
	c.Write("Caps.lean", sb.String())
	genBody(c)
}

func labelOf(b *ast.BranchStmt) string {
	if b.Label != nil {
		return " " + b.Label.Name
	}
	return ""
}

// skeleton writes, for one function: switches, string-literal tests, index expressions,
// channel sends (with kind) and post calls, each in source order.
func skeleton(c *ex.Ctx, sb *strings.Builder, pfx string, fd *ast.FuncDecl) {
	var switches, lits, idx, sends, posts, lens []string
	// parents of send statements: select clauses
	sendKind := map[*ast.SendStmt]string{}
	ast.Inspect(fd.Body, func(n ast.Node) bool {
		sel, ok := n.(*ast.SelectStmt)
		if !ok {
			return true
		}
		hasDefault := false
		for _, cl := range sel.Body.List {
			if cl.(*ast.CommClause).Comm == nil {
				hasDefault = true
			}
		}
		for _, cl := range sel.Body.List {
			if s, ok := cl.(*ast.CommClause).Comm.(*ast.SendStmt); ok {
				if hasDefault {
					sendKind[s] = "nonblocking"
				} else if len(sel.Body.List) > 1 {
					sendKind[s] = "timeout"
				} else {
					sendKind[s] = "blocking"
				}
			}
		}
		return true
	})
	inIndex := map[ast.Node]bool{}
	ast.Inspect(fd.Body, func(n ast.Node) bool {
		switch n := n.(type) {
		case *ast.SwitchStmt:
			tag := "true"
			if n.Tag != nil {
				tag = c.Src(n.Tag)
			}
			var labels []string
			for _, cl := range n.Body.List {
				cc := cl.(*ast.CaseClause)
				if cc.List == nil {
					labels = append(labels, "default")
				}
				for _, e := range cc.List {
					labels = append(labels, c.Src(e))
				}
			}
			switches = append(switches, fmt.Sprintf("(%s, %s)", ex.LeanStr(tag), strList(labels)))
		case *ast.TypeSwitchStmt:
			var labels []string
			for _, cl := range n.Body.List {
				cc := cl.(*ast.CaseClause)
				for _, e := range cc.List {
					labels = append(labels, c.Src(e))
				}
			}
			switches = append(switches, fmt.Sprintf("(%s, %s)", ex.LeanStr("type"), strList(labels)))
		case *ast.CallExpr:
			fn := c.Src(n.Fun)
			switch fn {
			case "strings.HasPrefix", "strings.HasSuffix", "strings.Split", "hexEncode":
				if len(n.Args) > 0 {
					if bl, ok := n.Args[len(n.Args)-1].(*ast.BasicLit); ok && bl.Kind == token.STRING {
						s, _ := strconv.Unquote(bl.Value)
						lits = append(lits, fmt.Sprintf("(%s, %s)", ex.LeanStr(fn), ex.LeanStr(s)))
					}
				}
			case "vx.PostEventBlocking", "vx.PostEvent":
				posts = append(posts, fmt.Sprintf("(%s, %s)", ex.LeanStr(strings.TrimPrefix(fn, "vx.")), ex.LeanStr(oneLine(c.Src(n.Args[0])))))
			case "vx.Resize", "vx.Close":
				posts = append(posts, fmt.Sprintf("(%s, %s)", ex.LeanStr(strings.TrimPrefix(fn, "vx.")), ex.LeanStr("")))
			case "len":
				lens = append(lens, c.Src(n))
			}
		case *ast.IndexExpr:
			if !inIndex[n] {
				idx = append(idx, c.Src(n))
			}
			if in, ok := n.X.(*ast.IndexExpr); ok {
				inIndex[in] = true
			}
		case *ast.SendStmt:
			k := sendKind[n]
			if k == "" {
				k = "blocking"
			}
			sends = append(sends, fmt.Sprintf("(%s, %s)", ex.LeanStr(strings.TrimPrefix(c.Src(n.Chan), "vx.")), ex.LeanStr(k)))
		}
		return true
	})
	w := func(name, ty string, xs []string) {
		fmt.Fprintf(sb, "def %s_%s : List %s := [\n  %s\n]\n\n", pfx, name, ty, strings.Join(xs, ",\n  "))
	}
	w("switches", "(String × List String)", switches)
	w("literals", "(String × String)", lits)
	var q []string
	for _, x := range idx {
		q = append(q, ex.LeanStr(x))
	}
	w("indexExprs", "String", q)
	w("sends", "(String × String)", sends)
	w("posts", "(String × String)", posts)
}

func oneLine(s string) string {
	return strings.Join(strings.Fields(s), " ")
}
