// Extractor for C04/C07: Gen/Modes.lean — the start-up / shutdown functions of vaxis.go as ordered
// lists of guarded writes (enableModes, disableModes, enterAltScreen, exitAltScreen, sendQueries,
// Suspend, Resume, Close), with mode numbers and escape strings resolved from sequences.go.
// Fails closed on statement shapes it does not know.
package main

import (
	"fmt"
	"go/ast"
	"go/token"
	"os"
	"sort"
	"strconv"
	"strings"

	"verifextract/ex"
)

func main() { ex.Main([]string{"Modes.lean"}, gen) }

var consts = map[string]string{} // name -> string value (sequences.go)
var nums = map[string]int{}      // name -> int value (mode numbers)

func loadConsts(c *ex.Ctx, f *ast.File) {
	for _, d := range f.Decls {
		gd, ok := d.(*ast.GenDecl)
		if !ok || (gd.Tok != token.CONST && gd.Tok != token.VAR) {
			continue
		}
		for _, s := range gd.Specs {
			vs := s.(*ast.ValueSpec)
			for i, n := range vs.Names {
				if i >= len(vs.Values) {
					continue
				}
				bl, ok := vs.Values[i].(*ast.BasicLit)
				if !ok {
					continue
				}
				switch bl.Kind {
				case token.STRING:
					v, err := strconv.Unquote(bl.Value)
					if err == nil {
						consts[n.Name] = v
					}
				case token.INT:
					v, err := strconv.Atoi(bl.Value)
					if err == nil {
						nums[n.Name] = v
					}
				}
			}
		}
	}
}

func guard(c *ex.Ctx, e ast.Expr) string {
	switch e := e.(type) {
	case *ast.ParenExpr:
		return guard(c, e.X)
	case *ast.UnaryExpr:
		if e.Op == token.NOT {
			return "(.not " + guard(c, e.X) + ")"
		}
	case *ast.BinaryExpr:
		if e.Op == token.LAND {
			return "(.and " + guard(c, e.X) + " " + guard(c, e.Y) + ")"
		}
		if e.Op == token.LOR {
			return "(.or " + guard(c, e.X) + " " + guard(c, e.Y) + ")"
		}
	case *ast.SelectorExpr:
		src := c.Src(e)
		if strings.HasPrefix(src, "vx.caps.") {
			return "(.v " + ex.LeanStr("caps."+strings.TrimPrefix(src, "vx.caps.")) + ")"
		}
		if strings.HasPrefix(src, "vx.") || strings.HasPrefix(src, "opts.") {
			return "(.v " + ex.LeanStr(strings.TrimPrefix(src, "vx.")) + ")"
		}
	}
	return "(.v " + ex.LeanStr("expr:"+c.Src(e)) + ")"
}

func modeNum(c *ex.Ctx, e ast.Expr) (int, bool) {
	switch e := e.(type) {
	case *ast.Ident:
		n, ok := nums[e.Name]
		return n, ok
	case *ast.BasicLit:
		n, err := strconv.Atoi(e.Value)
		return n, err == nil
	}
	return 0, false
}

func written(c *ex.Ctx, e ast.Expr) string {
	switch e := e.(type) {
	case *ast.Ident:
		if v, ok := consts[e.Name]; ok {
			return fmt.Sprintf("(.lit %s %s)", ex.LeanStr(e.Name), ex.LeanStr(v))
		}
	case *ast.BasicLit:
		if e.Kind == token.STRING {
			v, _ := strconv.Unquote(e.Value)
			return fmt.Sprintf("(.raw %s)", ex.LeanStr(v))
		}
	case *ast.CallExpr:
		fn := c.Src(e.Fun)
		switch fn {
		case "decset", "decrst", "decrqm":
			if len(e.Args) == 1 {
				if n, ok := modeNum(c, e.Args[0]); ok {
					return fmt.Sprintf("(.%s %d)", fn, n)
				}
			}
		case "tparm":
			if id, ok := e.Args[0].(*ast.Ident); ok {
				if v, ok := consts[id.Name]; ok {
					var args []string
					for _, a := range e.Args[1:] {
						if n, ok := modeNum(c, a); ok {
							args = append(args, ex.LeanStr(strconv.Itoa(n)))
						} else {
							args = append(args, ex.LeanStr(c.Src(a)))
						}
					}
					return fmt.Sprintf("(.tparm %s %s [%s])", ex.LeanStr(id.Name), ex.LeanStr(v), strings.Join(args, ", "))
				}
			}
		case "xtgettcap":
			if bl, ok := e.Args[0].(*ast.BasicLit); ok {
				v, _ := strconv.Unquote(bl.Value)
				return fmt.Sprintf("(.xtgettcap %s)", ex.LeanStr(v))
			}
		case "vx.cursorStyle", "vx.showCursor":
			return fmt.Sprintf("(.fn %s)", ex.LeanStr(strings.TrimPrefix(fn, "vx.")))
		}
	}
	c.Fail("%s: cannot express written value %s", c.Pos(e), c.Src(e))
	return "(.raw \"\")"
}

func stmts(c *ex.Ctx, list []ast.Stmt, g string, out *[]string) {
	for _, s := range list {
		switch s := s.(type) {
		case *ast.IfStmt:
			if s.Init != nil || s.Else != nil {
				*out = append(*out, fmt.Sprintf(".other %s %s", g, ex.LeanStr(firstLine(c.Src(s)))))
				continue
			}
			g2 := guard(c, s.Cond)
			if g != ".tt" {
				g2 = "(.and " + g + " " + g2 + ")"
			}
			stmts(c, s.Body.List, g2, out)
		case *ast.DeferStmt:
			if isVerifHook(c, s.Call) {
				continue
			}
			*out = append(*out, fmt.Sprintf(".deferCall %s", ex.LeanStr(strings.TrimSuffix(strings.TrimPrefix(c.Src(s.Call), "vx."), "()"))))
		case *ast.ExprStmt:
			if isVerifHook(c, s.X) {
				continue
			}
			call(c, s.X, g, out)
		case *ast.AssignStmt:
			if len(s.Rhs) == 1 {
				if _, ok := s.Rhs[0].(*ast.CallExpr); ok && allBlank(s.Lhs) {
					call(c, s.Rhs[0], g, out)
					continue
				}
			}
			*out = append(*out, fmt.Sprintf(".other %s %s", g, ex.LeanStr(firstLine(c.Src(s)))))
		default:
			*out = append(*out, fmt.Sprintf(".other %s %s", g, ex.LeanStr(firstLine(c.Src(s)))))
		}
	}
}

// isVerifHook: a call of a package-level function whose name starts with "verif" — the yield/fault points of the
// verification hooks (empty functions without the `verif` build tag); they are not part of the library's behaviour.
func isVerifHook(c *ex.Ctx, e ast.Expr) bool {
	ce, ok := e.(*ast.CallExpr)
	if !ok {
		return false
	}
	id, ok := ce.Fun.(*ast.Ident)
	return ok && strings.HasPrefix(id.Name, "verif")
}

func allBlank(l []ast.Expr) bool {
	for _, e := range l {
		if id, ok := e.(*ast.Ident); !ok || id.Name != "_" {
			return false
		}
	}
	return true
}

func firstLine(s string) string {
	if i := strings.IndexByte(s, '\n'); i >= 0 {
		return s[:i] + " …"
	}
	return s
}

func call(c *ex.Ctx, e ast.Expr, g string, out *[]string) {
	ce, ok := e.(*ast.CallExpr)
	if !ok {
		*out = append(*out, fmt.Sprintf(".other %s %s", g, ex.LeanStr(c.Src(e))))
		return
	}
	fn := c.Src(ce.Fun)
	switch {
	case fn == "vx.tw.WriteString" && len(ce.Args) == 1:
		*out = append(*out, fmt.Sprintf(".write %s %s", g, written(c, ce.Args[0])))
	case fn == "fmt.Fprintf" && len(ce.Args) >= 2 && c.Src(ce.Args[0]) == "vx.tw":
		if id, ok := ce.Args[1].(*ast.Ident); ok {
			if v, ok := consts[id.Name]; ok {
				var args []string
				for _, a := range ce.Args[2:] {
					args = append(args, ex.LeanStr(c.Src(a)))
				}
				*out = append(*out, fmt.Sprintf(".writeF %s (.tparm %s %s [%s])", g, ex.LeanStr(id.Name), ex.LeanStr(v), strings.Join(args, ", ")))
				return
			}
		}
		c.Fail("%s: cannot express Fprintf %s", c.Pos(ce), c.Src(ce))
	case (fn == "vx.tw.Flush" || fn == "vx.tw.vx.tw.Flush") && len(ce.Args) == 0:
		*out = append(*out, fmt.Sprintf(".flush %s", g))
	case fn == "io.WriteString" && len(ce.Args) == 2 && c.Src(ce.Args[0]) == "vx.console":
		*out = append(*out, fmt.Sprintf(".direct %s %s", g, written(c, ce.Args[1])))
	case strings.HasPrefix(fn, "vx.") && len(ce.Args) == 0:
		*out = append(*out, fmt.Sprintf(".call %s %s", g, ex.LeanStr(strings.TrimPrefix(fn, "vx."))))
	default:
		*out = append(*out, fmt.Sprintf(".other %s %s", g, ex.LeanStr(firstLine(c.Src(ce)))))
	}
}

func gen(c *ex.Ctx) {
	seq := c.Parse("sequences.go")
	vx := c.Parse("vaxis.go")
	if seq == nil || vx == nil {
		return
	}
	loadConsts(c, seq)
	loadConsts(c, vx)
	var sb strings.Builder
	sb.WriteString(`namespace VaxisModel.Gen.Modes

/-- Guard of a statement: a boolean expression over capability flags / options. -/
inductive G where
  | tt
  | v (name : String)
  | not (g : G)
  | and (a b : G)
  | or (a b : G)
  deriving Repr, DecidableEq, Inhabited

/-- The value written. -/
inductive W where
  | lit (name bytes : String)
  | raw (bytes : String)
  | decset (n : Nat)
  | decrst (n : Nat)
  | decrqm (n : Nat)
  | tparm (name fmt : String) (args : List String)
  | xtgettcap (cap : String)
  | fn (name : String)
  deriving Repr, DecidableEq, Inhabited

/-- One statement of a start-up / shutdown function. -/
inductive S where
  | write (g : G) (w : W)        -- vx.tw.WriteString (buffered; prologue of WriteString)
  | writeF (g : G) (w : W)       -- fmt.Fprintf(vx.tw, …)   (buffered; prologue of Write)
  | direct (g : G) (w : W)       -- io.WriteString(vx.console, …)
  | flush (g : G)
  | call (g : G) (f : String)
  | deferCall (f : String)
  | other (g : G) (src : String)
  deriving Repr, DecidableEq, Inhabited

`)
	for _, fn := range []string{"sendQueries", "enableModes", "disableModes", "enterAltScreen", "exitAltScreen", "Suspend", "Resume", "Close"} {
		fd := ex.FindFunc(vx, "Vaxis", fn)
		if fd == nil {
			c.Fail("vaxis.go: func (vx *Vaxis) %s not found", fn)
			continue
		}
		var out []string
		stmts(c, fd.Body.List, ".tt", &out)
		name := strings.ToLower(fn[:1]) + fn[1:]
		fmt.Fprintf(&sb, "def %s : List S := [\n", name)
		for i, o := range out {
			sep := ","
			if i == len(out)-1 {
				sep = ""
			}
			fmt.Fprintf(&sb, "  %s%s\n", o, sep)
		}
		sb.WriteString("]\n\n")
	}
	inputLoop(c, vx, &sb)
	savedWrites(c, &sb)
	startupSkeleton(c, vx, &sb)
	killSignals(c, &sb)
	sb.WriteString("end VaxisModel.Gen.Modes\n")
	c.Write("Modes.lean", sb.String())
}

// savedWrites lists every site in the package (non-test, non-verif files of the repository root) that
// writes one of the "saved original value" fields which shutdown formats into restore sequences:
// vx.appIDLast, vx.userCursorStyle, vx.kittyFlags, vx.mouseShapeLast. Assignments, compound
// assignments, ++/-- and composite-literal keys are all reported as (field, function, statement).
func savedWrites(c *ex.Ctx, sb *strings.Builder) {
	fields := map[string]bool{"appIDLast": true, "userCursorStyle": true, "kittyFlags": true}
	ents, err := os.ReadDir(c.Repo)
	if err != nil {
		c.Fail("read %s: %v", c.Repo, err)
		return
	}
	var names []string
	for _, e := range ents {
		n := e.Name()
		if e.IsDir() || !strings.HasSuffix(n, ".go") || strings.HasSuffix(n, "_test.go") || strings.HasPrefix(n, "verif_") {
			continue
		}
		names = append(names, n)
	}
	sort.Strings(names)
	var rows []string
	for _, n := range names {
		f := c.Parse(n)
		if f == nil || f.Name.Name != "vaxis" {
			continue
		}
		for _, d := range f.Decls {
			fd, ok := d.(*ast.FuncDecl)
			if !ok || fd.Body == nil {
				continue
			}
			add := func(field string, st ast.Node) {
				rows = append(rows, fmt.Sprintf("(%s, %s, %s)", ex.LeanStr(field), ex.LeanStr(fd.Name.Name), ex.LeanStr(firstLine(c.Src(st)))))
			}
			sel := func(e ast.Expr) string {
				if se, ok := e.(*ast.SelectorExpr); ok && fields[se.Sel.Name] {
					return se.Sel.Name
				}
				return ""
			}
			ast.Inspect(fd.Body, func(nd ast.Node) bool {
				switch st := nd.(type) {
				case *ast.AssignStmt:
					for _, l := range st.Lhs {
						if fn := sel(l); fn != "" {
							add(fn, st)
						}
					}
				case *ast.IncDecStmt:
					if fn := sel(st.X); fn != "" {
						add(fn, st)
					}
				case *ast.KeyValueExpr:
					if id, ok := st.Key.(*ast.Ident); ok && fields[id.Name] {
						add(id.Name, st)
					}
				case *ast.UnaryExpr:
					if st.Op == token.AND {
						if fn := sel(st.X); fn != "" {
							add(fn, st) // address taken: could be written through the pointer
						}
					}
				}
				return true
			})
		}
	}
	sb.WriteString("/-- Every site that writes a saved original value (field, enclosing function, statement). -/\ndef savedValueWrites : List (String × String × String) := [\n")
	for i, r := range rows {
		sep := ","
		if i == len(rows)-1 {
			sep = ""
		}
		fmt.Fprintf(sb, "  %s%s\n", r, sep)
	}
	sb.WriteString("]\n\n")
}

// startupSkeleton: the order in which `New` calls the lifecycle functions, whether openTty installs a new
// writer, and how newWriter creates its buffer (the model's `fresh` flag stands for the 8192 NUL bytes
// the buffer is created with). Missing pieces degrade to "unknown".
// killSignals (round 4): which signals setupSignals (vaxis_unix.go) routes to chSigKill — the kill arm of the
// input goroutine — and under which condition: the statements of setupSignals up to that signal.Notify call
// that can keep it from being reached (an enclosing `if`, an earlier `return`).  Missing → "unknown".
func killSignals(c *ex.Ctx, sb *strings.Builder) {
	sigs := []string{ex.LeanStr("unknown")}
	guard := "unknown"
	if f := c.Parse("vaxis_unix.go"); f != nil {
		if fd := ex.FindFunc(f, "Vaxis", "setupSignals"); fd != nil {
			var conds []string
			found := false
			var walk func(l []ast.Stmt, enclosing []string)
			walk = func(l []ast.Stmt, enclosing []string) {
				for _, st := range l {
					if found {
						return
					}
					switch x := st.(type) {
					case *ast.ReturnStmt:
						conds = append(conds, "return-before["+strings.Join(enclosing, " && ")+"]")
					case *ast.IfStmt:
						walk(x.Body.List, append(append([]string{}, enclosing...), c.Src(x.Cond)))
						if x.Else != nil {
							if b, ok := x.Else.(*ast.BlockStmt); ok {
								walk(b.List, append(append([]string{}, enclosing...), "!("+c.Src(x.Cond)+")"))
							}
						}
					case *ast.ExprStmt:
						if ce, ok := x.X.(*ast.CallExpr); ok && c.Src(ce.Fun) == "signal.Notify" && len(ce.Args) >= 1 && c.Src(ce.Args[0]) == "vx.chSigKill" {
							found = true
							sigs = nil
							for _, a := range ce.Args[1:] {
								sigs = append(sigs, ex.LeanStr(c.Src(a)))
							}
							conds = append(conds, enclosing...)
						}
					}
				}
			}
			walk(fd.Body.List, nil)
			if found {
				guard = strings.Join(conds, " ; ")
			}
		}
	}
	fmt.Fprintf(sb, "/-- The signals `setupSignals` routes to `chSigKill` (the kill arm of the input goroutine), in source order. -/\ndef killSignals : List String := [%s]\n\n", strings.Join(sigs, ", "))
	fmt.Fprintf(sb, "/-- What can keep that `signal.Notify` from being reached: enclosing conditions and earlier returns (\"\" = unconditional). -/\ndef killNotifyGuard : String := %s\n\n", ex.LeanStr(guard))
}

func startupSkeleton(c *ex.Ctx, vx *ast.File, sb *strings.Builder) {
	life := map[string]bool{"openTty": true, "sendQueries": true, "enterAltScreen": true, "exitAltScreen": true,
		"enableModes": true, "disableModes": true, "Suspend": true, "Resume": true, "Close": true}
	var calls []string
	if fd := ex.FindFunc(vx, "", "New"); fd != nil {
		ast.Inspect(fd.Body, func(n ast.Node) bool {
			if ce, ok := n.(*ast.CallExpr); ok {
				if se, ok := ce.Fun.(*ast.SelectorExpr); ok && c.Src(se.X) == "vx" && life[se.Sel.Name] {
					calls = append(calls, ex.LeanStr(se.Sel.Name))
				}
			}
			return true
		})
	}
	installs := false
	if fd := ex.FindFunc(vx, "Vaxis", "openTty"); fd != nil {
		ast.Inspect(fd.Body, func(n ast.Node) bool {
			if as, ok := n.(*ast.AssignStmt); ok && len(as.Lhs) == 1 && len(as.Rhs) == 1 &&
				c.Src(as.Lhs[0]) == "vx.tw" && c.Src(as.Rhs[0]) == "newWriter(vx)" {
				installs = true
			}
			return true
		})
	}
	buf := "unknown"
	if w := c.Parse("writer.go"); w != nil {
		if fd := ex.FindFunc(w, "", "newWriter"); fd != nil {
			ast.Inspect(fd.Body, func(n ast.Node) bool {
				if kv, ok := n.(*ast.KeyValueExpr); ok && c.Src(kv.Key) == "buf" {
					buf = c.Src(kv.Value)
				}
				return true
			})
		}
	}
	// round 4: the same with the error exits of New in place: "err:<call whose error is tested>:<lifecycle calls made
	// before the return, comma separated>".  newCalls (above) lists only the calls outside such blocks.
	var seq []string
	if fd := ex.FindFunc(vx, "", "New"); fd != nil {
		lifeCallsIn := func(n ast.Node) []string {
			var out []string
			ast.Inspect(n, func(m ast.Node) bool {
				if ce, ok := m.(*ast.CallExpr); ok {
					if se, ok := ce.Fun.(*ast.SelectorExpr); ok && c.Src(se.X) == "vx" && life[se.Sel.Name] {
						out = append(out, se.Sel.Name)
					}
				}
				return true
			})
			return out
		}
		lastCall := "unknown"
		var walk func(l []ast.Stmt)
		walk = func(l []ast.Stmt) {
			for _, st := range l {
				if is, ok := st.(*ast.IfStmt); ok && c.Src(is.Cond) == "err != nil" && is.Else == nil {
					returns := false
					for _, b := range is.Body.List {
						if _, ok := b.(*ast.ReturnStmt); ok {
							returns = true
						}
					}
					if returns {
						seq = append(seq, "err:"+lastCall+":"+strings.Join(lifeCallsIn(is.Body), ","))
						continue
					}
				}
				// remember the call whose error the next `if err != nil` tests
				if as, ok := st.(*ast.AssignStmt); ok && len(as.Rhs) == 1 {
					if ce, ok := as.Rhs[0].(*ast.CallExpr); ok {
						for _, lh := range as.Lhs {
							if c.Src(lh) == "err" {
								lastCall = c.Src(ce.Fun)
							}
						}
					}
				}
				switch x := st.(type) {
				case *ast.SwitchStmt:
					for _, cl := range x.Body.List {
						walk(cl.(*ast.CaseClause).Body)
					}
				case *ast.IfStmt:
					seq = append(seq, lifeCallsIn(x.Cond)...)
					walk(x.Body.List)
				case *ast.ForStmt, *ast.LabeledStmt, *ast.DeferStmt:
					seq = append(seq, lifeCallsIn(st)...)
				default:
					seq = append(seq, lifeCallsIn(st)...)
				}
			}
		}
		walk(fd.Body.List)
	}
	var seqL []string
	for _, x := range seq {
		if strings.HasPrefix(x, "err:") {
			parts := strings.SplitN(x, ":", 3)
			var cs []string
			for _, y := range strings.Split(parts[2], ",") {
				if y != "" {
					cs = append(cs, ex.LeanStr(y))
				}
			}
			seqL = append(seqL, fmt.Sprintf("(\"err\", %s, [%s])", ex.LeanStr(parts[1]), strings.Join(cs, ", ")))
		} else {
			seqL = append(seqL, fmt.Sprintf("(\"call\", %s, [])", ex.LeanStr(x)))
		}
	}
	// newCalls: the lifecycle calls outside the error exits
	calls = nil
	for _, x := range seq {
		if !strings.HasPrefix(x, "err:") {
			calls = append(calls, ex.LeanStr(x))
		}
	}
	fmt.Fprintf(sb, "/-- Lifecycle functions called by `New`, in source order. -/\ndef newCalls : List String := [%s]\n\n", strings.Join(calls, ", "))
	fmt.Fprintf(sb, "/-- The same with the error exits of `New` in place: (\"call\", lifecycle function, []) or (\"err\", the call whose error is tested, lifecycle calls made before the `return nil, err`). -/\ndef newSequence : List (String × String × List String) := [%s]\n\n", strings.Join(seqL, ", "))
	fmt.Fprintf(sb, "/-- openTty installs a new writer (`vx.tw = newWriter(vx)`). -/\ndef openTtyInstallsWriter : Bool := %v\n\n", installs)
	fmt.Fprintf(sb, "/-- How newWriter creates its buffer. -/\ndef newWriterBuf : String := %s\n\n", ex.LeanStr(buf))
}

// inputLoop extracts the skeleton of the input goroutine started by openTty: the statements the
// deferred recover handler runs when the goroutine panics, the statements of the kill-signal arm of
// its select loop, and the list of select arms. Shapes it does not recognise degrade to a single
// `.other .tt "unknown: …"` statement (the Lean side then fails `facts_inputLoop`), never to a crash.
func inputLoop(c *ex.Ctx, vx *ast.File, sb *strings.Builder) {
	unknown := func(why string) []string { return []string{".other .tt " + ex.LeanStr("unknown: "+why)} }
	recoverL, signalL := unknown("not found"), unknown("not found")
	recoverGuard, deferFirst := "unknown", false
	var arms []string
	fd := ex.FindFunc(vx, "Vaxis", "openTty")
	if fd != nil {
		var lit *ast.FuncLit
		ast.Inspect(fd.Body, func(n ast.Node) bool {
			if gs, ok := n.(*ast.GoStmt); ok && lit == nil {
				if fl, ok := gs.Call.Fun.(*ast.FuncLit); ok {
					lit = fl
				}
			}
			return lit == nil
		})
		if lit != nil {
			for i, st := range lit.Body.List {
				switch st := st.(type) {
				case *ast.DeferStmt:
					fl, ok := st.Call.Fun.(*ast.FuncLit)
					if !ok || len(fl.Body.List) != 1 {
						recoverL = unknown("deferred call is not a one-statement function literal")
						continue
					}
					is, ok := fl.Body.List[0].(*ast.IfStmt)
					if !ok || is.Init == nil || is.Else != nil || !strings.Contains(c.Src(is.Init), "recover()") {
						recoverL = unknown("deferred function is not `if err := recover(); err != nil {…}`")
						continue
					}
					recoverGuard = c.Src(is.Init) + "; " + c.Src(is.Cond)
					deferFirst = i == 0
					var out []string
					stmts(c, is.Body.List, ".tt", &out)
					recoverL = out
				case *ast.ForStmt:
					if st.Init != nil || st.Cond != nil || st.Post != nil || len(st.Body.List) != 1 {
						signalL = unknown("loop is not `for { select {…} }`")
						continue
					}
					sel, ok := st.Body.List[0].(*ast.SelectStmt)
					if !ok {
						signalL = unknown("loop body is not a select")
						continue
					}
					signalL = unknown("no `case <-vx.chSigKill` arm")
					for _, cl := range sel.Body.List {
						cc := cl.(*ast.CommClause)
						comm := "default"
						if cc.Comm != nil {
							comm = c.Src(cc.Comm)
						}
						arms = append(arms, ex.LeanStr(comm))
						if comm == "<-vx.chSigKill" {
							var out []string
							stmts(c, cc.Body, ".tt", &out)
							signalL = out
						}
					}
				}
			}
		}
	}
	emit := func(name, doc string, l []string) {
		fmt.Fprintf(sb, "/-- %s -/\ndef %s : List S := [\n", doc, name)
		for i, o := range l {
			sep := ","
			if i == len(l)-1 {
				sep = ""
			}
			fmt.Fprintf(sb, "  %s%s\n", o, sep)
		}
		sb.WriteString("]\n\n")
	}
	emit("inputLoopRecover", "openTty, input goroutine: body of the deferred `if err := recover(); err != nil {…}` (the panic path).", recoverL)
	emit("inputLoopSignalArm", "openTty, input goroutine: body of the `case <-vx.chSigKill:` arm of the select loop (the signal path).", signalL)
	fmt.Fprintf(sb, "/-- Guard of the deferred handler. -/\ndef inputLoopRecoverGuard : String := %s\n\n", ex.LeanStr(recoverGuard))
	fmt.Fprintf(sb, "/-- The deferred handler is the first statement of the goroutine (it covers the whole loop). -/\ndef inputLoopDeferFirst : Bool := %v\n\n", deferFirst)
	fmt.Fprintf(sb, "/-- Communication clauses of the select loop, in source order. -/\ndef inputLoopArms : List String := [%s]\n\n", strings.Join(arms, ", "))
}
