// Translator for the BODIES of the control functions of widgets/term (csi.go, esc.go, c0.go,
// term.go) into the deeply embedded statement language of lean/VaxisModel/Model/EmuBodyLang.lean.
// Output: Gen/TermBodies.lean, one `Body` value per function. Anything outside the restricted
// language becomes `Stmt.unknown "<source text>"` (never a crash); `Props/C05Bodies.lean` proves
// `evalBody Gen.body_<fn> = Model.<fn>` for all states, and that the bodies it covers contain no
// `unknown`. A source edit to any of these bodies therefore changes a Gen term and breaks a theorem.
package main

import (
	"fmt"
	"go/ast"
	"go/token"
	"regexp"
	"strconv"
	"strings"

	"verifextract/ex"
)

// replyLit: a Go string literal as a Lean list of its UTF-8 bytes
func replyLit(e ast.Expr) (string, bool) {
	b, ok := e.(*ast.BasicLit)
	if !ok || b.Kind != token.STRING {
		return "", false
	}
	v, err := strconv.Unquote(b.Value)
	if err != nil {
		return "", false
	}
	parts := make([]string, 0, len(v))
	for _, c := range []byte(v) {
		parts = append(parts, strconv.Itoa(int(c)))
	}
	return "[" + strings.Join(parts, ", ") + "]", true
}

// replyFmt: a format literal whose verbs are all plain %d, one per argument, with the arguments in the expression language
func (t *btr) replyFmt(f ast.Expr, args []ast.Expr) (string, string, bool) {
	b, ok := f.(*ast.BasicLit)
	if !ok || b.Kind != token.STRING {
		return "", "", false
	}
	v, err := strconv.Unquote(b.Value)
	if err != nil {
		return "", "", false
	}
	n := 0
	for i := 0; i < len(v); i++ {
		if v[i] == '%' {
			if i+1 >= len(v) || v[i+1] != 'd' {
				return "", "", false
			}
			n++
			i++
		}
	}
	if n != len(args) {
		return "", "", false
	}
	xs := make([]string, 0, len(args))
	for _, a := range args {
		x, ok := t.expr(a)
		if !ok {
			return "", "", false
		}
		xs = append(xs, x)
	}
	lit, _ := replyLit(f)
	return lit, "[" + strings.Join(xs, ", ") + "]", true
}

type btr struct {
	c           *ex.Ctx
	locals      map[string]int
	order       []string
	loops       []string            // loop variable names, outermost first
	alias       map[string]ast.Expr // `line := vt.activeScreen[row]` → the row expression
	pmName      string              // name of the [][]int parameter, "" if none
	brkable     []string            // innermost breakable statement: "for" | "switch"
	bools       map[string]bool     // bool locals (held as 0/1)
	seqName     string              // name of the ansi.Print parameter of print(), "" otherwise
	glyph       string              // local holding the glyph cell of print()
	cellVar     string              // local holding a copy of a cell (`ch := vt.activeScreen[r][c]`)
	fnName      string              // the function being translated
	tabsAcc     string              // local slice `tabs := []column{}`
	tabVar      string              // value variable of `for _, ts := range vt.tabStop`
	tabIdx      string              // index variable of `for i := len(vt.tabStop) - 1; i >= 0; i -= 1`
	penVar      string              // local holding a copy of the pen (`pen := vt.cursor.Style`)
	paramVar    string              // value variable of `for _, param := range params`
	stateVar    string              // local of type cursorState (decsc/decrc)
	oldVar      string              // resize(): local snapshot of the old primary screen (`primary := vt.primaryScreen`)
	oldCell     string              // resize(): local copy of an old cell (`cell := primary[r][c]`)
	sgrIdx      string              // sgr(): index variable of `for i := 0; i < len(params); i += 1`
	pmDefaulted bool                // sgr(): `if len(params) == 0 { params = [][]int{{0}} }` seen
	strLocals   map[string]int      // osc(): string locals (name → slot); slot 0 is the string parameter
	strCount    int
	shadowOK    bool              // osc(): `:=` in an inner block may shadow an outer local (new slot)
	scopes      []map[string]bool // names declared in the current block (innermost last)
	hostVar     string            // osc() 11: `rgb := vt.vx.QueryBackground().Params()`
	respVar     string            // osc() 11: `resp := fmt.Sprintf(…)`
	decVar      string            // osc() 52: decoded bytes
	consts      map[string]int64  // package-level int constants usable as literals (csi(): maxParam)
	pmAllSlice  string            // csi(): `param` of `for _, param := range params { for i, p := range param {…} }`
	pmAllIdx    string            // csi(): `i`
	pmAllVal    string            // csi(): `p`
	replyMode   bool              // inline arms of the dispatchers that only answer the child (DA, DSR) or post an event (BEL)
	unknown     int
}

var knownCallees = map[string]bool{"cuu": true, "cud": true, "ind": true, "nel": true, "ri": true, "lf": true,
	"cht": true, "scrollUp": true, "scrollDown": true, "decsc": true, "decrc": true, "ed": true, "setDefaultTabStops": true}

var places = map[string]string{
	"vt.cursor.row": ".curRow", "vt.cursor.col": ".curCol",
	"vt.margin.top": ".top", "vt.margin.bottom": ".bottom", "vt.margin.left": ".left", "vt.margin.right": ".right",
}

func (t *btr) src(n ast.Node) string { return strings.Join(strings.Fields(t.c.Src(n)), " ") }

func (t *btr) unk(n ast.Node) string {
	t.unknown++
	return "(.unknown " + ex.LeanStr(t.src(n)) + ")"
}

func (t *btr) loopIndex(name string) int {
	for i := len(t.loops) - 1; i >= 0; i-- {
		if t.loops[i] == name {
			return i
		}
	}
	return -1
}

// an assignable int place
func (t *btr) loc(e ast.Expr) (string, bool) {
	if p, ok := places[t.src(e)]; ok {
		return p, true
	}
	if id, ok := e.(*ast.Ident); ok {
		if t.loopIndex(id.Name) >= 0 {
			return "", false
		}
		if k, ok := t.locals[id.Name]; ok {
			return fmt.Sprintf("(.var %d)", k), true
		}
	}
	return "", false
}

func (t *btr) expr(e ast.Expr) (string, bool) {
	switch x := e.(type) {
	case *ast.ParenExpr:
		return t.expr(x.X)
	case *ast.BasicLit:
		if x.Kind == token.INT {
			v, err := strconv.ParseInt(x.Value, 0, 64)
			if err == nil {
				return fmt.Sprintf("(.lit %d)", v), true
			}
		}
		return "", false
	case *ast.Ident:
		if t.tabVar != "" && x.Name == t.tabVar {
			return ".tab", true
		}
		if k := t.loopIndex(x.Name); k >= 0 {
			return fmt.Sprintf("(.lv %d)", k), true
		}
		if t.pmAllVal != "" && x.Name == t.pmAllVal {
			return ".pcur", true
		}
		if l, ok := t.loc(x); ok {
			return "(.loc " + l + ")", true
		}
		if v, ok := t.consts[x.Name]; ok {
			if _, shadow := t.locals[x.Name]; !shadow {
				return fmt.Sprintf("(.lit %d)", v), true
			}
		}
		return "", false
	case *ast.SelectorExpr:
		if l, ok := t.loc(x); ok {
			return "(.loc " + l + ")", true
		}
		if t.seqName != "" && t.src(x) == t.seqName+".Width" {
			return fmt.Sprintf("(.loc (.var %d))", t.locals[t.seqName+".Width"]), true
		}
		return "", false
	case *ast.BinaryExpr:
		if x.Op == token.ADD || x.Op == token.SUB {
			a, ok1 := t.expr(x.X)
			b, ok2 := t.expr(x.Y)
			if ok1 && ok2 {
				op := ".add"
				if x.Op == token.SUB {
					op = ".sub"
				}
				return fmt.Sprintf("(%s %s %s)", op, a, b), true
			}
		}
		return "", false
	case *ast.CallExpr:
		fun := t.src(x.Fun)
		switch {
		case (fun == "row" || fun == "column" || fun == "int") && len(x.Args) == 1:
			return t.expr(x.Args[0]) // conversions between int types are identities
		case fun == "vt.width" && len(x.Args) == 0:
			return ".width", true
		case fun == "vt.height" && len(x.Args) == 0:
			return ".height", true
		case fun == "len" && len(x.Args) == 1 && t.pmName != "" && t.src(x.Args[0]) == t.pmName && t.sgrIdx == "":
			return ".lenPm", true
		case fun == "len" && len(x.Args) == 1 && t.sgrIdx != "" && t.src(x.Args[0]) == t.pmName+"["+t.sgrIdx+"]":
			return ".lenCur", true
		case fun == "len" && len(x.Args) == 1 && t.sgrIdx != "" && t.src(x.Args[0]) == t.pmName+"["+t.sgrIdx+":]":
			return ".lenFrom", true
		case fun == "len" && len(x.Args) == 1 && t.oldVar != "" && t.src(x.Args[0]) == t.oldVar:
			return ".lenOld", true
		case fun == "len" && len(x.Args) == 1 && t.oldVar != "" && t.src(x.Args[0]) == t.oldVar+"[0]":
			return ".lenOld0", true
		case fun == "ps" && len(x.Args) == 1 && t.pmName != "" && t.src(x.Args[0]) == t.pmName && t.loopIndex("ps") < 0:
			if _, shadow := t.locals["ps"]; !shadow {
				return ".psParams", true
			}
		}
		return "", false
	case *ast.IndexExpr:
		if t.tabIdx != "" && t.src(x) == "vt.tabStop["+t.tabIdx+"]" {
			return ".tab", true
		}
		if t.paramVar != "" && t.src(x) == t.paramVar+"[0]" {
			return ".param0", true
		}
		// params[i][k], params[i+j][k] inside the loop of sgr()
		if in, ok := x.X.(*ast.IndexExpr); ok && t.sgrIdx != "" && t.pmName != "" && t.src(in.X) == t.pmName {
			if k, okk := intLit(x.Index); okk && k >= 0 {
				if t.src(in.Index) == t.sgrIdx {
					return fmt.Sprintf("(.cur %d)", k), true
				}
				if b, okb := in.Index.(*ast.BinaryExpr); okb && b.Op == token.ADD && t.src(b.X) == t.sgrIdx {
					if j, okj := intLit(b.Y); okj && j >= 1 {
						return fmt.Sprintf("(.nxt %d %d)", j, k), true
					}
				}
			}
			return "", false
		}
		// pm[k][0]
		if in, ok := x.X.(*ast.IndexExpr); ok && t.pmName != "" && t.src(in.X) == t.pmName {
			k, ok1 := intLit(in.Index)
			z, ok2 := intLit(x.Index)
			if ok1 && ok2 && z == 0 && k >= 0 {
				return fmt.Sprintf("(.pm %d)", k), true
			}
		}
		return "", false
	}
	return "", false
}

var cmpOps = map[token.Token]string{token.LSS: ".lt", token.LEQ: ".le", token.GTR: ".gt", token.GEQ: ".ge", token.EQL: ".eq", token.NEQ: ".ne"}

func (t *btr) cond(e ast.Expr) (string, bool) {
	switch x := e.(type) {
	case *ast.ParenExpr:
		return t.cond(x.X)
	case *ast.UnaryExpr:
		if x.Op == token.NOT {
			if a, ok := t.cond(x.X); ok {
				return "(.not " + a + ")", true
			}
		}
		return "", false
	case *ast.BinaryExpr:
		if x.Op == token.LAND || x.Op == token.LOR {
			a, ok1 := t.cond(x.X)
			b, ok2 := t.cond(x.Y)
			if ok1 && ok2 {
				op := ".and"
				if x.Op == token.LOR {
					op = ".or"
				}
				return fmt.Sprintf("(%s %s %s)", op, a, b), true
			}
			return "", false
		}
		if x.Op == token.EQL || x.Op == token.NEQ {
			wrap := func(c string) (string, bool) {
				if x.Op == token.NEQ {
					return "(.not " + c + ")", true
				}
				return c, true
			}
			if k, ok := t.strVar(x.X); ok {
				if lit, ok := t.strLit(x.Y); ok {
					return wrap(fmt.Sprintf("(.strEq %d %s)", k, lit))
				}
			}
			if t.src(x.X) == "vt.vx" && t.src(x.Y) == "nil" {
				return wrap(".vxNil")
			}
			if t.hostVar != "" && t.src(x.X) == "len("+t.hostVar+")" && t.src(x.Y) == "0" {
				return wrap(".hostEmpty")
			}
			if id, ok := x.X.(*ast.Ident); ok && t.bools[id.Name] && t.src(x.Y) == "nil" && t.loopIndex(id.Name) < 0 {
				// err != nil / err == nil for the bool local that stands for `err != nil`
				c := fmt.Sprintf("(.cmp .ne (.loc (.var %d)) (.lit 0))", t.locals[id.Name])
				if x.Op == token.EQL {
					return "(.not " + c + ")", true
				}
				return c, true
			}
		}
		if op, ok := cmpOps[x.Op]; ok {
			a, ok1 := t.expr(x.X)
			b, ok2 := t.expr(x.Y)
			if ok1 && ok2 {
				return fmt.Sprintf("(.cmp %s %s %s)", op, a, b), true
			}
		}
		return "", false
	case *ast.Ident:
		if t.bools[x.Name] && t.loopIndex(x.Name) < 0 {
			return fmt.Sprintf("(.cmp .ne (.loc (.var %d)) (.lit 0))", t.locals[x.Name]), true
		}
		return "", false
	case *ast.SelectorExpr:
		s := t.src(x)
		if s == "vt.lastCol" {
			return ".lastCol", true
		}
		if s == "vt.OSC8" {
			return ".osc8", true
		}
		if strings.HasPrefix(s, "vt.mode.") && modeFieldNames[s[len("vt.mode."):]] {
			return "(.mode ." + s[len("vt.mode."):] + ")", true
		}
	}
	return "", false
}

// a cell place: vt.activeScreen[r][c] or <alias>[c] → (row, col)
func (t *btr) cellPlace(e ast.Expr) (string, string, bool) {
	ix, ok := e.(*ast.IndexExpr)
	if !ok {
		return "", "", false
	}
	var rowE ast.Expr
	if id, ok := ix.X.(*ast.Ident); ok {
		if r, ok := t.alias[id.Name]; ok {
			rowE = r
		}
	} else if in, ok := ix.X.(*ast.IndexExpr); ok && t.src(in.X) == "vt.activeScreen" {
		rowE = in.Index
	}
	if rowE == nil {
		return "", "", false
	}
	r, ok1 := t.expr(rowE)
	c, ok2 := t.expr(ix.Index)
	return r, c, ok1 && ok2
}

// vt.activeScreen[r] → r
func (t *btr) rowPlace(e ast.Expr) (string, bool) {
	ix, ok := e.(*ast.IndexExpr)
	if !ok || t.src(ix.X) != "vt.activeScreen" {
		return "", false
	}
	return t.expr(ix.Index)
}

func seq(parts []string) string {
	if len(parts) == 0 {
		return ".skip"
	}
	if len(parts) == 1 {
		return parts[0]
	}
	return "(.seq " + parts[0] + "\n " + seq(parts[1:]) + ")"
}

func (t *btr) block(list []ast.Stmt) string {
	if t.shadowOK {
		// Go block scope: declarations made inside vanish at the end of the block
		savedL, savedS, savedB := map[string]int{}, map[string]int{}, map[string]bool{}
		for k, v := range t.locals {
			savedL[k] = v
		}
		for k, v := range t.strLocals {
			savedS[k] = v
		}
		for k, v := range t.bools {
			savedB[k] = v
		}
		t.scopes = append(t.scopes, map[string]bool{})
		defer func() {
			t.scopes = t.scopes[:len(t.scopes)-1]
			t.locals, t.strLocals, t.bools = savedL, savedS, savedB
		}()
	}
	var parts []string
	before := map[string]bool{}
	for k := range t.alias {
		before[k] = true
	}
	created := map[string]int{} // alias → index of the statement that created it
	for i, s := range list {
		parts = append(parts, t.stmt(s))
		for k := range t.alias {
			if _, seen := created[k]; !before[k] && !seen {
				created[k] = i
			}
		}
	}
	// a row alias is sound while the locals of its row expression keep their value: nothing in the
	// rest of this block may assign to them; the alias ends with the block
	for k, at := range created {
		names := map[string]bool{}
		ast.Inspect(t.alias[k], func(n ast.Node) bool {
			if id, ok := n.(*ast.Ident); ok {
				names[id.Name] = true
			}
			return true
		})
		bad := strings.Contains(t.src(t.alias[k]), "vt.")
		for _, s := range list[at+1:] {
			ast.Inspect(s, func(n ast.Node) bool {
				switch a := n.(type) {
				case *ast.AssignStmt:
					for _, l := range a.Lhs {
						if id, ok := l.(*ast.Ident); ok && names[id.Name] {
							bad = true
						}
					}
				case *ast.IncDecStmt:
					if id, ok := a.X.(*ast.Ident); ok && names[id.Name] {
						bad = true
					}
				}
				return true
			})
		}
		delete(t.alias, k)
		if bad {
			t.unknown++
			return "(.unknown " + ex.LeanStr("row alias "+k+" outlives its row expression") + ")"
		}
	}
	return seq(parts)
}

func byteList(str string) string {
	parts := make([]string, 0, len(str))
	for _, b := range []byte(str) {
		parts = append(parts, strconv.Itoa(int(b)))
	}
	return "[" + strings.Join(parts, ", ") + "]"
}

func (t *btr) strLit(e ast.Expr) (string, bool) {
	b, ok := e.(*ast.BasicLit)
	if !ok || b.Kind != token.STRING {
		return "", false
	}
	v, err := strconv.Unquote(b.Value)
	if err != nil {
		return "", false
	}
	return byteList(v), true
}

func (t *btr) strVar(e ast.Expr) (int, bool) {
	id, ok := e.(*ast.Ident)
	if !ok || t.strLocals == nil {
		return 0, false
	}
	k, ok := t.strLocals[id.Name]
	return k, ok
}

// declared in the innermost block already?
func (t *btr) declaredHere(name string) bool {
	return len(t.scopes) > 0 && t.scopes[len(t.scopes)-1][name]
}

func (t *btr) markDeclared(name string) {
	if len(t.scopes) > 0 {
		t.scopes[len(t.scopes)-1][name] = true
	}
}

// a new string local (shadowing an outer one of the same name when allowed)
func (t *btr) declareStr(name string) (int, bool) {
	if name == "_" || t.declaredHere(name) {
		return 0, false
	}
	if _, isInt := t.locals[name]; isInt {
		return 0, false
	}
	if _, dup := t.strLocals[name]; dup && !t.shadowOK {
		return 0, false
	}
	k := t.strCount
	t.strCount++
	t.strLocals[name] = k
	t.markDeclared(name)
	return k, true
}

// a new bool local (shadowing allowed in osc())
func (t *btr) declareBool(name string) (int, bool) {
	if name == "_" || t.declaredHere(name) || t.loopIndex(name) >= 0 {
		return 0, false
	}
	if _, isStr := t.strLocals[name]; isStr {
		return 0, false
	}
	if _, dup := t.locals[name]; dup && !t.shadowOK {
		return 0, false
	}
	k := len(t.order)
	t.locals[name] = k
	t.order = append(t.order, name)
	t.bools[name] = true
	t.markDeclared(name)
	return k, true
}

func optSlot(k int, ok bool) string {
	if !ok {
		return "none"
	}
	return fmt.Sprintf("(some %d)", k)
}

func (t *btr) declare(name string) (int, bool) {
	if _, dup := t.locals[name]; dup || t.loopIndex(name) >= 0 || name == "_" {
		return 0, false
	}
	k := len(t.order)
	t.locals[name] = k
	t.order = append(t.order, name)
	return k, true
}

func isOne(e ast.Expr) bool { v, ok := intLit(e); return ok && v == 1 }

func (t *btr) bound(e ast.Expr, v string) (string, bool) {
	e = unparen(e)
	b, ok := e.(*ast.BinaryExpr)
	if !ok {
		return "", false
	}
	if b.Op == token.LAND {
		a1, ok1 := t.bound(b.X, v)
		a2, ok2 := t.bound(b.Y, v)
		if ok1 && ok2 {
			return fmt.Sprintf("(.both %s %s)", a1, a2), true
		}
		return "", false
	}
	id, ok := b.X.(*ast.Ident)
	if !ok || id.Name != v {
		return "", false
	}
	x, ok := t.expr(b.Y)
	if !ok {
		return "", false
	}
	switch b.Op {
	case token.LSS:
		return "(.lt " + x + ")", true
	case token.LEQ:
		return "(.le " + x + ")", true
	}
	return "", false
}

func unparen(e ast.Expr) ast.Expr {
	for {
		p, ok := e.(*ast.ParenExpr)
		if !ok {
			return e
		}
		e = p.X
	}
}

func (t *btr) forStmt(s *ast.ForStmt) string {
	if r, ok := t.tabDown(s); ok {
		return r
	}
	if r, ok := t.tabsRange(s); ok {
		return r
	}
	if r, ok := t.forS(s); ok {
		return r
	}
	if r, ok := t.forSgr(s); ok {
		return r
	}
	init, ok := s.Init.(*ast.AssignStmt)
	if !ok || init.Tok != token.DEFINE || len(init.Lhs) != 1 || len(init.Rhs) != 1 || s.Cond == nil || s.Post == nil {
		return t.unk(s)
	}
	vid, ok := init.Lhs[0].(*ast.Ident)
	if !ok || t.loopIndex(vid.Name) >= 0 {
		return t.unk(s)
	}
	if _, shadow := t.locals[vid.Name]; shadow {
		return t.unk(s)
	}
	v := vid.Name
	start, ok := t.expr(init.Rhs[0])
	if !ok {
		return t.unk(s)
	}
	dir := 0
	switch p := s.Post.(type) {
	case *ast.IncDecStmt:
		if id, ok := p.X.(*ast.Ident); ok && id.Name == v {
			if p.Tok == token.INC {
				dir = 1
			} else {
				dir = -1
			}
		}
	case *ast.AssignStmt:
		if len(p.Lhs) == 1 && len(p.Rhs) == 1 && isOne(p.Rhs[0]) {
			if id, ok := p.Lhs[0].(*ast.Ident); ok && id.Name == v {
				if p.Tok == token.ADD_ASSIGN {
					dir = 1
				} else if p.Tok == token.SUB_ASSIGN {
					dir = -1
				}
			}
		}
	}
	if dir == 0 {
		return t.unk(s)
	}
	var hdr string
	if dir == 1 {
		b, ok := t.bound(s.Cond, v)
		if !ok {
			return t.unk(s)
		}
		hdr = fmt.Sprintf("(.forUp %s %s", start, b)
	} else {
		c, ok := unparen(s.Cond).(*ast.BinaryExpr)
		if !ok || c.Op != token.GEQ {
			return t.unk(s)
		}
		if id, ok := c.X.(*ast.Ident); !ok || id.Name != v {
			return t.unk(s)
		}
		lo, ok := t.expr(c.Y)
		if !ok {
			return t.unk(s)
		}
		hdr = fmt.Sprintf("(.forDown %s %s", start, lo)
	}
	t.loops = append(t.loops, v)
	t.brkable = append(t.brkable, "for")
	body := t.block(s.Body.List)
	t.loops = t.loops[:len(t.loops)-1]
	t.brkable = t.brkable[:len(t.brkable)-1]
	return hdr + "\n " + body + ")"
}

func (t *btr) tabRange(s *ast.RangeStmt) (string, bool) {
	// for _, ts := range vt.tabStop
	if s.Tok != token.DEFINE || s.Key == nil || s.Value == nil || t.src(s.X) != "vt.tabStop" || t.src(s.Key) != "_" {
		return "", false
	}
	v, ok := s.Value.(*ast.Ident)
	if !ok || t.tabVar != "" || t.tabIdx != "" || len(t.loops) != 0 || t.loopIndex(v.Name) >= 0 {
		return "", false
	}
	if _, shadow := t.locals[v.Name]; shadow {
		return "", false
	}
	t.tabVar = v.Name
	t.brkable = append(t.brkable, "for")
	body := t.block(s.Body.List)
	t.brkable = t.brkable[:len(t.brkable)-1]
	t.tabVar = ""
	return "(.forTabs\n " + body + ")", true
}

func (t *btr) tabDown(s *ast.ForStmt) (string, bool) {
	// for i := len(vt.tabStop) - 1; i >= 0; i -= 1 — the body may use i only as vt.tabStop[i]
	init, ok := s.Init.(*ast.AssignStmt)
	if !ok || init.Tok != token.DEFINE || len(init.Lhs) != 1 || len(init.Rhs) != 1 || t.src(init.Rhs[0]) != "len(vt.tabStop) - 1" {
		return "", false
	}
	v, ok := init.Lhs[0].(*ast.Ident)
	if !ok || t.tabVar != "" || t.tabIdx != "" || len(t.loops) != 0 {
		return "", false
	}
	if _, shadow := t.locals[v.Name]; shadow {
		return "", false
	}
	if s.Cond == nil || t.src(s.Cond) != v.Name+" >= 0" || s.Post == nil {
		return "", false
	}
	if p := t.src(s.Post); p != v.Name+" -= 1" && p != v.Name+"--" {
		return "", false
	}
	// every use of i inside the body is vt.tabStop[i]
	uses, asIndex := 0, 0
	ast.Inspect(s.Body, func(n ast.Node) bool {
		switch x := n.(type) {
		case *ast.Ident:
			if x.Name == v.Name {
				uses++
			}
		case *ast.IndexExpr:
			if t.src(x) == "vt.tabStop["+v.Name+"]" {
				asIndex++
			}
		}
		return true
	})
	if uses != asIndex {
		return "", false
	}
	t.tabIdx = v.Name
	t.brkable = append(t.brkable, "for")
	body := t.block(s.Body.List)
	t.brkable = t.brkable[:len(t.brkable)-1]
	t.tabIdx = ""
	return "(.forTabsDown\n " + body + ")", true
}

// for _, param := range params (the [][]int parameter): the body runs at function level
func (t *btr) paramRange(s *ast.RangeStmt) (string, bool) {
	if s.Tok != token.DEFINE || s.Key == nil || s.Value == nil || t.pmName == "" || t.src(s.X) != t.pmName || t.src(s.Key) != "_" {
		return "", false
	}
	v, ok := s.Value.(*ast.Ident)
	if !ok || t.paramVar != "" || t.tabVar != "" || t.tabIdx != "" || len(t.loops) != 0 || v.Name == "_" {
		return "", false
	}
	if _, shadow := t.locals[v.Name]; shadow {
		return "", false
	}
	// the loop variable is only read, as param[0]
	uses, asIndex := 0, 0
	ast.Inspect(s.Body, func(n ast.Node) bool {
		switch x := n.(type) {
		case *ast.Ident:
			if x.Name == v.Name {
				uses++
			}
		case *ast.IndexExpr:
			if t.src(x) == v.Name+"[0]" {
				asIndex++
			}
		}
		return true
	})
	if uses != asIndex {
		return "", false
	}
	t.paramVar = v.Name
	t.brkable = append(t.brkable, "for")
	body := t.block(s.Body.List)
	t.brkable = t.brkable[:len(t.brkable)-1]
	t.paramVar = ""
	return "(.forParams\n " + body + ")", true
}

func (t *btr) rangeStmt(s *ast.RangeStmt) string {
	if r, ok := t.tabRange(s); ok {
		return r
	}
	if r, ok := t.paramRange(s); ok {
		return r
	}
	if r, ok := t.pmAllRange(s); ok {
		return r
	}
	// for v := range vt.activeScreen
	if s.Tok != token.DEFINE || s.Value != nil || s.Key == nil || t.src(s.X) != "vt.activeScreen" {
		return t.unk(s)
	}
	vid, ok := s.Key.(*ast.Ident)
	if !ok || t.loopIndex(vid.Name) >= 0 {
		return t.unk(s)
	}
	if _, shadow := t.locals[vid.Name]; shadow {
		return t.unk(s)
	}
	t.loops = append(t.loops, vid.Name)
	t.brkable = append(t.brkable, "for")
	body := t.block(s.Body.List)
	t.loops = t.loops[:len(t.loops)-1]
	t.brkable = t.brkable[:len(t.brkable)-1]
	return "(.forUp (.lit 0) (.lt .height)\n " + body + ")"
}

var primTexts = map[string]string{
	"if len(seq.Grapheme) == 1 && vt.charsets.designations[vt.charsets.selected] == decSpecialAndLineDrawing { shifted, ok := decSpecial[seq.Grapheme[0]] if ok { seq.Grapheme = string(shifted) } }": "(.prim .decSpecial)",
	"if vt.charsets.singleShift { vt.charsets.selected = vt.charsets.saved }": "(.prim .singleShift)",
}

func (t *btr) ifStmt(s *ast.IfStmt) string {
	if s.Init != nil {
		return t.unk(s)
	}
	if t.seqName == "seq" && len(t.loops) == 0 {
		if p, ok := primTexts[t.src(s)]; ok {
			return p
		}
	}
	if t.pmName != "" && len(t.loops) == 0 && t.sgrIdx == "" && !t.pmDefaulted &&
		t.src(s) == "if len("+t.pmName+") == 0 { "+t.pmName+" = [][]int{{0}} }" {
		t.pmDefaulted = true
		return ".pmDefault0"
	}
	c, ok := t.cond(s.Cond)
	if !ok {
		return t.unk(s)
	}
	th := t.block(s.Body.List)
	el := ".skip"
	switch e := s.Else.(type) {
	case nil:
	case *ast.BlockStmt:
		el = t.block(e.List)
	case *ast.IfStmt:
		el = t.ifStmt(e)
	default:
		return t.unk(s)
	}
	return fmt.Sprintf("(%s %s\n %s\n %s)", iteCtor(c), c, th, el)
}

// switch → if-chain (Go switch clauses do not fall through; `fallthrough` and a `break` that
// targets the switch are not in the language)
func (t *btr) switchStmt(s *ast.SwitchStmt) string {
	if s.Init != nil {
		return t.unk(s)
	}
	tag := ""
	boolTag := ""
	strTag := -1
	if k, ok := t.strVar(s.Tag); s.Tag != nil && ok {
		strTag = k
	} else if s.Tag != nil {
		x, ok := t.expr(s.Tag)
		if !ok {
			// switch <condition> { case true: … case false: … }
			c, okc := t.cond(s.Tag)
			if !okc {
				return t.unk(s)
			}
			boolTag = c
		}
		tag = x
	}
	type clause struct{ cond, body string }
	var cls []clause
	def := ".skip"
	seenDefault := false
	t.brkable = append(t.brkable, "switch")
	defer func() { t.brkable = t.brkable[:len(t.brkable)-1] }()
	for i, st := range s.Body.List {
		cc := st.(*ast.CaseClause)
		for _, b := range cc.Body {
			if br, ok := b.(*ast.BranchStmt); ok && br.Tok == token.FALLTHROUGH {
				return t.unk(s)
			}
		}
		if cc.List == nil {
			if i != len(s.Body.List)-1 {
				return t.unk(s) // default not last: evaluation order differs from an if-chain
			}
			seenDefault = true
			def = t.block(cc.Body)
			continue
		}
		var cs []string
		for _, l := range cc.List {
			if strTag >= 0 {
				lit, ok := t.strLit(l)
				if !ok {
					return t.unk(s)
				}
				cs = append(cs, fmt.Sprintf("(.strEq %d %s)", strTag, lit))
			} else if boolTag != "" {
				switch t.src(l) {
				case "true":
					cs = append(cs, boolTag)
				case "false":
					cs = append(cs, "(.not "+boolTag+")")
				default:
					return t.unk(s)
				}
			} else if tag != "" {
				x, ok := t.expr(l)
				if !ok {
					return t.unk(s)
				}
				cs = append(cs, fmt.Sprintf("(.cmp .eq %s %s)", tag, x))
			} else {
				x, ok := t.cond(l)
				if !ok {
					return t.unk(s)
				}
				cs = append(cs, x)
			}
		}
		c := cs[len(cs)-1]
		for j := len(cs) - 2; j >= 0; j-- {
			c = fmt.Sprintf("(.or %s %s)", cs[j], c)
		}
		cls = append(cls, clause{c, t.block(cc.Body)})
	}
	_ = seenDefault
	out := def
	for i := len(cls) - 1; i >= 0; i-- {
		out = fmt.Sprintf("(%s %s\n %s\n %s)", iteCtor(cls[i].cond), cls[i].cond, cls[i].body, out)
	}
	return out
}

// osc(): a, b, f := cutString(src, ";") and decoded, err := base64.StdEncoding.DecodeString(src)
func (t *btr) multiAssign(s *ast.AssignStmt) (string, bool) {
	if len(s.Rhs) != 1 || s.Tok != token.DEFINE || len(t.loops) != 0 || !t.shadowOK {
		return "", false
	}
	call, ok := s.Rhs[0].(*ast.CallExpr)
	if !ok {
		return "", false
	}
	names := make([]string, len(s.Lhs))
	for i, l := range s.Lhs {
		id, ok := l.(*ast.Ident)
		if !ok {
			return "", false
		}
		names[i] = id.Name
	}
	switch {
	case len(names) == 3 && t.src(call.Fun) == "cutString" && len(call.Args) == 2 && t.src(call.Args[1]) == "\";\"":
		src, ok := t.strVar(call.Args[0]) // looked up BEFORE the new locals exist
		if !ok {
			return "", false
		}
		a, okA := 0, false
		if names[0] != "_" {
			if a, okA = t.declareStr(names[0]); !okA {
				return "", false
			}
		}
		b, okB := 0, false
		if names[1] != "_" {
			if b, okB = t.declareStr(names[1]); !okB {
				return "", false
			}
		}
		f, okF := 0, false
		if names[2] != "_" {
			if f, okF = t.declareBool(names[2]); !okF {
				return "", false
			}
		}
		return fmt.Sprintf("(.cut %s %s %s %d)", optSlot(a, okA), optSlot(b, okB), optSlot(f, okF), src), true
	case len(names) == 2 && t.src(call.Fun) == "base64.StdEncoding.DecodeString" && len(call.Args) == 1 && t.decVar == "" && names[0] != "_" && names[1] != "_":
		if _, ok := t.strVar(call.Args[0]); !ok {
			return "", false
		}
		k, ok := t.declareBool(names[1])
		if !ok {
			return "", false
		}
		t.decVar = names[0]
		return fmt.Sprintf("(.b64Decode %d)", k), true
	}
	return "", false
}

func (t *btr) assign(s *ast.AssignStmt) string {
	if r, ok := t.multiAssign(s); ok {
		return r
	}
	if len(s.Lhs) != 1 || len(s.Rhs) != 1 {
		return t.unk(s)
	}
	lhs, rhs := s.Lhs[0], s.Rhs[0]
	if r, ok := t.penStmt(s); ok {
		return r
	}
	if t.shadowOK && len(t.loops) == 0 {
		l, r := t.src(lhs), t.src(rhs)
		if k, ok := t.strVar(rhs); ok && s.Tok == token.ASSIGN {
			switch l {
			case "vt.cursor.Hyperlink":
				return fmt.Sprintf("(.setLink %d)", k)
			case "vt.cursor.HyperlinkParams":
				return fmt.Sprintf("(.setLinkParams %d)", k)
			}
		}
		if id, ok := lhs.(*ast.Ident); ok && s.Tok == token.DEFINE && id.Name != "_" && !t.declaredHere(id.Name) {
			if r == "vt.vx.QueryBackground().Params()" && t.hostVar == "" {
				t.hostVar = id.Name
				return ".hostQuery"
			}
			if t.hostVar != "" && t.respVar == "" && strings.HasPrefix(r, "fmt.Sprintf(\"") {
				t.respVar = id.Name
				return "(.reply .opaque)"
			}
		}
	}
	if t.pmAllVal != "" && s.Tok == token.ASSIGN && t.src(lhs) == t.pmAllSlice+"["+t.pmAllIdx+"]" {
		if x, ok := t.expr(rhs); ok {
			return "(.setPcur " + x + ")"
		}
		return t.unk(s)
	}
	if t.replyMode && len(t.loops) == 0 && s.Tok == token.DEFINE && t.respVar == "" {
		// resp := strings.Builder{}  /  resp := fmt.Sprintf("…", <ints of the language>): a local that only holds the reply
		if id, ok := lhs.(*ast.Ident); ok && id.Name != "_" {
			if _, isLocal := t.locals[id.Name]; !isLocal && t.loopIndex(id.Name) < 0 {
				if t.src(rhs) == "strings.Builder{}" {
					t.respVar = id.Name
					return "(.reply .newBuilder)"
				}
				if call, ok := rhs.(*ast.CallExpr); ok && t.src(call.Fun) == "fmt.Sprintf" && len(call.Args) >= 1 {
					if f, xs, good := t.replyFmt(call.Args[0], call.Args[1:]); good {
						t.respVar = id.Name
						return "(.reply (.sprintf " + f + " " + xs + "))"
					}
				}
			}
		}
	}
	if t.sgrIdx != "" && s.Tok == token.ADD_ASSIGN && t.src(lhs) == t.sgrIdx {
		if c, ok := intLit(rhs); ok && c >= 0 {
			return fmt.Sprintf("(.skipParams %d)", c)
		}
		return t.unk(s)
	}
	// vt.lastCol = true/false
	if s.Tok == token.ASSIGN && t.src(lhs) == "vt.lastCol" {
		switch t.src(rhs) {
		case "true":
			return "(.setLastCol true)"
		case "false":
			return "(.setLastCol false)"
		}
		return t.unk(s)
	}
	// line := vt.activeScreen[row]
	if s.Tok == token.DEFINE {
		if id, ok := lhs.(*ast.Ident); ok {
			if ix, ok := rhs.(*ast.IndexExpr); ok && t.src(ix.X) == "vt.activeScreen" {
				r, ok := t.expr(ix.Index)
				if _, dup := t.alias[id.Name]; ok && !dup && t.loopIndex(id.Name) < 0 && len(t.loops) == 0 {
					if _, isLocal := t.locals[id.Name]; !isLocal {
						// the alias stays valid only while the row expression keeps its value: require a local
						// or a literal that is not reassigned later (checked by noAssignTo below)
						t.alias[id.Name] = ix.Index
						return "(.touchRow " + r + ")"
					}
				}
				return t.unk(s)
			}
		}
	}
	// bool locals hold 0/1
	if s.Tok == token.ASSIGN {
		if id, ok := lhs.(*ast.Ident); ok && t.bools[id.Name] && t.loopIndex(id.Name) < 0 {
			switch t.src(rhs) {
			case "true":
				return fmt.Sprintf("(.assign (.var %d) (.lit 1))", t.locals[id.Name])
			case "false":
				return fmt.Sprintf("(.assign (.var %d) (.lit 0))", t.locals[id.Name])
			}
			if !(t.oldCell != "" && t.src(rhs) == t.oldCell+".wrapped") {
				return t.unk(s)
			}
		}
	}
	// b := false / b := true (a bool local, held as 0/1)
	if s.Tok == token.DEFINE && len(t.loops) == 0 {
		if id, ok := lhs.(*ast.Ident); ok && (t.src(rhs) == "false" || t.src(rhs) == "true") {
			if k, ok := t.declare(id.Name); ok {
				t.bools[id.Name] = true
				if t.src(rhs) == "true" {
					return fmt.Sprintf("(.assign (.var %d) (.lit 1))", k)
				}
				return fmt.Sprintf("(.assign (.var %d) (.lit 0))", k)
			}
			return t.unk(s)
		}
	}
	// resize(): cell := primary[r][c]; vt.cursor.Style = cell.Style; wrapped = cell.wrapped
	if t.oldVar != "" && len(t.loops) == 0 {
		if id, ok := lhs.(*ast.Ident); ok && s.Tok == token.DEFINE && t.oldCell == "" {
			if ix, ok := rhs.(*ast.IndexExpr); ok {
				if in, ok := ix.X.(*ast.IndexExpr); ok && t.src(in.X) == t.oldVar {
					r, ok1 := t.expr(in.Index)
					c, ok2 := t.expr(ix.Index)
					if _, isLocal := t.locals[id.Name]; ok1 && ok2 && !isLocal && id.Name != "_" {
						t.oldCell = id.Name
						return fmt.Sprintf("(.loadOldCell %s %s)", r, c)
					}
				}
			}
		}
		if s.Tok == token.ASSIGN && t.oldCell != "" {
			if t.src(lhs) == "vt.cursor.Style" && t.src(rhs) == t.oldCell+".Style" {
				return ".penFromCell"
			}
			if id, ok := lhs.(*ast.Ident); ok && t.bools[id.Name] && t.src(rhs) == t.oldCell+".wrapped" {
				return fmt.Sprintf("(.assignCellWrapped %d)", t.locals[id.Name])
			}
		}
	}
	// the glyph cell of print(): cell := cell{Cell: vaxis.Cell{Character: {seq.Grapheme, seq.Width}, Style: vt.cursor.Style}}
	if s.Tok == token.DEFINE && t.seqName != "" && t.glyph == "" {
		if id, ok := lhs.(*ast.Ident); ok {
			want := "cell{ Cell: vaxis.Cell{ Character: vaxis.Character{ Grapheme: " + t.seqName + ".Grapheme, Width: " + t.seqName + ".Width, }, Style: vt.cursor.Style, }, }"
			if t.src(rhs) == want {
				if _, isLocal := t.locals[id.Name]; !isLocal && t.loopIndex(id.Name) < 0 {
					t.glyph = id.Name
					return ".skip"
				}
			}
		}
	}
	// tab-stop slices
	if len(t.loops) == 0 {
		l, r := t.src(lhs), t.src(rhs)
		if id, ok := lhs.(*ast.Ident); ok && s.Tok == token.DEFINE && r == "[]column{}" && t.tabsAcc == "" && t.tabVar == "" && t.tabIdx == "" {
			if _, isLocal := t.locals[id.Name]; !isLocal {
				t.tabsAcc = id.Name
				return ".tabsNew"
			}
		}
		if s.Tok == token.ASSIGN && t.tabsAcc != "" && l == t.tabsAcc && t.tabVar != "" && r == "append("+t.tabsAcc+", "+t.tabVar+")" {
			return ".tabsAppendTab"
		}
		if s.Tok == token.ASSIGN && l == "vt.tabStop" && t.tabVar == "" && t.tabIdx == "" {
			switch {
			case t.tabsAcc != "" && r == t.tabsAcc:
				return ".tabsStore"
			case r == "[]column{}":
				return ".tabsClear"
			case r == "append(vt.tabStop, vt.cursor.col)":
				return ".tabsPushCol"
			}
		}
	}
	// vt.mode.<field> = true / false
	if s.Tok == token.ASSIGN && len(t.loops) == 0 {
		if l := t.src(lhs); strings.HasPrefix(l, "vt.mode.") && modeFieldNames[l[len("vt.mode."):]] {
			switch t.src(rhs) {
			case "true":
				return "(.setMode ." + l[len("vt.mode."):] + " true)"
			case "false":
				return "(.setMode ." + l[len("vt.mode."):] + " false)"
			}
		}
	}
	// the saved-cursor record of decsc() / decrc(), and the whole-struct resets of ris()
	if len(t.loops) == 0 && t.tabVar == "" && t.tabIdx == "" {
		l, r := t.src(lhs), t.src(rhs)
		if id, ok := lhs.(*ast.Ident); ok && s.Tok == token.DEFINE && t.stateVar == "" && r == stateCaptureSrc {
			if _, isLocal := t.locals[id.Name]; !isLocal && id.Name != "_" {
				t.stateVar = id.Name
				return "(.prim .stateCapture)"
			}
		}
		if s.Tok == token.ASSIGN && t.stateVar != "" {
			st := t.stateVar
			switch {
			case l == "vt.altState" && r == st:
				return "(.prim .stateStoreAlt)"
			case l == "vt.primaryState" && r == st:
				return "(.prim .stateStorePrimary)"
			case l == st && r == "vt.altState":
				return "(.prim .stateLoadAlt)"
			case l == st && r == "vt.primaryState":
				return "(.prim .stateLoadPrimary)"
			case l == "vt.cursor" && r == st+".cursor":
				return "(.prim .cursorFromState)"
			case l == "vt.charsets" && r == strings.ReplaceAll(charsetsFromStateSrc, "STATE", st):
				return "(.prim .charsetsFromState)"
			case l == "vt.mode.decawm" && r == st+".decawm":
				return "(.prim .decawmFromState)"
			case l == "vt.mode.decom" && r == st+".decom":
				return "(.prim .decomFromState)"
			}
		}
		if s.Tok == token.ASSIGN {
			switch {
			case l == "vt.charsets" && r == charsetsResetSrc:
				return "(.prim .charsetsReset)"
			case l == "vt.mode" && r == modeResetSrc:
				return "(.prim .modeReset)"
			case l == "vt.cursor.Style" && r == "vaxis.Style{}":
				return "(.prim .penReset)"
			case l == "vt.primaryState" && r == savedResetSrc:
				return "(.prim .savedPReset)"
			case l == "vt.altState" && r == savedResetSrc:
				return "(.prim .savedAReset)"
			case l == "vt.activeScreen" && r == "vt.altScreen":
				return "(.prim .activeAlt)"
			case l == "vt.activeScreen" && r == "vt.primaryScreen":
				return "(.prim .activePrimary)"
			}
		}
	}
	// inline arms: character sets, cursor style
	if s.Tok == token.ASSIGN && len(t.loops) == 0 {
		l, r := t.src(lhs), t.src(rhs)
		gsets := map[string]int{"g0": 0, "g1": 1, "g2": 2, "g3": 3}
		switch {
		case l == "vt.charsets.singleShift" && (r == "true" || r == "false"):
			return "(.setSS " + r + ")"
		case l == "vt.charsets.selected":
			if k, ok := gsets[r]; ok {
				return fmt.Sprintf("(.setSel %d)", k)
			}
		case strings.HasPrefix(l, "vt.charsets.designations[") && strings.HasSuffix(l, "]"):
			k, ok := gsets[l[len("vt.charsets.designations["):len(l)-1]]
			v, ok2 := map[string]int{"ascii": 0, "decSpecialAndLineDrawing": 1}[r]
			if ok && ok2 {
				return fmt.Sprintf("(.setDesig %d %d)", k, v)
			}
		case l == "vt.cursor.style":
			if c, ok := rhs.(*ast.CallExpr); ok && t.src(c.Fun) == "vaxis.CursorStyle" && len(c.Args) == 1 {
				if x, ok := t.expr(c.Args[0]); ok {
					return "(.setShape " + x + ")"
				}
			}
		}
	}
	// pen := vt.cursor.Style ... vt.cursor.Style = pen (function level only; the local is never assigned again:
	// any other statement that mentions it is outside the language)
	if len(t.loops) == 0 && t.tabVar == "" && t.tabIdx == "" {
		if id, ok := lhs.(*ast.Ident); ok && s.Tok == token.DEFINE && t.penVar == "" && t.src(rhs) == "vt.cursor.Style" {
			if _, isLocal := t.locals[id.Name]; !isLocal && id.Name != "_" {
				t.penVar = id.Name
				return "(.prim .savePen)"
			}
		}
		if s.Tok == token.ASSIGN && t.penVar != "" && t.src(lhs) == "vt.cursor.Style" && t.src(rhs) == t.penVar {
			return "(.prim .restorePen)"
		}
	}
	// ch := vt.activeScreen[r][c]
	if s.Tok == token.DEFINE && t.cellVar == "" && len(t.loops) == 0 {
		if id, ok := lhs.(*ast.Ident); ok {
			if r, c, ok := t.cellPlace(rhs); ok {
				if _, isLocal := t.locals[id.Name]; !isLocal && t.loopIndex(id.Name) < 0 {
					t.cellVar = id.Name
					return fmt.Sprintf("(.loadCell %s %s)", r, c)
				}
			}
		}
	}
	// <cell place>.Character = ch.Character
	if s.Tok == token.ASSIGN && t.cellVar != "" && t.src(rhs) == t.cellVar+".Character" {
		if sel, ok := lhs.(*ast.SelectorExpr); ok && sel.Sel.Name == "Character" {
			if r, c, ok := t.cellPlace(sel.X); ok {
				return fmt.Sprintf("(.setCharFromCell %s %s)", r, c)
			}
		}
	}
	// fields of a cell
	if s.Tok == token.ASSIGN {
		if sel, ok := lhs.(*ast.SelectorExpr); ok {
			full := t.src(sel)
			for _, fld := range []struct{ suffix, rhs, ctor string }{
				{".wrapped", "true", ".setWrapped"},
				{".Character.Grapheme", "\" \"", ".setSpace"},
				{".Style", "vt.cursor.Style", ".setPen"},
			} {
				if strings.HasSuffix(full, fld.suffix) && t.src(rhs) == fld.rhs {
					// strip the field path to get the cell place
					var base ast.Expr = sel
					for n := strings.Count(fld.suffix, "."); n > 0; n-- {
						base = base.(*ast.SelectorExpr).X
					}
					if r, c, ok := t.cellPlace(base); ok {
						return fmt.Sprintf("(%s %s %s)", fld.ctor, r, c)
					}
				}
			}
		}
	}
	// cell statements
	if s.Tok == token.ASSIGN {
		if r, c, ok := t.cellPlace(lhs); ok {
			if id, ok := rhs.(*ast.Ident); ok && t.glyph != "" && id.Name == t.glyph {
				return fmt.Sprintf("(.putGlyph %s %s (.loc (.var %d)))", r, c, t.locals[t.seqName+".Width"])
			}
			if r2, c2, ok := t.cellPlace(rhs); ok {
				return fmt.Sprintf("(.cellCopy %s %s %s %s)", r, c, r2, c2)
			}
			if t.src(rhs) == "cell{}" {
				return fmt.Sprintf("(.cellZero %s %s)", r, c)
			}
			return t.unk(s)
		}
	}
	// integer places
	x, ok := t.expr(rhs)
	if !ok {
		return t.unk(s)
	}
	if s.Tok == token.DEFINE {
		id, ok := lhs.(*ast.Ident)
		if !ok {
			return t.unk(s)
		}
		k, ok := t.declare(id.Name)
		if !ok {
			return t.unk(s)
		}
		return fmt.Sprintf("(.assign (.var %d) %s)", k, x)
	}
	l, ok := t.loc(lhs)
	if !ok {
		return t.unk(s)
	}
	switch s.Tok {
	case token.ASSIGN:
		return fmt.Sprintf("(.assign %s %s)", l, x)
	case token.ADD_ASSIGN:
		return fmt.Sprintf("(.assign %s (.add (.loc %s) %s))", l, l, x)
	case token.SUB_ASSIGN:
		return fmt.Sprintf("(.assign %s (.sub (.loc %s) %s))", l, l, x)
	}
	return t.unk(s)
}

const (
	stateCaptureSrc      = "cursorState{ cursor: vt.cursor, decawm: vt.mode.decawm, decom: vt.mode.decom, charsets: charsets{ selected: vt.charsets.selected, saved: vt.charsets.saved, designations: map[charsetDesignator]charset{ g0: vt.charsets.designations[g0], g1: vt.charsets.designations[g1], g2: vt.charsets.designations[g2], g3: vt.charsets.designations[g3], }, }, }"
	charsetsFromStateSrc = "charsets{ selected: STATE.charsets.selected, saved: STATE.charsets.saved, designations: map[charsetDesignator]charset{ g0: STATE.charsets.designations[g0], g1: STATE.charsets.designations[g1], g2: STATE.charsets.designations[g2], g3: STATE.charsets.designations[g3], }, }"
	charsetsResetSrc     = "charsets{ selected: 0, saved: 0, designations: map[charsetDesignator]charset{ g0: ascii, g1: ascii, g2: ascii, g3: ascii, }, }"
	savedResetSrc        = "cursorState{ charsets: charsets{ designations: map[charsetDesignator]charset{ g0: ascii, g1: ascii, g2: ascii, g3: ascii, }, }, decawm: true, }"
	modeResetSrc         = "mode{ decawm: true, dectcem: true, }"
)

// constant int expression (literals, + - *, parentheses)
func constInt(e ast.Expr) (int64, bool) {
	switch x := e.(type) {
	case *ast.ParenExpr:
		return constInt(x.X)
	case *ast.BasicLit:
		if x.Kind == token.INT {
			v, err := strconv.ParseInt(x.Value, 0, 64)
			return v, err == nil
		}
	case *ast.BinaryExpr:
		a, ok1 := constInt(x.X)
		b, ok2 := constInt(x.Y)
		if ok1 && ok2 {
			switch x.Op {
			case token.ADD:
				return a + b, true
			case token.SUB:
				return a - b, true
			case token.MUL:
				return a * b, true
			}
		}
	}
	return 0, false
}

// for i := A; i < B; i += C { vt.tabStop = append(vt.tabStop, column(i)) } with constant A, B, C
func (t *btr) tabsRange(s *ast.ForStmt) (string, bool) {
	init, ok := s.Init.(*ast.AssignStmt)
	if !ok || init.Tok != token.DEFINE || len(init.Lhs) != 1 || len(init.Rhs) != 1 || len(t.loops) != 0 || s.Cond == nil || s.Post == nil {
		return "", false
	}
	v, ok := init.Lhs[0].(*ast.Ident)
	if !ok {
		return "", false
	}
	if _, shadow := t.locals[v.Name]; shadow {
		return "", false
	}
	a, ok1 := constInt(init.Rhs[0])
	c, okc := unparen(s.Cond).(*ast.BinaryExpr)
	if !ok1 || !okc || c.Op != token.LSS || t.src(c.X) != v.Name {
		return "", false
	}
	b, ok2 := constInt(c.Y)
	p, okp := s.Post.(*ast.AssignStmt)
	if !ok2 || !okp || p.Tok != token.ADD_ASSIGN || len(p.Lhs) != 1 || len(p.Rhs) != 1 || t.src(p.Lhs[0]) != v.Name {
		return "", false
	}
	st, ok3 := constInt(p.Rhs[0])
	if !ok3 || a < 0 || b < 0 || st <= 0 || len(s.Body.List) != 1 {
		return "", false
	}
	if t.src(s.Body.List[0]) != "vt.tabStop = append(vt.tabStop, column("+v.Name+"))" {
		return "", false
	}
	return fmt.Sprintf("(.tabsAppendRange %d %d %d)", a, b, st), true
}

var iteChecked = regexp.MustCompile(`\(\.nxt |\(\.cur [1-9]`)

// the constructor of an `if`: conditions that index into the parameter list relative to i are checked accesses
func iteCtor(cond string) string {
	if iteChecked.MatchString(cond) {
		return ".iteP"
	}
	return ".ite"
}

// sgr(): for i := 0; i < len(params); i += 1 { … } — the body reads params only as params[i][k], params[i+j][k],
// len(params[i]), len(params[i:]) and changes i only by `i += c`
func (t *btr) forSgr(s *ast.ForStmt) (string, bool) {
	if t.pmName == "" || t.sgrIdx != "" || len(t.loops) != 0 || t.tabVar != "" || t.tabIdx != "" || t.paramVar != "" || s.Cond == nil || s.Post == nil {
		return "", false
	}
	init, ok := s.Init.(*ast.AssignStmt)
	if !ok || init.Tok != token.DEFINE || len(init.Lhs) != 1 || len(init.Rhs) != 1 || t.src(init.Rhs[0]) != "0" {
		return "", false
	}
	v, ok := init.Lhs[0].(*ast.Ident)
	if !ok || v.Name == "_" {
		return "", false
	}
	if _, shadow := t.locals[v.Name]; shadow {
		return "", false
	}
	if t.src(s.Cond) != v.Name+" < len("+t.pmName+")" {
		return "", false
	}
	if p := t.src(s.Post); p != v.Name+" += 1" && p != v.Name+"++" {
		return "", false
	}
	// every use of i and of params inside the body is one of the relative forms (checked by expr(): anything else is unknown);
	// i is assigned only by `i += c`
	bad := false
	ast.Inspect(s.Body, func(n ast.Node) bool {
		switch a := n.(type) {
		case *ast.AssignStmt:
			for _, l := range a.Lhs {
				if id, ok := l.(*ast.Ident); ok && (id.Name == t.pmName || (id.Name == v.Name && a.Tok != token.ADD_ASSIGN)) {
					bad = true
				}
			}
		case *ast.IncDecStmt:
			if id, ok := a.X.(*ast.Ident); ok && id.Name == v.Name {
				bad = true
			}
		}
		return true
	})
	if bad {
		return "", false
	}
	t.sgrIdx = v.Name
	t.brkable = append(t.brkable, "for")
	body := t.block(s.Body.List)
	t.brkable = t.brkable[:len(t.brkable)-1]
	t.sgrIdx = ""
	return "(.forSgr\n " + body + ")", true
}

var attrNames = map[string]string{"vaxis.AttrBold": "attrBold", "vaxis.AttrDim": "attrDim", "vaxis.AttrItalic": "attrItalic",
	"vaxis.AttrBlink": "attrBlink", "vaxis.AttrReverse": "attrReverse", "vaxis.AttrInvisible": "attrInvisible",
	"vaxis.AttrStrikethrough": "attrStrikethrough"}
var ulNames = map[string]string{"vaxis.UnderlineOff": "underlineOff", "vaxis.UnderlineSingle": "underlineSingle",
	"vaxis.UnderlineDouble": "underlineDouble", "vaxis.UnderlineCurly": "underlineCurly", "vaxis.UnderlineDotted": "underlineDotted",
	"vaxis.UnderlineDashed": "underlineDashed"}
var penSlots = map[string]string{"vt.cursor.Foreground": ".fg", "vt.cursor.Background": ".bg", "vt.cursor.UnderlineColor": ".ul"}

// uint8(e) → e
func (t *btr) u8arg(e ast.Expr) (string, bool) {
	c, ok := e.(*ast.CallExpr)
	if !ok || t.src(c.Fun) != "uint8" || len(c.Args) != 1 {
		return "", false
	}
	return t.expr(c.Args[0])
}

// the pen statements of sgr()
func (t *btr) penStmt(s *ast.AssignStmt) (string, bool) {
	if len(t.loops) != 0 {
		return "", false
	}
	lhs, rhs := s.Lhs[0], s.Rhs[0]
	l, r := t.src(lhs), t.src(rhs)
	switch {
	case l == "vt.cursor.Attribute" && s.Tok == token.OR_ASSIGN && attrNames[r] != "":
		return "(.attrOn VaxisModel.Gen.TermModes." + attrNames[r] + ")", true
	case l == "vt.cursor.Attribute" && s.Tok == token.AND_NOT_ASSIGN && attrNames[r] != "":
		return "(.attrOff VaxisModel.Gen.TermModes." + attrNames[r] + ")", true
	case l == "vt.cursor.Attribute" && s.Tok == token.ASSIGN && r == "0":
		return ".attrClear", true
	case l == "vt.cursor.UnderlineStyle" && s.Tok == token.ASSIGN && ulNames[r] != "":
		return "(.setUl VaxisModel.Gen.TermModes." + ulNames[r] + ")", true
	}
	if slot, ok := penSlots[l]; ok && s.Tok == token.ASSIGN {
		if r == "0" {
			return "(.setCol " + slot + " .zero)", true
		}
		if c, ok := rhs.(*ast.CallExpr); ok {
			switch {
			case t.src(c.Fun) == "vaxis.IndexColor" && len(c.Args) == 1:
				if a, ok := t.u8arg(c.Args[0]); ok {
					return "(.setCol " + slot + " (.index " + a + "))", true
				}
			case t.src(c.Fun) == "vaxis.RGBColor" && len(c.Args) == 3:
				a, ok1 := t.u8arg(c.Args[0])
				b, ok2 := t.u8arg(c.Args[1])
				d, ok3 := t.u8arg(c.Args[2])
				if ok1 && ok2 && ok3 {
					return "(.setCol " + slot + " (.rgb " + a + " " + b + " " + d + "))", true
				}
			}
		}
	}
	return "", false
}

// a function-level loop over the local snapshot of the old primary screen:
// for v := lo; v < len(primary) | len(primary[0]); v += 1 { function-level statements }
func (t *btr) forS(s *ast.ForStmt) (string, bool) {
	if t.oldVar == "" || len(t.loops) != 0 || t.tabVar != "" || t.tabIdx != "" || t.paramVar != "" || s.Cond == nil || s.Post == nil {
		return "", false
	}
	init, ok := s.Init.(*ast.AssignStmt)
	if !ok || init.Tok != token.DEFINE || len(init.Lhs) != 1 || len(init.Rhs) != 1 {
		return "", false
	}
	v, ok := init.Lhs[0].(*ast.Ident)
	if !ok || !strings.Contains(t.src(s.Cond), t.oldVar) {
		return "", false
	}
	if p := t.src(s.Post); p != v.Name+" += 1" && p != v.Name+"++" {
		return "", false
	}
	lo, ok := t.expr(init.Rhs[0])
	if !ok {
		return "", false
	}
	k, ok := t.declare(v.Name)
	if !ok {
		return "", false
	}
	b, ok := t.bound(s.Cond, v.Name)
	if !ok {
		return "", false
	}
	// the loop variable must not be assigned in the body
	bad := false
	ast.Inspect(s.Body, func(n ast.Node) bool {
		switch a := n.(type) {
		case *ast.AssignStmt:
			for _, l := range a.Lhs {
				if id, ok := l.(*ast.Ident); ok && (id.Name == v.Name || id.Name == t.oldVar) {
					bad = true
				}
			}
		case *ast.IncDecStmt:
			if id, ok := a.X.(*ast.Ident); ok && id.Name == v.Name {
				bad = true
			}
		}
		return true
	})
	if bad {
		return "", false
	}
	t.brkable = append(t.brkable, "for")
	body := t.block(s.Body.List)
	t.brkable = t.brkable[:len(t.brkable)-1]
	return fmt.Sprintf("(.forS %d %s %s\n %s)", k, lo, b, body), true
}

// statements of resize() recognised as a whole (by their whitespace-normalised source text)
func (t *btr) resizeStmt(s ast.Stmt) (string, bool) {
	if (t.fnName != "resize" && t.fnName != "ris") || len(t.loops) != 0 {
		return "", false
	}
	w, okw := t.locals["w"]
	h, okh := t.locals["h"]
	if !okw || !okh {
		return "", false
	}
	W := fmt.Sprintf("(.loc (.var %d))", w)
	H := fmt.Sprintf("(.loc (.var %d))", h)
	switch t.src(s) {
	case "primary := vt.primaryScreen":
		if _, isLocal := t.locals["primary"]; !isLocal && t.oldVar == "" {
			t.oldVar = "primary"
			return "(.prim .snapshotPrimary)", true
		}
	case "vt.altScreen = make([][]cell, h)":
		return "(.allocAlt " + H + ")", true
	case "vt.primaryScreen = make([][]cell, h)":
		return "(.allocPrimary " + H + ")", true
	case "for i := range vt.altScreen { vt.altScreen[i] = make([]cell, w) vt.primaryScreen[i] = make([]cell, w) }":
		return "(.fillRows " + W + ")", true
	case "for _, st := range []*cursorState{&vt.primaryState, &vt.altState} { if st.cursor.row > row(h)-1 { st.cursor.row = row(h) - 1 } if st.cursor.col > column(w)-1 { st.cursor.col = column(w) - 1 } }":
		return "(.clampSaved " + H + " " + W + ")", true
	case "vt.activeScreen = vt.primaryScreen":
		return "(.prim .activePrimary)", true
	case "switch vt.mode.smcup { case false: vt.activeScreen = vt.primaryScreen default: vt.activeScreen = vt.altScreen }":
		return "(.prim .activeBySmcup)", true
	}
	return "", false
}

func (t *btr) stmt(s ast.Stmt) string {
	if r, ok := t.resizeStmt(s); ok {
		return r
	}
	switch x := s.(type) {
	case *ast.EmptyStmt:
		return ".skip"
	case *ast.BlockStmt:
		return t.block(x.List)
	case *ast.AssignStmt:
		return t.assign(x)
	case *ast.IncDecStmt:
		l, ok := t.loc(x.X)
		if !ok {
			return t.unk(s)
		}
		op := ".add"
		if x.Tok == token.DEC {
			op = ".sub"
		}
		return fmt.Sprintf("(.assign %s (%s (.loc %s) (.lit 1)))", l, op, l)
	case *ast.DeclStmt:
		gd, ok := x.Decl.(*ast.GenDecl)
		if !ok || gd.Tok != token.VAR {
			return t.unk(s)
		}
		var parts []string
		for _, sp := range gd.Specs {
			vs := sp.(*ast.ValueSpec)
			ty := t.src(vs.Type)
			if ty == "cursorState" && len(vs.Values) == 0 && len(vs.Names) == 1 && t.stateVar == "" && len(t.loops) == 0 && len(gd.Specs) == 1 {
				if _, isLocal := t.locals[vs.Names[0].Name]; !isLocal && vs.Names[0].Name != "_" {
					t.stateVar = vs.Names[0].Name
					return "(.prim .stateZero)"
				}
			}
			if len(vs.Values) != 0 || (ty != "row" && ty != "column" && ty != "int" && ty != "bool") {
				return t.unk(s)
			}
			for _, n := range vs.Names {
				k, ok := t.declare(n.Name)
				if !ok {
					return t.unk(s)
				}
				if ty == "bool" {
					t.bools[n.Name] = true
				}
				parts = append(parts, fmt.Sprintf("(.assign (.var %d) (.lit 0))", k))
			}
		}
		return seq(parts)
	case *ast.IfStmt:
		return t.ifStmt(x)
	case *ast.SwitchStmt:
		return t.switchStmt(x)
	case *ast.ForStmt:
		return t.forStmt(x)
	case *ast.RangeStmt:
		return t.rangeStmt(x)
	case *ast.ReturnStmt:
		if len(x.Results) == 0 {
			return ".ret"
		}
		return t.unk(s)
	case *ast.BranchStmt:
		if x.Label != nil || len(t.brkable) == 0 {
			return t.unk(s)
		}
		switch x.Tok {
		case token.BREAK:
			if t.brkable[len(t.brkable)-1] == "for" {
				return ".brk"
			}
		case token.CONTINUE:
			// continue targets the innermost for, through any switch
			for i := len(t.brkable) - 1; i >= 0; i-- {
				if t.brkable[i] == "for" {
					if i == len(t.brkable)-1 {
						return ".cont"
					}
					break
				}
			}
		}
		return t.unk(s)
	case *ast.ExprStmt:
		call, ok := x.X.(*ast.CallExpr)
		if !ok {
			return t.unk(s)
		}
		fun := t.src(call.Fun)
		if t.shadowOK && len(t.loops) == 0 {
			switch {
			case fun == "vt.postEvent" && len(call.Args) == 1:
				return ".post"
			case fun == "vt.pty.WriteString" && len(call.Args) == 1 && t.respVar != "" && t.src(call.Args[0]) == t.respVar:
				return "(.reply .sendResp)"
			case fun == "vt.vx.ClipboardPush" && len(call.Args) == 1 && t.decVar != "" && t.src(call.Args[0]) == "string("+t.decVar+")":
				return ".clipPush"
			}
		}
		if t.replyMode && len(t.loops) == 0 && len(call.Args) == 1 {
			_, argIsLit := call.Args[0].(*ast.BasicLit)
			arg := t.src(call.Args[0])
			switch {
			case fun == "vt.postEvent":
				return ".post"
			case t.respVar != "" && fun == t.respVar+".WriteString" && argIsLit:
				if l, ok := replyLit(call.Args[0]); ok {
					return "(.reply (.append " + l + "))"
				}
			case fun == "vt.pty.WriteString" && argIsLit:
				if l, ok := replyLit(call.Args[0]); ok {
					return "(.reply (.sendLit " + l + "))"
				}
			case fun == "vt.pty.WriteString" && t.respVar != "" && (arg == t.respVar || arg == t.respVar+".String()"):
				return "(.reply .sendResp)"
			}
		}
		if fun == "log.Error" && len(call.Args) == 1 {
			if _, isStr := call.Args[0].(*ast.BasicLit); isStr {
				return ".logErr"
			}
		}
		// fmt.Fprintf(vt.pty, …): a reply to the child, no state change (arguments must be in the language)
		if fun == "fmt.Fprintf" && len(call.Args) >= 2 && t.src(call.Args[0]) == "vt.pty" && len(t.loops) == 0 {
			if f, xs, good := t.replyFmt(call.Args[1], call.Args[2:]); good {
				return "(.reply (.fprintf " + f + " " + xs + "))"
			}
		}
		// resize(): vt.print(ansi.Print{Grapheme: cell.Character.Grapheme, Width: cell.Character.Width})
		if fun == "vt.print" && t.oldCell != "" && len(t.loops) == 0 && len(call.Args) == 1 &&
			t.src(call.Args[0]) == "ansi.Print{ Grapheme: "+t.oldCell+".Character.Grapheme, Width: "+t.oldCell+".Character.Width, }" {
			return ".printCell"
		}
		// copy(vt.activeScreen[d], vt.activeScreen[s])
		if fun == "copy" && len(call.Args) == 2 {
			d, ok1 := t.rowPlace(call.Args[0])
			sr, ok2 := t.rowPlace(call.Args[1])
			if ok1 && ok2 {
				return fmt.Sprintf("(.copyRow %s %s)", d, sr)
			}
			return t.unk(s)
		}
		if sel, ok := call.Fun.(*ast.SelectorExpr); ok {
			// <cell place>.erase(vt.cursor.Style.Background)
			if sel.Sel.Name == "erase" && len(call.Args) == 1 && t.src(call.Args[0]) == "vt.cursor.Style.Background" {
				if r, c, ok := t.cellPlace(sel.X); ok {
					return fmt.Sprintf("(.erase %s %s)", r, c)
				}
				return t.unk(s)
			}
			// vt.f() / vt.f(arg)
			if id, ok := sel.X.(*ast.Ident); ok && id.Name == "vt" && knownCallees[sel.Sel.Name] {
				switch len(call.Args) {
				case 0:
					return fmt.Sprintf("(.call .%s none)", sel.Sel.Name)
				case 1:
					if a, ok := t.expr(call.Args[0]); ok {
						return fmt.Sprintf("(.call .%s (some %s))", sel.Sel.Name, a)
					}
				}
			}
		}
		return t.unk(s)
	}
	return t.unk(s)
}

var modeFieldNames = map[string]bool{}

type bodySpec struct {
	file, fn string
}

func newTr(c *ex.Ctx) *btr {
	return &btr{c: c, locals: map[string]int{}, alias: map[string]ast.Expr{}, bools: map[string]bool{}, strLocals: map[string]int{}}
}

func (t *btr) params(fl *ast.FieldList) bool {
	if fl == nil {
		return true
	}
	for _, f := range fl.List {
		ty := t.src(f.Type)
		for _, n := range f.Names {
			switch ty {
			case "int", "row", "column":
				if _, ok := t.declare(n.Name); !ok {
					return false
				}
			case "ansi.Print":
				if t.seqName != "" {
					return false
				}
				t.seqName = n.Name
				if _, ok := t.declare(n.Name + ".Width"); !ok {
					return false
				}
			case "string":
				if t.strCount != 0 {
					return false
				}
				t.shadowOK = true
				t.scopes = append(t.scopes, map[string]bool{})
				if _, ok := t.declareStr(n.Name); !ok {
					return false
				}
			case "[][]int":
				if t.pmName != "" {
					return false
				}
				t.pmName = n.Name
			default:
				return false
			}
		}
	}
	return true
}

func genBodies(c *ex.Ctx) {
	var sb strings.Builder
	sb.WriteString("import VaxisModel.Model.EmuBodyLang\n\nnamespace VaxisModel.Gen.TermBodies\nopen VaxisModel.Model.EmuBody\n\n")
	sb.WriteString("/-! Bodies of the control functions of widgets/term, translated statement by statement\n    (extract/cmd/C05/bodies.go). `Stmt.unknown` = a statement outside the restricted language. -/\n")

	if f := c.Parse("widgets/term/mode.go"); f != nil {
		for _, d := range f.Decls {
			gd, ok := d.(*ast.GenDecl)
			if !ok || gd.Tok != token.TYPE {
				continue
			}
			for _, sp := range gd.Specs {
				ts := sp.(*ast.TypeSpec)
				st, ok := ts.Type.(*ast.StructType)
				if !ok || ts.Name.Name != "mode" {
					continue
				}
				for _, fl := range st.Fields.List {
					for _, n := range fl.Names {
						modeFieldNames[n.Name] = true
					}
				}
			}
		}
	}

	specs := []bodySpec{
		{"csi.go", "ich"}, {"csi.go", "cuu"}, {"csi.go", "cud"}, {"csi.go", "cuf"}, {"csi.go", "cub"},
		{"csi.go", "cnl"}, {"csi.go", "cpl"}, {"csi.go", "cha"}, {"csi.go", "cup"}, {"csi.go", "cht"},
		{"csi.go", "ed"}, {"csi.go", "el"}, {"csi.go", "il"}, {"csi.go", "dl"}, {"csi.go", "dch"},
		{"csi.go", "ech"}, {"csi.go", "cbt"}, {"csi.go", "tbc"}, {"csi.go", "vpa"}, {"csi.go", "vpr"},
		{"csi.go", "hpa"}, {"csi.go", "hpr"}, {"csi.go", "rep"}, {"csi.go", "decstbm"},
		{"esc.go", "ind"}, {"esc.go", "nel"}, {"esc.go", "ri"}, {"esc.go", "hts"},
		{"c0.go", "bs"}, {"c0.go", "ht"}, {"c0.go", "lf"}, {"c0.go", "vt"}, {"c0.go", "ff"}, {"c0.go", "cr"},
		{"term.go", "scrollUp"}, {"term.go", "scrollDown"}, {"term.go", "print"}, {"term.go", "resize"},
		{"esc.go", "decsc"}, {"esc.go", "decrc"}, {"esc.go", "ris"}, {"esc.go", "setDefaultTabStops"},
		{"sgr.go", "sgr"}, {"osc.go", "osc"},
		{"mode.go", "sm"}, {"mode.go", "rm"}, {"mode.go", "decset"}, {"mode.go", "decrst"}, {"mode.go", "decrqm"},
	}
	files := map[string]*ast.File{}
	var names []string
	emit := func(name string, t *btr, body string) {
		fmt.Fprintf(&sb, "\ndef stmt_%s : Stmt :=\n %s\n", name, body)
		fmt.Fprintf(&sb, "/-- locals: %s; statements outside the language: %d -/\n", strings.Join(t.order, " "), t.unknown)
		fmt.Fprintf(&sb, "def body_%s : Body := { name := %s, nlocals := %d, stmt := stmt_%s }\n", name, ex.LeanStr(name), len(t.order), name)
		names = append(names, name)
	}
	for _, sp := range specs {
		f, ok := files[sp.file]
		if !ok {
			f = c.Parse("widgets/term/" + sp.file)
			files[sp.file] = f
		}
		if f == nil {
			continue
		}
		fd := ex.FindFunc(f, "Model", sp.fn)
		t := newTr(c)
		t.fnName = sp.fn
		if fd == nil || fd.Body == nil {
			// a vanished function is a body that is entirely unknown (the theorems about it break)
			t.unknown = 1
			emit(sp.fn, t, "(.unknown \"function not found\")")
			continue
		}
		var body string
		if !t.params(fd.Type.Params) || (fd.Type.Results != nil && len(fd.Type.Results.List) > 0) {
			body = t.unk(fd.Body)
		} else {
			body = t.block(fd.Body.List)
		}
		emit(sp.fn, t, body)
	}
	// inline arms of the dispatchers that contain code
	type inl struct{ file, fn, tag, label, name string }
	inlines := []inl{
		{"csi.go", "csi", "csi", "\"S\"", "csi_su"}, {"csi.go", "csi", "csi", "\"T\"", "csi_sd"},
		{"csi.go", "csi", "csi", "\" q\"", "csi_arm_2071"},
		{"esc.go", "esc", "esc", "\"N\"", "esc_arm_4e"}, {"esc.go", "esc", "esc", "\"O\"", "esc_arm_4f"},
		{"esc.go", "esc", "esc", "\"=\"", "esc_arm_3d"}, {"esc.go", "esc", "esc", "\">\"", "esc_arm_3e"},
		{"esc.go", "esc", "esc", "\"(0\"", "esc_arm_2830"}, {"esc.go", "esc", "esc", "\")0\"", "esc_arm_2930"},
		{"esc.go", "esc", "esc", "\"*0\"", "esc_arm_2a30"}, {"esc.go", "esc", "esc", "\"+0\"", "esc_arm_2b30"},
		{"esc.go", "esc", "esc", "\"(B\"", "esc_arm_2842"}, {"esc.go", "esc", "esc", "\")B\"", "esc_arm_2942"},
		{"esc.go", "esc", "esc", "\"*B\"", "esc_arm_2a42"}, {"esc.go", "esc", "esc", "\"+B\"", "esc_arm_2b42"},
		{"c0.go", "c0", "r", "0x0E", "c0_arm_0e"}, {"c0.go", "c0", "r", "0x0F", "c0_arm_0f"},
		// the arms that only answer the child / post an event / are empty
		{"csi.go", "csi", "csi", "\"c\"", "csi_arm_63"}, {"csi.go", "csi", "csi", "\">c\"", "csi_arm_3e63"},
		{"csi.go", "csi", "csi", "\"n\"", "csi_arm_6e"}, {"csi.go", "csi", "csi", "\"$p\"", "csi_arm_2470"},
		{"esc.go", "esc", "esc", "\"#8\"", "esc_arm_2338"}, {"c0.go", "c0", "r", "0x07", "c0_arm_07"},
	}
	for _, want := range inlines {
		f, ok := files[want.file]
		if !ok {
			f = c.Parse("widgets/term/" + want.file)
			files[want.file] = f
		}
		t := newTr(c)
		body := ""
		found := false
		if f != nil {
			if fd := ex.FindFunc(f, "Model", want.fn); fd != nil {
				if want.fn == "csi" {
					t.pmName = "params" // csi(csi string, params [][]int)
				}
				t.replyMode = true
				if sw := findSwitch(fd, want.tag, c); sw != nil {
					for _, st := range sw.Body.List {
						cc := st.(*ast.CaseClause)
						for _, l := range cc.List {
							if c.Src(l) == want.label {
								body = t.block(cc.Body)
								found = true
							}
						}
					}
				}
			}
		}
		if !found {
			t.unknown = 1
			body = "(.unknown \"arm not found\")"
		}
		emit(want.name, t, body)
	}
	// csi(): the statements in front of the dispatch switch (the parameter clamp)
	genCsiPre(c, emit)
	// update(): the type switch over the kinds of parsed sequence
	genUpdate(c, &sb)
	// cutString (osc.go) is a primitive of the language (`Stmt.cut`, meaning `cutSemi`): its source text is a generated fact
	cutSrc := "not found"
	if f := c.Parse("widgets/term/osc.go"); f != nil {
		for _, d := range f.Decls {
			if fd, ok := d.(*ast.FuncDecl); ok && fd.Recv == nil && fd.Name.Name == "cutString" {
				cutSrc = strings.Join(strings.Fields(c.Src(fd)), " ")
			}
		}
	}
	fmt.Fprintf(&sb, "\n/-- osc.go cutString, whitespace-normalised -/\ndef cutStringSrc : String := %s\n", ex.LeanStr(cutSrc))
	sb.WriteString("\n/-- all translated bodies, in the order above -/\ndef bodies : List Body := [")
	for i, n := range names {
		if i > 0 {
			sb.WriteString(", ")
		}
		sb.WriteString("body_" + n)
	}
	sb.WriteString("]\n\nend VaxisModel.Gen.TermBodies\n")
	c.Write("TermBodies.lean", sb.String())
}
