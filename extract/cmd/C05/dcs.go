// Facts about the DCS (sixel) branch of update() in widgets/term/term.go: the final bytes it
// handles, the early-return guards in front of the external decoder, the size limit.
package main

import (
	"fmt"
	"go/ast"
	"go/token"
	"strings"

	"verifextract/ex"
)

func genDcsFacts(c *ex.Ctx, sb *strings.Builder) {
	f := c.Parse("widgets/term/term.go")
	if f == nil {
		return
	}
	norm := func(n ast.Node) string { return strings.Join(strings.Fields(c.Src(n)), " ") }
	maxSize := -1
	for _, d := range f.Decls {
		gd, ok := d.(*ast.GenDecl)
		if !ok || gd.Tok != token.CONST {
			continue
		}
		for _, sp := range gd.Specs {
			vs := sp.(*ast.ValueSpec)
			for i, n := range vs.Names {
				if n.Name == "maxSixelSize" && i < len(vs.Values) {
					if v, ok := intLit(vs.Values[i]); ok {
						maxSize = v
					}
				}
			}
		}
	}
	var finals []int
	var guards []string
	decoderCalled := false
	if fd := ex.FindFunc(f, "Model", "update"); fd != nil {
		ast.Inspect(fd.Body, func(n ast.Node) bool {
			cc, ok := n.(*ast.CaseClause)
			if !ok || len(cc.List) != 1 || norm(cc.List[0]) != "ansi.DCS" {
				return true
			}
			for _, st := range cc.Body {
				sw, ok := st.(*ast.SwitchStmt)
				if !ok || sw.Tag == nil || norm(sw.Tag) != "seq.Final" {
					c.Fail("%s: unexpected statement in the ansi.DCS arm of update()", c.Pos(st))
					continue
				}
				for _, arm := range sw.Body.List {
					ac := arm.(*ast.CaseClause)
					if ac.List == nil {
						c.Fail("%s: default arm in the DCS switch is not modelled", c.Pos(ac))
						continue
					}
					for _, l := range ac.List {
						bl, ok := l.(*ast.BasicLit)
						if !ok || bl.Kind != token.CHAR || len(bl.Value) != 3 {
							c.Fail("%s: DCS final is not a plain rune literal", c.Pos(l))
							continue
						}
						finals = append(finals, int(bl.Value[1]))
					}
					// leading guards `if cond { [log...] return }`
					leading := true
					for _, bs := range ac.Body {
						if is, ok := bs.(*ast.IfStmt); ok && leading && is.Init == nil && is.Else == nil && len(is.Body.List) >= 1 {
							if _, isRet := is.Body.List[len(is.Body.List)-1].(*ast.ReturnStmt); isRet {
								guards = append(guards, norm(is.Cond))
								continue
							}
						}
						leading = false
						ast.Inspect(bs, func(m ast.Node) bool {
							if call, ok := m.(*ast.CallExpr); ok && norm(call.Fun) == "sixel.NewDecoder" {
								decoderCalled = true
							}
							return true
						})
					}
				}
			}
			return false
		})
	}
	src := ""
	if fd := ex.FindFunc(f, "", "sixelTooLarge"); fd != nil {
		ast.Inspect(fd.Body, func(n ast.Node) bool {
			if vs, ok := n.(*ast.ValueSpec); ok {
				vs.Comment, vs.Doc = nil, nil
			}
			return true
		})
		src = norm(fd.Body)
	}
	fmt.Fprintf(sb, "\n/-! The DCS branch of update() (term.go). -/\n\n/-- maxSixelSize (−1 → 0 if the constant is gone) -/\ndef maxSixelSize : Nat := %d\n", max0(maxSize))
	fmt.Fprintf(sb, "/-- finals handled by `switch seq.Final` in the ansi.DCS arm -/\ndef dcsFinals : List Nat := %s\n", leanNatList(finals))
	var gs []string
	for _, g := range guards {
		gs = append(gs, ex.LeanStr(g))
	}
	fmt.Fprintf(sb, "/-- conditions of the leading `if … { return }` guards of the 'q' arm, in order -/\ndef dcsGuards : List String := [%s]\n", strings.Join(gs, ", "))
	size := false
	for _, g := range guards {
		if g == "sixelTooLarge(seq.Data)" {
			size = true
		}
	}
	fmt.Fprintf(sb, "/-- the size guard stands in front of the decoder -/\ndef dcsGuardsSize : Bool := %v\n", size && decoderCalled)
	fmt.Fprintf(sb, "/-- body of sixelTooLarge, whitespace-normalised -/\ndef sixelTooLargeSrc : String := %s\n", ex.LeanStr(src))
}

func max0(v int) int {
	if v < 0 {
		return 0
	}
	return v
}
