// Gen/TermDraw.lean — the body of (*Model).Draw (widgets/term/term.go) translated statement by statement into the
// small language of Model/EmuDrawLang.lean (`DStmt`; expressions and conditions are those of the statement language of
// the control functions, Model/EmuBodyLang.lean). Props/C05DrawBody.lean proves `evalDraw stmt_Draw = Model.EmuDraw.drawG`
// for every state and window size. Anything not recognised becomes `.unknown "<text>"`; nothing here fails the extractor.
package main

import (
	"fmt"
	"go/ast"
	"go/token"
	"strings"

	"verifextract/ex"
)

type dtr struct {
	t       *btr
	win     string // name of the vaxis.Window parameter
	cell    string // local copy of a cell
	vx      string // local `vx := win.Vx`
	unknown int
	gfx     string // normalised source of the loop over vt.graphics
}

func (d *dtr) unk(n ast.Node) string {
	d.unknown++
	return "(.unknown " + ex.LeanStr(d.t.src(n)) + ")"
}

// a fresh int local (slots are never reused; a name is visible until its block ends)
func (d *dtr) declare(name string) (int, bool) {
	if name == "_" {
		return 0, false
	}
	if _, dup := d.t.locals[name]; dup {
		return 0, false
	}
	k := len(d.t.order)
	d.t.locals[name] = k
	d.t.order = append(d.t.order, name)
	return k, true
}

func (d *dtr) block(list []ast.Stmt) string {
	before := map[string]bool{}
	for k := range d.t.locals {
		before[k] = true
	}
	var parts []string
	for _, s := range list {
		parts = append(parts, d.stmt(s))
	}
	for k := range d.t.locals {
		if !before[k] {
			delete(d.t.locals, k)
		}
	}
	return seq(parts)
}

func (d *dtr) callOf(s ast.Stmt) (string, []ast.Expr) {
	if es, ok := s.(*ast.ExprStmt); ok {
		if ce, ok := es.X.(*ast.CallExpr); ok {
			return d.t.src(ce.Fun), ce.Args
		}
	}
	return "", nil
}

func (d *dtr) ifStmt(x *ast.IfStmt) string {
	if x.Init != nil {
		return d.unk(x)
	}
	t := d.t
	els := ".skip"
	if x.Else != nil {
		switch e := x.Else.(type) {
		case *ast.BlockStmt:
			els = d.block(e.List)
		case *ast.IfStmt:
			els = d.ifStmt(e)
		default:
			return d.unk(x)
		}
	}
	// if cell.Grapheme == "" { cell.Grapheme = " " }
	if d.cell != "" && x.Else == nil && t.src(x.Cond) == d.cell+".Grapheme == \"\"" && len(x.Body.List) == 1 &&
		t.src(x.Body.List[0]) == d.cell+".Grapheme = \" \"" {
		return ".spaceIfEmpty"
	}
	// if <cond> && atomicLoad(&vt.focused) { … }
	if be, ok := x.Cond.(*ast.BinaryExpr); ok && be.Op == token.LAND && t.src(be.Y) == "atomicLoad(&vt.focused)" && x.Else == nil {
		if c, ok := t.cond(be.X); ok {
			return fmt.Sprintf("(.iteFocused %s\n %s)", c, d.block(x.Body.List))
		}
		return d.unk(x)
	}
	c, ok := t.cond(x.Cond)
	if !ok {
		return d.unk(x)
	}
	return fmt.Sprintf("(.ite %s\n %s\n %s)", c, d.block(x.Body.List), els)
}

func (d *dtr) forStmt(x *ast.ForStmt) string {
	t := d.t
	// for v := lo; v < hi; [v += 1] { body }
	as, ok := x.Init.(*ast.AssignStmt)
	if !ok || as.Tok != token.DEFINE || len(as.Lhs) != 1 || len(as.Rhs) != 1 {
		return d.unk(x)
	}
	id, ok := as.Lhs[0].(*ast.Ident)
	if !ok {
		return d.unk(x)
	}
	lo, ok := t.expr(as.Rhs[0])
	if !ok {
		return d.unk(x)
	}
	saved, had := t.locals[id.Name]
	delete(t.locals, id.Name)
	k, ok := d.declare(id.Name)
	restore := func() {
		delete(t.locals, id.Name)
		if had {
			t.locals[id.Name] = saved
		}
	}
	if !ok {
		restore()
		return d.unk(x)
	}
	defer restore()
	be, ok := x.Cond.(*ast.BinaryExpr)
	if !ok || be.Op != token.LSS || t.src(be.X) != id.Name {
		return d.unk(x)
	}
	hi, ok := t.expr(be.Y)
	if !ok {
		return d.unk(x)
	}
	switch p := x.Post.(type) {
	case nil:
		// the body advances the variable itself
		return fmt.Sprintf("(.forWhile %d %s %s\n %s)", k, lo, hi, d.block(x.Body.List))
	case *ast.AssignStmt:
		if p.Tok == token.ADD_ASSIGN && len(p.Lhs) == 1 && t.src(p.Lhs[0]) == id.Name && isOne(p.Rhs[0]) {
			return fmt.Sprintf("(.forUp %d %s %s\n %s)", k, lo, hi, d.block(x.Body.List))
		}
	case *ast.IncDecStmt:
		if p.Tok == token.INC && t.src(p.X) == id.Name {
			return fmt.Sprintf("(.forUp %d %s %s\n %s)", k, lo, hi, d.block(x.Body.List))
		}
	}
	return d.unk(x)
}

func (d *dtr) stmt(s ast.Stmt) string {
	t := d.t
	switch x := s.(type) {
	case *ast.ExprStmt:
		fun, args := d.callOf(x)
		switch {
		case fun == "vt.mu.Lock" && len(args) == 0:
			return ".lock"
		case fun == "vt.Resize" && len(args) == 2:
			a, ok1 := t.expr(args[0])
			b, ok2 := t.expr(args[1])
			if ok1 && ok2 {
				return fmt.Sprintf("(.resize %s %s)", a, b)
			}
		case fun == d.win+".SetCell" && len(args) == 3 && d.cell != "" && t.src(args[2]) == d.cell+".Cell":
			a, ok1 := t.expr(args[0])
			b, ok2 := t.expr(args[1])
			if ok1 && ok2 {
				return fmt.Sprintf("(.setCell %s %s)", a, b)
			}
		case fun == d.win+".ShowCursor" && len(args) == 3 && t.src(args[2]) == "vt.cursor.style":
			a, ok1 := t.expr(args[0])
			b, ok2 := t.expr(args[1])
			if ok1 && ok2 {
				return fmt.Sprintf("(.showCursor %s %s)", a, b)
			}
		}
		return d.unk(s)
	case *ast.DeferStmt:
		if t.src(x.Call) == "vt.mu.Unlock()" {
			return ".deferUnlock"
		}
		return d.unk(s)
	case *ast.ReturnStmt:
		if len(x.Results) == 0 {
			return ".ret"
		}
		return d.unk(s)
	case *ast.IfStmt:
		return d.ifStmt(x)
	case *ast.ForStmt:
		return d.forStmt(x)
	case *ast.LabeledStmt:
		if rs, ok := x.Stmt.(*ast.RangeStmt); ok && t.src(rs.X) == "vt.graphics" && d.gfx == "" {
			d.gfx = t.src(x)
			return ".graphics"
		}
		return d.unk(s)
	case *ast.RangeStmt:
		if t.src(x.X) == "vt.graphics" && d.gfx == "" {
			d.gfx = t.src(x)
			return ".graphics"
		}
		return d.unk(s)
	case *ast.AssignStmt:
		l := make([]string, len(x.Lhs))
		for i, e := range x.Lhs {
			l[i] = t.src(e)
		}
		if len(x.Rhs) != 1 {
			return d.unk(s)
		}
		r := t.src(x.Rhs[0])
		switch {
		case len(l) == 2 && x.Tok == token.DEFINE && r == d.win+".Size()":
			a, ok1 := d.declare(l[0])
			b, ok2 := d.declare(l[1])
			if ok1 && ok2 {
				return fmt.Sprintf("(.winSize %d %d)", a, b)
			}
			return d.unk(s)
		case len(l) != 1:
			return d.unk(s)
		case l[0] == "vt.dirty" && x.Tok == token.ASSIGN && r == "false":
			return ".dirtyFalse"
		case l[0] == d.win+".Width" && x.Tok == token.ASSIGN:
			if e, ok := t.expr(x.Rhs[0]); ok {
				return "(.setWinW " + e + ")"
			}
		case l[0] == d.win+".Height" && x.Tok == token.ASSIGN:
			if e, ok := t.expr(x.Rhs[0]); ok {
				return "(.setWinH " + e + ")"
			}
		case x.Tok == token.DEFINE && r == d.win+".Vx" && d.vx == "":
			d.vx = l[0]
			return ".vxLocal"
		case x.Tok == token.ASSIGN && l[0] == "vt.vx" && d.vx != "" && r == d.vx:
			return ".setVx"
		case x.Tok == token.DEFINE && d.cell == "":
			// cell := vt.activeScreen[r][c]
			if ix, ok := x.Rhs[0].(*ast.IndexExpr); ok {
				if in, ok := ix.X.(*ast.IndexExpr); ok && t.src(in.X) == "vt.activeScreen" {
					a, ok1 := t.expr(in.Index)
					b, ok2 := t.expr(ix.Index)
					if _, isLocal := t.locals[l[0]]; ok1 && ok2 && !isLocal {
						d.cell = l[0]
						return fmt.Sprintf("(.loadCell %s %s)", a, b)
					}
				}
			}
		}
		// w := cell.Width
		if x.Tok == token.DEFINE && d.cell != "" && r == d.cell+".Width" {
			if k, ok := d.declare(l[0]); ok {
				return fmt.Sprintf("(.wFromCell %d)", k)
			}
			return d.unk(s)
		}
		// int locals: x := e, x = e, x += e
		e, ok := t.expr(x.Rhs[0])
		if !ok {
			return d.unk(s)
		}
		switch x.Tok {
		case token.DEFINE:
			if k, ok := d.declare(l[0]); ok {
				return fmt.Sprintf("(.assign %d %s)", k, e)
			}
		case token.ASSIGN, token.ADD_ASSIGN:
			if id, ok := x.Lhs[0].(*ast.Ident); ok {
				if k, ok := t.locals[id.Name]; ok {
					if x.Tok == token.ADD_ASSIGN {
						return fmt.Sprintf("(.assign %d (.add (.loc (.var %d)) %s))", k, k, e)
					}
					return fmt.Sprintf("(.assign %d %s)", k, e)
				}
			}
		}
		return d.unk(s)
	}
	return d.unk(s)
}

func genDraw(c *ex.Ctx) {
	var sb strings.Builder
	sb.WriteString("import VaxisModel.Model.EmuDrawLang\n\nnamespace VaxisModel.Gen.TermDraw\nopen VaxisModel.Model.EmuBody VaxisModel.Model.EmuDrawBody\n\n")
	sb.WriteString("/-! The body of (*Model).Draw (widgets/term/term.go), translated statement by statement (extract/cmd/C05/draw.go). -/\n")
	d := &dtr{t: newTr(c)}
	body := "(.unknown \"Draw(win vaxis.Window) not found\")"
	d.unknown = 1
	if f := c.Parse("widgets/term/term.go"); f != nil {
		if fd := ex.FindFunc(f, "Model", "Draw"); fd != nil && fd.Body != nil && fd.Type.Params != nil && len(fd.Type.Params.List) == 1 &&
			len(fd.Type.Params.List[0].Names) == 1 && d.t.src(fd.Type.Params.List[0].Type) == "vaxis.Window" {
			d.unknown = 0
			d.win = fd.Type.Params.List[0].Names[0].Name
			body = d.block(fd.Body.List)
		}
	}
	fmt.Fprintf(&sb, "\ndef stmt_Draw : DStmt :=\n %s\n", body)
	fmt.Fprintf(&sb, "/-- int locals (slots in order of declaration): %s; statements outside the language: %d -/\ndef drawUnknown : Nat := %d\n",
		strings.Join(d.t.order, " "), d.unknown, d.unknown)
	fmt.Fprintf(&sb, "\n/-- the loop over vt.graphics (sixel images; the emulator model has none), whitespace-normalised -/\ndef graphicsSrc : String := %s\n", ex.LeanStr(d.gfx))
	sb.WriteString("\nend VaxisModel.Gen.TermDraw\n")
	c.Write("TermDraw.lean", sb.String())
}
