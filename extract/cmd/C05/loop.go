// Gen/TermLoop.lean — the PTY goroutine of StartWithSize (widgets/term/term.go), translated: the `select` statements of its
// `for` loop with their arms (which channel is received from, what the arm does, what it does on an ansi.EOF item) as data of
// Model/EmuLoopLang.lean. Props/C05Loop.lean proves that the labelled transition system read off this data IS the hand-written
// one (Model/EmuEvents.lean) the "events never stall" theorems are about. Anything not recognised becomes `.unknown "<text>"`.
package main

import (
	"fmt"
	"go/ast"
	"go/token"
	"strings"

	"verifextract/ex"
)

func genLoop(c *ex.Ctx) {
	t := newTr(c)
	var sb strings.Builder
	sb.WriteString("import VaxisModel.Model.EmuLoopLang\n\nnamespace VaxisModel.Gen.TermLoop\nopen VaxisModel.Model.EmuLoop\n\n")
	sb.WriteString("/-! The goroutine started by StartWithSize (widgets/term/term.go), translated (extract/cmd/C05/loop.go). -/\n")
	var sels, pre []string
	found := false
	if f := c.Parse("widgets/term/term.go"); f != nil {
		if fd := ex.FindFunc(f, "Model", "StartWithSize"); fd != nil && fd.Body != nil {
			for _, st := range fd.Body.List {
				gs, ok := st.(*ast.GoStmt)
				if !ok {
					continue
				}
				fl, ok := gs.Call.Fun.(*ast.FuncLit)
				if !ok || found {
					continue
				}
				found = true
				for _, s := range fl.Body.List {
					fs, ok := s.(*ast.ForStmt)
					if !ok || fs.Init != nil || fs.Cond != nil || fs.Post != nil {
						pre = append(pre, t.src(s))
						continue
					}
					for _, b := range fs.Body.List {
						if sel, ok := b.(*ast.SelectStmt); ok {
							sels = append(sels, loopSelect(t, sel))
						} else {
							sels = append(sels, "{ arms := [], dflt := some [.unknown "+ex.LeanStr(t.src(b))+"] }")
						}
					}
				}
			}
		}
	}
	if !found {
		sels = append(sels, "{ arms := [], dflt := some [.unknown \"goroutine of StartWithSize not found\"] }")
	}
	sb.WriteString("\n/-- the `select` statements of the `for { … }` loop, in order -/\ndef loopSelects : List Sel := [\n  ")
	sb.WriteString(strings.Join(sels, ",\n  "))
	sb.WriteString("]\n\n/-- the statements of the goroutine in front of the loop (whitespace-normalised) -/\ndef loopPre : List String := [")
	for i, p := range pre {
		if i > 0 {
			sb.WriteString(", ")
		}
		sb.WriteString(ex.LeanStr(p))
	}
	sb.WriteString("]\n\nend VaxisModel.Gen.TermLoop\n")
	c.Write("TermLoop.lean", sb.String())
}

func actList(a []string) string { return "[" + strings.Join(a, ", ") + "]" }

// the statements of an arm; recv = the variable bound by the receive ("" if none)
func loopActs(t *btr, body []ast.Stmt, recv string) []string {
	var out []string
	for _, s := range body {
		src := t.src(s)
		switch {
		case recv != "" && src == "vt.eventHandler("+recv+")":
			out = append(out, ".handle")
		case src == "continue":
			out = append(out, ".cont")
		case src == "return":
			out = append(out, ".ret")
		case recv != "" && src == "vt.update("+recv+")":
			out = append(out, ".update")
		case src == "err := cmd.Wait()":
			out = append(out, ".wait")
		case src == "vt.eventHandler(EventClosed{ Term: vt, Error: err, })":
			out = append(out, ".handleClosed")
		case src == "vt.mu.Lock()":
			out = append(out, ".lock")
		case src == "vt.mu.Unlock()":
			out = append(out, ".unlock")
		case src == "vt.timer.Stop()":
			out = append(out, ".timerStop")
		case src == "vt.eventHandler(vaxis.Redraw{})":
			out = append(out, ".handleRedraw")
		default:
			out = append(out, "(.unknown "+ex.LeanStr(src)+")")
		}
	}
	return out
}

func loopSelect(t *btr, sel *ast.SelectStmt) string {
	var arms []string
	dflt := "none"
	for _, cl := range sel.Body.List {
		cc := cl.(*ast.CommClause)
		if cc.Comm == nil {
			dflt = "(some " + actList(loopActs(t, cc.Body, "")) + ")"
			continue
		}
		recv, ch := "", ""
		switch x := cc.Comm.(type) {
		case *ast.AssignStmt:
			if x.Tok == token.DEFINE && len(x.Lhs) == 1 && len(x.Rhs) == 1 {
				if id, ok := x.Lhs[0].(*ast.Ident); ok {
					recv = id.Name
				}
				ch = t.src(x.Rhs[0])
			}
		case *ast.ExprStmt:
			ch = t.src(x.X)
		}
		chan_ := ""
		switch ch {
		case "<-vt.events":
			chan_ = ".events"
		case "<-vt.parser.Next()":
			chan_ = ".parser"
		case "<-vt.timer.C":
			chan_ = ".timer"
		}
		if chan_ == "" {
			arms = append(arms, "{ chan := .events, eof := none, body := [.unknown "+ex.LeanStr(t.src(cc.Comm))+"] }")
			continue
		}
		eof := "none"
		body := cc.Body
		// switch seq := seq.(type) { case ansi.EOF: …; default: … } as the only statement of the parser arm
		if len(body) == 1 && recv != "" {
			if ts, ok := body[0].(*ast.TypeSwitchStmt); ok && ts.Init == nil {
				if as, ok := ts.Assign.(*ast.AssignStmt); ok && len(as.Lhs) == 1 && t.src(as.Lhs[0]) == recv && t.src(as.Rhs[0]) == recv+".(type)" &&
					len(ts.Body.List) == 2 {
					c0, c1 := ts.Body.List[0].(*ast.CaseClause), ts.Body.List[1].(*ast.CaseClause)
					if len(c0.List) == 1 && t.src(c0.List[0]) == "ansi.EOF" && c1.List == nil {
						eof = "(some " + actList(loopActs(t, c0.Body, recv)) + ")"
						body = c1.Body
					}
				}
			}
		}
		arms = append(arms, fmt.Sprintf("{ chan := %s, eof := %s, body := %s }", chan_, eof, actList(loopActs(t, body, recv))))
	}
	return "{ arms := " + actList(arms) + ", dflt := " + dflt + " }"
}
