// Extractor for C05/C06: Gen/TermModes.lean — the dispatch structure of the embedded terminal
// emulator (widgets/term): the fields of `type mode struct`, the case labels of csi()/esc()/c0()
// with the method each arm calls, the mode-number ↔ field tables of sm/rm/decset/decrst/decrqm,
// the attribute bit values, the event-channel capacity and the shape of the PTY goroutine's loop.
//
// The model (Model/Emu.lean) dispatches THROUGH these tables and matches exhaustively on the
// generated enums, so a new / re-bound / removed case label changes the model (or stops it from
// compiling) on the next run.
package main

import (
	"fmt"
	"go/ast"
	"go/token"
	"sort"
	"strconv"
	"strings"

	"verifextract/ex"
)

func main() { ex.Main([]string{"TermModes.lean", "TermBodies.lean", "TermDraw.lean", "TermLoop.lean"}, func(c *ex.Ctx) { gen(c); genBodies(c); genDraw(c); genLoop(c) }) }

type arm struct {
	label  []int  // bytes of the string label, or the single rune value for c0
	name   string // callee or arm_<hex>
	kind   string // ps | params | none | inline
	src    string
	labels string
}

func hexLabel(b []int) string {
	var sb strings.Builder
	for _, x := range b {
		fmt.Fprintf(&sb, "%02x", x)
	}
	return sb.String()
}

// classify a case body: a single statement `vt.F(ps(params))`, `vt.F(params)` or `vt.F()`.
func classify(c *ex.Ctx, body []ast.Stmt, label []int) (string, string) {
	if len(body) == 1 {
		if es, ok := body[0].(*ast.ExprStmt); ok {
			if call, ok := es.X.(*ast.CallExpr); ok {
				if sel, ok := call.Fun.(*ast.SelectorExpr); ok {
					if id, ok := sel.X.(*ast.Ident); ok && id.Name == "vt" {
						switch len(call.Args) {
						case 0:
							return sel.Sel.Name, "none"
						case 1:
							switch c.Src(call.Args[0]) {
							case "ps(params)":
								return sel.Sel.Name, "ps"
							case "params":
								return sel.Sel.Name, "params"
							}
						}
					}
				}
			}
		}
	}
	return "arm_" + hexLabel(label), "inline"
}

func findSwitch(fd *ast.FuncDecl, tag string, c *ex.Ctx) *ast.SwitchStmt {
	var out *ast.SwitchStmt
	ast.Inspect(fd.Body, func(n ast.Node) bool {
		if out != nil {
			return false
		}
		if sw, ok := n.(*ast.SwitchStmt); ok && sw.Tag != nil && c.Src(sw.Tag) == tag {
			out = sw
			return false
		}
		return true
	})
	return out
}

func intLit(e ast.Expr) (int, bool) {
	bl, ok := e.(*ast.BasicLit)
	if !ok || bl.Kind != token.INT {
		return 0, false
	}
	v, err := strconv.ParseInt(bl.Value, 0, 64)
	return int(v), err == nil
}

func dispatchArms(c *ex.Ctx, f *ast.File, fn, tag string, strLabels bool) []arm {
	fd := ex.FindFunc(f, "Model", fn)
	if fd == nil {
		c.Fail("%s: func (vt *Model) %s not found", fn, fn)
		return nil
	}
	sw := findSwitch(fd, tag, c)
	if sw == nil {
		c.Fail("%s: `switch %s` not found", fn, tag)
		return nil
	}
	var arms []arm
	for _, s := range sw.Body.List {
		cc := s.(*ast.CaseClause)
		if cc.List == nil {
			c.Fail("%s: default arm in %s() is not modelled", c.Pos(cc), fn)
			continue
		}
		for _, l := range cc.List {
			var label []int
			if strLabels {
				bl, ok := l.(*ast.BasicLit)
				if !ok || bl.Kind != token.STRING {
					c.Fail("%s: case label is not a string literal", c.Pos(l))
					continue
				}
				str, err := strconv.Unquote(bl.Value)
				if err != nil {
					c.Fail("%s: %v", c.Pos(l), err)
					continue
				}
				for _, b := range []byte(str) {
					label = append(label, int(b))
				}
			} else {
				v, ok := intLit(l)
				if !ok {
					c.Fail("%s: case label is not an integer literal", c.Pos(l))
					continue
				}
				label = []int{v}
			}
			name, kind := classify(c, cc.Body, label)
			var src []string
			for _, st := range cc.Body {
				src = append(src, c.Src(st))
			}
			arms = append(arms, arm{label: label, name: name, kind: kind, src: strings.Join(src, "; "), labels: c.Src(l)})
		}
	}
	return arms
}

func leanNatList(xs []int) string {
	var p []string
	for _, x := range xs {
		p = append(p, strconv.Itoa(x))
	}
	return "[" + strings.Join(p, ", ") + "]"
}

func emitArms(sb *strings.Builder, enum, table string, arms []arm, doc string) {
	seen := map[string]bool{}
	var names []string
	for _, a := range arms {
		if !seen[a.name] {
			seen[a.name] = true
			names = append(names, a.name)
		}
	}
	fmt.Fprintf(sb, "\n/-- %s -/\ninductive %s where\n", doc, enum)
	for _, n := range names {
		fmt.Fprintf(sb, "  | %s\n", n)
	}
	sb.WriteString("  deriving DecidableEq, Repr, Inhabited\n")
	fmt.Fprintf(sb, "\ndef %s : List (List Nat × %s × ArgKind) := [\n", table, enum)
	for i, a := range arms {
		sep := ","
		if i == len(arms)-1 {
			sep = ""
		}
		cm := a.src
		cm = strings.ReplaceAll(cm, "\n", " ")
		cm = strings.ReplaceAll(cm, "\t", "")
		if len(cm) > 90 {
			cm = cm[:90] + "…"
		}
		cm = strings.ReplaceAll(cm, "-/", "- /")
		fmt.Fprintf(sb, "  (%s, .%s, .%s)%s  -- case %s: %s\n", leanNatList(a.label), a.name, a.kind, sep, a.labels, cm)
	}
	sb.WriteString("]\n")
}

type modeArm struct {
	n     int
	field string
	val   string
}

// mode tables: `for _, param := range params { switch param[0] { case N: vt.mode.F = true } }`
func modeTable(c *ex.Ctx, f *ast.File, fn, tag string, want string) (simple []modeArm, special []int) {
	fd := ex.FindFunc(f, "Model", fn)
	if fd == nil {
		c.Fail("mode.go: %s not found", fn)
		return
	}
	sw := findSwitch(fd, tag, c)
	if sw == nil {
		c.Fail("mode.go: %s: `switch %s` not found", fn, tag)
		return
	}
	for _, s := range sw.Body.List {
		cc := s.(*ast.CaseClause)
		if cc.List == nil {
			c.Fail("%s: default arm in %s()", c.Pos(cc), fn)
			continue
		}
		for _, l := range cc.List {
			n, ok := intLit(l)
			if !ok {
				c.Fail("%s: label not an int literal", c.Pos(l))
				continue
			}
			if len(cc.Body) == 1 {
				if as, ok := cc.Body[0].(*ast.AssignStmt); ok && len(as.Lhs) == 1 && len(as.Rhs) == 1 && as.Tok == token.ASSIGN {
					lhs := c.Src(as.Lhs[0])
					rhs := c.Src(as.Rhs[0])
					if strings.HasPrefix(lhs, "vt.mode.") && rhs == want {
						simple = append(simple, modeArm{n, strings.TrimPrefix(lhs, "vt.mode."), rhs})
						continue
					}
				}
			}
			special = append(special, n)
		}
	}
	return
}

func gen(c *ex.Ctx) {
	var sb strings.Builder
	sb.WriteString("namespace VaxisModel.Gen.TermModes\n")

	// ---- mode struct
	mf := c.Parse("widgets/term/mode.go")
	if mf == nil {
		return
	}
	var fields []string
	for _, d := range mf.Decls {
		gd, ok := d.(*ast.GenDecl)
		if !ok {
			continue
		}
		for _, s := range gd.Specs {
			ts, ok := s.(*ast.TypeSpec)
			if !ok || ts.Name.Name != "mode" {
				continue
			}
			st, ok := ts.Type.(*ast.StructType)
			if !ok {
				c.Fail("mode.go: type mode is not a struct")
				return
			}
			for _, fl := range st.Fields.List {
				if c.Src(fl.Type) != "bool" {
					c.Fail("%s: mode field of type %s (only bool fields are modelled)", c.Pos(fl), c.Src(fl.Type))
				}
				for _, n := range fl.Names {
					fields = append(fields, n.Name)
				}
			}
		}
	}
	if len(fields) == 0 {
		c.Fail("mode.go: type mode struct not found")
		return
	}
	sb.WriteString("\n/-- Fields of `type mode struct` (widgets/term/mode.go) in declaration order. -/\ninductive ModeField where\n")
	for _, f := range fields {
		fmt.Fprintf(&sb, "  | %s\n", f)
	}
	sb.WriteString("  deriving DecidableEq, Repr, Inhabited\n\ndef modeFields : List ModeField := [")
	for i, f := range fields {
		if i > 0 {
			sb.WriteString(", ")
		}
		sb.WriteString("." + f)
	}
	sb.WriteString("]\n")

	emitModes := func(name string, arms []modeArm) {
		fmt.Fprintf(&sb, "\ndef %s : List (Int × ModeField) := [", name)
		for i, a := range arms {
			if i > 0 {
				sb.WriteString(", ")
			}
			fmt.Fprintf(&sb, "(%d, .%s)", a.n, a.field)
		}
		sb.WriteString("]\n")
	}
	emitInts := func(name string, xs []int, doc string) {
		fmt.Fprintf(&sb, "/-- %s -/\ndef %s : List Int := %s\n", doc, name, leanNatList(xs))
	}
	smS, smX := modeTable(c, mf, "sm", "param[0]", "true")
	rmS, rmX := modeTable(c, mf, "rm", "param[0]", "false")
	dsS, dsX := modeTable(c, mf, "decset", "param[0]", "true")
	drS, drX := modeTable(c, mf, "decrst", "param[0]", "false")
	sb.WriteString("\n/-! sm/rm/decset/decrst: arms that are exactly `vt.mode.F = true` (resp. `false`). -/\n")
	emitModes("smTable", smS)
	emitInts("smSpecial", smX, "sm() arms of any other shape")
	emitModes("rmTable", rmS)
	emitInts("rmSpecial", rmX, "rm() arms of any other shape")
	emitModes("decsetTable", dsS)
	emitInts("decsetSpecial", dsX, "decset() arms of any other shape (modelled by hand)")
	emitModes("decrstTable", drS)
	emitInts("decrstSpecial", drX, "decrst() arms of any other shape (modelled by hand)")

	// decrqm
	if fd := ex.FindFunc(mf, "Model", "decrqm"); fd != nil {
		sw := findSwitch(fd, "pd", c)
		var tab []modeArm
		var other []int
		// the status local (`ps := 0` in front of the switch): its NAME does not matter (round 5)
		stv := "ps"
		if fd.Body != nil {
			for _, st := range fd.Body.List {
				if as, ok := st.(*ast.AssignStmt); ok && as.Tok == token.DEFINE && len(as.Lhs) == 1 && len(as.Rhs) == 1 {
					if id, ok := as.Lhs[0].(*ast.Ident); ok {
						if v, ok := intLit(as.Rhs[0]); ok && v == 0 {
							stv = id.Name
							break
						}
					}
				}
			}
		}
		if sw == nil {
			c.Fail("mode.go: decrqm: switch pd not found")
		} else {
			for _, s := range sw.Body.List {
				cc := s.(*ast.CaseClause)
				for _, l := range cc.List {
					n, ok := intLit(l)
					if !ok {
						c.Fail("%s: label", c.Pos(l))
						continue
					}
					okShape := false
					if len(cc.Body) == 1 {
						if isw, ok := cc.Body[0].(*ast.SwitchStmt); ok && isw.Tag != nil {
							tag := c.Src(isw.Tag)
							body := strings.Join(strings.Fields(c.Src(isw.Body)), " ")
							if strings.HasPrefix(tag, "vt.mode.") && body == "{ case true: "+stv+" = 1 case false: "+stv+" = 2 }" {
								tab = append(tab, modeArm{n, strings.TrimPrefix(tag, "vt.mode."), ""})
								okShape = true
							}
						}
					}
					if !okShape {
						other = append(other, n)
					}
				}
			}
		}
		sb.WriteString("\n/-- decrqm(): arms `switch vt.mode.F { case true: ps = 1 case false: ps = 2 }`. -/")
		emitModes("decrqmTable", tab)
		emitInts("decrqmOther", other, "decrqm() arms of any other shape")
	} else {
		c.Fail("mode.go: decrqm not found")
	}

	// ---- dispatch
	sb.WriteString("\n/-- How a dispatch arm passes the parameters: `vt.f(ps(params))`, `vt.f(params)`, `vt.f()`, or\n    anything else (`inline`, named arm_<hex of the label>). -/\ninductive ArgKind where\n  | ps | params | none | inline\n  deriving DecidableEq, Repr, Inhabited\n")
	if f := c.Parse("widgets/term/csi.go"); f != nil {
		emitArms(&sb, "CsiArm", "csiTable", dispatchArms(c, f, "csi", "csi", true), "Arms of `switch csi` in csi() (label = intermediates ++ final).")
	}
	if f := c.Parse("widgets/term/esc.go"); f != nil {
		emitArms(&sb, "EscArm", "escTable", dispatchArms(c, f, "esc", "esc", true), "Arms of `switch esc` in esc().")
	}
	if f := c.Parse("widgets/term/c0.go"); f != nil {
		emitArms(&sb, "C0Arm", "c0Table", dispatchArms(c, f, "c0", "r", false), "Arms of `switch r` in c0() (label = the rune).")
	}

	// ---- sgr(): the case labels of `switch params[i][0]`
	if f := c.Parse("widgets/term/sgr.go"); f != nil {
		var labels []int
		if fd := ex.FindFunc(f, "Model", "sgr"); fd != nil {
			if sw := findSwitch(fd, "params[i][0]", c); sw != nil {
				for _, s := range sw.Body.List {
					cc := s.(*ast.CaseClause)
					if cc.List == nil {
						c.Fail("%s: default arm in sgr()", c.Pos(cc))
					}
					for _, l := range cc.List {
						if v, ok := intLit(l); ok {
							labels = append(labels, v)
						} else {
							c.Fail("%s: sgr case label is not an integer literal", c.Pos(l))
						}
					}
				}
			} else {
				c.Fail("sgr.go: `switch params[i][0]` not found")
			}
		} else {
			c.Fail("sgr.go: sgr not found")
		}
		fmt.Fprintf(&sb, "\n/-- Case labels of `switch params[i][0]` in sgr(), in source order. -/\ndef sgrCases : List Int := %s\n", leanNatList(labels))
	}

	// ---- attribute bits (style.go)
	if f := c.Parse("style.go"); f != nil {
		type kv struct {
			k string
			v int
		}
		var attrs, uls []kv
		for _, d := range f.Decls {
			gd, ok := d.(*ast.GenDecl)
			if !ok || gd.Tok != token.CONST {
				continue
			}
			mode := ""
			for i, s := range gd.Specs {
				vs := s.(*ast.ValueSpec)
				if len(vs.Values) == 1 {
					src := c.Src(vs.Values[0])
					switch {
					case src == "1 << iota" && c.Src(vs.Type) == "AttributeMask":
						mode = "attr"
					case src == "iota" && c.Src(vs.Type) == "UnderlineStyle":
						mode = "ul"
					default:
						if mode != "" && src != "" {
							mode = ""
						}
					}
				}
				for _, n := range vs.Names {
					switch mode {
					case "attr":
						attrs = append(attrs, kv{n.Name, 1 << uint(i)})
					case "ul":
						uls = append(uls, kv{n.Name, i})
					}
				}
			}
		}
		if len(attrs) != 7 || len(uls) != 6 {
			c.Fail("style.go: expected 7 attribute bits and 6 underline styles, found %d and %d", len(attrs), len(uls))
		}
		sb.WriteString("\n/-! Attribute bits and underline styles (style.go). -/\n")
		for _, a := range attrs {
			fmt.Fprintf(&sb, "def %s : Nat := %d\n", lowerFirst(a.k), a.v)
		}
		for _, a := range uls {
			fmt.Fprintf(&sb, "def %s : Nat := %d\n", lowerFirst(a.k), a.v)
		}
	}

	// ---- decSpecial (charset.go)
	if f := c.Parse("widgets/term/charset.go"); f != nil {
		v := ex.FindVarValue(f, "decSpecial")
		cl, ok := v.(*ast.CompositeLit)
		if !ok {
			c.Fail("charset.go: decSpecial is not a composite literal")
		} else {
			type kv struct{ k, v int }
			var kvs []kv
			for _, e := range cl.Elts {
				ke := e.(*ast.KeyValueExpr)
				k, ok1 := intLit(ke.Key)
				val, ok2 := intLit(ke.Value)
				if !ok1 || !ok2 {
					c.Fail("%s: decSpecial entry is not int: int", c.Pos(e))
					continue
				}
				kvs = append(kvs, kv{k, val})
			}
			sort.Slice(kvs, func(i, j int) bool { return kvs[i].k < kvs[j].k })
			sb.WriteString("\n/-- decSpecial: byte ↦ UTF-8 bytes of the replacement rune. -/\ndef decSpecial : List (Nat × List Nat) := [\n")
			for i, e := range kvs {
				var bs []int
				for _, b := range []byte(string(rune(e.v))) {
					bs = append(bs, int(b))
				}
				sep := ","
				if i == len(kvs)-1 {
					sep = ""
				}
				fmt.Fprintf(&sb, "  (%d, %s)%s\n", e.k, leanNatList(bs), sep)
			}
			sb.WriteString("]\n")
		}
	}

	// ---- tab stops: `for i := 8; i < (50 * 7); i += 8`
	if f := c.Parse("widgets/term/esc.go"); f != nil {
		fd := ex.FindFunc(f, "Model", "setDefaultTabStops")
		found := false
		if fd != nil {
			ast.Inspect(fd.Body, func(n ast.Node) bool {
				fs, ok := n.(*ast.ForStmt)
				if !ok {
					return true
				}
				init := strings.Join(strings.Fields(c.Src(fs.Init)), " ")
				cond := strings.Join(strings.Fields(c.Src(fs.Cond)), " ")
				post := strings.Join(strings.Fields(c.Src(fs.Post)), " ")
				if init == "i := 8" && cond == "i < (50 * 7)" && post == "i += 8" {
					found = true
				}
				return false
			})
		}
		if !found {
			c.Fail("esc.go: setDefaultTabStops loop is not `for i := 8; i < (50 * 7); i += 8`")
		}
		sb.WriteString("\n/-- setDefaultTabStops: first stop, exclusive limit, step. -/\ndef tabFirst : Nat := 8\ndef tabLimit : Nat := 350\ndef tabStep : Nat := 8\n")
	}

	// ---- event channel and PTY loop (term.go)
	if f := c.Parse("widgets/term/term.go"); f != nil {
		capv := -1
		if fd := ex.FindFunc(f, "", "New"); fd != nil {
			ast.Inspect(fd.Body, func(n ast.Node) bool {
				kv, ok := n.(*ast.KeyValueExpr)
				if !ok || c.Src(kv.Key) != "events" {
					return true
				}
				call, ok := kv.Value.(*ast.CallExpr)
				if ok && c.Src(call.Fun) == "make" && len(call.Args) == 2 {
					if v, ok := intLit(call.Args[1]); ok {
						capv = v
					}
				}
				return false
			})
		}
		if capv < 0 {
			c.Fail("term.go: New(): `events: make(chan vaxis.Event, N)` not found")
		}
		fmt.Fprintf(&sb, "\n/-- Capacity of Model.events (term.go New()). -/\ndef eventCap : Nat := %d\n", capv)
		// postEvent body
		blocking := false
		if fd := ex.FindFunc(f, "Model", "postEvent"); fd != nil && len(fd.Body.List) == 1 {
			if _, ok := fd.Body.List[0].(*ast.SendStmt); ok {
				blocking = true
			}
		}
		fmt.Fprintf(&sb, "/-- postEvent is exactly one blocking send `vt.events <- ev`. -/\ndef postEventIsPlainSend : Bool := %v\n", blocking)
		// the goroutine's loop in StartWithSize
		var arms []string
		drainFirst := false
		if fd := ex.FindFunc(f, "Model", "StartWithSize"); fd != nil {
			ast.Inspect(fd.Body, func(n ast.Node) bool {
				gs, ok := n.(*ast.GoStmt)
				if !ok {
					return true
				}
				fl, ok := gs.Call.Fun.(*ast.FuncLit)
				if !ok {
					return true
				}
				for _, st := range fl.Body.List {
					fs, ok := st.(*ast.ForStmt)
					if !ok {
						continue
					}
					for _, bs := range fs.Body.List {
						sel, ok := bs.(*ast.SelectStmt)
						if !ok {
							continue
						}
						var these []string
						hasDefault := false
						for _, cl := range sel.Body.List {
							cc := cl.(*ast.CommClause)
							if cc.Comm == nil {
								hasDefault = true
								continue
							}
							these = append(these, strings.Join(strings.Fields(c.Src(cc.Comm)), " "))
						}
						if hasDefault {
							// a non-blocking select before the main one: the priority drain
							if len(these) == 1 && these[0] == "ev := <-vt.events" {
								drainFirst = true
							} else {
								c.Fail("%s: unrecognised non-blocking select in the PTY loop", c.Pos(sel))
							}
							continue
						}
						arms = these
					}
				}
				return false
			})
		}
		want := []string{"seq := <-vt.parser.Next()", "ev := <-vt.events", "<-vt.timer.C"}
		if strings.Join(arms, "|") != strings.Join(want, "|") {
			c.Fail("term.go: PTY loop select arms are %q, expected %q", arms, want)
		}
		fmt.Fprintf(&sb, "/-- The PTY goroutine's main select has the arms parser / own events / timer. -/\ndef loopArms : Nat := %d\n", len(arms))
		fmt.Fprintf(&sb, "/-- The loop empties its own event channel (non-blocking select) before every main select. -/\ndef loopDrainsFirst : Bool := %v\n", drainFirst)
	}

	genDcsFacts(c, &sb)
	sb.WriteString("\nend VaxisModel.Gen.TermModes\n")
	c.Write("TermModes.lean", sb.String())
}

func lowerFirst(s string) string {
	if s == "" {
		return s
	}
	return strings.ToLower(s[:1]) + s[1:]
}
