// The remaining pieces of the dispatch path of widgets/term, translated from the source:
//   - the statements of csi() in front of its `switch csi` (the parameter clamp) as a Body `csi_pre`;
//   - update(): the arms of its type switch as a table `updateArms` (sequence kind -> what the arm does),
//     the statements in front of the switch (lock + defers) as normalised text.
// Anything not recognised degrades to `.unknown "<text>"`; nothing here fails the extractor.
package main

import (
	"fmt"
	"go/ast"
	"go/token"
	"strconv"
	"strings"

	"verifextract/ex"
)

// for _, param := range params { for i, p := range param { body } }
func (t *btr) pmAllRange(s *ast.RangeStmt) (string, bool) {
	if t.pmName == "" || t.pmAllVal != "" || len(t.loops) != 0 || s.Tok != token.DEFINE || t.src(s.X) != t.pmName || s.Value == nil {
		return "", false
	}
	if k, ok := s.Key.(*ast.Ident); !ok || k.Name != "_" {
		return "", false
	}
	outer, ok := s.Value.(*ast.Ident)
	if !ok || outer.Name == "_" || len(s.Body.List) != 1 {
		return "", false
	}
	in, ok := s.Body.List[0].(*ast.RangeStmt)
	if !ok || in.Tok != token.DEFINE || t.src(in.X) != outer.Name || in.Key == nil || in.Value == nil {
		return "", false
	}
	idx, ok1 := in.Key.(*ast.Ident)
	val, ok2 := in.Value.(*ast.Ident)
	if !ok1 || !ok2 || idx.Name == "_" || val.Name == "_" {
		return "", false
	}
	for _, n := range []string{outer.Name, idx.Name, val.Name} {
		if _, shadow := t.locals[n]; shadow || n == t.pmName {
			return "", false
		}
	}
	t.pmAllSlice, t.pmAllIdx, t.pmAllVal = outer.Name, idx.Name, val.Name
	body := t.block(in.Body.List)
	t.pmAllSlice, t.pmAllIdx, t.pmAllVal = "", "", ""
	return "(.forPmAll\n " + body + ")", true
}

// package-level `const name = <int literal>` declarations of a file
func intConsts(f *ast.File) map[string]int64 {
	out := map[string]int64{}
	for _, d := range f.Decls {
		gd, ok := d.(*ast.GenDecl)
		if !ok || gd.Tok != token.CONST {
			continue
		}
		for _, sp := range gd.Specs {
			vs, ok := sp.(*ast.ValueSpec)
			if !ok || len(vs.Names) != len(vs.Values) {
				continue
			}
			for i, n := range vs.Names {
				if bl, ok := vs.Values[i].(*ast.BasicLit); ok && bl.Kind == token.INT {
					if v, err := strconv.ParseInt(bl.Value, 0, 64); err == nil {
						out[n.Name] = v
					}
				}
			}
		}
	}
	return out
}

// the statements of csi() in front of `switch csi { … }`; the switch must be the last statement
func genCsiPre(c *ex.Ctx, emit func(name string, t *btr, body string)) {
	t := newTr(c)
	body := "(.unknown \"csi() not found\")"
	t.unknown = 1
	if f := c.Parse("widgets/term/csi.go"); f != nil {
		if fd := ex.FindFunc(f, "Model", "csi"); fd != nil && fd.Body != nil && fd.Type.Params != nil && len(fd.Type.Params.List) == 2 {
			p0, p1 := fd.Type.Params.List[0], fd.Type.Params.List[1]
			if len(p0.Names) == 1 && len(p1.Names) == 1 && t.src(p0.Type) == "string" && t.src(p1.Type) == "[][]int" {
				list := fd.Body.List
				n := len(list)
				var sw *ast.SwitchStmt
				if n >= 1 {
					sw, _ = list[n-1].(*ast.SwitchStmt)
				}
				if sw != nil && sw.Init == nil && sw.Tag != nil && t.src(sw.Tag) == p0.Names[0].Name {
					t.unknown = 0
					t.pmName = p1.Names[0].Name
					t.consts = intConsts(f)
					body = t.block(list[:n-1])
				} else {
					body = "(.unknown \"csi(): the dispatch switch is not the last statement\")"
				}
			}
		}
	}
	emit("csi_pre", t, body)
}

var seqKinds = map[string]string{"ansi.Print": ".print", "ansi.C0": ".c0", "ansi.ESC": ".esc", "ansi.CSI": ".csi",
	"ansi.OSC": ".osc", "ansi.DCS": ".dcs", "ansi.APC": ".apc"}

// update(): `switch seq := seq.(type) { case ansi.Print: vt.print(seq) … }`
func genUpdate(c *ex.Ctx, sb *strings.Builder) {
	t := newTr(c)
	var arms, pre []string
	last := false
	f := c.Parse("widgets/term/term.go")
	var fd *ast.FuncDecl
	if f != nil {
		fd = ex.FindFunc(f, "Model", "update")
	}
	seqName := ""
	if fd != nil && fd.Body != nil && fd.Type.Params != nil && len(fd.Type.Params.List) == 1 && len(fd.Type.Params.List[0].Names) == 1 &&
		t.src(fd.Type.Params.List[0].Type) == "ansi.Sequence" {
		seqName = fd.Type.Params.List[0].Names[0].Name
	}
	if seqName != "" {
		for i, st := range fd.Body.List {
			ts, ok := st.(*ast.TypeSwitchStmt)
			if !ok {
				pre = append(pre, t.src(st))
				continue
			}
			last = i == len(fd.Body.List)-1
			// switch seq := seq.(type)
			if as, ok := ts.Assign.(*ast.AssignStmt); !ok || ts.Init != nil || len(as.Lhs) != 1 || t.src(as.Lhs[0]) != seqName || t.src(as.Rhs[0]) != seqName+".(type)" {
				arms = append(arms, "(.print, .unknown "+ex.LeanStr("type switch: "+t.src(ts.Assign))+")")
				continue
			}
			for _, cl := range ts.Body.List {
				cc := cl.(*ast.CaseClause)
				if len(cc.List) != 1 {
					arms = append(arms, "(.print, .unknown "+ex.LeanStr("case list: "+t.src(cc))+")")
					continue
				}
				kind, ok := seqKinds[t.src(cc.List[0])]
				if !ok {
					arms = append(arms, "(.print, .unknown "+ex.LeanStr("sequence kind: "+t.src(cc.List[0]))+")")
					continue
				}
				arms = append(arms, fmt.Sprintf("(%s, %s)", kind, updateArm(t, seqName, cc.Body)))
			}
		}
	} else {
		arms = append(arms, "(.print, .unknown \"update(seq ansi.Sequence) not found\")")
	}
	sb.WriteString("\n/-- term.go update(): the arms of `switch seq := seq.(type)` -/\ndef updateArms : List (SeqKind × UArm) := [\n  ")
	sb.WriteString(strings.Join(arms, ",\n  "))
	sb.WriteString("]\n")
	sb.WriteString("/-- update(): the statements in front of the type switch (whitespace-normalised) -/\ndef updatePre : List String := [")
	for i, p := range pre {
		if i > 0 {
			sb.WriteString(", ")
		}
		sb.WriteString(ex.LeanStr(p))
	}
	sb.WriteString("]\n")
	fmt.Fprintf(sb, "/-- the type switch is the last statement of update() -/\ndef updateSwitchLast : Bool := %v\n", last)
}

// one arm of update(), recognised by the shape of its statements
func updateArm(t *btr, seq string, body []ast.Stmt) string {
	norm := make([]string, len(body))
	for i, s := range body {
		norm[i] = t.src(s)
	}
	all := strings.Join(norm, " ; ")
	unk := "(.unknown " + ex.LeanStr(all) + ")"
	call := func(s ast.Stmt) (string, []ast.Expr) {
		if es, ok := s.(*ast.ExprStmt); ok {
			if ce, ok := es.X.(*ast.CallExpr); ok {
				return t.src(ce.Fun), ce.Args
			}
		}
		return "", nil
	}
	// label := append(seq.Intermediate, seq.Final)
	label := func(s ast.Stmt) string {
		if as, ok := s.(*ast.AssignStmt); ok && as.Tok == token.DEFINE && len(as.Lhs) == 1 && len(as.Rhs) == 1 {
			if id, ok := as.Lhs[0].(*ast.Ident); ok && t.src(as.Rhs[0]) == "append("+seq+".Intermediate, "+seq+".Final)" {
				return id.Name
			}
		}
		return ""
	}
	switch len(body) {
	case 1:
		fun, args := call(body[0])
		switch {
		case fun == "vt.print" && len(args) == 1 && t.src(args[0]) == seq:
			return ".print"
		case fun == "vt.c0" && len(args) == 1 && t.src(args[0]) == "rune("+seq+")":
			return ".c0"
		case fun == "vt.osc" && len(args) == 1 && t.src(args[0]) == "string("+seq+".Payload)":
			return ".osc"
		case fun == "vt.postEvent" && len(args) == 1:
			return ".post"
		}
		if sw, ok := body[0].(*ast.SwitchStmt); ok && sw.Init == nil && sw.Tag != nil && t.src(sw.Tag) == seq+".Final" {
			// the sixel arm: its guards are the generated facts dcsGuards / dcsFinals (dcs.go)
			return ".dcs"
		}
	case 2:
		if l := label(body[0]); l != "" {
			fun, args := call(body[1])
			switch {
			case fun == "vt.esc" && len(args) == 1 && t.src(args[0]) == "string("+l+")":
				return ".esc"
			case fun == "vt.csi" && len(args) == 2 && t.src(args[0]) == "string("+l+")" && t.src(args[1]) == seq+".Parameters":
				return ".csi"
			}
		}
	}
	return unk
}
