// Extractor for C07: Gen/Palette.lean (colorIndex, flag bits, asIndex weights and operand types).
package main

import (
	"fmt"
	"verifextract/ex"
	"go/ast"
	"go/token"
	"strconv"
	"strings"
)

// Gen/Palette.lean: colorIndex, the flag bits, the three weight literals and
// the operand types of the channel subtraction in Color.asIndex.
func main() { ex.Main([]string{"Palette.lean"}, genPalette) }

func genPalette(c *ex.Ctx) {
	f := c.Parse("color.go")
	if f == nil {
		return
	}
	var sb strings.Builder
	sb.WriteString("namespace VaxisModel.Gen.Palette\n\n")

	// flag bits
	for _, nm := range []string{"indexed", "rgb"} {
		v := ex.FindVarValue(f, nm)
		be, ok := v.(*ast.BinaryExpr)
		if !ok || be.Op != token.SHL {
			c.Fail("color.go: const %s is not `1 << n`", nm)
			return
		}
		one, ok1 := be.X.(*ast.BasicLit)
		sh, ok2 := be.Y.(*ast.BasicLit)
		if !ok1 || !ok2 || one.Value != "1" {
			c.Fail("color.go: const %s is not `1 << n`", nm)
			return
		}
		fmt.Fprintf(&sb, "def %sShift : Nat := %s\n", nm, sh.Value)
	}

	// palette
	v := ex.FindVarValue(f, "colorIndex")
	cl, ok := v.(*ast.CompositeLit)
	if !ok {
		c.Fail("color.go: colorIndex is not a composite literal")
		return
	}
	sb.WriteString("\ndef palette : List Nat := [\n")
	for i, e := range cl.Elts {
		bl, ok := e.(*ast.BasicLit)
		if !ok || bl.Kind != token.INT {
			c.Fail("%s: colorIndex element %d is not an integer literal", c.Pos(e), i)
			return
		}
		n, err := strconv.ParseUint(bl.Value, 0, 32)
		if err != nil {
			c.Fail("%s: %v", c.Pos(e), err)
			return
		}
		sep := ","
		if i == len(cl.Elts)-1 {
			sep = ""
		}
		fmt.Fprintf(&sb, "  0x%06X%s\n", n, sep)
	}
	sb.WriteString("]\n")

	// asIndex: find `trial := sq(float64(A-B)*w) + ...`
	fd := ex.FindFunc(f, "Color", "asIndex")
	if fd == nil {
		c.Fail("color.go: Color.asIndex not found")
		return
	}
	var weights []string
	var operands []string
	signed := true
	ast.Inspect(fd.Body, func(n ast.Node) bool {
		as, ok := n.(*ast.AssignStmt)
		if !ok || len(as.Lhs) != 1 {
			return true
		}
		id, ok := as.Lhs[0].(*ast.Ident)
		if !ok || id.Name != "trial" {
			return true
		}
		ast.Inspect(as.Rhs[0], func(m ast.Node) bool {
			call, ok := m.(*ast.CallExpr)
			if !ok {
				return true
			}
			fn, ok := call.Fun.(*ast.Ident)
			if !ok || fn.Name != "sq" || len(call.Args) != 1 {
				return true
			}
			mul, ok := call.Args[0].(*ast.BinaryExpr)
			if !ok || mul.Op != token.MUL {
				c.Fail("%s: sq argument is not a product", c.Pos(call))
				return false
			}
			w, ok := mul.Y.(*ast.BasicLit)
			if !ok || w.Kind != token.FLOAT {
				c.Fail("%s: weight is not a float literal", c.Pos(mul))
				return false
			}
			weights = append(weights, w.Value)
			var sub *ast.BinaryExpr
			x := mul.X
			for {
				if pe, ok := x.(*ast.ParenExpr); ok {
					x = pe.X
					continue
				}
				break
			}
			if conv, ok := x.(*ast.CallExpr); ok && len(conv.Args) == 1 && c.Src(conv.Fun) == "float64" {
				sub, _ = conv.Args[0].(*ast.BinaryExpr)
			} else if be, ok := x.(*ast.BinaryExpr); ok {
				sub = be
			}
			if sub == nil || sub.Op != token.SUB {
				c.Fail("%s: expected float64(a-b) or (conv(a)-conv(b)) as the weighted term", c.Pos(mul))
				return false
			}
			operands = append(operands, c.Src(sub))
			for _, side := range []ast.Expr{sub.X, sub.Y} {
				cv, ok := side.(*ast.CallExpr)
				if !ok || len(cv.Args) != 1 {
					signed = false
					continue
				}
				switch c.Src(cv.Fun) {
				case "int", "int16", "int32", "int64", "float64":
				default:
					signed = false
				}
			}
			return false
		})
		return false
	})
	if len(weights) != 3 {
		c.Fail("color.go asIndex: expected three sq(float64(a-b)*w) terms, found %d", len(weights))
		return
	}
	// weights as hundredths
	sb.WriteString("\n/-- The three channel weights of `asIndex`, in hundredths. -/\ndef weightsE2 : List Nat := [")
	for i, w := range weights {
		fl, err := strconv.ParseFloat(w, 64)
		if err != nil {
			c.Fail("weight %s: %v", w, err)
			return
		}
		h := int(fl*100 + 0.5)
		if float64(h)/100 != fl {
			c.Fail("weight %s is not a multiple of 0.01", w)
			return
		}
		if i > 0 {
			sb.WriteString(", ")
		}
		fmt.Fprintf(&sb, "%d", h)
	}
	sb.WriteString("]\n")
	fmt.Fprintf(&sb, "\n/-- Source text of the three channel differences. -/\ndef diffExprs : List String := [%s, %s, %s]\n",
		ex.LeanStr(operands[0]), ex.LeanStr(operands[1]), ex.LeanStr(operands[2]))
	fmt.Fprintf(&sb, "\n/-- `true` iff both operands of every channel subtraction are converted to a signed/float type\n    first (otherwise the subtraction is done in `uint8` and wraps around). -/\ndef diffSigned : Bool := %v\n", signed)
	sb.WriteString("\nend VaxisModel.Gen.Palette\n")
	c.Write("Palette.lean", sb.String())
}
