// Extractor for the capability-detection half of C07: Gen/Startup.lean.
//
// Facts (statement skeletons, degrade to "?"-prefixed strings rather than fail where a shape is not recognised):
//   - New(): the arms of the select inside the start-up loop (communication, statements; the type
//     switch is summarised as "switch"), and the statements after the loop up to applyQuirks();
//   - sendQueries(): the COLORTERM switch (labels, body), the statement that calls CursorPosition and
//     the guarded assignment after it (condition, assignments);
//   - applyQuirks(): the arms of its switch (condition, assignments to vx.caps) and the
//     environment-guarded blocks (variable, assignments to vx.caps);
//   - every assignment to a field of vx.caps in the package (file, function, field, value);
//   - the Can* accessors (name, returned expression).
package main

import (
	"fmt"
	"go/ast"
	"go/token"
	"os"
	"path/filepath"
	"sort"
	"strings"
	"verifextract/ex"
)

func main() { ex.Main([]string{"Startup.lean"}, gen) }

func one(s string) string { return strings.Join(strings.Fields(s), " ") }

func strList(xs []string) string {
	var q []string
	for _, x := range xs {
		q = append(q, ex.LeanStr(x))
	}
	return "[" + strings.Join(q, ", ") + "]"
}

func pairList(name, doc string, xs [][2]string) string {
	var q []string
	for _, x := range xs {
		q = append(q, fmt.Sprintf("(%s, %s)", ex.LeanStr(x[0]), ex.LeanStr(x[1])))
	}
	return fmt.Sprintf("/-- %s -/\ndef %s : List (String × String) := [\n  %s\n]\n\n", doc, name, strings.Join(q, ",\n  "))
}

func armList(name, doc string, xs []arm) string {
	var q []string
	for _, x := range xs {
		q = append(q, fmt.Sprintf("(%s, %s)", ex.LeanStr(x.head), strList(x.body)))
	}
	return fmt.Sprintf("/-- %s -/\ndef %s : List (String × List String) := [\n  %s\n]\n\n", doc, name, strings.Join(q, ",\n  "))
}

type arm struct {
	head string
	body []string
}

// capsAssigns lists the assignments to vx.caps.<field> below n as "field = value".
func capsAssigns(c *ex.Ctx, n ast.Node) []string {
	var out []string
	ast.Inspect(n, func(x ast.Node) bool {
		as, ok := x.(*ast.AssignStmt)
		if !ok {
			return true
		}
		for i, l := range as.Lhs {
			ls := c.Src(l)
			if strings.HasPrefix(ls, "vx.caps.") && i < len(as.Rhs) {
				out = append(out, strings.TrimPrefix(ls, "vx.caps.")+" "+as.Tok.String()+" "+one(c.Src(as.Rhs[i])))
			}
		}
		return true
	})
	return out
}

func stmtSummary(c *ex.Ctx, st ast.Stmt) string {
	switch s := st.(type) {
	case *ast.TypeSwitchStmt:
		return "switch " + one(c.Src(s.Assign))
	case *ast.SwitchStmt:
		if s.Tag != nil {
			return "switch " + one(c.Src(s.Tag))
		}
		return "switch"
	case *ast.ExprStmt:
		if call, ok := s.X.(*ast.CallExpr); ok && strings.HasPrefix(c.Src(call.Fun), "log.") {
			return "log"
		}
	}
	return one(c.Src(st))
}

func gen(c *ex.Ctx) {
	f := c.Parse("vaxis.go")
	fq := c.Parse("quirks.go")
	if f == nil || fq == nil {
		return
	}
	var sb strings.Builder
	sb.WriteString("namespace VaxisModel.Gen.Startup\n\n")

	// --- New(): the loop's select and what follows the loop
	fn := ex.FindFunc(f, "", "New")
	if fn == nil {
		c.Fail("vaxis.go: New not found")
		return
	}
	var loopArms []arm
	var after []string
	loopLabel := "?"
	for i, st := range fn.Body.List {
		ls, ok := st.(*ast.LabeledStmt)
		if !ok {
			continue
		}
		fs, ok := ls.Stmt.(*ast.ForStmt)
		if !ok || fs.Cond != nil || fs.Init != nil || fs.Post != nil {
			continue
		}
		loopLabel = ls.Label.Name
		if len(fs.Body.List) == 1 {
			if sel, ok := fs.Body.List[0].(*ast.SelectStmt); ok {
				for _, cl := range sel.Body.List {
					cc := cl.(*ast.CommClause)
					head := "default"
					if cc.Comm != nil {
						head = one(c.Src(cc.Comm))
					}
					var body []string
					for _, b := range cc.Body {
						body = append(body, stmtSummary(c, b))
					}
					loopArms = append(loopArms, arm{head, body})
				}
			}
		}
		if loopArms == nil {
			loopArms = []arm{{"?unrecognised loop body", nil}}
		}
		for _, r := range fn.Body.List[i+1:] {
			if stmtSummary(c, r) == "log" {
				continue // logging is not part of the skeleton
			}
			after = append(after, one(c.Src(r)))
			if strings.Contains(c.Src(r), "applyQuirks") {
				break
			}
		}
		// the statement just before the loop
		if i > 0 {
			fmt.Fprintf(&sb, "/-- New(): the statement before the start-up loop. -/\ndef beforeLoop : String := %s\n\n", ex.LeanStr(one(c.Src(fn.Body.List[i-1]))))
		}
		break
	}
	fmt.Fprintf(&sb, "def loopLabel : String := %s\n\n", ex.LeanStr(loopLabel))
	sb.WriteString(armList("loopSelect", "New(): the arms of the select in the start-up loop (communication, statements; log calls as \"log\", the type switch as \"switch …\").", loopArms))
	fmt.Fprintf(&sb, "/-- New(): the statements after the loop, up to and including applyQuirks(). -/\ndef afterLoop : List String := %s\n\n", strList(after))

	// --- sendQueries
	sq := ex.FindFunc(f, "Vaxis", "sendQueries")
	if sq == nil {
		c.Fail("vaxis.go: sendQueries not found")
		return
	}
	var colorterm []arm
	probeCall, probeCond := "?", "?"
	var probeAssigns []string
	for i, st := range sq.Body.List {
		if sw, ok := st.(*ast.SwitchStmt); ok && sw.Tag != nil && strings.Contains(c.Src(sw.Tag), "COLORTERM") {
			for _, cl := range sw.Body.List {
				cc := cl.(*ast.CaseClause)
				var labs []string
				for _, e := range cc.List {
					labs = append(labs, c.Src(e))
				}
				var body []string
				for _, b := range cc.Body {
					body = append(body, one(c.Src(b)))
				}
				colorterm = append(colorterm, arm{strings.Join(labs, ","), body})
			}
		}
		if strings.Contains(c.Src(st), "CursorPosition()") {
			if _, isIf := st.(*ast.IfStmt); !isIf {
				probeCall = one(c.Src(st))
				if i+1 < len(sq.Body.List) {
					if is, ok := sq.Body.List[i+1].(*ast.IfStmt); ok && is.Else == nil && is.Init == nil {
						probeCond = one(c.Src(is.Cond))
						probeAssigns = capsAssigns(c, is.Body)
					}
				}
			}
		}
	}
	sb.WriteString(armList("colorterm", "sendQueries(): the switch on COLORTERM (labels, statements).", colorterm))
	fmt.Fprintf(&sb, "/-- sendQueries(): the explicit-width probe: the call, the guard after it, the capability assignments under the guard. -/\ndef probeCall : String := %s\ndef probeCond : String := %s\ndef probeAssigns : List String := %s\n\n",
		ex.LeanStr(probeCall), ex.LeanStr(probeCond), strList(probeAssigns))

	// --- applyQuirks
	aq := ex.FindFunc(fq, "Vaxis", "applyQuirks")
	if aq == nil {
		c.Fail("quirks.go: applyQuirks not found")
		return
	}
	var qsw, qenv []arm
	qfirst := "?"
	for i, st := range aq.Body.List {
		if i == 0 {
			qfirst = one(c.Src(st))
		}
		switch s := st.(type) {
		case *ast.SwitchStmt:
			for _, cl := range s.Body.List {
				cc := cl.(*ast.CaseClause)
				var labs []string
				for _, e := range cc.List {
					labs = append(labs, one(c.Src(e)))
				}
				head := strings.Join(labs, ",")
				if cc.List == nil {
					head = "default"
				}
				qsw = append(qsw, arm{head, capsAssigns(c, cc)})
			}
		case *ast.IfStmt:
			qenv = append(qenv, arm{one(c.Src(s.Cond)), capsAssigns(c, s.Body)})
		}
	}
	fmt.Fprintf(&sb, "/-- applyQuirks(): first statement. -/\ndef quirksFirst : String := %s\n\n", ex.LeanStr(qfirst))
	sb.WriteString(armList("quirksSwitch", "applyQuirks(): arms of the switch on the terminal id (condition, capability assignments).", qsw))
	sb.WriteString(armList("quirksEnv", "applyQuirks(): environment-guarded blocks in order (condition, capability assignments).", qenv))

	// --- every write to vx.caps in the package (non-test, non-verif files)
	files, _ := filepath.Glob(filepath.Join(c.Repo, "*.go"))
	sort.Strings(files)
	var writes []string
	for _, p := range files {
		base := filepath.Base(p)
		if strings.HasSuffix(base, "_test.go") {
			continue
		}
		b, err := os.ReadFile(p)
		if err != nil || strings.HasPrefix(strings.TrimSpace(string(b)), "//go:build verif") {
			continue
		}
		pf := c.Parse(base)
		if pf == nil {
			return
		}
		for _, d := range pf.Decls {
			fd, ok := d.(*ast.FuncDecl)
			if !ok || fd.Body == nil {
				continue
			}
			ast.Inspect(fd.Body, func(x ast.Node) bool {
				switch n := x.(type) {
				case *ast.AssignStmt:
					for i, l := range n.Lhs {
						ls := c.Src(l)
						if strings.HasPrefix(ls, "vx.caps") {
							r := "?"
							if i < len(n.Rhs) {
								r = one(c.Src(n.Rhs[i]))
							}
							writes = append(writes, fmt.Sprintf("%s:%s:%s %s %s", base, fd.Name.Name, strings.TrimPrefix(ls, "vx."), n.Tok.String(), r))
						}
					}
				case *ast.IncDecStmt:
					if strings.HasPrefix(c.Src(n.X), "vx.caps") {
						writes = append(writes, fmt.Sprintf("%s:%s:%s %s", base, fd.Name.Name, c.Src(n.X), n.Tok.String()))
					}
				case *ast.UnaryExpr:
					if n.Op == token.AND && strings.HasPrefix(c.Src(n.X), "vx.caps") {
						writes = append(writes, fmt.Sprintf("%s:%s:&%s", base, fd.Name.Name, c.Src(n.X)))
					}
				}
				return true
			})
		}
	}
	fmt.Fprintf(&sb, "/-- Every assignment to (or address taken of) vx.caps in the package: file:function:field op value. -/\ndef capsWrites : List String := [\n  %s\n]\n\n", strings.Join(func() []string {
		var q []string
		for _, w := range writes {
			q = append(q, ex.LeanStr(w))
		}
		return q
	}(), ",\n  "))

	// --- Can* accessors
	var can [][2]string
	for _, d := range f.Decls {
		fd, ok := d.(*ast.FuncDecl)
		if !ok || fd.Recv == nil || !strings.HasPrefix(fd.Name.Name, "Can") || fd.Body == nil {
			continue
		}
		body := "?"
		if len(fd.Body.List) == 1 {
			if rs, ok := fd.Body.List[0].(*ast.ReturnStmt); ok && len(rs.Results) == 1 {
				body = one(c.Src(rs.Results[0]))
			}
		}
		can = append(can, [2]string{fd.Name.Name, body})
	}
	sb.WriteString(pairList("canAccessors", "The Can* accessors: (name, returned expression; \"?\" if the body is not a single return).", can))
	sb.WriteString("end VaxisModel.Gen.Startup\n")
	c.Write("Startup.lean", sb.String())
}
