// Extractor for two selections of C07 (round 4): Gen/WidthSel.lean and Gen/ImageCtors.lean.
//
// Gen/WidthSel.lean
//   - methods: the constants of graphemeWidthMethod (gwidth.go) in declaration order;
//   - renderedWidth: the statement chain of Vaxis.RenderedWidth in source order, one entry per
//     statement: (condition as a disjunction of conjunctions of literals (positive?, field of vx.caps), the method
//     constant handed to gwidth in the returned call). `if c { …; return gwidth(s, M) }` gives
//     (dnf c, M); a bare `return gwidth(s, M)` gives ([[]], M) (the empty conjunction: always).
//     Log calls are skipped.  Anything else degrades to a "?"-prefixed atom / method, which the
//     interpreter of Model/WidthGen.lean answers with `none`.
//   - gwidthArms: the switch of gwidth: (case labels, the package-qualified functions called in the arm).
//
// Gen/ImageCtors.lean (which code can create a kitty / sixel image object and what is put into its buffer)
//   - literals: every composite literal, `new(T)` or `var x T` of type KittyImage / Sixel in the
//     package (non-test, non-hook files): (file:function, type);
//   - ctorCalls: every call of NewKittyGraphic / NewSixel inside the package: (file:function, callee);
//   - bufWrites: every call in image.go that hands the `buf` field of an image object to a writer
//     (fmt.Fprint*(x.buf, …), sixel.NewEncoder(x.buf), x.buf.Write*): (function, callee and the
//     string literal written, if any);
//   - protocolSteps: every assignment to vx.graphicsProtocol in New (vaxis.go) and applyQuirks (quirks.go) in source
//     order with its guard stack (enclosing for / select arm / type-switch arm / switch arm / if / else), and the
//     position of the call `vx.applyQuirks()` inside New: (function, guards, assigned constant or "call applyQuirks");
//   - imageEscLiterals: every string literal of the package that opens a kitty graphics APC
//     (ESC _ G) or a DCS (ESC P): (file:function or file:const NAME, literal).
package main

import (
	"fmt"
	"go/ast"
	"go/token"
	"os"
	"path/filepath"
	"sort"
	"strconv"
	"strings"
	"verifextract/ex"
)

func main() { ex.Main([]string{"WidthSel.lean", "ImageCtors.lean"}, gen) }

func one(s string) string { return strings.Join(strings.Fields(s), " ") }

func strList(xs []string) string {
	q := make([]string, 0, len(xs))
	for _, x := range xs {
		q = append(q, ex.LeanStr(x))
	}
	return "[" + strings.Join(q, ", ") + "]"
}

func pairList(name, doc string, xs [][2]string) string {
	var q []string
	for _, x := range xs {
		q = append(q, fmt.Sprintf("(%s, %s)", ex.LeanStr(x[0]), ex.LeanStr(x[1])))
	}
	return fmt.Sprintf("/-- %s -/\ndef %s : List (String × String) := [\n  %s\n]\n\n", doc, name, strings.Join(q, ",\n  "))
}

func unparen(e ast.Expr) ast.Expr {
	for {
		p, ok := e.(*ast.ParenExpr)
		if !ok {
			return e
		}
		e = p.X
	}
}

// literal: `vx.caps.f` ↦ (true, "f"), `!vx.caps.f` ↦ (false, "f"); anything else ↦ (true, "?src").
func literal(c *ex.Ctx, e ast.Expr) string {
	e = unparen(e)
	pos := "true"
	if u, ok := e.(*ast.UnaryExpr); ok && u.Op == token.NOT {
		pos = "false"
		e = unparen(u.X)
	}
	s := c.Src(e)
	if _, ok := e.(*ast.SelectorExpr); ok && strings.HasPrefix(s, "vx.caps.") && !strings.Contains(strings.TrimPrefix(s, "vx.caps."), ".") {
		return "(" + pos + ", " + ex.LeanStr(strings.TrimPrefix(s, "vx.caps.")) + ")"
	}
	return "(true, " + ex.LeanStr("?"+one(c.Src(e))) + ")"
}

// dnf of a condition built from ||, && and literals (no distribution: `&&` above `||` is not recognised).
func conj(c *ex.Ctx, e ast.Expr) []string {
	e = unparen(e)
	if b, ok := e.(*ast.BinaryExpr); ok && b.Op == token.LAND {
		return append(conj(c, b.X), conj(c, b.Y)...)
	}
	return []string{literal(c, e)}
}

func dnf(c *ex.Ctx, e ast.Expr) [][]string {
	e = unparen(e)
	if b, ok := e.(*ast.BinaryExpr); ok && b.Op == token.LOR {
		return append(dnf(c, b.X), dnf(c, b.Y)...)
	}
	return [][]string{conj(c, e)}
}

func dnfLean(d [][]string) string {
	var q []string
	for _, k := range d {
		q = append(q, "["+strings.Join(k, ", ")+"]")
	}
	return "[" + strings.Join(q, ", ") + "]"
}

func isLog(c *ex.Ctx, st ast.Stmt) bool {
	if es, ok := st.(*ast.ExprStmt); ok {
		if call, ok := es.X.(*ast.CallExpr); ok && strings.HasPrefix(c.Src(call.Fun), "log.") {
			return true
		}
	}
	return false
}

// `return gwidth(<param>, M)` ↦ M
func gwidthReturn(c *ex.Ctx, st ast.Stmt, param string) string {
	rs, ok := st.(*ast.ReturnStmt)
	if !ok || len(rs.Results) != 1 {
		return "?" + one(c.Src(st))
	}
	call, ok := rs.Results[0].(*ast.CallExpr)
	if !ok || c.Src(call.Fun) != "gwidth" || len(call.Args) != 2 || c.Src(call.Args[0]) != param {
		return "?" + one(c.Src(st))
	}
	if id, ok := call.Args[1].(*ast.Ident); ok {
		return id.Name
	}
	return "?" + one(c.Src(st))
}

func fnName(fd *ast.FuncDecl) string {
	if fd.Recv != nil && len(fd.Recv.List) > 0 {
		t := fd.Recv.List[0].Type
		if s, ok := t.(*ast.StarExpr); ok {
			t = s.X
		}
		if id, ok := t.(*ast.Ident); ok {
			return id.Name + "." + fd.Name.Name
		}
	}
	return fd.Name.Name
}

func gen(c *ex.Ctx) {
	genWidth(c)
	genImage(c)
}

func genWidth(c *ex.Ctx) {
	f := c.Parse("vaxis.go")
	g := c.Parse("gwidth.go")
	if f == nil || g == nil {
		return
	}
	var sb strings.Builder
	sb.WriteString("namespace VaxisModel.Gen.WidthSel\n\n")

	// the method constants
	var methods []string
	for _, d := range g.Decls {
		gd, ok := d.(*ast.GenDecl)
		if !ok || gd.Tok != token.CONST {
			continue
		}
		mine := false
		for _, s := range gd.Specs {
			vs := s.(*ast.ValueSpec)
			if vs.Type != nil && c.Src(vs.Type) == "graphemeWidthMethod" {
				mine = true
			}
		}
		if mine {
			for _, s := range gd.Specs {
				for _, n := range s.(*ast.ValueSpec).Names {
					methods = append(methods, n.Name)
				}
			}
		}
	}
	if len(methods) == 0 {
		c.Fail("gwidth.go: no graphemeWidthMethod constants found")
		return
	}
	fmt.Fprintf(&sb, "/-- gwidth.go: the constants of graphemeWidthMethod in declaration order. -/\ndef methods : List String := %s\n\n", strList(methods))

	rw := ex.FindFunc(f, "Vaxis", "RenderedWidth")
	if rw == nil {
		c.Fail("vaxis.go: RenderedWidth not found")
		return
	}
	param := "?"
	if rw.Type.Params != nil && len(rw.Type.Params.List) == 1 && len(rw.Type.Params.List[0].Names) == 1 {
		param = rw.Type.Params.List[0].Names[0].Name
	}
	var chain []string
	for _, st := range rw.Body.List {
		if isLog(c, st) {
			continue
		}
		switch s := st.(type) {
		case *ast.IfStmt:
			if s.Init != nil || s.Else != nil {
				chain = append(chain, fmt.Sprintf("([[(true, %s)]], %s)", ex.LeanStr("?"+one(c.Src(s.Cond))), ex.LeanStr("?if with init/else")))
				continue
			}
			var body []ast.Stmt
			for _, b := range s.Body.List {
				if !isLog(c, b) {
					body = append(body, b)
				}
			}
			m := "?body"
			if len(body) == 1 {
				m = gwidthReturn(c, body[0], param)
			}
			chain = append(chain, fmt.Sprintf("(%s, %s)", dnfLean(dnf(c, s.Cond)), ex.LeanStr(m)))
		case *ast.ReturnStmt:
			chain = append(chain, fmt.Sprintf("([[]], %s)", ex.LeanStr(gwidthReturn(c, s, param))))
		default:
			chain = append(chain, fmt.Sprintf("([[(true, %s)]], %s)", ex.LeanStr("?"+one(c.Src(st))), ex.LeanStr("?statement")))
		}
	}
	fmt.Fprintf(&sb, "/-- Vaxis.RenderedWidth: its statements in source order: (condition as a disjunction of conjunctions of\n    literals (positive?, `vx.caps` field) — `[[]]` = unconditional —, the method constant handed to gwidth in the returned call). -/\ndef renderedWidth : List (List (List (Bool × String)) × String) := [\n  %s\n]\n\n", strings.Join(chain, ",\n  "))

	// gwidth's switch
	gw := ex.FindFunc(g, "", "gwidth")
	if gw == nil {
		c.Fail("gwidth.go: gwidth not found")
		return
	}
	var arms []string
	tag := "?"
	for _, st := range gw.Body.List {
		sw, ok := st.(*ast.SwitchStmt)
		if !ok {
			arms = append(arms, fmt.Sprintf("(%s, [])", strList([]string{"?" + one(c.Src(st))})))
			continue
		}
		if sw.Tag != nil {
			tag = c.Src(sw.Tag)
		}
		for _, cl := range sw.Body.List {
			cc := cl.(*ast.CaseClause)
			var labs, calls []string
			for _, e := range cc.List {
				labs = append(labs, c.Src(e))
			}
			if cc.List == nil {
				labs = []string{"default"}
			}
			for _, b := range cc.Body {
				ast.Inspect(b, func(x ast.Node) bool {
					if call, ok := x.(*ast.CallExpr); ok {
						if se, ok := call.Fun.(*ast.SelectorExpr); ok {
							calls = append(calls, c.Src(se))
						}
					}
					return true
				})
			}
			arms = append(arms, fmt.Sprintf("(%s, %s)", strList(labs), strList(calls)))
		}
	}
	fmt.Fprintf(&sb, "/-- gwidth: the tag of its switch. -/\ndef gwidthTag : String := %s\n\n", ex.LeanStr(tag))
	fmt.Fprintf(&sb, "/-- gwidth: the arms of its switch: (case labels, the package-qualified functions called in the arm, in order). -/\ndef gwidthArms : List (List String × List String) := [\n  %s\n]\n\nend VaxisModel.Gen.WidthSel\n", strings.Join(arms, ",\n  "))
	c.Write("WidthSel.lean", sb.String())
}

type pstep struct {
	fn     string
	guards []string
	what   string
}

// walkProto lists the assignments to vx.graphicsProtocol (and the call of applyQuirks) below stmts with their guard stacks.
func walkProto(c *ex.Ctx, fn string, stmts []ast.Stmt, stack []string, out *[]pstep) {
	push := func(g string) []string { return append(append([]string{}, stack...), g) }
	for _, st := range stmts {
		switch s := st.(type) {
		case *ast.AssignStmt:
			for i, l := range s.Lhs {
				if c.Src(l) == "vx.graphicsProtocol" {
					v := "?"
					if i < len(s.Rhs) && s.Tok == token.ASSIGN {
						if id, ok := s.Rhs[i].(*ast.Ident); ok {
							v = id.Name
						} else {
							v = "?" + one(c.Src(s.Rhs[i]))
						}
					}
					*out = append(*out, pstep{fn, stack, v})
				}
			}
		case *ast.IncDecStmt:
			if c.Src(s.X) == "vx.graphicsProtocol" {
				*out = append(*out, pstep{fn, stack, "?" + one(c.Src(s))})
			}
		case *ast.ExprStmt:
			if one(c.Src(s.X)) == "vx.applyQuirks()" {
				*out = append(*out, pstep{fn, stack, "call applyQuirks"})
			}
		case *ast.BlockStmt:
			walkProto(c, fn, s.List, stack, out)
		case *ast.LabeledStmt:
			walkProto(c, fn, []ast.Stmt{s.Stmt}, stack, out)
		case *ast.ForStmt:
			g := "for"
			if s.Cond != nil {
				g = "for " + one(c.Src(s.Cond))
			}
			walkProto(c, fn, s.Body.List, push(g), out)
		case *ast.RangeStmt:
			walkProto(c, fn, s.Body.List, push("range "+one(c.Src(s.X))), out)
		case *ast.IfStmt:
			cond := one(c.Src(s.Cond))
			if s.Init != nil {
				cond = one(c.Src(s.Init)) + "; " + cond
			}
			walkProto(c, fn, s.Body.List, push("if "+cond), out)
			if s.Else != nil {
				walkProto(c, fn, []ast.Stmt{s.Else}, push("else "+cond), out)
			}
		case *ast.SwitchStmt:
			tag := ""
			if s.Tag != nil {
				tag = one(c.Src(s.Tag))
			}
			for _, cl := range s.Body.List {
				cc := cl.(*ast.CaseClause)
				lab := "default"
				if cc.List != nil {
					var ls []string
					for _, e := range cc.List {
						ls = append(ls, one(c.Src(e)))
					}
					lab = "case " + strings.Join(ls, ",")
				}
				walkProto(c, fn, cc.Body, push("switch "+tag+" "+lab), out)
			}
		case *ast.TypeSwitchStmt:
			for _, cl := range s.Body.List {
				cc := cl.(*ast.CaseClause)
				lab := "default"
				if cc.List != nil {
					var ls []string
					for _, e := range cc.List {
						ls = append(ls, one(c.Src(e)))
					}
					lab = strings.Join(ls, ",")
				}
				walkProto(c, fn, cc.Body, push("type "+lab), out)
			}
		case *ast.SelectStmt:
			for _, cl := range s.Body.List {
				cc := cl.(*ast.CommClause)
				lab := "default"
				if cc.Comm != nil {
					lab = one(c.Src(cc.Comm))
				}
				walkProto(c, fn, cc.Body, push("select "+lab), out)
			}
		case *ast.GoStmt, *ast.DeferStmt:
			// a function literal that assigns the protocol would be a new shape: report it
			ast.Inspect(st, func(x ast.Node) bool {
				if as, ok := x.(*ast.AssignStmt); ok {
					for _, l := range as.Lhs {
						if c.Src(l) == "vx.graphicsProtocol" {
							*out = append(*out, pstep{fn, push("?closure"), "?closure"})
						}
					}
				}
				return true
			})
		}
	}
}

func genImage(c *ex.Ctx) {
	files, _ := filepath.Glob(filepath.Join(c.Repo, "*.go"))
	sort.Strings(files)
	imgTypes := map[string]bool{"KittyImage": true, "Sixel": true}
	ctors := map[string]bool{"NewKittyGraphic": true, "NewSixel": true}
	var literals, calls, bufWrites, escLits [][2]string
	for _, p := range files {
		base := filepath.Base(p)
		if strings.HasSuffix(base, "_test.go") {
			continue
		}
		b, err := os.ReadFile(p)
		if err != nil || strings.HasPrefix(strings.TrimSpace(string(b)), "//go:build verif") {
			continue
		}
		pf := c.Parse(base)
		if pf == nil {
			return
		}
		for _, d := range pf.Decls {
			where := base + ":"
			var root ast.Node = d
			switch x := d.(type) {
			case *ast.FuncDecl:
				where += fnName(x)
			case *ast.GenDecl:
				where += x.Tok.String()
			}
			constName := ""
			ast.Inspect(root, func(x ast.Node) bool {
				switch n := x.(type) {
				case *ast.ValueSpec:
					if len(n.Names) > 0 {
						constName = n.Names[0].Name
					}
					if n.Type != nil && imgTypes[c.Src(n.Type)] {
						literals = append(literals, [2]string{where, c.Src(n.Type)})
					}
				case *ast.CompositeLit:
					if n.Type != nil && imgTypes[c.Src(n.Type)] {
						literals = append(literals, [2]string{where, c.Src(n.Type)})
					}
				case *ast.CallExpr:
					fun := c.Src(n.Fun)
					if fun == "new" && len(n.Args) == 1 && imgTypes[c.Src(n.Args[0])] {
						literals = append(literals, [2]string{where, c.Src(n.Args[0])})
					}
					if se, ok := n.Fun.(*ast.SelectorExpr); ok && ctors[se.Sel.Name] {
						calls = append(calls, [2]string{where, se.Sel.Name})
					}
					if id, ok := n.Fun.(*ast.Ident); ok && ctors[id.Name] {
						calls = append(calls, [2]string{where, id.Name})
					}
					if base == "image.go" {
						// the buffer of an image object handed to a writer, or written through its own methods
						hit := false
						for _, a := range n.Args {
							if se, ok := a.(*ast.SelectorExpr); ok && se.Sel.Name == "buf" {
								hit = true
							}
						}
						if se, ok := n.Fun.(*ast.SelectorExpr); ok && strings.HasPrefix(se.Sel.Name, "Write") {
							if in, ok := se.X.(*ast.SelectorExpr); ok && in.Sel.Name == "buf" {
								hit = true
							}
						}
						if hit {
							what := fun
							for _, a := range n.Args {
								if bl, ok := a.(*ast.BasicLit); ok && bl.Kind == token.STRING {
									if s, err := strconv.Unquote(bl.Value); err == nil {
										what += " lit:" + s
									}
								}
							}
							bufWrites = append(bufWrites, [2]string{strings.TrimPrefix(where, "image.go:"), what})
						}
					}
				case *ast.BasicLit:
					if n.Kind == token.STRING {
						if s, err := strconv.Unquote(n.Value); err == nil && (strings.HasPrefix(s, "\x1b_G") || strings.HasPrefix(s, "\x1bP")) {
							w := where
							if _, isGen := d.(*ast.GenDecl); isGen {
								w += " " + constName
							}
							escLits = append(escLits, [2]string{w, s})
						}
					}
				}
				return true
			})
		}
	}
	var steps []pstep
	if vf := c.Parse("vaxis.go"); vf != nil {
		if fn := ex.FindFunc(vf, "", "New"); fn != nil {
			walkProto(c, "New", fn.Body.List, nil, &steps)
		} else {
			c.Fail("vaxis.go: New not found")
		}
	}
	if qf := c.Parse("quirks.go"); qf != nil {
		if fn := ex.FindFunc(qf, "Vaxis", "applyQuirks"); fn != nil {
			walkProto(c, "applyQuirks", fn.Body.List, nil, &steps)
		} else {
			c.Fail("quirks.go: applyQuirks not found")
		}
	}
	if len(literals) == 0 && len(escLits) == 0 {
		c.Fail("image constructors: nothing found (image.go moved?)")
		return
	}
	var sb strings.Builder
	sb.WriteString("namespace VaxisModel.Gen.ImageCtors\n\n")
	sb.WriteString(pairList("literals", "Every composite literal, `new(T)` or `var x T` of type KittyImage / Sixel in the package: (file:function, type).", literals))
	sb.WriteString(pairList("ctorCalls", "Every call of NewKittyGraphic / NewSixel inside the package: (file:function, callee).", calls))
	sb.WriteString(pairList("bufWrites", "image.go: every call that hands the `buf` field of an image object to a writer: (function, callee and the literal written).", bufWrites))
	{
		var q []string
		for _, st := range steps {
			q = append(q, fmt.Sprintf("(%s, %s, %s)", ex.LeanStr(st.fn), strList(st.guards), ex.LeanStr(st.what)))
		}
		fmt.Fprintf(&sb, "/-- Every assignment to vx.graphicsProtocol in New and applyQuirks, in source order, with its guard stack, and the call of applyQuirks inside New: (function, guards, constant assigned or \"call applyQuirks\"). -/\ndef protocolSteps : List (String × List String × String) := [\n  %s\n]\n\n", strings.Join(q, ",\n  "))
	}
	sb.WriteString(pairList("imageEscLiterals", "Every string literal of the package that opens a kitty graphics APC (ESC _ G) or a DCS (ESC P): (file:function or file:const NAME, literal).", escLits))
	sb.WriteString("end VaxisModel.Gen.ImageCtors\n")
	c.Write("ImageCtors.lean", sb.String())
}
