// Extractor for C07 (vocabulary gating): every call in the root package that writes to the
// terminal — outside the statement lists C01/C04 already model is irrelevant here: ALL of them are
// listed, with the function they are in, what they write and the conditions they are under — so
// that `Props/C07Writers.lean` can classify each one as baseline vocabulary, capability-gated
// (and under the right guard), modelled elsewhere (renderer / lifecycle), or written on the
// application's request.  A writer the classification does not know breaks the theorem.
//
// Output: Gen/Writers.lean
//
//	writers : List Writer   (file, function, destination, what, guards)
//	  destination: source of the value written to (vx.console, vx.tw, w — an io.Writer parameter —, w.w, …)
//	  what: the sequences.go constant written (`tparm(NAME, …)`, `NAME`, `fmt.Fprintf(dst, NAME, …)`,
//	        `decset(NAME)` → "decset NAME"), or "lit:<string literal>", or "expr:<source>" for anything else
//	  guards: conditions of the enclosing `if`s ("!" + cond for an else branch, "case TAG == X" for a switch
//	          case), outermost first, preceded by "pre:!(cond)" for every `if cond { … return }` statement that
//	          comes before the call at the top level of the function body
//	seqConsts : the names of the constants of sequences.go
//	newImage  : the arms of the switch of NewImage (case label, constructor called)
package main

import (
	"fmt"
	"go/ast"
	"go/token"
	"os"
	"path/filepath"
	"sort"
	"strconv"
	"strings"

	"verifextract/ex"
)

func main() { ex.Main([]string{"Writers.lean"}, gen) }

func oneLine(s string) string { return strings.Join(strings.Fields(s), " ") }

func strList(xs []string) string {
	var q []string
	for _, x := range xs {
		q = append(q, ex.LeanStr(x))
	}
	return "[" + strings.Join(q, ", ") + "]"
}

// destinations that are the terminal (or a buffer flushed to it)
func isTermDest(src string, ioParams map[string]bool) bool {
	if src == "w.buf" { // writer.go: the frame buffer Flush writes to the console
		return true
	}
	if strings.HasSuffix(src, ".console") || strings.HasSuffix(src, ".tw") || src == "w.w" || src == "vx.refreshWriter" {
		return true
	}
	return ioParams[src]
}

func gen(c *ex.Ctx) {
	ents, err := os.ReadDir(c.Repo)
	if err != nil {
		c.Fail("readdir: %v", err)
		return
	}
	var files []string
	for _, e := range ents {
		n := e.Name()
		if e.IsDir() || !strings.HasSuffix(n, ".go") || strings.HasSuffix(n, "_test.go") || strings.HasPrefix(n, "verif_") {
			continue
		}
		files = append(files, n)
	}
	sort.Strings(files)
	fs := c.Parse("sequences.go")
	if fs == nil {
		return
	}
	consts := map[string]bool{}
	var constNames []string
	for _, d := range fs.Decls {
		gd, ok := d.(*ast.GenDecl)
		if !ok || (gd.Tok != token.CONST && gd.Tok != token.VAR) {
			continue
		}
		for _, s := range gd.Specs {
			vs := s.(*ast.ValueSpec)
			for _, n := range vs.Names {
				consts[n.Name] = true
				constNames = append(constNames, n.Name)
			}
		}
	}
	var sb strings.Builder
	sb.WriteString("namespace VaxisModel.Gen.Writers\n\n")
	sb.WriteString("structure Writer where\n  file : String\n  fn : String\n  dest : String\n  what : String\n  guards : List String\n  deriving Repr, DecidableEq\n\n")

	// what is written, normalised
	var what func(e ast.Expr) string
	what = func(e ast.Expr) string {
		switch x := e.(type) {
		case *ast.Ident:
			if consts[x.Name] {
				return x.Name
			}
		case *ast.BasicLit:
			if x.Kind == token.STRING {
				s, err := strconv.Unquote(x.Value)
				if err == nil {
					return "lit:" + s
				}
			}
		case *ast.CallExpr:
			fn := c.Src(x.Fun)
			switch fn {
			case "tparm":
				if len(x.Args) > 0 {
					return what(x.Args[0])
				}
			case "decset", "decrst", "decrqm":
				if len(x.Args) == 1 {
					return fn + " " + oneLine(c.Src(x.Args[0]))
				}
			case "xtgettcap":
				if len(x.Args) == 1 {
					if bl, ok := x.Args[0].(*ast.BasicLit); ok && bl.Kind == token.STRING {
						s, _ := strconv.Unquote(bl.Value)
						return "xtgettcap " + s
					}
				}
			case "[]byte", "string":
				if len(x.Args) == 1 {
					return what(x.Args[0])
				}
			}
		}
		return "expr:" + oneLine(c.Src(e))
	}

	var rows []string
	nwriters := 0
	for _, fn := range files {
		f := c.Parse(fn)
		if f == nil {
			return
		}
		for _, d := range f.Decls {
			fd, ok := d.(*ast.FuncDecl)
			if !ok || fd.Body == nil {
				continue
			}
			name := fd.Name.Name
			if fd.Recv != nil && len(fd.Recv.List) == 1 {
				t := c.Src(fd.Recv.List[0].Type)
				name = strings.TrimPrefix(t, "*") + "." + name
			}
			// io.Writer parameters of the function and of the function literals inside it
			ioParams := map[string]bool{}
			addParams := func(ft *ast.FuncType) {
				if ft.Params == nil {
					return
				}
				for _, p := range ft.Params.List {
					if c.Src(p.Type) == "io.Writer" {
						for _, n := range p.Names {
							ioParams[n.Name] = true
						}
					}
				}
			}
			addParams(fd.Type)
			ast.Inspect(fd.Body, func(n ast.Node) bool {
				if fl, ok := n.(*ast.FuncLit); ok {
					addParams(fl.Type)
				}
				return true
			})
			// walk with a guard stack
			var walk func(n ast.Node, guards []string)
			emit := func(call *ast.CallExpr, dest string, arg ast.Expr, guards []string) {
				if !isTermDest(dest, ioParams) {
					return
				}
				nwriters++
				rows = append(rows, fmt.Sprintf("  { file := %s, fn := %s, dest := %s, what := %s, guards := %s }",
					ex.LeanStr(fn), ex.LeanStr(name), ex.LeanStr(dest), ex.LeanStr(what(arg)), strList(guards)))
			}
			visitCall := func(call *ast.CallExpr, guards []string) {
				fun := c.Src(call.Fun)
				switch fun {
				case "io.WriteString", "fmt.Fprint", "fmt.Fprintf", "fmt.Fprintln":
					if len(call.Args) >= 2 {
						emit(call, oneLine(c.Src(call.Args[0])), call.Args[1], guards)
					}
					return
				}
				if sel, ok := call.Fun.(*ast.SelectorExpr); ok && len(call.Args) >= 1 {
					switch sel.Sel.Name {
					case "Write", "WriteString", "WriteStringLocked", "Printf", "WriteByte", "WriteRune":
						emit(call, oneLine(c.Src(sel.X)), call.Args[0], guards)
					}
				}
			}
			walkStmts := func(list []ast.Stmt, guards []string, top bool) {
				g := append([]string{}, guards...)
				for _, st := range list {
					walk(st, g)
					// an `if cond { …; return }` (no else) guards everything after it
					if is, ok := st.(*ast.IfStmt); ok && is.Else == nil && is.Init == nil && len(is.Body.List) > 0 {
						if _, isRet := is.Body.List[len(is.Body.List)-1].(*ast.ReturnStmt); isRet {
							g = append(g, "pre:!("+oneLine(c.Src(is.Cond))+")")
						}
					}
				}
			}
			walk = func(n ast.Node, guards []string) {
				switch x := n.(type) {
				case nil:
					return
				case *ast.BlockStmt:
					walkStmts(x.List, guards, false)
				case *ast.IfStmt:
					if x.Init != nil {
						walk(x.Init, guards)
					}
					cond := oneLine(c.Src(x.Cond))
					walk(x.Cond, guards)
					walk(x.Body, append(append([]string{}, guards...), cond))
					if x.Else != nil {
						walk(x.Else, append(append([]string{}, guards...), "!("+cond+")"))
					}
				case *ast.SwitchStmt:
					tag := "true"
					if x.Tag != nil {
						tag = oneLine(c.Src(x.Tag))
					}
					for _, cl := range x.Body.List {
						cc := cl.(*ast.CaseClause)
						var labs []string
						for _, e := range cc.List {
							labs = append(labs, oneLine(c.Src(e)))
						}
						lab := "default"
						if len(labs) > 0 {
							lab = strings.Join(labs, ",")
						}
						walkStmts(cc.Body, append(append([]string{}, guards...), "case "+tag+" == "+lab), false)
					}
				case *ast.CallExpr:
					visitCall(x, guards)
					for _, a := range x.Args {
						walk(a, guards)
					}
					walk(x.Fun, guards)
				case *ast.FuncLit:
					walk(x.Body, guards)
				default:
					// generic descent keeping the guard stack
					ast.Inspect(n, func(m ast.Node) bool {
						if m == n || m == nil {
							return true
						}
						switch m.(type) {
						case *ast.BlockStmt, *ast.IfStmt, *ast.SwitchStmt, *ast.CallExpr, *ast.FuncLit:
							walk(m, guards)
							return false
						}
						return true
					})
				}
			}
			walkStmts(fd.Body.List, nil, true)
		}
	}
	fmt.Fprintf(&sb, "/-- Every call of the root package that writes to the terminal, in file and source order. -/\ndef writers : List Writer := [\n%s\n]\n\n", strings.Join(rows, ",\n"))
	fmt.Fprintf(&sb, "/-- The files scanned (root package, no tests, no verification hooks). -/\ndef files : List String := %s\n\n", strList(files))
	fmt.Fprintf(&sb, "/-- The constants and variables of sequences.go. -/\ndef seqConsts : List String := %s\n\n", strList(constNames))

	// NewImage: which constructor for which detected protocol
	fi := c.Parse("image.go")
	var arms []string
	if fi != nil {
		if ni := ex.FindFunc(fi, "Vaxis", "NewImage"); ni != nil && ni.Body != nil {
			for _, st := range ni.Body.List {
				sw, ok := st.(*ast.SwitchStmt)
				if !ok {
					continue
				}
				tag := ""
				if sw.Tag != nil {
					tag = oneLine(c.Src(sw.Tag))
				}
				for _, cl := range sw.Body.List {
					cc := cl.(*ast.CaseClause)
					lab := "default"
					if len(cc.List) > 0 {
						var ls []string
						for _, e := range cc.List {
							ls = append(ls, oneLine(c.Src(e)))
						}
						lab = strings.Join(ls, ",")
					}
					var body []string
					for _, b := range cc.Body {
						body = append(body, oneLine(c.Src(b)))
					}
					arms = append(arms, fmt.Sprintf("(%s, %s)", ex.LeanStr(tag+" == "+lab), ex.LeanStr(strings.Join(body, "; "))))
				}
			}
		}
	}
	fmt.Fprintf(&sb, "/-- NewImage: (case, statements). -/\ndef newImage : List (String × String) := [%s]\n\n", strings.Join(arms, ", "))
	// every assignment to vx.graphicsProtocol in the package: (file:function, statement, guards are in Gen/Caps.collect for New)
	var gp []string
	for _, fn := range files {
		f := c.Parse(fn)
		if f == nil {
			return
		}
		for _, d := range f.Decls {
			fd, ok := d.(*ast.FuncDecl)
			if !ok || fd.Body == nil {
				continue
			}
			ast.Inspect(fd.Body, func(n ast.Node) bool {
				as, ok := n.(*ast.AssignStmt)
				if ok && len(as.Lhs) == 1 && oneLine(c.Src(as.Lhs[0])) == "vx.graphicsProtocol" {
					gp = append(gp, fmt.Sprintf("(%s, %s)", ex.LeanStr(fn+":"+fd.Name.Name), ex.LeanStr(oneLine(c.Src(as)))))
				}
				return true
			})
		}
	}
	fmt.Fprintf(&sb, "/-- Every assignment to vx.graphicsProtocol: (file:function, statement). -/\ndef graphicsProtocolWrites : List (String × String) := [%s]\n\n", strings.Join(gp, ", "))
	sb.WriteString("end VaxisModel.Gen.Writers\n")
	_ = filepath.Join
	if nwriters == 0 {
		c.Fail("no terminal writer found (extractor out of date?)")
		return
	}
	c.Write("Writers.lean", sb.String())
}
