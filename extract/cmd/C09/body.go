// Gen/KeyBody.lean: the bodies of Key.Matches, Key.MatchString, Key.String and decodeKey (key.go) as terms of
// VaxisModel.Model.GoBody (decision structure: order of arms, guards, assignments, returns).
package main

import (
	"fmt"
	"strings"

	"verifextract/cmd/C09/gobody"
	"verifextract/ex"
)

func genKeyBody(c *ex.Ctx) {
	f := c.Parse("key.go")
	if f == nil {
		return
	}
	t := &gobody.T{Fset: c.Fset}
	var sb strings.Builder
	sb.WriteString("import VaxisModel.Model.GoBody\n\nnamespace VaxisModel.Gen.KeyBody\nopen VaxisModel.Model.GoBody\n\n")
	for _, fn := range []struct{ recv, name, lean string }{
		{"Key", "Matches", "matchesBody"},
		{"Key", "MatchString", "matchStringBody"},
		{"Key", "String", "stringBody"},
		{"", "decodeKey", "decodeKeyBody"},
	} {
		fd := ex.FindFunc(f, fn.recv, fn.name)
		if fd == nil || fd.Body == nil {
			// degrade: an empty body with an unknown marker, the Lean theorems then fail, not the extractor
			fmt.Fprintf(&sb, "def %s : Ss := Ss.ofList [.unknown \"function %s not found\"]\n\n", fn.lean, fn.name)
			continue
		}
		sb.WriteString(t.Func(fn.lean, "key.go `"+fn.name+"`", fd))
	}
	fmt.Fprintf(&sb, "/-- Number of nodes the extractor could not translate. -/\ndef unknownCount : Nat := %d\n\n", t.Unknown)
	sb.WriteString("end VaxisModel.Gen.KeyBody\n")
	c.Write("KeyBody.lean", sb.String())
}
