// Package gobody translates Go function bodies (go/ast) into Lean terms of the small statement /
// expression language `VaxisModel.Model.GoBody` (E / Es / S / Ss / Cs).  It does not interpret
// anything: it records the decision structure (order of arms, every guard as an expression, what
// each arm assigns / writes / returns).  Shapes it does not know degrade to `.unknown "<source>"`
// (the Lean side proves `fully_recognised`), they never stop the extractor.
package gobody

import (
	"fmt"
	"go/ast"
	"go/printer"
	"go/token"
	"strconv"
	"strings"
	"unicode/utf8"
)

type T struct {
	Fset *token.FileSet
	// number of nodes degraded to unknown (for the extractor's own report)
	Unknown int
}

func (t *T) src(n ast.Node) string {
	var sb strings.Builder
	printer.Fprint(&sb, t.Fset, n)
	return strings.Join(strings.Fields(sb.String()), " ")
}

func leanStr(s string) string {
	var sb strings.Builder
	sb.WriteByte('"')
	for _, r := range s {
		switch {
		case r == '"':
			sb.WriteString("\\\"")
		case r == '\\':
			sb.WriteString("\\\\")
		case r == '\n':
			sb.WriteString("\\n")
		case r == '\t':
			sb.WriteString("\\t")
		case r == '\r':
			sb.WriteString("\\r")
		case r < 0x20 || r == 0x7f:
			sb.WriteString(fmt.Sprintf("\\x%02x", r))
		default:
			sb.WriteRune(r)
		}
	}
	sb.WriteByte('"')
	return sb.String()
}

func (t *T) unknownE(n ast.Node) string {
	t.Unknown++
	return "(.unknown " + leanStr(t.src(n)) + ")"
}

func (t *T) unknownS(n ast.Node) string {
	t.Unknown++
	return "(.unknown " + leanStr(t.src(n)) + ")"
}

// path returns "a.b.c" for an identifier or a selector chain over identifiers.
func path(e ast.Expr) (string, bool) {
	switch x := e.(type) {
	case *ast.Ident:
		return x.Name, true
	case *ast.SelectorExpr:
		p, ok := path(x.X)
		if !ok {
			return "", false
		}
		return p + "." + x.Sel.Name, true
	case *ast.ParenExpr:
		return path(x.X)
	}
	return "", false
}

func intLit(n int64) string {
	if n < 0 {
		return fmt.Sprintf("(.int (%d))", n)
	}
	return fmt.Sprintf("(.int %d)", n)
}

func runesLit(s string) string {
	var parts []string
	for len(s) > 0 {
		r, n := utf8.DecodeRuneInString(s)
		if r == utf8.RuneError && n == 1 {
			// a raw byte that is not UTF-8: keep the byte value (Go strings are bytes)
			parts = append(parts, fmt.Sprintf("%d", s[0]))
		} else {
			parts = append(parts, fmt.Sprintf("%d", r))
		}
		s = s[n:]
	}
	return "[" + strings.Join(parts, ", ") + "]"
}

var binOps = map[string]string{"&&": ".land", "||": ".lor", "==": ".eq", "!=": ".ne", "<": ".lt", "<=": ".le", ">": ".gt", ">=": ".ge",
	"+": ".add", "-": ".sub", "&": ".band", "|": ".bor", "&^": ".andNot"}
var unOps = map[string]string{"!": ".not", "-": ".neg", "&": ".addr"}
var assignToks = map[string]string{"=": ".set", ":=": ".define", "|=": ".orSet", "+=": ".addSet"}

func (t *T) binOp(op string) string {
	if s, ok := binOps[op]; ok {
		return s
	}
	t.Unknown++
	return "(.other " + leanStr(op) + ")"
}

func (t *T) unOp(op string) string {
	if s, ok := unOps[op]; ok {
		return s
	}
	t.Unknown++
	return "(.other " + leanStr(op) + ")"
}

func (t *T) assignTok(op string) string {
	if s, ok := assignToks[op]; ok {
		return s
	}
	t.Unknown++
	return "(.other " + leanStr(op) + ")"
}

// litInt evaluates an integer / character literal (possibly parenthesised or built from literals).
func litInt(e ast.Expr) (int64, bool) {
	switch x := e.(type) {
	case *ast.ParenExpr:
		return litInt(x.X)
	case *ast.BasicLit:
		switch x.Kind {
		case token.INT:
			n, err := strconv.ParseInt(x.Value, 0, 64)
			return n, err == nil
		case token.CHAR:
			r, _, _, err := strconv.UnquoteChar(x.Value[1:len(x.Value)-1], '\'')
			return int64(r), err == nil
		}
	case *ast.BinaryExpr:
		a, ok1 := litInt(x.X)
		b, ok2 := litInt(x.Y)
		if ok1 && ok2 {
			switch x.Op {
			case token.ADD:
				return a + b, true
			case token.SUB:
				return a - b, true
			case token.MUL:
				return a * b, true
			case token.OR:
				return a | b, true
			case token.AND:
				return a & b, true
			}
		}
	}
	return 0, false
}

// Expr translates an expression.
func (t *T) Expr(e ast.Expr) string {
	switch x := e.(type) {
	case nil:
		return ".nilv"
	case *ast.ParenExpr:
		return t.Expr(x.X)
	case *ast.BasicLit:
		switch x.Kind {
		case token.INT:
			n, err := strconv.ParseInt(x.Value, 0, 64)
			if err != nil {
				return t.unknownE(e)
			}
			return intLit(n)
		case token.CHAR:
			r, _, _, err := strconv.UnquoteChar(x.Value[1:len(x.Value)-1], '\'')
			if err != nil {
				return t.unknownE(e)
			}
			return intLit(int64(r))
		case token.STRING:
			s, err := strconv.Unquote(x.Value)
			if err != nil {
				return t.unknownE(e)
			}
			return "(.str " + runesLit(s) + ")"
		}
		return t.unknownE(e)
	case *ast.Ident:
		switch x.Name {
		case "true":
			return ".tt"
		case "false":
			return ".ff"
		case "nil":
			return ".nilv"
		}
		return "(.var " + leanStr(x.Name) + ")"
	case *ast.SelectorExpr:
		if p, ok := path(x); ok {
			return "(.var " + leanStr(p) + ")"
		}
		return "(.sel " + t.Expr(x.X) + " " + leanStr(x.Sel.Name) + ")"
	case *ast.BinaryExpr:
		// literal arithmetic (`0x5F+1`, `1<<3`) is folded: it is not part of the decision structure
		if a, ok := litInt(x.X); ok {
			if b, ok := litInt(x.Y); ok {
				switch x.Op {
				case token.ADD:
					return intLit(a + b)
				case token.SUB:
					return intLit(a - b)
				case token.MUL:
					return intLit(a * b)
				case token.OR:
					return intLit(a | b)
				case token.AND:
					return intLit(a & b)
				case token.SHL:
					if b >= 0 && b < 62 {
						return intLit(a << uint(b))
					}
				}
			}
		}
		return "(.bin " + t.binOp(x.Op.String()) + " " + t.Expr(x.X) + " " + t.Expr(x.Y) + ")"
	case *ast.UnaryExpr:
		return "(.un " + t.unOp(x.Op.String()) + " " + t.Expr(x.X) + ")"
	case *ast.CallExpr:
		fn, ok := path(x.Fun)
		if !ok {
			// conversions to composite types etc.
			switch f := x.Fun.(type) {
			case *ast.ArrayType:
				fn = t.src(f)
			default:
				return t.unknownE(e)
			}
		}
		if x.Ellipsis != token.NoPos {
			return t.unknownE(e)
		}
		return "(.call " + leanStr(fn) + " " + t.exprs(x.Args) + ")"
	case *ast.IndexExpr:
		return "(.idx " + t.Expr(x.X) + " " + t.Expr(x.Index) + ")"
	case *ast.SliceExpr:
		if x.Slice3 {
			return t.unknownE(e)
		}
		return "(.slc " + t.Expr(x.X) + " " + t.Expr(x.Low) + " " + t.Expr(x.High) + ")"
	case *ast.CompositeLit:
		ty := ""
		if x.Type != nil {
			ty = t.src(x.Type)
		}
		var elts []ast.Expr
		for _, el := range x.Elts {
			if kv, ok := el.(*ast.KeyValueExpr); ok {
				// field: value — keep both, the key as a variable name
				elts = append(elts, kv.Key, kv.Value)
				continue
			}
			elts = append(elts, el)
		}
		return "(.lit " + leanStr(ty) + " " + t.exprs(elts) + ")"
	case *ast.StarExpr:
		return "(.un .deref " + t.Expr(x.X) + ")"
	case *ast.TypeAssertExpr:
		if x.Type == nil {
			return "(.call \".(type)\" " + t.exprs([]ast.Expr{x.X}) + ")"
		}
		return "(.call " + leanStr(".("+t.src(x.Type)+")") + " " + t.exprs([]ast.Expr{x.X}) + ")"
	}
	return t.unknownE(e)
}

func (t *T) exprs(es []ast.Expr) string {
	if len(es) == 0 {
		return ".nil"
	}
	parts := make([]string, len(es))
	for i, e := range es {
		parts[i] = t.Expr(e)
	}
	return "(Es.ofList [" + strings.Join(parts, ", ") + "])"
}

func (t *T) optStmt(s ast.Stmt, ind string) string {
	if s == nil {
		return ".nil"
	}
	return "(Ss.ofList [" + t.Stmt(s, ind) + "])"
}

// Stmts translates a statement list.
func (t *T) Stmts(ss []ast.Stmt, ind string) string {
	if len(ss) == 0 {
		return ".nil"
	}
	in2 := ind + "  "
	parts := make([]string, len(ss))
	for i, s := range ss {
		parts[i] = in2 + t.Stmt(s, in2)
	}
	return "(Ss.ofList [\n" + strings.Join(parts, ",\n") + "])"
}

func (t *T) cases(body *ast.BlockStmt, ind string) string {
	in2 := ind + "  "
	var parts []string
	for _, st := range body.List {
		cc, ok := st.(*ast.CaseClause)
		if !ok {
			parts = append(parts, in2+"(.nil, (Ss.ofList ["+t.unknownS(st)+"]))")
			continue
		}
		parts = append(parts, in2+"("+t.exprs(cc.List)+", "+t.Stmts(cc.Body, in2)+")")
	}
	if len(parts) == 0 {
		return ".nil"
	}
	return "(Cs.ofList [\n" + strings.Join(parts, ",\n") + "])"
}

// Stmt translates one statement.
func (t *T) Stmt(s ast.Stmt, ind string) string {
	switch x := s.(type) {
	case *ast.AssignStmt:
		return "(.assign " + t.assignTok(x.Tok.String()) + " " + t.exprs(x.Lhs) + " " + t.exprs(x.Rhs) + ")"
	case *ast.IfStmt:
		els := ".nil"
		switch e := x.Else.(type) {
		case nil:
		case *ast.BlockStmt:
			els = t.Stmts(e.List, ind)
		default:
			els = "(Ss.ofList [" + t.Stmt(e, ind) + "])"
		}
		return "(.ifS " + t.optStmt(x.Init, ind) + " " + t.Expr(x.Cond) + " " + t.Stmts(x.Body.List, ind) + " " + els + ")"
	case *ast.ReturnStmt:
		return "(.ret " + t.exprs(x.Results) + ")"
	case *ast.SwitchStmt:
		return "(.switchS " + t.optStmt(x.Init, ind) + " " + t.Expr(x.Tag) + " " + t.cases(x.Body, ind) + ")"
	case *ast.TypeSwitchStmt:
		if x.Init != nil {
			return t.unknownS(s)
		}
		bind := ""
		var subj ast.Expr
		switch a := x.Assign.(type) {
		case *ast.AssignStmt:
			if len(a.Lhs) == 1 && len(a.Rhs) == 1 {
				if id, ok := a.Lhs[0].(*ast.Ident); ok {
					bind = id.Name
				}
				if ta, ok := a.Rhs[0].(*ast.TypeAssertExpr); ok {
					subj = ta.X
				}
			}
		case *ast.ExprStmt:
			if ta, ok := a.X.(*ast.TypeAssertExpr); ok {
				subj = ta.X
			}
		}
		if subj == nil {
			return t.unknownS(s)
		}
		return "(.typeSwitch " + leanStr(bind) + " " + t.Expr(subj) + " " + t.typeCases(x.Body, ind) + ")"
	case *ast.RangeStmt:
		k, v := "", ""
		if x.Key != nil {
			p, ok := path(x.Key)
			if !ok {
				return t.unknownS(s)
			}
			k = p
		}
		if x.Value != nil {
			p, ok := path(x.Value)
			if !ok {
				return t.unknownS(s)
			}
			v = p
		}
		return "(.forRange " + leanStr(k) + " " + leanStr(v) + " " + t.Expr(x.X) + " " + t.Stmts(x.Body.List, ind) + ")"
	case *ast.ExprStmt:
		return "(.expr " + t.Expr(x.X) + ")"
	case *ast.BranchStmt:
		if x.Label != nil {
			return t.unknownS(s)
		}
		switch x.Tok {
		case token.BREAK:
			return ".brk"
		case token.CONTINUE:
			return ".cont"
		}
		return t.unknownS(s)
	case *ast.DeclStmt:
		gd, ok := x.Decl.(*ast.GenDecl)
		if !ok || gd.Tok != token.VAR || len(gd.Specs) != 1 {
			return t.unknownS(s)
		}
		vs, ok := gd.Specs[0].(*ast.ValueSpec)
		if !ok || len(vs.Names) != 1 || len(vs.Values) != 0 || vs.Type == nil {
			return t.unknownS(s)
		}
		return "(.varDecl " + leanStr(vs.Names[0].Name) + " " + leanStr(t.src(vs.Type)) + ")"
	case *ast.DeferStmt:
		return "(.deferS " + t.Expr(x.Call) + ")"
	case *ast.BlockStmt:
		return "(.ifS .nil .tt " + t.Stmts(x.List, ind) + " .nil)"
	case *ast.IncDecStmt:
		return "(.assign " + t.assignTok(x.Tok.String()) + " " + t.exprs([]ast.Expr{x.X}) + " .nil)"
	}
	return t.unknownS(s)
}

func (t *T) typeCases(body *ast.BlockStmt, ind string) string {
	in2 := ind + "  "
	var parts []string
	for _, st := range body.List {
		cc, ok := st.(*ast.CaseClause)
		if !ok {
			parts = append(parts, in2+"(.nil, (Ss.ofList ["+t.unknownS(st)+"]))")
			continue
		}
		var labs []string
		for _, l := range cc.List {
			labs = append(labs, "(.var "+leanStr(t.src(l))+")")
		}
		lab := ".nil"
		if len(labs) > 0 {
			lab = "(Es.ofList [" + strings.Join(labs, ", ") + "])"
		}
		parts = append(parts, in2+"("+lab+", "+t.Stmts(cc.Body, in2)+")")
	}
	if len(parts) == 0 {
		return ".nil"
	}
	return "(Cs.ofList [\n" + strings.Join(parts, ",\n") + "])"
}

// Func renders `def <name> : Ss := …` for a function body.
func (t *T) Func(name string, doc string, fd *ast.FuncDecl) string {
	var sb strings.Builder
	fmt.Fprintf(&sb, "/-- %s -/\ndef %s : Ss :=\n  %s\n\n", doc, name, t.Stmts(fd.Body.List, "  "))
	return sb.String()
}
