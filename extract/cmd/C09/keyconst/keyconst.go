// Package keyconst evaluates the integer constants of key.go / mouse.go (iota blocks, aliases)
// for the C09/C13 extractors. It understands only what those files use and fails closed.
package keyconst

import (
	"fmt"
	"go/ast"
	"go/token"
	"strconv"
)

// Const is one evaluated constant, in source order.
type Const struct {
	Name  string
	Value int64
	Block int // index of the const block it came from
}

type Env struct {
	Vals  map[string]int64
	Order []Const
}

func NewEnv() *Env {
	return &Env{Vals: map[string]int64{"unicode.MaxRune": 0x10FFFF, "utf8.RuneSelf": 0x80}}
}

// Eval evaluates an integer constant expression.
func (e *Env) Eval(x ast.Expr, iota int64) (int64, error) {
	switch x := x.(type) {
	case *ast.BasicLit:
		switch x.Kind {
		case token.INT:
			v, err := strconv.ParseInt(x.Value, 0, 64)
			return v, err
		case token.CHAR:
			r, _, _, err := strconv.UnquoteChar(x.Value[1:len(x.Value)-1], '\'')
			return int64(r), err
		}
		return 0, fmt.Errorf("unsupported literal %s", x.Value)
	case *ast.Ident:
		if x.Name == "iota" {
			return iota, nil
		}
		if v, ok := e.Vals[x.Name]; ok {
			return v, nil
		}
		return 0, fmt.Errorf("unknown identifier %s", x.Name)
	case *ast.SelectorExpr:
		if id, ok := x.X.(*ast.Ident); ok {
			n := id.Name + "." + x.Sel.Name
			if v, ok := e.Vals[n]; ok {
				return v, nil
			}
			// package-qualified constant of the package under extraction (vaxis.KeyUp)
			if v, ok := e.Vals[x.Sel.Name]; ok && id.Name == "vaxis" {
				return v, nil
			}
			return 0, fmt.Errorf("unknown selector %s", n)
		}
	case *ast.ParenExpr:
		return e.Eval(x.X, iota)
	case *ast.CallExpr: // conversions: rune(x), ModifierMask(x), int(x)
		if len(x.Args) == 1 {
			return e.Eval(x.Args[0], iota)
		}
	case *ast.UnaryExpr:
		v, err := e.Eval(x.X, iota)
		if err != nil {
			return 0, err
		}
		switch x.Op {
		case token.SUB:
			return -v, nil
		case token.ADD:
			return v, nil
		}
	case *ast.BinaryExpr:
		a, err := e.Eval(x.X, iota)
		if err != nil {
			return 0, err
		}
		b, err := e.Eval(x.Y, iota)
		if err != nil {
			return 0, err
		}
		switch x.Op {
		case token.ADD:
			return a + b, nil
		case token.SUB:
			return a - b, nil
		case token.MUL:
			return a * b, nil
		case token.SHL:
			return a << uint(b), nil
		case token.OR:
			return a | b, nil
		case token.AND:
			return a & b, nil
		}
	}
	return 0, fmt.Errorf("unsupported constant expression %T", x)
}

// AddFile evaluates every integer const block of the file (non-integer constants are skipped
// silently only if they are string literals).
func (e *Env) AddFile(f *ast.File) error {
	block := len(e.Order)
	for _, d := range f.Decls {
		gd, ok := d.(*ast.GenDecl)
		if !ok || gd.Tok != token.CONST {
			continue
		}
		block++
		var last []ast.Expr
		for i, s := range gd.Specs {
			vs := s.(*ast.ValueSpec)
			vals := vs.Values
			if len(vals) == 0 {
				vals = last
			} else {
				last = vals
			}
			for j, n := range vs.Names {
				if j >= len(vals) {
					return fmt.Errorf("const %s has no value", n.Name)
				}
				if bl, ok := vals[j].(*ast.BasicLit); ok && bl.Kind == token.STRING {
					continue
				}
				v, err := e.Eval(vals[j], int64(i))
				if err != nil {
					return fmt.Errorf("const %s: %v", n.Name, err)
				}
				if n.Name == "_" {
					continue
				}
				e.Vals[n.Name] = v
				e.Order = append(e.Order, Const{n.Name, v, block})
			}
		}
	}
	return nil
}
