// Extractor for C09 (and the root-package half of C13): Gen/Keys.lean from key.go, Gen/Mouse.lean from mouse.go.
package main

import (
	"fmt"
	"go/ast"
	"go/token"
	"strconv"
	"strings"

	"verifextract/cmd/C09/keyconst"
	"verifextract/ex"
)

func main() { ex.Main([]string{"Keys.lean", "Mouse.lean", "KeyBody.lean"}, gen) }

func gen(c *ex.Ctx) {
	genKeys(c)
	genMouse(c)
	genKeyBody(c)
}

func strLit(e ast.Expr) (string, bool) {
	bl, ok := e.(*ast.BasicLit)
	if !ok || bl.Kind != token.STRING {
		return "", false
	}
	s, err := strconv.Unquote(bl.Value)
	return s, err == nil
}

func genKeys(c *ex.Ctx) {
	f := c.Parse("key.go")
	if f == nil {
		return
	}
	env := keyconst.NewEnv()
	if err := env.AddFile(f); err != nil {
		c.Fail("key.go: %v", err)
		return
	}
	var sb strings.Builder
	sb.WriteString("namespace VaxisModel.Gen.Keys\n\n")
	sb.WriteString("def maxRune : Int := 1114111\n\n")

	// constants
	var keyC, modC, evC []keyconst.Const
	for _, k := range env.Order {
		switch {
		case strings.HasPrefix(k.Name, "Key"):
			keyC = append(keyC, k)
		case strings.HasPrefix(k.Name, "Mod"):
			modC = append(modC, k)
		case strings.HasPrefix(k.Name, "Event"):
			evC = append(evC, k)
		}
	}
	if len(keyC) < 100 || len(modC) != 8 || len(evC) < 5 {
		c.Fail("key.go: unexpected constant blocks: %d Key*, %d Mod*, %d Event*", len(keyC), len(modC), len(evC))
		return
	}
	for _, k := range keyC {
		fmt.Fprintf(&sb, "def %s : Int := %d\n", k.Name, k.Value)
	}
	sb.WriteString("\n/-- Every `Key*` constant of key.go in source order (iota block, then aliases). -/\ndef keyConsts : List (String × Int) := [\n")
	for i, k := range keyC {
		fmt.Fprintf(&sb, "  (%s, %d)%s\n", ex.LeanStr(k.Name), k.Value, sep(i, len(keyC)))
	}
	sb.WriteString("]\n\n")
	for _, k := range modC {
		fmt.Fprintf(&sb, "def %s : Nat := %d\n", k.Name, k.Value)
	}
	sb.WriteString("def modConsts : List (String × Nat) := [")
	for i, k := range modC {
		fmt.Fprintf(&sb, "(%s, %d)%s", ex.LeanStr(k.Name), k.Value, sepS(i, len(modC)))
	}
	sb.WriteString("]\n\n")
	for _, k := range evC {
		fmt.Fprintf(&sb, "def %s : Int := %d\n", k.Name, k.Value)
	}
	sb.WriteString("\n")

	// specialsKeys
	v := ex.FindVarValue(f, "specialsKeys")
	cl, ok := v.(*ast.CompositeLit)
	if !ok {
		c.Fail("key.go: specialsKeys is not a composite literal")
		return
	}
	type sk struct {
		code, final, val int64
		name             string
	}
	var sks []sk
	for _, e := range cl.Elts {
		kv, ok := e.(*ast.KeyValueExpr)
		if !ok {
			c.Fail("%s: specialsKeys element is not key: value", c.Pos(e))
			return
		}
		kc, ok := kv.Key.(*ast.CompositeLit)
		if !ok || len(kc.Elts) != 2 {
			c.Fail("%s: specialsKeys key is not {code, final}", c.Pos(e))
			return
		}
		code, err1 := env.Eval(kc.Elts[0], 0)
		fin, err2 := env.Eval(kc.Elts[1], 0)
		id, ok := kv.Value.(*ast.Ident)
		if err1 != nil || err2 != nil || !ok {
			c.Fail("%s: specialsKeys entry not understood", c.Pos(e))
			return
		}
		val, err := env.Eval(id, 0)
		if err != nil {
			c.Fail("%s: %v", c.Pos(e), err)
			return
		}
		sks = append(sks, sk{code, fin, val, id.Name})
	}
	sb.WriteString("/-- `specialsKeys`: ((parameter, final byte), key) in source order. -/\ndef specialsKeys : List ((Int × Int) × Int) := [\n")
	for i, s := range sks {
		fmt.Fprintf(&sb, "  ((%d, %d), %d)%s\n", s.code, s.final, s.val, sep(i, len(sks)))
	}
	sb.WriteString("]\n\n/-- The same table with the Go identifier of the key. -/\ndef specialsKeysNamed : List ((Int × Int) × String) := [\n")
	for i, s := range sks {
		fmt.Fprintf(&sb, "  ((%d, %d), %s)%s\n", s.code, s.final, ex.LeanStr(s.name), sep(i, len(sks)))
	}
	sb.WriteString("]\n\n")

	// keyNames
	v = ex.FindVarValue(f, "keyNames")
	cl, ok = v.(*ast.CompositeLit)
	if !ok {
		c.Fail("key.go: keyNames is not a composite literal")
		return
	}
	sb.WriteString("/-- `keyNames` in source order; names as code-point lists (the string is in the comment). -/\ndef keyNames : List (Int × List Int) := [\n")
	var idents []string
	for i, e := range cl.Elts {
		ec, ok := e.(*ast.CompositeLit)
		if !ok || len(ec.Elts) != 2 {
			c.Fail("%s: keyNames element is not {key, name}", c.Pos(e))
			return
		}
		val, err := env.Eval(ec.Elts[0], 0)
		name, ok2 := strLit(ec.Elts[1])
		if err != nil || !ok2 {
			c.Fail("%s: keyNames element not understood", c.Pos(e))
			return
		}
		idents = append(idents, c.Src(ec.Elts[0]))
		fmt.Fprintf(&sb, "  (%d, %s)%s -- %s\n", val, runesLit(name), sep(i, len(cl.Elts)), ex.LeanStr(name))
	}
	sb.WriteString("]\n\ndef keyNameIdents : List String := [")
	for i, s := range idents {
		fmt.Fprintf(&sb, "%s%s", ex.LeanStr(s), sepS(i, len(idents)))
	}
	sb.WriteString("]\n\n")

	// MatchString modifier labels
	fd := ex.FindFunc(f, "Key", "MatchString")
	if fd == nil {
		c.Fail("key.go: Key.MatchString not found")
		return
	}
	type lab struct {
		s string
		v int64
	}
	var labs []lab
	found := false
	ast.Inspect(fd.Body, func(n ast.Node) bool {
		sw, ok := n.(*ast.SwitchStmt)
		if !ok || sw.Tag == nil || !strings.Contains(c.Src(sw.Tag), "strings.ToLower") {
			return true
		}
		found = true
		for _, st := range sw.Body.List {
			cc := st.(*ast.CaseClause)
			if cc.List == nil {
				if len(cc.Body) != 0 {
					c.Fail("%s: MatchString modifier switch has a non-empty default", c.Pos(cc))
				}
				continue
			}
			if len(cc.Body) != 1 {
				c.Fail("%s: MatchString modifier case body not a single statement", c.Pos(cc))
				return false
			}
			as, ok := cc.Body[0].(*ast.AssignStmt)
			if !ok || as.Tok != token.OR_ASSIGN || c.Src(as.Lhs[0]) != "mask" {
				c.Fail("%s: MatchString modifier case is not `mask |= Mod…`", c.Pos(cc))
				return false
			}
			val, err := env.Eval(as.Rhs[0], 0)
			if err != nil {
				c.Fail("%s: %v", c.Pos(cc), err)
				return false
			}
			for _, l := range cc.List {
				s, ok := strLit(l)
				if !ok {
					c.Fail("%s: MatchString modifier label is not a string literal", c.Pos(cc))
					return false
				}
				labs = append(labs, lab{s, val})
			}
		}
		return false
	})
	if !found {
		c.Fail("key.go: MatchString: switch strings.ToLower(m) not found")
		return
	}
	sb.WriteString("/-- Modifier labels recognised by `MatchString` (after `strings.ToLower`) and the bit each one sets. -/\ndef matchStringMods : List (List Int × Nat) := [")
	for i, l := range labs {
		fmt.Fprintf(&sb, "(%s, %d)%s", runesLit(l.s), l.v, sepS(i, len(labs)))
	}
	sb.WriteString("]\n\n")

	// String() modifier prefixes, in order
	fd = ex.FindFunc(f, "Key", "String")
	if fd == nil {
		c.Fail("key.go: Key.String not found")
		return
	}
	var pre []lab
	var guard string
	for _, st := range fd.Body.List {
		is, ok := st.(*ast.IfStmt)
		if !ok {
			continue
		}
		guard = c.Src(is.Cond)
		for _, in := range is.Body.List {
			ii, ok := in.(*ast.IfStmt)
			if !ok {
				c.Fail("%s: String(): unexpected statement in the modifier block", c.Pos(in))
				return
			}
			be, ok := ii.Cond.(*ast.BinaryExpr)
			if !ok || be.Op != token.NEQ || c.Src(be.Y) != "0" {
				c.Fail("%s: String(): modifier test is not `k.Modifiers&Mod… != 0`", c.Pos(ii))
				return
			}
			and, ok := be.X.(*ast.BinaryExpr)
			if !ok || and.Op != token.AND || c.Src(and.X) != "k.Modifiers" {
				c.Fail("%s: String(): modifier test is not `k.Modifiers&Mod… != 0`", c.Pos(ii))
				return
			}
			val, err := env.Eval(and.Y, 0)
			if err != nil || len(ii.Body.List) != 1 || ii.Else != nil {
				c.Fail("%s: String(): modifier block not understood", c.Pos(ii))
				return
			}
			es, ok := ii.Body.List[0].(*ast.ExprStmt)
			if !ok {
				c.Fail("%s: String(): modifier block not understood", c.Pos(ii))
				return
			}
			call, ok := es.X.(*ast.CallExpr)
			if !ok || c.Src(call.Fun) != "buf.WriteString" || len(call.Args) != 1 {
				c.Fail("%s: String(): modifier block does not call buf.WriteString", c.Pos(ii))
				return
			}
			s, ok := strLit(call.Args[0])
			if !ok {
				c.Fail("%s: String(): prefix is not a literal", c.Pos(ii))
				return
			}
			pre = append(pre, lab{s, val})
		}
		break
	}
	if guard != "k.EventType != EventRelease" {
		c.Fail("key.go: String(): modifier block guard is %q, expected `k.EventType != EventRelease`", guard)
		return
	}
	sb.WriteString("/-- Prefixes written by `String()` (unless the event is a release), in order, with the bit tested. -/\ndef stringMods : List (Nat × List Int) := [")
	for i, l := range pre {
		fmt.Fprintf(&sb, "(%d, %s)%s", l.v, runesLit(l.s), sepS(i, len(pre)))
	}
	sb.WriteString("]\n\n")

	// decodeKey: explicit C0 and SS3 case tables
	fd = ex.FindFunc(f, "", "decodeKey")
	if fd == nil {
		c.Fail("key.go: decodeKey not found")
		return
	}
	arms := map[string][][2]int64{}
	ast.Inspect(fd.Body, func(n ast.Node) bool {
		ts, ok := n.(*ast.TypeSwitchStmt)
		if !ok {
			return true
		}
		for _, st := range ts.Body.List {
			cc := st.(*ast.CaseClause)
			if len(cc.List) != 1 {
				continue
			}
			ty := c.Src(cc.List[0])
			if ty != "ansi.C0" && ty != "ansi.SS3" {
				continue
			}
			if len(cc.Body) != 1 {
				c.Fail("%s: decodeKey %s arm is not a single switch", c.Pos(cc), ty)
				return false
			}
			sw, ok := cc.Body[0].(*ast.SwitchStmt)
			if !ok || c.Src(sw.Tag) != "rune(seq)" {
				c.Fail("%s: decodeKey %s arm is not `switch rune(seq)`", c.Pos(cc), ty)
				return false
			}
			arms[ty] = [][2]int64{}
			for _, s2 := range sw.Body.List {
				c2 := s2.(*ast.CaseClause)
				if c2.List == nil {
					continue // default arm: modelled by hand, validated by correspondence
				}
				if len(c2.Body) != 1 {
					c.Fail("%s: decodeKey %s case body not a single assignment", c.Pos(c2), ty)
					return false
				}
				as, ok := c2.Body[0].(*ast.AssignStmt)
				if !ok || as.Tok != token.ASSIGN || c.Src(as.Lhs[0]) != "key.Keycode" {
					c.Fail("%s: decodeKey %s case is not `key.Keycode = …`", c.Pos(c2), ty)
					return false
				}
				val, err := env.Eval(as.Rhs[0], 0)
				if err != nil {
					c.Fail("%s: %v", c.Pos(c2), err)
					return false
				}
				for _, l := range c2.List {
					b, err := env.Eval(l, 0)
					if err != nil {
						c.Fail("%s: %v", c.Pos(c2), err)
						return false
					}
					arms[ty] = append(arms[ty], [2]int64{b, val})
				}
			}
		}
		return false
	})
	for _, ty := range []string{"ansi.C0", "ansi.SS3"} {
		a, ok := arms[ty]
		if !ok {
			c.Fail("key.go: decodeKey has no %s arm", ty)
			return
		}
		nm := map[string]string{"ansi.C0": "c0Keys", "ansi.SS3": "ss3Keys"}[ty]
		fmt.Fprintf(&sb, "/-- decodeKey, `case %s`: explicit (byte, key) cases in source order. -/\ndef %s : List (Int × Int) := [", ty, nm)
		for i, p := range a {
			fmt.Fprintf(&sb, "(%d, %d)%s", p[0], p[1], sepS(i, len(a)))
		}
		sb.WriteString("]\n\n")
	}
	sb.WriteString("end VaxisModel.Gen.Keys\n")
	c.Write("Keys.lean", sb.String())
}

func genMouse(c *ex.Ctx) {
	f := c.Parse("mouse.go")
	if f == nil {
		return
	}
	env := keyconst.NewEnv()
	if err := env.AddFile(f); err != nil {
		c.Fail("mouse.go: %v", err)
		return
	}
	var sb strings.Builder
	sb.WriteString("namespace VaxisModel.Gen.Mouse\n\n")
	var btn []keyconst.Const
	for _, k := range env.Order {
		if k.Value < 0 {
			c.Fail("mouse.go: negative constant %s", k.Name)
			return
		}
		fmt.Fprintf(&sb, "def %s : Nat := %d\n", k.Name, k.Value)
		if strings.HasPrefix(k.Name, "Mouse") {
			btn = append(btn, k)
		}
	}
	for _, want := range []string{"motion", "buttonBits", "mouseModShift", "mouseModAlt", "mouseModCtrl", "MouseWheelUp", "MouseWheelDown", "MouseNoButton"} {
		if _, ok := env.Vals[want]; !ok {
			c.Fail("mouse.go: constant %s not found", want)
			return
		}
	}
	sb.WriteString("\n/-- The `MouseButton` constants. -/\ndef buttons : List (String × Nat) := [")
	for i, k := range btn {
		fmt.Fprintf(&sb, "(%s, %d)%s", ex.LeanStr(k.Name), k.Value, sepS(i, len(btn)))
	}
	sb.WriteString("]\n\nend VaxisModel.Gen.Mouse\n")
	c.Write("Mouse.lean", sb.String())
}

func runesLit(s string) string {
	var parts []string
	for _, r := range s {
		parts = append(parts, fmt.Sprintf("%d", r))
	}
	return "[" + strings.Join(parts, ", ") + "]"
}

func sep(i, n int) string {
	if i == n-1 {
		return ""
	}
	return ","
}
func sepS(i, n int) string {
	if i == n-1 {
		return ""
	}
	return ", "
}
