package main

// Inventory facts for C10 (add-only section of Gen/Conc.lean): every `go` statement, every timer,
// every Lock/Unlock call expression, every mutex field, every channel made in vaxis.go, the sends
// of reply hand-offs in handleSequence and the receives of the requesters, the bodies of SyncFunc
// and Resize.  Unrecognised shapes degrade to "unknown:<text>" values.
import (
	"fmt"
	"go/ast"
	"os"
	"path/filepath"
	"sort"
	"strings"
	"verifextract/ex"
)

type site struct{ file, fn, what string }

func leanTriples(xs []site) string {
	var out []string
	for _, x := range xs {
		out = append(out, fmt.Sprintf("(%s, %s, %s)", ex.LeanStr(x.file), ex.LeanStr(x.fn), ex.LeanStr(x.what)))
	}
	return "[" + strings.Join(out, ", ") + "]"
}

func leanStrs(xs []string) string {
	var out []string
	for _, x := range xs {
		out = append(out, ex.LeanStr(x))
	}
	return "[" + strings.Join(out, ", ") + "]"
}

// lockFiles: every scanned file of the root package plus the parser and the spinner
func lockFiles(c *ex.Ctx) []string {
	ents, err := os.ReadDir(c.Repo)
	if err != nil {
		c.Fail("readdir: %v", err)
		return nil
	}
	var out []string
	for _, e := range ents {
		n := e.Name()
		if !e.IsDir() && strings.HasSuffix(n, ".go") && classify(c.Repo, n) == "scan" {
			out = append(out, n)
		}
	}
	sort.Strings(out)
	return append(out, "ansi/parser.go", "widgets/spinner/spinner.go")
}

// classify a root-package file by its name and build constraint
func classify(repo, name string) string {
	if strings.HasSuffix(name, "_test.go") {
		return "test"
	}
	b, err := os.ReadFile(filepath.Join(repo, name))
	if err != nil {
		return "unreadable"
	}
	for _, l := range strings.Split(string(b), "\n") {
		l = strings.TrimSpace(l)
		if strings.HasPrefix(l, "//go:build") {
			c := strings.TrimPrefix(l, "//go:build")
			if strings.Contains(c, "verif") && !strings.Contains(c, "!verif") {
				return "verif"
			}
			if strings.Contains(c, "windows") && !strings.Contains(c, "!windows") && !strings.Contains(c, "linux") {
				return "otheros"
			}
			break
		}
		if strings.HasPrefix(l, "package ") {
			break
		}
	}
	if strings.HasSuffix(name, "_windows.go") {
		return "otheros"
	}
	return "scan"
}

// enclosing function names: walk declarations, function literals get ".funcN"
func walkFuncs(f *ast.File, c *ex.Ctx, visit func(fn string, n ast.Node)) {
	for _, d := range f.Decls {
		fd, ok := d.(*ast.FuncDecl)
		if !ok || fd.Body == nil {
			continue
		}
		name := fd.Name.Name
		if fd.Recv != nil && len(fd.Recv.List) > 0 {
			t := fd.Recv.List[0].Type
			if s, ok := t.(*ast.StarExpr); ok {
				t = s.X
			}
			name = c.Src(t) + "." + name
		}
		ast.Inspect(fd.Body, func(n ast.Node) bool {
			if n != nil {
				visit(name, n)
			}
			return true
		})
	}
}

func inventory(c *ex.Ctx, sb *strings.Builder) {
	ents, err := os.ReadDir(c.Repo)
	if err != nil {
		c.Fail("readdir: %v", err)
		return
	}
	var all, scanned, other []string
	for _, e := range ents {
		n := e.Name()
		if e.IsDir() || !strings.HasSuffix(n, ".go") {
			continue
		}
		switch classify(c.Repo, n) {
		case "scan":
			all = append(all, n)
			scanned = append(scanned, n)
		case "otheros":
			all = append(all, n)
			other = append(other, n)
		}
	}
	sort.Strings(all)
	sort.Strings(scanned)
	extra := []string{"ansi/parser.go", "widgets/spinner/spinner.go"}
	var goSites, goOther, timers []site
	type cnt struct{ l, u int }
	lockCalls := map[string]cnt{}
	var mutexFields [][2]string
	scan := func(rel string, otherOS bool) {
		f := c.Parse(rel)
		if f == nil {
			return
		}
		walkFuncs(f, c, func(fn string, n ast.Node) {
			switch x := n.(type) {
			case *ast.GoStmt:
				what := "unknown:" + c.Src(x.Call.Fun)
				switch g := x.Call.Fun.(type) {
				case *ast.FuncLit:
					what = "func-literal"
				case *ast.SelectorExpr:
					what = c.Src(g)
				case *ast.Ident:
					what = g.Name
				}
				if otherOS {
					goOther = append(goOther, site{rel, fn, what})
				} else {
					goSites = append(goSites, site{rel, fn, what})
				}
			case *ast.CallExpr:
				if sel, ok := x.Fun.(*ast.SelectorExpr); ok {
					if id, ok := sel.X.(*ast.Ident); ok && id.Name == "time" && !otherOS {
						switch sel.Sel.Name {
						case "AfterFunc", "NewTimer", "NewTicker", "After", "Tick":
							timers = append(timers, site{rel, fn, sel.Sel.Name})
						}
					}
					if (sel.Sel.Name == "Lock" || sel.Sel.Name == "Unlock" || sel.Sel.Name == "RLock" || sel.Sel.Name == "RUnlock" || sel.Sel.Name == "TryLock") && len(x.Args) == 0 && !otherOS {
						k := lockCalls[rel]
						if strings.HasSuffix(sel.Sel.Name, "Unlock") {
							k.u++
						} else {
							k.l++
						}
						lockCalls[rel] = k
					}
				}
			}
		})
		for _, d := range f.Decls {
			gd, ok := d.(*ast.GenDecl)
			if !ok {
				continue
			}
			for _, sp := range gd.Specs {
				ts, ok := sp.(*ast.TypeSpec)
				if !ok {
					continue
				}
				st, ok := ts.Type.(*ast.StructType)
				if !ok {
					continue
				}
				for _, fl := range st.Fields.List {
					t := c.Src(fl.Type)
					if t == "sync.Mutex" || t == "sync.RWMutex" || t == "*sync.Mutex" {
						for _, nm := range fl.Names {
							mutexFields = append(mutexFields, [2]string{ts.Name.Name, nm.Name})
						}
					}
				}
			}
		}
	}
	for _, n := range scanned {
		scan(n, false)
	}
	for _, n := range extra {
		scan(n, false)
	}
	for _, n := range other {
		scan(n, true)
	}
	fmt.Fprintf(sb, "/-- Every non-test, non-hook .go file of the root package (build constraints evaluated for unix). -/\ndef rootFilesAll : List String := %s\n\n", leanStrs(all))
	fmt.Fprintf(sb, "def rootFilesOtherOS : List String := %s\n\n", leanStrs(other))
	fmt.Fprintf(sb, "/-- Files walked for go statements, timers and lock calls. -/\ndef filesScanned : List String := %s\n\n", leanStrs(append(append([]string{}, scanned...), extra...)))
	fmt.Fprintf(sb, "/-- Every `go` statement: (file, enclosing function, what is started). -/\ndef goSites : List (String × String × String) := %s\n\n", leanTriples(goSites))
	fmt.Fprintf(sb, "def goSitesOtherOS : List (String × String × String) := %s\n\n", leanTriples(goOther))
	fmt.Fprintf(sb, "/-- Every timer: (file, enclosing function, time.<kind>). AfterFunc callbacks run on their own goroutine. -/\ndef timerSites : List (String × String × String) := %s\n\n", leanTriples(timers))
	var lc []string
	var files []string
	for k := range lockCalls {
		files = append(files, k)
	}
	sort.Strings(files)
	for _, k := range files {
		lc = append(lc, fmt.Sprintf("(%s, %d, %d)", ex.LeanStr(k), lockCalls[k].l, lockCalls[k].u))
	}
	fmt.Fprintf(sb, "/-- Per file: number of Lock and of Unlock call expressions found by a plain walk over the whole file (function literals included). -/\ndef lockCallCount : List (String × Nat × Nat) := [%s]\n\n", strings.Join(lc, ", "))
	var mf []string
	for _, m := range mutexFields {
		mf = append(mf, fmt.Sprintf("(%s, %s)", ex.LeanStr(m[0]), ex.LeanStr(m[1])))
	}
	fmt.Fprintf(sb, "/-- Every struct field that is a mutex. -/\ndef mutexFields : List (String × String) := [%s]\n\n", strings.Join(mf, ", "))

	// channels made in vaxis.go
	vf := c.Parse("vaxis.go")
	if vf == nil {
		return
	}
	var chans []site
	ast.Inspect(vf, func(n ast.Node) bool {
		as, ok := n.(*ast.AssignStmt)
		if !ok || len(as.Rhs) != 1 {
			return true
		}
		call, ok := as.Rhs[0].(*ast.CallExpr)
		if !ok {
			return true
		}
		if id, ok := call.Fun.(*ast.Ident); !ok || id.Name != "make" || len(call.Args) == 0 {
			return true
		}
		ct, ok := call.Args[0].(*ast.ChanType)
		if !ok {
			return true
		}
		capS := "0"
		if len(call.Args) > 1 {
			capS = c.Src(call.Args[1])
		}
		chans = append(chans, site{strings.TrimPrefix(c.Src(as.Lhs[0]), "vx."), c.Src(ct.Value), capS})
		return true
	})
	fmt.Fprintf(sb, "/-- Every `make(chan …)` in vaxis.go: (field, element type, capacity expression; \"0\" = unbuffered). -/\ndef chanMakes : List (String × String × String) := %s\n\n", leanTriples(chans))

	// reply hand-offs: sends in handleSequence, receives elsewhere
	isHand := func(s string) bool {
		return strings.HasPrefix(s, "vx.ch") && s != "vx.chQuit"
	}
	var sends [][2]string
	var recvs []site
	selKind := func(sel *ast.SelectStmt) (hasDefault bool, other string) {
		other = "select"
		for _, cl := range sel.Body.List {
			cc := cl.(*ast.CommClause)
			if cc.Comm == nil {
				hasDefault = true
				continue
			}
			src := c.Src(cc.Comm)
			if strings.Contains(src, ".C") || strings.Contains(src, "time.After") {
				other = "select-timeout"
			} else if strings.Contains(src, "ctx.Done()") {
				other = "select-ctx"
			}
		}
		return
	}
	for _, rel := range []string{"vaxis.go", "vaxis_unix.go"} {
		f := c.Parse(rel)
		if f == nil {
			return
		}
		for _, d := range f.Decls {
			fd, ok := d.(*ast.FuncDecl)
			if !ok || fd.Body == nil {
				continue
			}
			inSelSend := map[*ast.SendStmt]string{}
			inSelRecv := map[ast.Node]string{}
			ast.Inspect(fd.Body, func(n ast.Node) bool {
				sel, ok := n.(*ast.SelectStmt)
				if !ok {
					return true
				}
				def, other := selKind(sel)
				for _, cl := range sel.Body.List {
					cc := cl.(*ast.CommClause)
					switch st := cc.Comm.(type) {
					case *ast.SendStmt:
						if def {
							inSelSend[st] = "nonblocking"
						} else if other == "select-timeout" || other == "select-ctx" {
							inSelSend[st] = "bounded"
						} else {
							inSelSend[st] = "blocking-select"
						}
					case *ast.ExprStmt:
						if def {
							inSelRecv[st.X] = "select-default"
						} else {
							inSelRecv[st.X] = other
						}
					case *ast.AssignStmt:
						if len(st.Rhs) == 1 {
							if def {
								inSelRecv[st.Rhs[0]] = "select-default"
							} else {
								inSelRecv[st.Rhs[0]] = other
							}
						}
					}
				}
				return true
			})
			ast.Inspect(fd.Body, func(n ast.Node) bool {
				switch x := n.(type) {
				case *ast.FuncLit:
					// the input goroutine's select over the signal channels belongs to openTty
					return true
				case *ast.SendStmt:
					ch := c.Src(x.Chan)
					if isHand(ch) {
						k := inSelSend[x]
						if k == "" {
							k = "blocking"
						}
						sends = append(sends, [2]string{fd.Name.Name + ":" + strings.TrimPrefix(ch, "vx."), k})
					}
				case *ast.UnaryExpr:
					if x.Op.String() == "<-" {
						ch := c.Src(x.X)
						if isHand(ch) {
							k := inSelRecv[x]
							if k == "" {
								k = "bare"
							}
							recvs = append(recvs, site{fd.Name.Name, strings.TrimPrefix(ch, "vx."), k})
						}
					}
				}
				return true
			})
		}
	}
	var ss []string
	for _, s := range sends {
		ss = append(ss, fmt.Sprintf("(%s, %s)", ex.LeanStr(s[0]), ex.LeanStr(s[1])))
	}
	fmt.Fprintf(sb, "/-- Every send on a hand-off / signal channel of Vaxis: (function:channel, blocking | nonblocking). -/\ndef handoffSends : List (String × String) := [%s]\n\n", strings.Join(ss, ", "))
	fmt.Fprintf(sb, "/-- Every receive from such a channel: (function, channel, bare | select-timeout | select-ctx | select | select-default). -/\ndef handoffRecvs : List (String × String × String) := %s\n\n", leanTriples(recvs))

	// SyncFunc and Resize are PostEvents
	for _, nm := range []string{"SyncFunc", "Resize"} {
		fd := ex.FindFunc(vf, "Vaxis", nm)
		var q []string
		if fd != nil {
			for _, st := range fd.Body.List {
				if es, ok := st.(*ast.ExprStmt); ok {
					if call, ok := es.X.(*ast.CallExpr); ok {
						q = append(q, c.Src(call.Fun))
						continue
					}
				}
				q = append(q, "unknown:"+strings.Join(strings.Fields(c.Src(st)), " "))
			}
		} else {
			q = []string{"unknown:missing"}
		}
		fmt.Fprintf(sb, "/-- Calls made by %s, in order. -/\ndef calls_%s : List String := %s\n\n", nm, nm, leanStrs(q))
	}
}
