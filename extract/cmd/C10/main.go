// Extractor for C10 (concurrency): Gen/Conc.lean.
//
//   - lockSites: for every function of the files that own a mutex, the ordered lock events
//     ("L:<mutex>", "U:<mutex>", "D:<mutex>" for a deferred unlock, "C:<function>" for a call of a
//     function that itself locks something, "R" for a return statement: what follows is another path);
//   - chanCaps: capacities of the parser's channels (`sequences`, `close`, `closed`);
//   - closeGuard: how Close() protects itself against a second call.
package main

import (
	"fmt"
	"go/ast"
	"sort"
	"strings"
	"verifextract/ex"
)

func main() { ex.Main([]string{"Conc.lean"}, gen) }

var files = []string{"vaxis.go", "vaxis_unix.go", "writer.go", "window.go", "ansi/parser.go", "widgets/spinner/spinner.go"}

// receiver type → mutex owner name
func mutexName(c *ex.Ctx, recvType string, sel string) string {
	// sel is e.g. "vx.mu", "w.mut", "p.mu", "m.mu", "w.vx.mu"
	parts := strings.Split(sel, ".")
	field := parts[len(parts)-1]
	owner := recvType
	if len(parts) >= 2 {
		switch parts[len(parts)-2] {
		case "vx":
			owner = "Vaxis"
		case "tw", "w":
			owner = "writer"
		case "parser", "p":
			owner = "Parser"
		case "m":
			owner = "spinner.Model"
		}
	}
	return owner + "." + field
}

type fn struct {
	name   string
	events []string
	file   string
}

var lockSitesCountDef string

func gen(c *ex.Ctx) {
	var fns []fn
	locks := map[string]bool{} // function simple names that lock directly
	type raw struct {
		name string
		recv string
		body *ast.BlockStmt
		file string
	}
	var raws []raw
	files = lockFiles(c)
	for _, rel := range files {
		f := c.Parse(rel)
		if f == nil {
			return
		}
		for _, d := range f.Decls {
			fd, ok := d.(*ast.FuncDecl)
			if !ok || fd.Body == nil {
				continue
			}
			recv := ""
			if fd.Recv != nil && len(fd.Recv.List) > 0 {
				t := fd.Recv.List[0].Type
				if s, ok := t.(*ast.StarExpr); ok {
					t = s.X
				}
				recv = c.Src(t)
			}
			raws = append(raws, raw{fd.Name.Name, recv, fd.Body, rel})
		}
	}
	isLockCall := func(call *ast.CallExpr) (string, string, bool) {
		sel, ok := call.Fun.(*ast.SelectorExpr)
		if !ok {
			return "", "", false
		}
		if sel.Sel.Name != "Lock" && sel.Sel.Name != "Unlock" {
			return "", "", false
		}
		if len(call.Args) != 0 {
			return "", "", false
		}
		x := c.Src(sel.X)
		return sel.Sel.Name, x, true
	}
	for _, r := range raws {
		ast.Inspect(r.body, func(n ast.Node) bool {
			if _, ok := n.(*ast.FuncLit); ok {
				return false // runs on another goroutine / later
			}
			if call, ok := n.(*ast.CallExpr); ok {
				if op, _, ok := isLockCall(call); ok && op == "Lock" {
					locks[r.name] = true
				}
			}
			return true
		})
	}
	// transitive: functions calling locking functions (by simple name), three rounds
	callsOf := func(body *ast.BlockStmt) []string {
		var out []string
		ast.Inspect(body, func(n ast.Node) bool {
			if call, ok := n.(*ast.CallExpr); ok {
				switch f := call.Fun.(type) {
				case *ast.SelectorExpr:
					out = append(out, f.Sel.Name)
				case *ast.Ident:
					out = append(out, f.Name)
				}
			}
			return true
		})
		return out
	}
	for round := 0; round < 8; round++ {
		changed := false
		for _, r := range raws {
			if locks[r.name] {
				continue
			}
			for _, cn := range callsOf(r.body) {
				if locks[cn] && cn != r.name {
					locks[r.name] = true
					changed = true
					break
				}
			}
		}
		if !changed {
			break
		}
	}
	// Events of one body, with the block structure spelled out (round 3): "{" / "}" around every branch
	// (if / else, loop bodies, switch / select clauses) so that a `return` inside a branch ends that
	// branch only; callees qualified by the receiver's type where the receiver expression tells it
	// ("C:Parser.Close" for vx.parser.Close(), "C:Vaxis.Suspend" for vx.Suspend()); calls on receivers
	// of other packages (vx.console.Close(), log.Debug, signal.Stop, …) are not calls into these files.
	ownerOf := func(x string) (string, bool) {
		parts := strings.Split(x, ".")
		switch parts[len(parts)-1] {
		case "vx", "Vx":
			return "Vaxis", true
		case "tw", "w":
			return "writer", true
		case "parser", "p":
			return "Parser", true
		case "m":
			return "Model", true
		case "win":
			return "Window", true
		}
		return "", false
	}
	events := func(body *ast.BlockStmt, recv string, self string) []string {
		var evs []string
		var walkStmt func(st ast.Stmt)
		walkExpr := func(n ast.Node) {
			if n == nil {
				return
			}
			ast.Inspect(n, func(m ast.Node) bool {
				switch x := m.(type) {
				case *ast.FuncLit:
					return false // runs elsewhere / later: separate pseudo-function
				case *ast.CallExpr:
					if op, mx, ok := isLockCall(x); ok {
						k := "L:"
						if op == "Unlock" {
							k = "U:"
						}
						evs = append(evs, k+mutexName(c, recv, mx))
						return false
					}
					switch f := x.Fun.(type) {
					case *ast.SelectorExpr:
						name := f.Sel.Name
						if locks[name] && name != self {
							if o, ok := ownerOf(c.Src(f.X)); ok {
								evs = append(evs, "C:"+o+"."+name)
							}
						}
					case *ast.Ident:
						if locks[f.Name] && f.Name != self {
							evs = append(evs, "C:"+f.Name)
						}
					}
				}
				return true
			})
		}
		block := func(f func()) {
			evs = append(evs, "{")
			f()
			evs = append(evs, "}")
		}
		walkList := func(l []ast.Stmt) {
			for _, st := range l {
				walkStmt(st)
			}
		}
		walkStmt = func(st ast.Stmt) {
			switch x := st.(type) {
			case nil:
			case *ast.BlockStmt:
				walkList(x.List)
			case *ast.IfStmt:
				walkStmt(x.Init)
				walkExpr(x.Cond)
				block(func() { walkList(x.Body.List) })
				if x.Else != nil {
					block(func() { walkStmt(x.Else) })
				}
			case *ast.ForStmt:
				walkStmt(x.Init)
				walkExpr(x.Cond)
				block(func() { walkList(x.Body.List); walkStmt(x.Post) })
			case *ast.RangeStmt:
				walkExpr(x.X)
				block(func() { walkList(x.Body.List) })
			case *ast.SwitchStmt:
				walkStmt(x.Init)
				walkExpr(x.Tag)
				for _, cl := range x.Body.List {
					cc := cl.(*ast.CaseClause)
					block(func() {
						for _, e := range cc.List {
							walkExpr(e)
						}
						walkList(cc.Body)
					})
				}
			case *ast.TypeSwitchStmt:
				walkStmt(x.Init)
				walkStmt(x.Assign)
				for _, cl := range x.Body.List {
					cc := cl.(*ast.CaseClause)
					block(func() { walkList(cc.Body) })
				}
			case *ast.SelectStmt:
				for _, cl := range x.Body.List {
					cc := cl.(*ast.CommClause)
					block(func() { walkStmt(cc.Comm); walkList(cc.Body) })
				}
			case *ast.LabeledStmt:
				walkStmt(x.Stmt)
			case *ast.ReturnStmt:
				for _, e := range x.Results {
					walkExpr(e)
				}
				evs = append(evs, "R")
			case *ast.DeferStmt:
				if op, mx, ok := isLockCall(x.Call); ok && op == "Unlock" {
					evs = append(evs, "D:"+mutexName(c, recv, mx))
					return
				}
				walkExpr(x.Call)
			case *ast.GoStmt:
				// the callee runs on another goroutine: not nested in what this one holds
			default:
				walkExpr(st)
			}
		}
		walkList(body.List)
		// blocks without events say nothing
		for changed := true; changed; {
			changed = false
			var out []string
			for i := 0; i < len(evs); i++ {
				if evs[i] == "{" && i+1 < len(evs) && evs[i+1] == "}" {
					i++
					changed = true
					continue
				}
				out = append(out, evs[i])
			}
			evs = out
		}
		return evs
	}
	relevant := func(evs []string) bool {
		for _, e := range evs {
			if e[0] == 'L' || e[0] == 'C' {
				return true
			}
		}
		return false
	}
	for _, r := range raws {
		evs := events(r.body, r.recv, r.name)
		if relevant(evs) {
			nm := r.name
			if r.recv != "" {
				nm = r.recv + "." + nm
			}
			fns = append(fns, fn{nm, evs, r.file})
		}
		// function literals inside (goroutines, callbacks) as pseudo-functions
		idx := 0
		ast.Inspect(r.body, func(m ast.Node) bool {
			fl, ok := m.(*ast.FuncLit)
			if !ok {
				return true
			}
			idx++
			sub := events(fl.Body, r.recv, "")
			if relevant(sub) {
				nm := r.name
				if r.recv != "" {
					nm = r.recv + "." + nm
				}
				fns = append(fns, fn{fmt.Sprintf("%s.func%d", nm, idx), sub, r.file})
			}
			return true
		})
	}
	sort.SliceStable(fns, func(i, j int) bool { return fns[i].name < fns[j].name })
	{
		type cnt struct{ l, u int }
		m := map[string]cnt{}
		for _, f := range fns {
			k := m[f.file]
			for _, e := range f.events {
				switch e[0] {
				case 'L':
					k.l++
				case 'U', 'D':
					k.u++
				}
			}
			m[f.file] = k
		}
		var ks []string
		for k := range m {
			ks = append(ks, k)
		}
		sort.Strings(ks)
		var q []string
		for _, k := range ks {
			if m[k].l == 0 && m[k].u == 0 {
				continue // a file whose listed functions only call locking functions
			}
			q = append(q, fmt.Sprintf("(%s, %d, %d)", ex.LeanStr(k), m[k].l, m[k].u))
		}
		lockSitesCountDef = "/-- Per file: the Lock and Unlock (incl. deferred) events that went into `lockSites`. -/\ndef lockSitesCount : List (String × Nat × Nat) := [" + strings.Join(q, ", ") + "]\n\n"
	}
	var sb strings.Builder
	sb.WriteString("namespace VaxisModel.Gen.Conc\n\n")
	sb.WriteString("/-- (function, lock events in source order): L lock, U unlock, D deferred unlock, C call of a function that locks (transitively; qualified by the receiver's type where known), R return, { } a branch (if / else / loop body / switch or select clause). -/\n")
	sb.WriteString("def lockSites : List (String × List String) := [\n")
	for i, f := range fns {
		var q []string
		for _, e := range f.events {
			q = append(q, ex.LeanStr(e))
		}
		sep := ","
		if i == len(fns)-1 {
			sep = ""
		}
		fmt.Fprintf(&sb, "  (%s, [%s])%s\n", ex.LeanStr(f.name), strings.Join(q, ", "), sep)
	}
	sb.WriteString("]\n\n")

	// parser channel capacities
	pf := c.Parse("ansi/parser.go")
	np := ex.FindFunc(pf, "", "NewParser")
	if np == nil {
		c.Fail("ansi/parser.go: NewParser not found")
		return
	}
	sb.WriteString("/-- Channels made in ansi.NewParser: (field, capacity). -/\ndef parserChans : List (String × String) := [")
	first := true
	ast.Inspect(np.Body, func(n ast.Node) bool {
		kv, ok := n.(*ast.KeyValueExpr)
		if !ok {
			return true
		}
		call, ok := kv.Value.(*ast.CallExpr)
		if !ok || c.Src(call.Fun) != "make" || len(call.Args) < 1 {
			return true
		}
		if _, ok := call.Args[0].(*ast.ChanType); !ok {
			return true
		}
		capx := "0"
		if len(call.Args) > 1 {
			capx = c.Src(call.Args[1])
		}
		if !first {
			sb.WriteString(", ")
		}
		first = false
		fmt.Fprintf(&sb, "(%s, %s)", ex.LeanStr(c.Src(kv.Key)), ex.LeanStr(capx))
		return true
	})
	sb.WriteString("]\n\n")

	// Close() / Suspend(): protocol skeleton = guards on, and assignments to, vx.closed / vx.suspended, and the
	// calls that matter for the hand-shake, in source order (locals, logging and terminal restoration are ignored)
	vf := c.Parse("vaxis.go")
	keep := map[string]bool{"PostEvent": true, "PostEventBlocking": true, "Suspend": true, "close": true, "Close": true,
		"WaitClose": true, "WriteString": true, "openTty": true}
	for _, nm := range []string{"Close", "Suspend", "Resume"} {
		fd := ex.FindFunc(vf, "Vaxis", nm)
		if fd == nil {
			c.Fail("vaxis.go: %s not found", nm)
			return
		}
		var q []string
		ast.Inspect(fd.Body, func(n ast.Node) bool {
			switch x := n.(type) {
			case *ast.IfStmt:
				cond := c.Src(x.Cond)
				if cond == "vx.closed" || cond == "vx.suspended" {
					q = append(q, ex.LeanStr("if:"+cond))
				}
			case *ast.AssignStmt:
				l := c.Src(x.Lhs[0])
				if l == "vx.closed" || l == "vx.suspended" {
					q = append(q, ex.LeanStr("set:"+l+"="+c.Src(x.Rhs[0])))
				}
			case *ast.DeferStmt:
				if id, ok := x.Call.Fun.(*ast.Ident); ok && strings.HasPrefix(id.Name, "verif") {
					return false // verification yield point
				}
				q = append(q, ex.LeanStr("defer:"+strings.Join(strings.Fields(c.Src(x.Call)), " ")))
				return false
			case *ast.CallExpr:
				name := ""
				recv := ""
				switch f := x.Fun.(type) {
				case *ast.SelectorExpr:
					name = f.Sel.Name
					recv = c.Src(f.X)
				case *ast.Ident:
					name = f.Name
				}
				if (name == "Lock" || name == "Unlock") && (recv == "vx.closeMu" || recv == "vx.suspendMu") {
					q = append(q, ex.LeanStr(recv+"."+name))
				}
				if keep[name] && !strings.HasPrefix(recv, "vx.tw") {
					if recv != "" {
						name = recv + "." + name
					}
					q = append(q, ex.LeanStr(name))
				}
			}
			return true
		})
		fmt.Fprintf(&sb, "def skeleton_%s : List String := [%s]\n\n", nm, strings.Join(q, ", "))
	}
	// PostEvent / PostEventBlocking: how the send on the queue is written
	sb.WriteString("/-- (function, kinds of its channel sends): blocking = bare send, nonblocking = select with default. -/\ndef postKinds : List (String × List String) := [")
	for i, nm := range []string{"PostEvent", "PostEventBlocking"} {
		fd := ex.FindFunc(vf, "Vaxis", nm)
		if fd == nil {
			c.Fail("vaxis.go: %s not found", nm)
			return
		}
		inSel := map[*ast.SendStmt]string{}
		ast.Inspect(fd.Body, func(n ast.Node) bool {
			sel, ok := n.(*ast.SelectStmt)
			if !ok {
				return true
			}
			hasDefault := false
			for _, cl := range sel.Body.List {
				if cl.(*ast.CommClause).Comm == nil {
					hasDefault = true
				}
			}
			for _, cl := range sel.Body.List {
				if st, ok := cl.(*ast.CommClause).Comm.(*ast.SendStmt); ok {
					if hasDefault {
						inSel[st] = "nonblocking"
					} else {
						inSel[st] = "blocking"
					}
				}
			}
			return true
		})
		var kinds []string
		ast.Inspect(fd.Body, func(n ast.Node) bool {
			switch x := n.(type) {
			case *ast.GoStmt:
				kinds = append(kinds, ex.LeanStr("go"))
			case *ast.SendStmt:
				k := inSel[x]
				if k == "" {
					k = "blocking"
				}
				kinds = append(kinds, ex.LeanStr(k))
			}
			return true
		})
		if i > 0 {
			sb.WriteString(", ")
		}
		fmt.Fprintf(&sb, "(%s, [%s])", ex.LeanStr(nm), strings.Join(kinds, ", "))
	}
	sb.WriteString("]\n\n")
	// the input goroutine: which variable its select reads the parser from
	ot := ex.FindFunc(vf, "Vaxis", "openTty")
	if ot == nil {
		c.Fail("vaxis.go: openTty not found")
		return
	}
	var recvExprs []string
	ast.Inspect(ot.Body, func(n ast.Node) bool {
		fl, ok := n.(*ast.FuncLit)
		if !ok {
			return true
		}
		ast.Inspect(fl.Body, func(m ast.Node) bool {
			if call, ok := m.(*ast.CallExpr); ok {
				if sel, ok := call.Fun.(*ast.SelectorExpr); ok && (sel.Sel.Name == "Next" || sel.Sel.Name == "Finish") {
					recvExprs = append(recvExprs, ex.LeanStr(c.Src(sel.X)))
				}
			}
			return true
		})
		return false
	})
	fmt.Fprintf(&sb, "/-- Receivers of `.Next()` / `.Finish()` inside the input goroutine (a field of `vx` is re-read on every iteration). -/\ndef inputLoopParserRefs : List String := [%s]\n\n", strings.Join(recvExprs, ", "))
	inventory(c, &sb)
	shapes(c, &sb)
	protect(c, &sb)
	// lock events that went into lockSites, per file (cross-check of the inventory)
	sb.WriteString(lockSitesCountDef)
	sb.WriteString("end VaxisModel.Gen.Conc\n")
	c.Write("Conc.lean", sb.String())
}
