package main

// Shared-state facts for C10 (round 4, add-only section of Gen/Conc.lean): which fields of the
// structs shared between goroutines (Vaxis, writer, ansi.Parser, spinner.Model) are accessed where,
// how (read / write / through sync/atomic), under which mutexes, and which goroutines can run each
// function.  The theorem `Props.C10Protect.shared_fields_protected` is evaluated over these lists: a
// new unprotected access changes a fact and the theorem stops checking.
//
// No type checker is run: the struct a selector belongs to is told by the last component of the
// receiver expression (vx / Vx → Vaxis, tw / w → writer, p / parser → Parser, m → Model), as for the
// lock sites; only names that are declared fields of that struct count.  Mutexes held at a site are
// computed from the function's own Lock / Unlock / defer Unlock calls along the statement structure
// (after a branch: what was held before it and at its end; a branch that ends in return / break /
// continue / panic does not count).  A function literal started with `go` or time.AfterFunc is a root
// of its own; any other literal runs with its enclosing function.
import (
	"fmt"
	"go/ast"
	"go/token"
	"sort"
	"strings"
	"verifextract/ex"
)

// API entry points the property text allows from any goroutine ("any number of goroutines may post
// events, queue functions for the main goroutine, request resizes and issue terminal queries").
var anyGoroutineAPI = []string{"Vaxis.PostEvent", "Vaxis.PostEventBlocking", "Vaxis.SyncFunc", "Vaxis.Resize",
	"Vaxis.CursorPosition", "Vaxis.QueryColor", "Vaxis.QueryForeground", "Vaxis.QueryBackground", "Vaxis.ClipboardPop"}

var sharedStructs = map[string]string{"Vaxis": "", "writer": "", "Parser": "ansi/parser.go", "Model": "widgets/spinner/spinner.go"}

func ownerOfExpr(x string) (string, bool) {
	parts := strings.Split(x, ".")
	switch parts[len(parts)-1] {
	case "vx", "Vx":
		return "Vaxis", true
	case "tw", "w":
		return "writer", true
	case "parser", "p":
		return "Parser", true
	case "m":
		return "Model", true
	}
	return "", false
}

type pfunc struct {
	name   string // Recv.Name or Name, literals: <encl>.funcN
	file   string
	body   *ast.BlockStmt
	export bool   // exported method / function of the root package
	launch string // "" (called), "go", "timer"
	encl   string // enclosing function for literals
	calls  map[string]bool
	sites  []callSite // calls made by the function's own statements, with the mutexes held there
	isState bool      // ansi/parser.go: has the signature of a state function (called through p.state)
}

type callSite struct {
	callee string
	held   []string
}

type access struct{ field, fn, kind, prot string }

// fields holding a bytes.Buffer: objects without synchronisation of their own, whose methods change them
var plainBuffers = map[string]bool{}

func protect(c *ex.Ctx, sb *strings.Builder) {
	// declared fields of the shared structs
	fields := map[string]map[string]bool{}
	var funcs []*pfunc
	byName := map[string]*pfunc{}
	for _, rel := range lockFiles(c) {
		f := c.Parse(rel)
		if f == nil {
			return
		}
		for _, d := range f.Decls {
			switch x := d.(type) {
			case *ast.GenDecl:
				if x.Tok != token.TYPE {
					continue
				}
				for _, sp := range x.Specs {
					ts := sp.(*ast.TypeSpec)
					st, ok := ts.Type.(*ast.StructType)
					if !ok {
						continue
					}
					if want, ok := sharedStructs[ts.Name.Name]; ok && (want == "" && !strings.Contains(rel, "/") || want == rel) {
						m := map[string]bool{}
						for _, fl := range st.Fields.List {
							for _, n := range fl.Names {
								m[n.Name] = true
								if strings.Contains(c.Src(fl.Type), "bytes.Buffer") {
									plainBuffers[ts.Name.Name+"."+n.Name] = true
								}
							}
						}
						fields[ts.Name.Name] = m
					}
				}
			case *ast.FuncDecl:
				if x.Body == nil {
					continue
				}
				nm := x.Name.Name
				if x.Recv != nil && len(x.Recv.List) > 0 {
					t := x.Recv.List[0].Type
					if s, ok := t.(*ast.StarExpr); ok {
						t = s.X
					}
					nm = c.Src(t) + "." + nm
				}
				pf := &pfunc{name: nm, file: rel, body: x.Body, export: ast.IsExported(x.Name.Name) && !strings.Contains(rel, "/"), calls: map[string]bool{}}
				if rel == "ansi/parser.go" && x.Recv == nil && x.Type.Results != nil && len(x.Type.Results.List) == 1 && c.Src(x.Type.Results.List[0].Type) == "stateFn" {
					pf.isState = true
				}
				funcs = append(funcs, pf)
				byName[nm] = pf
			}
		}
	}
	// function literals: numbered in pre-order per enclosing declaration (as lockSites does)
	top := append([]*pfunc{}, funcs...)
	for _, pf := range top {
		idx := 0
		var visit func(n ast.Node, encl *pfunc, launch string)
		visit = func(n ast.Node, encl *pfunc, launch string) {
			ast.Inspect(n, func(m ast.Node) bool {
				switch x := m.(type) {
				case *ast.GoStmt:
					if fl, ok := x.Call.Fun.(*ast.FuncLit); ok {
						idx++
						lit := &pfunc{name: fmt.Sprintf("%s.func%d", pf.name, idx), file: pf.file, body: fl.Body, launch: "go", encl: encl.name, calls: map[string]bool{}}
						funcs = append(funcs, lit)
						byName[lit.name] = lit
						visit(fl.Body, lit, "")
						for _, a := range x.Call.Args {
							visit(a, encl, "")
						}
						return false
					}
					// go f(): the callee is a root "go"
					if name := calleeName(c, x.Call); name != "" {
						encl.calls["go:"+name] = true
					}
					return false
				case *ast.CallExpr:
					if sel, ok := x.Fun.(*ast.SelectorExpr); ok && c.Src(sel) == "time.AfterFunc" && len(x.Args) == 2 {
						if fl, ok := x.Args[1].(*ast.FuncLit); ok {
							idx++
							lit := &pfunc{name: fmt.Sprintf("%s.func%d", pf.name, idx), file: pf.file, body: fl.Body, launch: "timer", encl: encl.name, calls: map[string]bool{}}
							funcs = append(funcs, lit)
							byName[lit.name] = lit
							visit(fl.Body, lit, "")
							return false
						}
					}
				case *ast.FuncLit:
					idx++
					lit := &pfunc{name: fmt.Sprintf("%s.func%d", pf.name, idx), file: pf.file, body: x.Body, launch: "", encl: encl.name, calls: map[string]bool{}}
					funcs = append(funcs, lit)
					byName[lit.name] = lit
					encl.calls[lit.name] = true // runs with (or on behalf of) its enclosing function
					visit(x.Body, lit, "")
					return false
				}
				return true
			})
		}
		visit(pf.body, pf, "")
	}
	// calls (own statements only: literals are separate functions)
	for _, pf := range funcs {
		inspectOwn(pf.body, func(m ast.Node) {
			if call, ok := m.(*ast.CallExpr); ok {
				if name := calleeName(c, call); name != "" {
					pf.calls[name] = true
				}
			}
		})
	}
	// roles: roots and propagation along calls
	roles := map[string]map[string]bool{}
	add := func(fn, role string) bool {
		if roles[fn] == nil {
			roles[fn] = map[string]bool{}
		}
		if roles[fn][role] {
			return false
		}
		roles[fn][role] = true
		return true
	}
	anyAPI := map[string]bool{}
	for _, a := range anyGoroutineAPI {
		anyAPI[a] = true
	}
	goRole := func(pf *pfunc) string {
		switch {
		case pf.launch == "timer":
			return "timer"
		case strings.HasPrefix(pf.name, "Vaxis.openTty."):
			return "input"
		case strings.HasPrefix(pf.name, "Model."):
			return "spinner"
		case strings.HasSuffix(pf.file, "image.go"):
			return "resizer"
		}
		return "go:" + pf.name
	}
	for _, pf := range funcs {
		switch {
		case pf.launch != "":
			add(pf.name, goRole(pf))
		case pf.export && anyAPI[pf.name]:
			add(pf.name, "any")
		case pf.name == "New":
			add(pf.name, "init")
		case pf.export:
			add(pf.name, "main")
		case pf.file == "widgets/spinner/spinner.go" && ast.IsExported(lastPart(pf.name)):
			add(pf.name, "main")
		}
		for callee := range pf.calls {
			if strings.HasPrefix(callee, "go:") {
				n := strings.TrimPrefix(callee, "go:")
				if n == "Parser.run" {
					add(n, "parser")
				} else if byName[n] != nil {
					add(n, "go:"+n)
				}
			}
		}
	}
	// the parser's state functions are reached through the function value `p.state`
	for _, pf := range funcs {
		if pf.file == "ansi/parser.go" && pf.launch == "" && !strings.Contains(pf.name, ".func") && !ast.IsExported(lastPart(pf.name)) && pf.name != "Parser.run" {
			add(pf.name, "parser")
		}
	}
	for changed := true; changed; {
		changed = false
		for _, pf := range funcs {
			for callee := range pf.calls {
				if strings.HasPrefix(callee, "go:") || byName[callee] == nil {
					continue
				}
				for r := range roles[pf.name] {
					if add(callee, r) {
						changed = true
					}
				}
			}
		}
	}
	// start-up code: reached from New only.  A function that is also reached otherwise drops "init".
	for n, rs := range roles {
		if rs["init"] && len(rs) > 1 && n != "New" {
			delete(rs, "init")
		}
	}
	// mutexes held at EVERY call site of a function (on top of what it locks itself): fixpoint from "all"
	entry := map[string][]string{}
	unknown := map[string]bool{}
	isRoot := func(pf *pfunc) bool { return pf.launch != "" || pf.export || pf.name == "New" || pf.name == "Parser.run" }
	for _, pf := range funcs {
		if !isRoot(pf) {
			unknown[pf.name] = true
		}
	}
	for _, pf := range funcs {
		accessesOf(c, pf, fields) // fills pf.sites
		if pf.launch == "" && pf.encl != "" {
			// a literal that is not started as a goroutine runs with its enclosing function: treated as
			// called with nothing held beyond the enclosing function's entry set (conservative)
			if e := byName[pf.encl]; e != nil {
				e.sites = append(e.sites, callSite{pf.name, nil})
			}
		}
	}
	for changed := true; changed; {
		changed = false
		for _, pf := range funcs {
			if unknown[pf.name] && !isRoot(pf) {
				// not yet known: contributes nothing until a caller fixes it
			}
			for _, cs := range pf.sites {
				tgt := []string{cs.callee}
				if cs.callee == "p.state" {
					tgt = nil
					for _, g := range funcs {
						if g.isState {
							tgt = append(tgt, g.name)
						}
					}
				}
				for _, callee := range tgt {
					g := byName[callee]
					if g == nil || isRoot(g) {
						continue
					}
					if unknown[pf.name] {
						continue // caller's own entry set unknown yet
					}
					h := unionStr(cs.held, entry[pf.name])
					if unknown[callee] {
						unknown[callee] = false
						entry[callee] = h
						changed = true
					} else {
						n := interStr(entry[callee], h)
						if len(n) != len(entry[callee]) {
							entry[callee] = n
							changed = true
						}
					}
				}
			}
		}
	}
	for n := range unknown {
		if unknown[n] {
			entry[n] = nil // never called from a known site: nothing assumed
		}
	}
	// accesses
	var accs []access
	seen := map[access]bool{}
	for _, pf := range funcs {
		for _, a := range accessesOf(c, pf, fields) {
			if a.kind != "a" {
				a.prot = strings.Join(unionStr(splitPlus(a.prot), entry[pf.name]), "+")
			}
			if !seen[a] {
				seen[a] = true
				accs = append(accs, a)
			}
		}
	}
	sort.Slice(accs, func(i, j int) bool {
		a, b := accs[i], accs[j]
		if a.field != b.field {
			return a.field < b.field
		}
		if a.fn != b.fn {
			return a.fn < b.fn
		}
		if a.kind != b.kind {
			return a.kind < b.kind
		}
		return a.prot < b.prot
	})
	sb.WriteString("\n/-- Entry points the property text allows from any goroutine (constant of the extractor). -/\n")
	sb.WriteString("def anyGoroutineAPI : List String := " + leanStrs(anyGoroutineAPI) + "\n")
	sb.WriteString("\n/-- Every access to a field of a struct shared between goroutines (Vaxis, writer, ansi.Parser, spinner.Model) in the scanned files: (Struct.field, function, kind, mutexes held). kind: w = assigned / incremented / element or sub-field assigned, a = passed by address to a sync/atomic helper, r = any other use. Mutexes: the names held at the site, joined by +, \"\" = none. -/\n")
	sb.WriteString("def fieldAccesses : List (String × String × String × String) := [\n")
	for i, a := range accs {
		sep := ","
		if i == len(accs)-1 {
			sep = ""
		}
		fmt.Fprintf(sb, "  (%s, %s, %s, %s)%s\n", ex.LeanStr(a.field), ex.LeanStr(a.fn), ex.LeanStr(a.kind), ex.LeanStr(a.prot), sep)
	}
	sb.WriteString("]\n")
	sb.WriteString("\n/-- Which goroutines can run each function that accesses such a field (call graph by qualified name; roots: input = the goroutine of openTty, parser = Parser.run and the state functions, timer = the AfterFunc callback, resizer = the image-resize goroutines, spinner, main = exported API and New, any = the API of `anyGoroutineAPI`). -/\n")
	sb.WriteString("def funcRoles : List (String × List String) := [\n")
	used := map[string]bool{}
	for _, a := range accs {
		used[a.fn] = true
	}
	var names []string
	for n := range used {
		names = append(names, n)
	}
	sort.Strings(names)
	for i, n := range names {
		var rs []string
		for r := range roles[n] {
			rs = append(rs, r)
		}
		sort.Strings(rs)
		sep := ","
		if i == len(names)-1 {
			sep = ""
		}
		fmt.Fprintf(sb, "  (%s, %s)%s\n", ex.LeanStr(n), leanStrs(rs), sep)
	}
	sb.WriteString("]\n")
}

func splitPlus(s string) []string {
	if s == "" {
		return nil
	}
	return strings.Split(s, "+")
}

func unionStr(a, b []string) []string {
	m := map[string]bool{}
	for _, x := range a {
		m[x] = true
	}
	for _, x := range b {
		m[x] = true
	}
	var out []string
	for x := range m {
		out = append(out, x)
	}
	sort.Strings(out)
	return out
}

func interStr(a, b []string) []string {
	var out []string
	for _, x := range a {
		for _, y := range b {
			if x == y {
				out = append(out, x)
				break
			}
		}
	}
	sort.Strings(out)
	return out
}

// method names that change the object they are called on (a call x.f.M() with such an M counts as a write of f)
func mutatingMethod(name string) bool {
	for _, p := range []string{"Write", "Reset", "Truncate", "Grow", "Read", "Next", "Unread"} {
		if strings.HasPrefix(name, p) {
			return true
		}
	}
	return false
}

func lastPart(s string) string {
	if i := strings.LastIndexByte(s, '.'); i >= 0 {
		return s[i+1:]
	}
	return s
}

// calleeName: Recv.Name for a method call on a receiver whose struct is told by its name, Name for a plain call.
func calleeName(c *ex.Ctx, call *ast.CallExpr) string {
	switch f := call.Fun.(type) {
	case *ast.SelectorExpr:
		if o, ok := ownerOfExpr(c.Src(f.X)); ok {
			return o + "." + f.Sel.Name
		}
	case *ast.Ident:
		return f.Name
	}
	return ""
}

// inspectOwn visits the nodes of a body without descending into function literals.
func inspectOwn(n ast.Node, f func(ast.Node)) {
	ast.Inspect(n, func(m ast.Node) bool {
		if _, ok := m.(*ast.FuncLit); ok {
			return false
		}
		if m != nil {
			f(m)
		}
		return true
	})
}

func isAtomicHelper(name string) bool {
	return name == "atomicStore" || name == "atomicLoad" || strings.HasPrefix(name, "atomic.")
}

// accessesOf walks one function body with the set of held mutexes.
func accessesOf(c *ex.Ctx, pf *pfunc, fields map[string]map[string]bool) []access {
	var out []access
	held := []string{}
	pf.sites = nil
	protStr := func() string {
		h := append([]string{}, held...)
		sort.Strings(h)
		return strings.Join(h, "+")
	}
	// the field an expression is rooted in: vx.caps.sixels → Vaxis.caps
	var fieldOf func(e ast.Expr) (string, bool)
	fieldOf = func(e ast.Expr) (string, bool) {
		switch x := e.(type) {
		case *ast.SelectorExpr:
			if o, ok := ownerOfExpr(c.Src(x.X)); ok && fields[o][x.Sel.Name] {
				return o + "." + x.Sel.Name, true
			}
			return fieldOf(x.X)
		case *ast.IndexExpr:
			return fieldOf(x.X)
		case *ast.StarExpr:
			return fieldOf(x.X)
		case *ast.ParenExpr:
			return fieldOf(x.X)
		}
		return "", false
	}
	rec := func(field, kind string) { out = append(out, access{field, pf.name, kind, protStr()}) }
	var reads func(n ast.Node)
	reads = func(n ast.Node) {
		if n == nil {
			return
		}
		ast.Inspect(n, func(m ast.Node) bool {
			switch x := m.(type) {
			case *ast.FuncLit:
				return false
			case *ast.CallExpr:
				if isAtomicHelper(c.Src(x.Fun)) {
					for _, a := range x.Args {
						if u, ok := a.(*ast.UnaryExpr); ok && u.Op == token.AND {
							if f, ok := fieldOf(u.X); ok {
								rec(f, "a")
								continue
							}
						}
						reads(a)
					}
					return false
				}
				// x.mu.Lock() and friends are not uses of data
				if sel, ok := x.Fun.(*ast.SelectorExpr); ok && (sel.Sel.Name == "Lock" || sel.Sel.Name == "Unlock") && len(x.Args) == 0 {
					return false
				}
				if c.Src(x.Fun) == "p.state" {
					pf.sites = append(pf.sites, callSite{"p.state", append([]string{}, held...)})
				} else if name := calleeName(c, x); name != "" {
					pf.sites = append(pf.sites, callSite{name, append([]string{}, held...)})
				}
				// x.f.M(…) with a mutating M: a write of f
				if sel, ok := x.Fun.(*ast.SelectorExpr); ok && mutatingMethod(sel.Sel.Name) {
					if inner, ok := sel.X.(*ast.SelectorExpr); ok {
						if o, ok := ownerOfExpr(c.Src(inner.X)); ok && fields[o][inner.Sel.Name] && plainBuffers[o+"."+inner.Sel.Name] {
							rec(o+"."+inner.Sel.Name, "w")
							for _, a := range x.Args {
								reads(a)
							}
							return false
						}
					}
				}
			case *ast.SelectorExpr:
				if o, ok := ownerOfExpr(c.Src(x.X)); ok && fields[o][x.Sel.Name] {
					rec(o+"."+x.Sel.Name, "r")
					return false
				}
			}
			return true
		})
	}
	lockOp := func(st ast.Stmt) (string, string, bool) {
		es, ok := st.(*ast.ExprStmt)
		if !ok {
			return "", "", false
		}
		call, ok := es.X.(*ast.CallExpr)
		if !ok || len(call.Args) != 0 {
			return "", "", false
		}
		sel, ok := call.Fun.(*ast.SelectorExpr)
		if !ok || (sel.Sel.Name != "Lock" && sel.Sel.Name != "Unlock") {
			return "", "", false
		}
		recv := ""
		if i := strings.IndexByte(pf.name, '.'); i > 0 {
			recv = pf.name[:i]
		}
		return sel.Sel.Name, mutexName(c, recv, c.Src(sel.X)), true
	}
	ends := func(l []ast.Stmt) bool {
		if len(l) == 0 {
			return false
		}
		switch x := l[len(l)-1].(type) {
		case *ast.ReturnStmt, *ast.BranchStmt:
			return true
		case *ast.ExprStmt:
			if call, ok := x.X.(*ast.CallExpr); ok && c.Src(call.Fun) == "panic" {
				return true
			}
		}
		return false
	}
	var walkList func(l []ast.Stmt)
	var walk func(st ast.Stmt)
	branch := func(l []ast.Stmt, pre func()) {
		saved := append([]string{}, held...)
		if pre != nil {
			pre()
		}
		walkList(l)
		if ends(l) {
			held = saved
			return
		}
		var inter []string
		for _, m := range saved {
			for _, h := range held {
				if h == m {
					inter = append(inter, m)
					break
				}
			}
		}
		held = inter
	}
	walkList = func(l []ast.Stmt) {
		for _, st := range l {
			walk(st)
		}
	}
	walk = func(st ast.Stmt) {
		switch x := st.(type) {
		case nil:
		case *ast.BlockStmt:
			walkList(x.List)
		case *ast.ExprStmt:
			if op, m, ok := lockOp(x); ok {
				if op == "Lock" {
					held = append(held, m)
				} else {
					var h []string
					for _, y := range held {
						if y != m {
							h = append(h, y)
						}
					}
					held = h
				}
				return
			}
			reads(x.X)
		case *ast.AssignStmt:
			for _, r := range x.Rhs {
				reads(r)
			}
			for _, l := range x.Lhs {
				if f, ok := fieldOf(l); ok {
					rec(f, "w")
					// index expressions inside the left-hand side are reads
					ast.Inspect(l, func(m ast.Node) bool {
						if ie, ok := m.(*ast.IndexExpr); ok {
							reads(ie.Index)
						}
						return true
					})
				} else {
					reads(l)
				}
			}
		case *ast.IncDecStmt:
			if f, ok := fieldOf(x.X); ok {
				rec(f, "w")
			} else {
				reads(x.X)
			}
		case *ast.IfStmt:
			walk(x.Init)
			reads(x.Cond)
			branch(x.Body.List, nil)
			if x.Else != nil {
				switch e := x.Else.(type) {
				case *ast.BlockStmt:
					branch(e.List, nil)
				default:
					branch([]ast.Stmt{e}, nil)
				}
			}
		case *ast.ForStmt:
			walk(x.Init)
			reads(x.Cond)
			branch(append(append([]ast.Stmt{}, x.Body.List...), x.Post), nil)
		case *ast.RangeStmt:
			reads(x.X)
			branch(x.Body.List, nil)
		case *ast.SwitchStmt:
			walk(x.Init)
			reads(x.Tag)
			for _, cl := range x.Body.List {
				cc := cl.(*ast.CaseClause)
				branch(cc.Body, func() {
					for _, e := range cc.List {
						reads(e)
					}
				})
			}
		case *ast.TypeSwitchStmt:
			walk(x.Init)
			walk(x.Assign)
			for _, cl := range x.Body.List {
				branch(cl.(*ast.CaseClause).Body, nil)
			}
		case *ast.SelectStmt:
			for _, cl := range x.Body.List {
				cc := cl.(*ast.CommClause)
				branch(cc.Body, func() { walk(cc.Comm) })
			}
		case *ast.LabeledStmt:
			walk(x.Stmt)
		case *ast.ReturnStmt:
			for _, e := range x.Results {
				reads(e)
			}
		case *ast.DeferStmt:
			if sel, ok := x.Call.Fun.(*ast.SelectorExpr); ok && sel.Sel.Name == "Unlock" && len(x.Call.Args) == 0 {
				return // released at the function's end: stays held
			}
			reads(x.Call)
		case *ast.GoStmt:
			for _, a := range x.Call.Args {
				reads(a)
			}
			if _, ok := x.Call.Fun.(*ast.FuncLit); !ok {
				reads(x.Call.Fun)
			}
		case *ast.SendStmt:
			reads(x.Chan)
			reads(x.Value)
		case *ast.DeclStmt:
			reads(x.Decl)
		default:
			reads(st)
		}
	}
	walkList(pf.body.List)
	return out
}
