package main

// Statement skeletons of the functions the shutdown protocol depends on (round 3): the parser's
// Close / WaitClose / emit and the tail of run, PostEvent / PostEventBlocking, and the input
// goroutine of openTty.  A skeleton is the list of the statements in source order, one string each,
// with the block structure spelled out ("for {", "select {", "case …:", "if … {", "}"); calls of
// verif* hook functions are skipped.  Any statement kind the printer does not know is printed as its
// (whitespace-normalised) source text, so an unrecognised shape changes the list instead of crashing
// the extractor; the theorems in Props/C10Shutdown pin the lists.

import (
	"fmt"
	"go/ast"
	"strings"

	"verifextract/ex"
)

func norm(s string) string { return strings.Join(strings.Fields(s), " ") }

func isVerifCall(e ast.Expr) bool {
	call, ok := e.(*ast.CallExpr)
	if !ok {
		return false
	}
	if id, ok := call.Fun.(*ast.Ident); ok && strings.HasPrefix(id.Name, "verif") {
		return true
	}
	return false
}

func skel(c *ex.Ctx, out *[]string, st ast.Stmt) {
	switch x := st.(type) {
	case nil:
	case *ast.BlockStmt:
		for _, s := range x.List {
			skel(c, out, s)
		}
	case *ast.ExprStmt:
		if isVerifCall(x.X) {
			return
		}
		*out = append(*out, norm(c.Src(x.X)))
	case *ast.DeferStmt:
		if isVerifCall(x.Call) {
			return
		}
		if fl, ok := x.Call.Fun.(*ast.FuncLit); ok {
			*out = append(*out, "defer func {")
			skel(c, out, fl.Body)
			*out = append(*out, "}")
			return
		}
		*out = append(*out, "defer "+norm(c.Src(x.Call)))
	case *ast.ForStmt:
		h := "for"
		if x.Cond != nil {
			h += " " + norm(c.Src(x.Cond))
		}
		*out = append(*out, h+" {")
		skel(c, out, x.Body)
		*out = append(*out, "}")
	case *ast.LabeledStmt:
		*out = append(*out, x.Label.Name+":")
		skel(c, out, x.Stmt)
	case *ast.SelectStmt:
		*out = append(*out, "select {")
		for _, cl := range x.Body.List {
			cc := cl.(*ast.CommClause)
			if cc.Comm == nil {
				*out = append(*out, "default:")
			} else {
				*out = append(*out, "case "+norm(c.Src(cc.Comm))+":")
			}
			for _, s := range cc.Body {
				skel(c, out, s)
			}
		}
		*out = append(*out, "}")
	case *ast.TypeSwitchStmt:
		*out = append(*out, "switch "+norm(c.Src(x.Assign))+" {")
		for _, cl := range x.Body.List {
			cc := cl.(*ast.CaseClause)
			if cc.List == nil {
				*out = append(*out, "default:")
			} else {
				var ts []string
				for _, e := range cc.List {
					ts = append(ts, norm(c.Src(e)))
				}
				*out = append(*out, "case "+strings.Join(ts, ", ")+":")
			}
			for _, s := range cc.Body {
				skel(c, out, s)
			}
		}
		*out = append(*out, "}")
	case *ast.IfStmt:
		h := "if "
		if x.Init != nil {
			h += norm(c.Src(x.Init)) + "; "
		}
		*out = append(*out, h+norm(c.Src(x.Cond))+" {")
		skel(c, out, x.Body)
		if x.Else != nil {
			*out = append(*out, "} else {")
			skel(c, out, x.Else)
		}
		*out = append(*out, "}")
	case *ast.ReturnStmt:
		*out = append(*out, norm(c.Src(x)))
	case *ast.BranchStmt:
		*out = append(*out, norm(c.Src(x)))
	case *ast.GoStmt:
		*out = append(*out, "go "+norm(c.Src(x.Call.Fun)))
	default:
		*out = append(*out, norm(c.Src(st)))
	}
}

func leanList(xs []string) string {
	q := make([]string, len(xs))
	for i, x := range xs {
		q[i] = ex.LeanStr(x)
	}
	return "[" + strings.Join(q, ", ") + "]"
}

// shapes appends the round-3 definitions to the generated file.
func shapes(c *ex.Ctx, sb *strings.Builder) {
	pf := c.Parse("ansi/parser.go")
	vf := c.Parse("vaxis.go")
	sb.WriteString("/-- Statement skeletons (see extract/cmd/C10/shapes.go) of the parser's side of the shutdown hand-shake. -/\n")
	for _, nm := range []string{"Close", "WaitClose", "emit"} {
		var out []string
		if fd := ex.FindFunc(pf, "Parser", nm); fd != nil && fd.Body != nil {
			skel(c, &out, fd.Body)
		} else {
			out = []string{"unknown: Parser." + nm + " not found"}
		}
		fmt.Fprintf(sb, "def shape_Parser_%s : List String := %s\n\n", nm, leanList(out))
	}
	// tail of Parser.run: what follows the labelled loop
	{
		var out []string
		if fd := ex.FindFunc(pf, "Parser", "run"); fd != nil && fd.Body != nil {
			after := false
			for _, st := range fd.Body.List {
				if _, ok := st.(*ast.LabeledStmt); ok {
					after = true
					continue
				}
				if after {
					skel(c, &out, st)
				}
			}
			if !after {
				out = []string{"unknown: no labelled loop in Parser.run"}
			}
		} else {
			out = []string{"unknown: Parser.run not found"}
		}
		fmt.Fprintf(sb, "/-- What `Parser.run` does after its loop. -/\ndef shape_Parser_runTail : List String := %s\n\n", leanList(out))
	}
	for _, nm := range []string{"PostEvent", "PostEventBlocking"} {
		var out []string
		if fd := ex.FindFunc(vf, "Vaxis", nm); fd != nil && fd.Body != nil {
			skel(c, &out, fd.Body)
		} else {
			out = []string{"unknown: Vaxis." + nm + " not found"}
		}
		fmt.Fprintf(sb, "def shape_%s : List String := %s\n\n", nm, leanList(out))
	}
	// the goroutine openTty starts
	{
		var out []string
		found := false
		if ot := ex.FindFunc(vf, "Vaxis", "openTty"); ot != nil {
			ast.Inspect(ot.Body, func(n ast.Node) bool {
				if g, ok := n.(*ast.GoStmt); ok && !found {
					if fl, ok := g.Call.Fun.(*ast.FuncLit); ok {
						found = true
						skel(c, &out, fl.Body)
					}
					return false
				}
				return true
			})
		}
		if !found {
			out = []string{"unknown: no goroutine in openTty"}
		}
		fmt.Fprintf(sb, "/-- The input goroutine (`go func() {…}()` in openTty). -/\ndef shape_inputLoop : List String := %s\n\n", leanList(out))
	}
	// the goroutine the spinner starts
	{
		var out []string
		found := false
		if sf := c.Parse("widgets/spinner/spinner.go"); sf != nil {
			if st := ex.FindFunc(sf, "Model", "start"); st != nil {
				ast.Inspect(st.Body, func(n ast.Node) bool {
					if g, ok := n.(*ast.GoStmt); ok && !found {
						if fl, ok := g.Call.Fun.(*ast.FuncLit); ok {
							found = true
							skel(c, &out, fl.Body)
						}
						return false
					}
					return true
				})
			}
		}
		if !found {
			out = []string{"unknown: no goroutine in spinner Model.start"}
		}
		fmt.Fprintf(sb, "/-- The spinner's goroutine (`go func() {…}()` in Model.start). -/\ndef shape_spinnerLoop : List String := %s\n\n", leanList(out))
	}
}
