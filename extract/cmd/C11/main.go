// Extractor for C11: Gen/WindowFacts.lean — the shape-fixed facts of window.go, screen.go and
// character.go that the model transcribes: reject guards and delegation arguments of
// SetCell/SetStyle/setCell/setStyle, the clamping switches of Window.New, the TAB expansion of
// Characters, the re-measure conditions of the text helpers and whether Wrap stores the
// re-measured width back into the slice.
//
// Identifiers are normalised by role so that renaming a receiver, parameter or local does not
// change the output: receiver -> R, parameters -> P0,P1,…, results of `X.Size()` -> S0,S1,
// the composite-literal local of New -> N.
package main

import (
	"fmt"
	"go/ast"
	"go/token"
	"sort"
	"strings"

	"verifextract/ex"
)

func main() { ex.Main([]string{"WindowFacts.lean"}, gen) }

type renamer map[string]string

func roles(fd *ast.FuncDecl) renamer {
	r := renamer{}
	if fd.Recv != nil && len(fd.Recv.List) == 1 && len(fd.Recv.List[0].Names) == 1 {
		r[fd.Recv.List[0].Names[0].Name] = "R"
	}
	i := 0
	for _, p := range fd.Type.Params.List {
		for _, n := range p.Names {
			r[n.Name] = fmt.Sprintf("P%d", i)
			i++
		}
	}
	return r
}

// norm prints an expression with identifiers renamed and without spaces.
func norm(c *ex.Ctx, r renamer, e ast.Expr) string {
	var f func(e ast.Expr) string
	f = func(e ast.Expr) string {
		switch e := e.(type) {
		case *ast.Ident:
			if v, ok := r[e.Name]; ok {
				return v
			}
			return e.Name
		case *ast.BasicLit:
			return e.Value
		case *ast.ParenExpr:
			return "(" + f(e.X) + ")"
		case *ast.SelectorExpr:
			return f(e.X) + "." + e.Sel.Name
		case *ast.BinaryExpr:
			return f(e.X) + e.Op.String() + f(e.Y)
		case *ast.UnaryExpr:
			return e.Op.String() + f(e.X)
		case *ast.IndexExpr:
			return f(e.X) + "[" + f(e.Index) + "]"
		case *ast.CallExpr:
			var as []string
			for _, a := range e.Args {
				as = append(as, f(a))
			}
			return f(e.Fun) + "(" + strings.Join(as, ",") + ")"
		}
		c.Fail("%s: unsupported expression %s", c.Pos(e), c.Src(e))
		return "?"
	}
	return f(e)
}

// disjuncts splits a || b || c.
func disjuncts(e ast.Expr) []ast.Expr {
	if b, ok := e.(*ast.BinaryExpr); ok && b.Op == token.LOR {
		return append(disjuncts(b.X), disjuncts(b.Y)...)
	}
	if p, ok := e.(*ast.ParenExpr); ok {
		return disjuncts(p.X)
	}
	return []ast.Expr{e}
}

func isBareReturn(s *ast.BlockStmt) bool {
	if len(s.List) != 1 {
		return false
	}
	r, ok := s.List[0].(*ast.ReturnStmt)
	return ok && len(r.Results) == 0
}

// guardsAndTail: leading `if cond { return }` statements → sorted reject atoms; returns the rest.
func guardsAndTail(c *ex.Ctx, r renamer, fd *ast.FuncDecl) ([]string, []ast.Stmt) {
	var atoms []string
	body := fd.Body.List
	i := 0
	for ; i < len(body); i++ {
		is, ok := body[i].(*ast.IfStmt)
		if !ok || is.Init != nil || is.Else != nil || !isBareReturn(is.Body) {
			break
		}
		for _, d := range disjuncts(is.Cond) {
			atoms = append(atoms, norm(c, r, d))
		}
	}
	sort.Strings(atoms)
	return atoms, body[i:]
}

func leanList(xs []string) string {
	q := make([]string, len(xs))
	for i, x := range xs {
		q[i] = ex.LeanStr(x)
	}
	return "[" + strings.Join(q, ", ") + "]"
}

// calls collects every call expression in the statements, normalised, in source order.
func calls(c *ex.Ctx, r renamer, stmts []ast.Stmt) []string {
	var out []string
	for _, s := range stmts {
		ast.Inspect(s, func(n ast.Node) bool {
			if ce, ok := n.(*ast.CallExpr); ok {
				out = append(out, norm(c, r, ce))
				return false
			}
			return true
		})
	}
	return out
}

func postStr(c *ex.Ctx, r renamer, s ast.Stmt) string {
	switch s := s.(type) {
	case *ast.AssignStmt:
		if len(s.Lhs) == 1 && len(s.Rhs) == 1 {
			return norm(c, r, s.Lhs[0]) + s.Tok.String() + norm(c, r, s.Rhs[0])
		}
	case *ast.IncDecStmt:
		return norm(c, r, s.X) + s.Tok.String()
	}
	return c.Src(s)
}

// required lists every definition the Lean side refers to, with its type. gen always writes the
// file: what could not be recognised in the source gets the value "?unrecognised" (or, for
// wrapStoresWidth, the current behaviour), the error is recorded in extractErrors and the
// extractor still exits non-zero. The facts_* theorems then fail, but the model and the driver
// keep building, so the correspondence run and its oracle still look for a concrete failing input.
var required = []struct{ name, typ string }{
	{"winSetCellReject", "L"}, {"winSetCellCalls", "L"}, {"winSetStyleReject", "L"}, {"winSetStyleCalls", "L"},
	{"scrSetCellReject", "L"}, {"scrSetCellTail", "L"}, {"scrSetStyleReject", "L"}, {"scrSetStyleTail", "L"},
	{"newLiteral", "L"}, {"newSteps", "L"}, {"tabLoop", "L"}, {"tabCell", "S"},
	{"remeasurePrint", "L"}, {"condsPrint", "L"}, {"remeasurePrintTruncate", "L"}, {"condsPrintTruncate", "L"},
	{"remeasurePrintln", "L"}, {"condsPrintln", "L"}, {"remeasureWrap", "L"}, {"condsWrap", "L"},
	{"wrapStoresWidth", "B"},
}

func gen(c *ex.Ctx) {
	var sb strings.Builder
	sb.WriteString("namespace VaxisModel.Gen.WindowFacts\n\n")
	genBody(c, &sb)
	skeletons(c, &sb)
	for _, r := range required {
		if strings.Contains(sb.String(), "\ndef "+r.name+" :") {
			continue
		}
		c.Fail("no value extracted for %s", r.name)
		switch r.typ {
		case "L":
			fmt.Fprintf(&sb, "def %s : List String := [\"?unrecognised\"]\n", r.name)
		case "S":
			fmt.Fprintf(&sb, "def %s : String := \"?unrecognised\"\n", r.name)
		case "B":
			fmt.Fprintf(&sb, "def %s : Bool := true\n", r.name)
		}
	}
	fmt.Fprintf(&sb, "\n/-- What the extractor could not recognise (empty when the source has the expected shape). -/\ndef extractErrors : List String := %s\n\n", leanList(c.Errs))
	sb.WriteString("end VaxisModel.Gen.WindowFacts\n")
	errs := c.Errs
	c.Write("WindowFacts.lean", sb.String())
	_ = errs
}

func genBody(c *ex.Ctx, sbp *strings.Builder) {
	win := c.Parse("window.go")
	scr := c.Parse("screen.go")
	chr := c.Parse("character.go")
	if win == nil || scr == nil || chr == nil {
		return
	}
	// 1. guards + what follows them
	for _, it := range []struct {
		f          *ast.File
		recv, name string
		lean       string
	}{{win, "Window", "SetCell", "winSetCell"}, {win, "Window", "SetStyle", "winSetStyle"},
		{scr, "screen", "setCell", "scrSetCell"}, {scr, "screen", "setStyle", "scrSetStyle"}} {
		fd := ex.FindFunc(it.f, it.recv, it.name)
		if fd == nil {
			c.Fail("%s.%s not found", it.recv, it.name)
			continue
		}
		r := roles(fd)
		atoms, tail := guardsAndTail(c, r, fd)
		fmt.Fprintf(sbp, "/-- %s: disjuncts of the leading `if … { return }` guards (sorted). -/\ndef %sReject : List String := %s\n", c.Pos(fd), it.lean, leanList(atoms))
		if it.recv == "Window" {
			// switch win.Parent { case nil: <call> default: <call> }
			cs := calls(c, r, tail)
			fmt.Fprintf(sbp, "/-- calls after the guards, in source order. -/\ndef %sCalls : List String := %s\n\n", it.lean, leanList(cs))
			if len(tail) != 1 {
				c.Fail("%s: expected exactly one statement after the guards", c.Pos(fd))
			} else if sw, ok := tail[0].(*ast.SwitchStmt); !ok || norm(c, r, sw.Tag) != "R.Parent" {
				c.Fail("%s: expected `switch win.Parent`", c.Pos(fd))
			}
		} else {
			var ts []string
			for _, s := range tail {
				as, ok := s.(*ast.AssignStmt)
				if !ok || len(as.Lhs) != 1 || len(as.Rhs) != 1 {
					c.Fail("%s: unexpected statement after the guards", c.Pos(s))
					continue
				}
				ts = append(ts, norm(c, r, as.Lhs[0])+as.Tok.String()+norm(c, r, as.Rhs[0]))
			}
			fmt.Fprintf(sbp, "/-- statements after the guards. -/\ndef %sTail : List String := %s\n\n", it.lean, leanList(ts))
		}
	}

	// 2. Window.New: the two switches
	if fd := ex.FindFunc(win, "Window", "New"); fd == nil {
		c.Fail("Window.New not found")
	} else {
		r := roles(fd)
		var sws []string
		var lits []string
		for _, s := range fd.Body.List {
			switch s := s.(type) {
			case *ast.AssignStmt:
				if len(s.Rhs) == 1 {
					if ce, ok := s.Rhs[0].(*ast.CallExpr); ok {
						if se, ok := ce.Fun.(*ast.SelectorExpr); ok && se.Sel.Name == "Size" {
							for i, l := range s.Lhs {
								if id, ok := l.(*ast.Ident); ok {
									r[id.Name] = fmt.Sprintf("S%d", i)
								}
							}
							sws = append(sws, "size:"+norm(c, r, ce))
							continue
						}
					}
					if cl, ok := s.Rhs[0].(*ast.CompositeLit); ok && len(s.Lhs) == 1 {
						if id, ok := s.Lhs[0].(*ast.Ident); ok {
							r[id.Name] = "N"
						}
						for _, e := range cl.Elts {
							kv, ok := e.(*ast.KeyValueExpr)
							if !ok {
								c.Fail("%s: unkeyed literal", c.Pos(e))
								continue
							}
							lits = append(lits, norm(c, r, kv.Key)+":"+norm(c, r, kv.Value))
						}
						continue
					}
				}
				c.Fail("%s: unexpected assignment in New", c.Pos(s))
			case *ast.SwitchStmt:
				if s.Tag != nil || s.Init != nil {
					c.Fail("%s: expected a tagless switch", c.Pos(s))
					continue
				}
				for _, cc := range s.Body.List {
					cl := cc.(*ast.CaseClause)
					var conds, acts []string
					for _, e := range cl.List {
						conds = append(conds, norm(c, r, e))
					}
					for _, b := range cl.Body {
						as, ok := b.(*ast.AssignStmt)
						if !ok || len(as.Lhs) != 1 || len(as.Rhs) != 1 {
							c.Fail("%s: unexpected statement in New's switch", c.Pos(b))
							continue
						}
						acts = append(acts, norm(c, r, as.Lhs[0])+as.Tok.String()+norm(c, r, as.Rhs[0]))
					}
					sws = append(sws, "case "+strings.Join(conds, ",")+" => "+strings.Join(acts, ";"))
				}
				sws = append(sws, "end")
			case *ast.ReturnStmt:
				if len(s.Results) == 1 {
					sws = append(sws, "return "+norm(c, r, s.Results[0]))
				}
			default:
				c.Fail("%s: unexpected statement in New", c.Pos(s))
			}
		}
		sort.Strings(lits)
		fmt.Fprintf(sbp, "/-- Window.New: the struct literal (sorted fields). -/\ndef newLiteral : List String := %s\n", leanList(lits))
		fmt.Fprintf(sbp, "/-- Window.New: the statements after the literal. -/\ndef newSteps : List String := %s\n\n", leanList(sws))
	}

	// 3. Characters: the TAB branch
	if fd := ex.FindFunc(chr, "", "Characters"); fd == nil {
		c.Fail("Characters not found")
	} else {
		found := false
		ast.Inspect(fd, func(n ast.Node) bool {
			is, ok := n.(*ast.IfStmt)
			if !ok {
				return true
			}
			be, ok := is.Cond.(*ast.BinaryExpr)
			if !ok || be.Op != token.EQL {
				return true
			}
			if bl, ok := be.Y.(*ast.BasicLit); !ok || bl.Value != `"\t"` {
				return true
			}
			// for i := 0; i < N; i += 1 { egcs = append(egcs, Character{" ", 1}) }; continue
			if len(is.Body.List) != 2 {
				c.Fail("%s: TAB branch has an unexpected shape", c.Pos(is))
				return false
			}
			fs, ok1 := is.Body.List[0].(*ast.ForStmt)
			_, ok2 := is.Body.List[1].(*ast.BranchStmt)
			if !ok1 || !ok2 || len(fs.Body.List) != 1 {
				c.Fail("%s: TAB branch has an unexpected shape", c.Pos(is))
				return false
			}
			r := renamer{}
			if as, ok := fs.Init.(*ast.AssignStmt); ok && len(as.Lhs) == 1 {
				if id, ok := as.Lhs[0].(*ast.Ident); ok {
					r[id.Name] = "I"
				}
				fmt.Fprintf(sbp, "/-- %s: the loop of the TAB branch of Characters. -/\ndef tabLoop : List String := %s\n", c.Pos(is),
					leanList([]string{norm(c, r, as.Lhs[0]) + as.Tok.String() + norm(c, r, as.Rhs[0]), norm(c, r, fs.Cond), postStr(c, r, fs.Post)}))
			} else {
				c.Fail("%s: TAB loop init", c.Pos(fs))
			}
			es, ok := fs.Body.List[0].(*ast.ExprStmt)
			if ok {
				c.Fail("%s: TAB loop body is not an append assignment", c.Pos(es))
				return false
			}
			as, ok := fs.Body.List[0].(*ast.AssignStmt)
			if !ok || len(as.Rhs) != 1 {
				c.Fail("%s: TAB loop body", c.Pos(fs))
				return false
			}
			ce, ok := as.Rhs[0].(*ast.CallExpr)
			if !ok || len(ce.Args) != 2 {
				c.Fail("%s: TAB loop body", c.Pos(fs))
				return false
			}
			fmt.Fprintf(sbp, "def tabCell : String := %s\n\n", ex.LeanStr(c.Src(ce.Args[1])))
			found = true
			return false
		})
		if !found {
			c.Fail("character.go: no `cluster == \"\\t\"` branch in Characters")
		}
	}

	// 4. text helpers: the re-measure `if`s and what they assign to; pen conditions
	for _, name := range []string{"Print", "PrintTruncate", "Println", "Wrap"} {
		fd := ex.FindFunc(win, "Window", name)
		if fd == nil {
			c.Fail("Window.%s not found", name)
			continue
		}
		r := roles(fd)
		var rem []string
		var conds []string
		ast.Inspect(fd, func(n ast.Node) bool {
			switch s := n.(type) {
			case *ast.RangeStmt:
				// name the loop variables by role: range over X → value E(X)
				if id, ok := s.Value.(*ast.Ident); ok {
					r[id.Name] = "E(" + norm(c, r, s.X) + ")"
				}
				if id, ok := s.Key.(*ast.Ident); ok && id.Name != "_" {
					r[id.Name] = "K(" + norm(c, r, s.X) + ")"
				}
			case *ast.AssignStmt:
				if len(s.Rhs) == 1 {
					if ce, ok := s.Rhs[0].(*ast.CallExpr); ok {
						if se, ok := ce.Fun.(*ast.SelectorExpr); ok && se.Sel.Name == "Size" {
							for i, l := range s.Lhs {
								if id, ok := l.(*ast.Ident); ok {
									r[id.Name] = fmt.Sprintf("S%d", i)
								}
							}
						}
					}
				}
			case *ast.IfStmt:
				cond := norm(c, r, s.Cond)
				if strings.Contains(cond, "caps.") {
					var as []string
					for _, b := range s.Body.List {
						if a, ok := b.(*ast.AssignStmt); ok && len(a.Lhs) == 1 && len(a.Rhs) == 1 {
							as = append(as, norm(c, r, a.Lhs[0])+a.Tok.String()+norm(c, r, a.Rhs[0]))
						} else {
							c.Fail("%s: unexpected statement in a re-measure branch", c.Pos(b))
						}
					}
					rem = append(rem, "if "+cond+" { "+strings.Join(as, "; ")+" }")
				} else {
					conds = append(conds, cond)
				}
			case *ast.CaseClause:
				for _, e := range s.List {
					conds = append(conds, "case "+norm(c, r, e))
				}
			}
			return true
		})
		fmt.Fprintf(sbp, "/-- %s: re-measure branches. -/\ndef remeasure%s : List String := %s\n", c.Pos(fd), name, leanList(rem))
		fmt.Fprintf(sbp, "/-- %s: the other conditions, in source order. -/\ndef conds%s : List String := %s\n\n", c.Pos(fd), name, leanList(conds))
		if name == "Wrap" {
			stored := false
			for _, s := range rem {
				if strings.Contains(s, "[K(") {
					stored = true
				}
			}
			fmt.Fprintf(sbp, "/-- Does Wrap's measuring loop store the width into the slice element (so that the placing loop uses it)? -/\ndef wrapStoresWidth : Bool := %v\n\n", stored)
		}
	}
}
