// Statement skeletons of the drawing helpers of window.go (same form as the C01 extractor's:
// (nesting depth, kind, text) per statement in source order, gofmt text without white space, an
// unknown statement form becomes kind "unknown"), with the locals printed under their role names so
// that renaming one does not change the skeleton.
package main

import (
	"fmt"
	"go/ast"
	"go/token"
	"sort"
	"strings"

	"verifextract/ex"
)

type line struct {
	depth      int
	kind, text string
}

type sk struct {
	c   *ex.Ctx
	out []line
}

func (s *sk) src(n ast.Node) string {
	if n == nil {
		return ""
	}
	t := s.c.Src(n)
	var sb strings.Builder
	inStr := byte(0)
	for i := 0; i < len(t); i++ {
		ch := t[i]
		if inStr != 0 {
			sb.WriteByte(ch)
			if ch == '\\' && i+1 < len(t) {
				i++
				sb.WriteByte(t[i])
			} else if ch == inStr {
				inStr = 0
			}
			continue
		}
		switch ch {
		case '"', '\'', '`':
			inStr = ch
			sb.WriteByte(ch)
		case ' ', '\t', '\n', '\r':
		default:
			sb.WriteByte(ch)
		}
	}
	return sb.String()
}

func (s *sk) emit(d int, kind, text string) { s.out = append(s.out, line{d, kind, text}) }

// writeCall recognises the ways render() and the writer put bytes into a buffer / on the wire.
func (s *sk) writeCall(e ast.Expr) (kind, text string, ok bool) {
	call, isCall := e.(*ast.CallExpr)
	if !isCall {
		return
	}
	fn := s.src(call.Fun)
	var args []string
	for _, a := range call.Args {
		args = append(args, s.src(a))
	}
	switch {
	case strings.HasSuffix(fn, ".WriteString") || strings.HasSuffix(fn, ".Write") || strings.HasSuffix(fn, ".Printf"):
		return "write", fn + "(" + strings.Join(args, ",") + ")", true
	case fn == "fmt.Fprintf":
		return "write", fn + "(" + strings.Join(args, ",") + ")", true
	}
	return
}

func (s *sk) block(d int, b *ast.BlockStmt) {
	if b == nil {
		return
	}
	for _, st := range b.List {
		s.stmt(d, st)
	}
}

func (s *sk) stmt(d int, st ast.Stmt) {
	switch st := st.(type) {
	case *ast.ExprStmt:
		if k, t, ok := s.writeCall(st.X); ok {
			s.emit(d, k, t)
		} else {
			s.emit(d, "call", s.src(st.X))
		}
	case *ast.AssignStmt:
		// `_, _ = w.WriteString(x)` is a write
		if len(st.Rhs) == 1 {
			allBlank := true
			for _, l := range st.Lhs {
				if id, ok := l.(*ast.Ident); !ok || id.Name != "_" {
					allBlank = false
				}
			}
			if allBlank {
				if k, t, ok := s.writeCall(st.Rhs[0]); ok {
					s.emit(d, k, t)
					return
				}
			}
		}
		var l, r []string
		for _, e := range st.Lhs {
			l = append(l, s.src(e))
		}
		for _, e := range st.Rhs {
			r = append(r, s.src(e))
		}
		s.emit(d, "assign", strings.Join(l, ",")+st.Tok.String()+strings.Join(r, ","))
	case *ast.IncDecStmt:
		s.emit(d, "assign", s.src(st.X)+st.Tok.String())
	case *ast.IfStmt:
		s.ifStmt(d, "if", st)
	case *ast.SwitchStmt:
		hdr := ""
		if st.Init != nil {
			hdr = s.src(st.Init) + ";"
		}
		s.emit(d, "switch", hdr+s.src(st.Tag))
		for _, cc := range st.Body.List {
			c, ok := cc.(*ast.CaseClause)
			if !ok {
				s.emit(d+1, "unknown", s.src(cc))
				continue
			}
			if c.List == nil {
				s.emit(d+1, "default", "")
			} else {
				var es []string
				for _, e := range c.List {
					es = append(es, s.src(e))
				}
				s.emit(d+1, "case", strings.Join(es, ","))
			}
			for _, b := range c.Body {
				s.stmt(d+2, b)
			}
		}
	case *ast.ForStmt:
		s.emit(d, "for", s.src(st.Init)+";"+s.src(st.Cond)+";"+s.src(st.Post))
		s.block(d+1, st.Body)
	case *ast.RangeStmt:
		kv := s.src(st.Key)
		if st.Value != nil {
			kv += "," + s.src(st.Value)
		}
		s.emit(d, "range", kv+st.Tok.String()+"range "+s.src(st.X))
		s.block(d+1, st.Body)
	case *ast.BranchStmt:
		lbl := ""
		if st.Label != nil {
			lbl = st.Label.Name
		}
		if st.Tok == token.CONTINUE || st.Tok == token.BREAK {
			s.emit(d, st.Tok.String(), lbl)
		} else {
			s.emit(d, "unknown", s.src(st))
		}
	case *ast.LabeledStmt:
		s.emit(d, "label", st.Label.Name)
		s.stmt(d, st.Stmt)
	case *ast.DeferStmt:
		s.emit(d, "defer", s.src(st.Call))
	case *ast.DeclStmt:
		// one line per declared name: `var (a = x; b T)` -> "a=x", "b T"
		gd, ok := st.Decl.(*ast.GenDecl)
		if !ok || gd.Tok != token.VAR {
			s.emit(d, "unknown", s.src(st.Decl))
			return
		}
		for _, sp := range gd.Specs {
			vs, ok := sp.(*ast.ValueSpec)
			if !ok {
				s.emit(d, "unknown", s.src(sp))
				continue
			}
			for i, n := range vs.Names {
				t := n.Name
				if vs.Type != nil {
					t += " " + s.src(vs.Type)
				}
				if i < len(vs.Values) {
					t += "=" + s.src(vs.Values[i])
				}
				s.emit(d, "var", t)
			}
		}
	case *ast.ReturnStmt:
		var r []string
		for _, e := range st.Results {
			// `return w.w.Write(x)` writes
			if _, t, ok := s.writeCall(e); ok {
				r = append(r, t)
			} else {
				r = append(r, s.src(e))
			}
		}
		s.emit(d, "return", strings.Join(r, ","))
	case *ast.BlockStmt:
		s.block(d, st)
	default:
		s.emit(d, "unknown", s.src(st))
	}
}

func (s *sk) ifStmt(d int, kind string, st *ast.IfStmt) {
	hdr := ""
	if st.Init != nil {
		hdr = s.src(st.Init) + ";"
	}
	s.emit(d, kind, hdr+s.src(st.Cond))
	s.block(d+1, st.Body)
	switch e := st.Else.(type) {
	case nil:
	case *ast.IfStmt:
		s.ifStmt(d, "elseif", e)
	case *ast.BlockStmt:
		s.emit(d, "else", "")
		s.block(d+1, e)
	default:
		s.emit(d, "unknown", s.src(st.Else))
	}
}

// canon: role names of the locals of each function, in order of declaration (= the names in the
// pinned transcription, Lemmas/WindowSkelPinned.lean).
var canon = map[string][]string{
	"ShowCursor":    {"win", "col", "row", "style"},
	"Fill":          {"win", "cell", "cols", "rows", "row", "col"},
	"Origin":        {"win", "w", "col", "row"},
	"Clear":         {"win"},
	"Print":         {"win", "segs", "col", "row", "cols", "rows", "seg", "char", "cell"},
	"PrintTruncate": {"win", "row", "segs", "cols", "rows", "col", "truncator", "seg", "char", "w", "cell"},
	"Println":       {"win", "row", "segs", "cols", "rows", "col", "seg", "char", "w", "cell"},
	"splitsCluster": {"a", "b", "last", "state", "cluster"},
	"Wrap":          {"win", "segs", "col", "row", "cols", "rows", "state", "segment", "seg", "rest", "more", "chars", "total", "i", "char", "char", "cell"},
}

// normalise renames, in place, every identifier that refers to a local of fd (go/parser's object
// resolution) to its role name.  Only used on a separately parsed copy of the file.
func normalise(fd *ast.FuncDecl) {
	if fd == nil {
		return
	}
	seen := map[*ast.Object]bool{}
	var objs []*ast.Object
	ast.Inspect(fd, func(n ast.Node) bool {
		id, ok := n.(*ast.Ident)
		if !ok || id.Obj == nil || id.Name == "_" || id.Obj.Kind == ast.Fun {
			return true
		}
		o := id.Obj
		if o.Pos() < fd.Pos() || o.Pos() >= fd.End() || seen[o] {
			return true
		}
		seen[o] = true
		objs = append(objs, o)
		return true
	})
	sort.Slice(objs, func(i, j int) bool { return objs[i].Pos() < objs[j].Pos() })
	names := canon[fd.Name.Name]
	role := map[*ast.Object]string{}
	for k, o := range objs {
		if k < len(names) {
			role[o] = names[k]
		} else {
			role[o] = fmt.Sprintf("L%d", k)
		}
	}
	ast.Inspect(fd, func(n ast.Node) bool {
		if id, ok := n.(*ast.Ident); ok && id.Obj != nil {
			if r, ok := role[id.Obj]; ok {
				id.Name = r
			}
		}
		return true
	})
}

func skeleton(c *ex.Ctx, fd *ast.FuncDecl) []line {
	s := &sk{c: c}
	if fd == nil || fd.Body == nil {
		return nil
	}
	s.block(0, fd.Body)
	return s.out
}

func leanLines(name string, ls []line) string {
	var sb strings.Builder
	fmt.Fprintf(&sb, "def %s : List (Nat × String × String) := [", name)
	for i, l := range ls {
		if i > 0 {
			sb.WriteString(",")
		}
		fmt.Fprintf(&sb, "\n  (%d, %s, %s)", l.depth, ex.LeanStr(l.kind), ex.LeanStr(l.text))
	}
	sb.WriteString("]\n\n")
	return sb.String()
}

// skeletons writes the skeleton definitions of the window.go helpers (from a second parse of the
// file, which normalise mutates).
func skeletons(c *ex.Ctx, sbp *strings.Builder) {
	f := c.Parse("window.go")
	if f == nil {
		return
	}
	sbp.WriteString("/-! Statement skeletons of the helpers: (nesting depth, kind, text) in source order; locals under their role names. -/\n")
	for _, name := range []string{"ShowCursor", "Fill", "Origin", "Clear", "Print", "PrintTruncate", "Println", "Wrap", "splitsCluster"} {
		recv := "Window"
		if name == "splitsCluster" {
			recv = "" // package-level helper of Wrap
		}
		fd := ex.FindFunc(f, recv, name)
		if fd == nil {
			c.Fail("window.go: %s not found", name)
			fmt.Fprintf(sbp, "def sk%s : List (Nat × String × String) := []\n\n", name)
			continue
		}
		normalise(fd)
		sbp.WriteString(leanLines("sk"+name, skeleton(c, fd)))
	}
}
