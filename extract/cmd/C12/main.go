// Extractor for C12: Gen/TermReplies.lean — the literal strings the embedded emulator writes back to
// its child (widgets/term csi.go `case "c"`, `">c"`, `"n"`; mode.go decrqm), the order of the writes of
// Vaxis.sendQueries() (vaxis.go) and the string / numeric constants and format functions of
// sequences.go they name. Shapes that are not recognised become `unknown:<source>` entries (and the
// facts_* theorems of Props/C12.lean fail) rather than stopping the extractor.
package main

import (
	"fmt"
	"go/ast"
	"go/token"
	"strconv"
	"strings"
	"verifextract/ex"
)

func main() { ex.Main([]string{"TermReplies.lean"}, gen) }

func bytesLit(s string) string {
	var p []string
	for _, b := range []byte(s) {
		p = append(p, strconv.Itoa(int(b)))
	}
	return "[" + strings.Join(p, ", ") + "]"
}

func strLit(e ast.Expr) (string, bool) {
	bl, ok := e.(*ast.BasicLit)
	if !ok || bl.Kind != token.STRING {
		return "", false
	}
	s, err := strconv.Unquote(bl.Value)
	return s, err == nil
}

// caseBody returns the body of `case "<label>":` of the first switch over strings in fn.
func caseBody(fn *ast.FuncDecl, label string) []ast.Stmt {
	var out []ast.Stmt
	ast.Inspect(fn.Body, func(n ast.Node) bool {
		cc, ok := n.(*ast.CaseClause)
		if !ok || out != nil {
			return true
		}
		for _, e := range cc.List {
			if s, ok := strLit(e); ok && s == label {
				out = cc.Body
				return false
			}
		}
		return true
	})
	return out
}

// writes collects, in order, the string literals (or `unknown:` source) passed to X.WriteString(...) /
// fmt.Sprintf / fmt.Fprintf formats inside stmts.
func writes(c *ex.Ctx, stmts []ast.Stmt, method string) []string {
	var out []string
	for _, st := range stmts {
		ast.Inspect(st, func(n ast.Node) bool {
			call, ok := n.(*ast.CallExpr)
			if !ok {
				return true
			}
			sel, ok := call.Fun.(*ast.SelectorExpr)
			if !ok || sel.Sel.Name != method || len(call.Args) == 0 {
				return true
			}
			if s, ok := strLit(call.Args[len(call.Args)-1]); ok && method == "WriteString" {
				out = append(out, s)
			} else if method == "WriteString" {
				out = append(out, "unknown:"+c.Src(call.Args[len(call.Args)-1]))
			}
			return true
		})
	}
	return out
}

// format finds the first fmt.Sprintf / fmt.Fprintf call in stmts: format string and source of the args.
func format(c *ex.Ctx, stmts []ast.Stmt) (string, []string, bool) {
	var f string
	var args []string
	found := false
	for _, st := range stmts {
		ast.Inspect(st, func(n ast.Node) bool {
			call, ok := n.(*ast.CallExpr)
			if !ok || found {
				return true
			}
			sel, ok := call.Fun.(*ast.SelectorExpr)
			if !ok {
				return true
			}
			start := -1
			switch sel.Sel.Name {
			case "Sprintf":
				start = 0
			case "Fprintf":
				start = 1
			}
			if start < 0 || len(call.Args) <= start {
				return true
			}
			s, ok := strLit(call.Args[start])
			if !ok {
				return true
			}
			f = s
			for _, a := range call.Args[start+1:] {
				args = append(args, c.Src(a))
			}
			found = true
			return false
		})
	}
	return f, args, found
}

func leanStrList(l []string) string {
	var p []string
	for _, s := range l {
		p = append(p, ex.LeanStr(s))
	}
	return "[" + strings.Join(p, ", ") + "]"
}

func gen(c *ex.Ctx) {
	csi := c.Parse("widgets/term/csi.go")
	mode := c.Parse("widgets/term/mode.go")
	vx := c.Parse("vaxis.go")
	seq := c.Parse("sequences.go")
	if csi == nil || mode == nil || vx == nil || seq == nil {
		return
	}
	var sb strings.Builder
	sb.WriteString("namespace VaxisModel.Gen.TermReplies\n\n")

	// --- csi(): DA1, DA2, DSR
	fn := ex.FindFunc(csi, "Model", "csi")
	if fn == nil {
		c.Fail("widgets/term/csi.go: func (vt *Model) csi not found")
		return
	}
	var parts []string
	for _, s := range writes(c, caseBody(fn, "c"), "WriteString") {
		if strings.HasPrefix(s, "unknown:") {
			continue // vt.pty.WriteString(resp.String()): the builder itself
		}
		parts = append(parts, bytesLit(s))
	}
	fmt.Fprintf(&sb, "/-- `case \"c\"`: the literals written to the response builder, in order -/\ndef da1Parts : List (List Nat) := [%s]\n", strings.Join(parts, ", "))
	da2 := writes(c, caseBody(fn, ">c"), "WriteString")
	if len(da2) == 1 && !strings.HasPrefix(da2[0], "unknown:") {
		fmt.Fprintf(&sb, "/-- `case \">c\"` -/\ndef da2 : List Nat := %s\n", bytesLit(da2[0]))
	} else {
		fmt.Fprintf(&sb, "def da2 : List Nat := []  -- unknown shape: %s\n", strings.Join(da2, " | "))
	}
	// case "n": inner switch with case 5 / case 6
	var dsrOk string
	var cprF string
	var cprA []string
	for _, st := range caseBody(fn, "n") {
		sw, ok := st.(*ast.SwitchStmt)
		if !ok {
			continue
		}
		for _, cl := range sw.Body.List {
			cc := cl.(*ast.CaseClause)
			if len(cc.List) != 1 {
				continue
			}
			switch c.Src(cc.List[0]) {
			case "5":
				if w := writes(c, cc.Body, "WriteString"); len(w) == 1 {
					dsrOk = w[0]
				}
			case "6":
				cprF, cprA, _ = format(c, cc.Body)
			}
		}
	}
	fmt.Fprintf(&sb, "/-- `case \"n\"`, ps = 5 -/\ndef dsrOk : List Nat := %s\n", bytesLit(dsrOk))
	fmt.Fprintf(&sb, "/-- `case \"n\"`, ps = 6: format and arguments -/\ndef cprFormat : List Nat := %s\ndef cprArgs : List String := %s\n", bytesLit(cprF), leanStrList(cprA))

	// --- decrqm(): the answer format, and the arms that are not `switch vt.mode.F`
	dq := ex.FindFunc(mode, "Model", "decrqm")
	if dq == nil {
		c.Fail("widgets/term/mode.go: decrqm not found")
		return
	}
	f, a, _ := format(c, dq.Body.List)
	fmt.Fprintf(&sb, "/-- decrqm(): the answer -/\ndef decrpmFormat : List Nat := %s\ndef decrpmArgs : List String := %s\n", bytesLit(f), leanStrList(a))
	var other []string
	for _, st := range dq.Body.List {
		sw, ok := st.(*ast.SwitchStmt)
		if !ok {
			continue
		}
		for _, cl := range sw.Body.List {
			cc := cl.(*ast.CaseClause)
			if len(cc.List) != 1 {
				continue
			}
			lbl := c.Src(cc.List[0])
			if len(cc.Body) == 0 {
				other = append(other, fmt.Sprintf("(%s, none)", lbl))
				continue
			}
			if as, ok := cc.Body[0].(*ast.AssignStmt); ok && len(cc.Body) == 1 && len(as.Lhs) == 1 && c.Src(as.Lhs[0]) == "ps" {
				other = append(other, fmt.Sprintf("(%s, some %s)", lbl, c.Src(as.Rhs[0])))
			}
		}
	}
	fmt.Fprintf(&sb, "/-- decrqm(): arms that assign a literal (or nothing) instead of reading a mode flag -/\ndef decrqmLiteral : List (Int × Option Int) := [%s]\n", strings.Join(other, ", "))

	// --- sendQueries(): the writes, in order
	sq := ex.FindFunc(vx, "Vaxis", "sendQueries")
	if sq == nil {
		c.Fail("vaxis.go: sendQueries not found")
		return
	}
	// one entry per statement that writes, flushes or calls a start-up helper; statements under an
	// `if` carry their guard ("if <cond>: <entry>"); anything else that could matter is listed too
	// ("assign …", "call …", "defer …") and an unrecognised shape becomes "unknown: …" (the facts_*
	// theorems then fail) - the extractor itself never stops
	// local aliases `x := <expr>` whose only use is as the argument of a write are substituted, so that
	// `s := decset(m); vx.tw.WriteString(s)` reads as `write decset(m)`
	alias := map[string]string{}
	var stmtEntries func(stmts []ast.Stmt, guard string, strict bool) []string
	stmtEntries = func(stmts []ast.Stmt, guard string, strict bool) []string {
		var out []string
		add := func(e string) {
			if guard != "" {
				e = "if " + guard + ": " + e
			}
			out = append(out, e)
		}
		for _, st := range stmts {
			var call *ast.CallExpr
			switch s := st.(type) {
			case *ast.AssignStmt:
				if strict && s.Tok == token.DEFINE && len(s.Lhs) == 1 && len(s.Rhs) == 1 {
					pure := false
					switch r := s.Rhs[0].(type) {
					case *ast.BasicLit, *ast.Ident:
						pure = true
					case *ast.CallExpr:
						switch c.Src(r.Fun) {
						case "decset", "decrst", "decrqm", "tparm", "xtgettcap", "fmt.Sprintf":
							pure = true
						}
					}
					if id, ok := s.Lhs[0].(*ast.Ident); ok && id.Name != "_" && pure {
						alias[id.Name] = c.Src(s.Rhs[0])
						continue
					}
				}
				if len(s.Rhs) == 1 {
					call, _ = s.Rhs[0].(*ast.CallExpr)
				}
				if call == nil {
					if strict {
						add("assign " + c.Src(st))
					}
					continue
				}
			case *ast.ExprStmt:
				call, _ = s.X.(*ast.CallExpr)
			case *ast.DeferStmt:
				add("defer " + c.Src(s.Call.Fun))
				continue
			case *ast.IfStmt:
				if strict {
					if s.Init != nil || s.Else != nil || guard != "" {
						add("unknown: " + c.Src(s.Cond))
						continue
					}
					out = append(out, stmtEntries(s.Body.List, c.Src(s.Cond), strict)...)
				}
				continue
			default:
				if strict {
					add("unknown: " + c.Src(st))
				}
				continue
			}
			if call == nil {
				continue
			}
			src := c.Src(call.Fun)
			switch {
			case src == "vx.tw.WriteString" && len(call.Args) == 1:
				arg := c.Src(call.Args[0])
				if a, ok := alias[arg]; ok {
					arg = a
				}
				add("write " + arg)
			case src == "fmt.Fprintf" && len(call.Args) >= 2 && c.Src(call.Args[0]) == "vx.tw":
				var as []string
				for _, x := range call.Args[1:] {
					as = append(as, c.Src(x))
				}
				add("printf " + strings.Join(as, ", "))
			case src == "vx.tw.Flush":
				add("flush")
			case src == "vx.CursorPosition":
				add("cursorPosition")
			case src == "vx.enterAltScreen":
				add("enterAltScreen")
			default:
				if strict {
					add("call " + src)
				}
			}
		}
		return out
	}
	calls := stmtEntries(sq.Body.List, "", false)
	for _, fn := range []string{"enterAltScreen", "exitAltScreen", "enableModes"} {
		f := ex.FindFunc(vx, "Vaxis", fn)
		var ents []string
		if f == nil || f.Body == nil {
			ents = []string{"unknown: function not found"}
		} else {
			ents = stmtEntries(f.Body.List, "", true)
		}
		var p []string
		for _, e := range ents {
			p = append(p, ex.LeanStr(e))
		}
		fmt.Fprintf(&sb, "/-- %s(): every statement, in source order (guards as \"if <cond>: …\") -/\ndef %s : List String := [\n  %s]\n", fn, fn, strings.Join(p, ",\n  "))
	}
	fmt.Fprintf(&sb, "/-- sendQueries(): what is written, in source order -/\ndef sendQueries : List String := [\n  %s]\n", strings.Join(func() []string {
		var p []string
		for _, s := range calls {
			p = append(p, ex.LeanStr(s))
		}
		return p
	}(), ",\n  "))

	// --- sequences.go: string constants, numeric constants, format functions
	var sc, nc, ff []string
	for _, d := range seq.Decls {
		switch g := d.(type) {
		case *ast.GenDecl:
			for _, sp := range g.Specs {
				vs, ok := sp.(*ast.ValueSpec)
				if !ok {
					continue
				}
				for i, n := range vs.Names {
					if i >= len(vs.Values) {
						continue
					}
					if s, ok := strLit(vs.Values[i]); ok {
						sc = append(sc, fmt.Sprintf("(%s, %s)", ex.LeanStr(n.Name), bytesLit(s)))
					} else if bl, ok := vs.Values[i].(*ast.BasicLit); ok && bl.Kind == token.INT {
						nc = append(nc, fmt.Sprintf("(%s, %s)", ex.LeanStr(n.Name), bl.Value))
					}
				}
			}
		case *ast.FuncDecl:
			if g.Body != nil {
				if f, _, ok := format(c, g.Body.List); ok {
					ff = append(ff, fmt.Sprintf("(%s, %s)", ex.LeanStr(g.Name.Name), bytesLit(f)))
				}
			}
		}
	}
	fmt.Fprintf(&sb, "/-- string constants of sequences.go (UTF-8 bytes) -/\ndef strConst : List (String × List Nat) := [\n  %s]\n", strings.Join(sc, ",\n  "))
	fmt.Fprintf(&sb, "/-- integer constants of sequences.go -/\ndef numConst : List (String × Int) := [%s]\n", strings.Join(nc, ", "))
	fmt.Fprintf(&sb, "/-- functions of sequences.go that return fmt.Sprintf(format, …) -/\ndef fmtFunc : List (String × List Nat) := [%s]\n", strings.Join(ff, ", "))
	sb.WriteString("\nend VaxisModel.Gen.TermReplies\n")
	c.Write("TermReplies.lean", sb.String())
}
