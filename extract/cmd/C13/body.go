// Gen/TermBody.lean: the bodies of encodeXterm (widgets/term/key.go), handleMouse (mouse.go) and Model.Update
// (term.go) as terms of VaxisModel.Model.GoBody.
package main

import (
	"fmt"
	"strings"

	"verifextract/cmd/C09/gobody"
	"verifextract/ex"
)

func genTermBody(c *ex.Ctx) {
	t := &gobody.T{Fset: c.Fset}
	var sb strings.Builder
	sb.WriteString("import VaxisModel.Model.GoBody\n\nnamespace VaxisModel.Gen.TermBody\nopen VaxisModel.Model.GoBody\n\n")
	for _, fn := range []struct{ file, recv, name, lean string }{
		{"widgets/term/key.go", "", "encodeXterm", "encodeXtermBody"},
		{"widgets/term/mouse.go", "Model", "handleMouse", "handleMouseBody"},
		{"widgets/term/term.go", "Model", "Update", "updateBody"},
	} {
		f := c.Parse(fn.file)
		if f == nil {
			return
		}
		fd := ex.FindFunc(f, fn.recv, fn.name)
		if fd == nil || fd.Body == nil {
			fmt.Fprintf(&sb, "def %s : Ss := Ss.ofList [.unknown \"function %s not found\"]\n\n", fn.lean, fn.name)
			continue
		}
		sb.WriteString(t.Func(fn.lean, fn.file+" `"+fn.name+"`", fd))
	}
	fmt.Fprintf(&sb, "/-- Number of nodes the extractor could not translate. -/\ndef unknownCount : Nat := %d\n\n", t.Unknown)
	sb.WriteString("end VaxisModel.Gen.TermBody\n")
	c.Write("TermBody.lean", sb.String())
}
