// Extractor for C13: Gen/TermKeys.lean from widgets/term/key.go (key tables of the xterm encoder).
package main

import (
	"fmt"
	"go/ast"
	"strconv"
	"strings"

	"verifextract/cmd/C09/keyconst"
	"verifextract/ex"
)

func main() {
	ex.Main([]string{"TermKeys.lean", "TermInputModes.lean"}, func(c *ex.Ctx) { gen(c); genModes(c) })
}

func bytesLit(s string) string {
	var parts []string
	for i := 0; i < len(s); i++ {
		parts = append(parts, fmt.Sprintf("%d", s[i]))
	}
	return "[" + strings.Join(parts, ", ") + "]"
}

func gen(c *ex.Ctx) {
	kf := c.Parse("key.go")
	f := c.Parse("widgets/term/key.go")
	if kf == nil || f == nil {
		return
	}
	env := keyconst.NewEnv()
	if err := env.AddFile(kf); err != nil {
		c.Fail("key.go: %v", err)
		return
	}
	var sb strings.Builder
	sb.WriteString("namespace VaxisModel.Gen.TermKeys\n\n")

	// xtermKeymap
	cl, ok := ex.FindVarValue(f, "xtermKeymap").(*ast.CompositeLit)
	if !ok {
		c.Fail("widgets/term/key.go: xtermKeymap is not a composite literal")
		return
	}
	sb.WriteString("/-- `xtermKeymap`: key ↦ (number, final byte), source order. -/\ndef xtermKeymap : List (Int × (Int × Int)) := [\n")
	for i, e := range cl.Elts {
		kv, ok := e.(*ast.KeyValueExpr)
		if !ok {
			c.Fail("%s: xtermKeymap element not key: value", c.Pos(e))
			return
		}
		k, err := env.Eval(kv.Key, 0)
		vc, ok := kv.Value.(*ast.CompositeLit)
		if err != nil || !ok || len(vc.Elts) != 2 {
			c.Fail("%s: xtermKeymap entry not understood (%v)", c.Pos(e), err)
			return
		}
		n, err1 := env.Eval(vc.Elts[0], 0)
		fin, err2 := env.Eval(vc.Elts[1], 0)
		if err1 != nil || err2 != nil {
			c.Fail("%s: xtermKeymap entry not understood", c.Pos(e))
			return
		}
		fmt.Fprintf(&sb, "  (%d, (%d, %d))%s\n", k, n, fin, sep(i, len(cl.Elts)))
	}
	sb.WriteString("]\n\n")

	for _, name := range []string{"keymap", "cursorKeysApplicationMode", "cursorKeysNormalMode", "numericKeymap", "applicationKeymap"} {
		cl, ok := ex.FindVarValue(f, name).(*ast.CompositeLit)
		if !ok {
			c.Fail("widgets/term/key.go: %s is not a composite literal", name)
			return
		}
		fmt.Fprintf(&sb, "/-- `%s`: key ↦ bytes, source order. -/\ndef %s : List (Int × List Nat) := [\n", name, name)
		for i, e := range cl.Elts {
			kv, ok := e.(*ast.KeyValueExpr)
			if !ok {
				c.Fail("%s: %s element not key: value", c.Pos(e), name)
				return
			}
			k, err := env.Eval(kv.Key, 0)
			bl, ok := kv.Value.(*ast.BasicLit)
			if err != nil || !ok {
				c.Fail("%s: %s entry not understood (%v)", c.Pos(e), name, err)
				return
			}
			s, err := strconv.Unquote(bl.Value)
			if err != nil {
				c.Fail("%s: %v", c.Pos(e), err)
				return
			}
			fmt.Fprintf(&sb, "  (%d, %s)%s\n", k, bytesLit(s), sep(i, len(cl.Elts)))
		}
		sb.WriteString("]\n\n")
	}

	// Ctrl+digit switch of encodeXterm
	fd := ex.FindFunc(f, "", "encodeXterm")
	if fd == nil {
		c.Fail("widgets/term/key.go: encodeXterm not found")
		return
	}
	found := false
	hasDefault := false
	var rows []string
	ast.Inspect(fd.Body, func(n ast.Node) bool {
		sw, ok := n.(*ast.SwitchStmt)
		if !ok || sw.Tag == nil || c.Src(sw.Tag) != "key.Keycode" {
			return true
		}
		found = true
		for _, st := range sw.Body.List {
			cc := st.(*ast.CaseClause)
			if cc.List == nil {
				hasDefault = true
				if len(cc.Body) != 1 || c.Src(cc.Body[0]) != "buf.WriteRune(key.Keycode - 0x40)" {
					c.Fail("%s: encodeXterm Ctrl switch default is not `buf.WriteRune(key.Keycode - 0x40)`", c.Pos(cc))
				}
				continue
			}
			var out string
			switch len(cc.Body) {
			case 0:
				out = "[]"
			case 1:
				es, ok := cc.Body[0].(*ast.ExprStmt)
				var call *ast.CallExpr
				if ok {
					call, ok = es.X.(*ast.CallExpr)
				}
				if !ok || c.Src(call.Fun) != "buf.WriteRune" || len(call.Args) != 1 {
					c.Fail("%s: encodeXterm Ctrl switch case is not buf.WriteRune(lit)", c.Pos(cc))
					return false
				}
				v, err := env.Eval(call.Args[0], 0)
				if err != nil {
					c.Fail("%s: %v", c.Pos(cc), err)
					return false
				}
				out = fmt.Sprintf("[%d]", v)
			default:
				c.Fail("%s: encodeXterm Ctrl switch case has several statements", c.Pos(cc))
				return false
			}
			for _, l := range cc.List {
				k, err := env.Eval(l, 0)
				if err != nil {
					c.Fail("%s: %v", c.Pos(cc), err)
					return false
				}
				rows = append(rows, fmt.Sprintf("(%d, %s)", k, out))
			}
		}
		return false
	})
	if !found || !hasDefault {
		c.Fail("widgets/term/key.go: encodeXterm: `switch key.Keycode` with default not found")
		return
	}
	sb.WriteString("/-- encodeXterm, Ctrl + non-lowercase key: explicit cases (key ↦ runes written); default is `key - 0x40`. -/\ndef ctrlCases : List (Int × List Int) := [" + strings.Join(rows, ", ") + "]\n\n")
	sb.WriteString("end VaxisModel.Gen.TermKeys\n")
	c.Write("TermKeys.lean", sb.String())
}

func strLit(e ast.Expr) (string, bool) {
	bl, ok := e.(*ast.BasicLit)
	if !ok {
		return "", false
	}
	s, err := strconv.Unquote(bl.Value)
	return s, err == nil
}

func sep(i, n int) string {
	if i == n-1 {
		return ""
	}
	return ","
}
