// Extractor for C13: Gen/TermKeys.lean from widgets/term/key.go (key tables of the xterm encoder).
package main

import (
	"fmt"
	"go/ast"
	"strconv"
	"strings"

	"verifextract/cmd/C09/keyconst"
	"verifextract/ex"
)

func main() {
	ex.Main([]string{"TermKeys.lean", "TermInputModes.lean", "TermBody.lean"}, func(c *ex.Ctx) { gen(c); genModes(c); genTermBody(c) })
}

func bytesLit(s string) string {
	var parts []string
	for i := 0; i < len(s); i++ {
		parts = append(parts, fmt.Sprintf("%d", s[i]))
	}
	return "[" + strings.Join(parts, ", ") + "]"
}

func gen(c *ex.Ctx) {
	kf := c.Parse("key.go")
	f := c.Parse("widgets/term/key.go")
	if kf == nil || f == nil {
		return
	}
	env := keyconst.NewEnv()
	if err := env.AddFile(kf); err != nil {
		c.Fail("key.go: %v", err)
		return
	}
	var sb strings.Builder
	sb.WriteString("namespace VaxisModel.Gen.TermKeys\n\n")

	// xtermKeymap
	cl, ok := ex.FindVarValue(f, "xtermKeymap").(*ast.CompositeLit)
	if !ok {
		c.Fail("widgets/term/key.go: xtermKeymap is not a composite literal")
		return
	}
	sb.WriteString("/-- `xtermKeymap`: key ↦ (number, final byte), source order. -/\ndef xtermKeymap : List (Int × (Int × Int)) := [\n")
	for i, e := range cl.Elts {
		kv, ok := e.(*ast.KeyValueExpr)
		if !ok {
			c.Fail("%s: xtermKeymap element not key: value", c.Pos(e))
			return
		}
		k, err := env.Eval(kv.Key, 0)
		vc, ok := kv.Value.(*ast.CompositeLit)
		if err != nil || !ok || len(vc.Elts) != 2 {
			c.Fail("%s: xtermKeymap entry not understood (%v)", c.Pos(e), err)
			return
		}
		n, err1 := env.Eval(vc.Elts[0], 0)
		fin, err2 := env.Eval(vc.Elts[1], 0)
		if err1 != nil || err2 != nil {
			c.Fail("%s: xtermKeymap entry not understood", c.Pos(e))
			return
		}
		fmt.Fprintf(&sb, "  (%d, (%d, %d))%s\n", k, n, fin, sep(i, len(cl.Elts)))
	}
	sb.WriteString("]\n\n")

	for _, name := range []string{"keymap", "cursorKeysApplicationMode", "cursorKeysNormalMode", "numericKeymap", "applicationKeymap", "keypadApplicationMode"} {
		cl, ok := ex.FindVarValue(f, name).(*ast.CompositeLit)
		if !ok {
			c.Fail("widgets/term/key.go: %s is not a composite literal", name)
			return
		}
		fmt.Fprintf(&sb, "/-- `%s`: key ↦ bytes, source order. -/\ndef %s : List (Int × List Nat) := [\n", name, name)
		for i, e := range cl.Elts {
			kv, ok := e.(*ast.KeyValueExpr)
			if !ok {
				c.Fail("%s: %s element not key: value", c.Pos(e), name)
				return
			}
			k, err := env.Eval(kv.Key, 0)
			bl, ok := kv.Value.(*ast.BasicLit)
			if err != nil || !ok {
				c.Fail("%s: %s entry not understood (%v)", c.Pos(e), name, err)
				return
			}
			s, err := strconv.Unquote(bl.Value)
			if err != nil {
				c.Fail("%s: %v", c.Pos(e), err)
				return
			}
			fmt.Fprintf(&sb, "  (%d, %s)%s\n", k, bytesLit(s), sep(i, len(cl.Elts)))
		}
		sb.WriteString("]\n\n")
	}

	// keypadNumericMode: keypad key ↦ the key its legend names (map[rune]rune)
	{
		cl, ok := ex.FindVarValue(f, "keypadNumericMode").(*ast.CompositeLit)
		if !ok {
			c.Fail("widgets/term/key.go: keypadNumericMode is not a composite literal")
			return
		}
		sb.WriteString("/-- `keypadNumericMode`: keypad key ↦ the key it stands for in numeric keypad mode, source order. -/\ndef keypadNumericMode : List (Int × Int) := [\n")
		for i, e := range cl.Elts {
			kv, ok := e.(*ast.KeyValueExpr)
			if !ok {
				c.Fail("%s: keypadNumericMode element not key: value", c.Pos(e))
				return
			}
			k, err1 := env.Eval(kv.Key, 0)
			v, err2 := env.Eval(kv.Value, 0)
			if err1 != nil || err2 != nil {
				c.Fail("%s: keypadNumericMode entry not understood (%v, %v)", c.Pos(e), err1, err2)
				return
			}
			fmt.Fprintf(&sb, "  (%d, %d)%s\n", k, v, sep(i, len(cl.Elts)))
		}
		sb.WriteString("]\n\n")
	}

	// Ctrl+digit switch of encodeXterm
	fd := ex.FindFunc(f, "", "encodeXterm")
	if fd == nil {
		c.Fail("widgets/term/key.go: encodeXterm not found")
		return
	}
	found := false
	hasDefault := false
	defaultRange := "(0, 0)"
	var rows []string
	ast.Inspect(fd.Body, func(n ast.Node) bool {
		sw, ok := n.(*ast.SwitchStmt)
		if !ok || sw.Tag == nil || c.Src(sw.Tag) != "key.Keycode" {
			return true
		}
		found = true
		for _, st := range sw.Body.List {
			cc := st.(*ast.CaseClause)
			if cc.List == nil {
				hasDefault = true
				// default: `if key.Keycode >= LO && key.Keycode < HI { buf.WriteRune(key.Keycode - 0x40) } else { buf.WriteRune(key.Keycode) }`
				// (the older unguarded `buf.WriteRune(key.Keycode - 0x40)` is the range (-2^31, 2^31))
				defaultRange = ctrlDefaultRange(c, env, cc)
				continue
			}
			var out string
			switch len(cc.Body) {
			case 0:
				out = "[]"
			case 1:
				es, ok := cc.Body[0].(*ast.ExprStmt)
				var call *ast.CallExpr
				if ok {
					call, ok = es.X.(*ast.CallExpr)
				}
				if !ok || c.Src(call.Fun) != "buf.WriteRune" || len(call.Args) != 1 {
					c.Fail("%s: encodeXterm Ctrl switch case is not buf.WriteRune(lit)", c.Pos(cc))
					return false
				}
				v, err := env.Eval(call.Args[0], 0)
				if err != nil {
					c.Fail("%s: %v", c.Pos(cc), err)
					return false
				}
				out = fmt.Sprintf("[%d]", v)
			default:
				c.Fail("%s: encodeXterm Ctrl switch case has several statements", c.Pos(cc))
				return false
			}
			for _, l := range cc.List {
				k, err := env.Eval(l, 0)
				if err != nil {
					c.Fail("%s: %v", c.Pos(cc), err)
					return false
				}
				rows = append(rows, fmt.Sprintf("(%d, %s)", k, out))
			}
		}
		return false
	})
	if !found || !hasDefault {
		c.Fail("widgets/term/key.go: encodeXterm: `switch key.Keycode` with default not found")
		return
	}
	sb.WriteString("/-- encodeXterm, Ctrl + key other than a–z: explicit cases (key ↦ runes written). -/\ndef ctrlCases : List (Int × List Int) := [" + strings.Join(rows, ", ") + "]\n\n")
	sb.WriteString("/-- encodeXterm, Ctrl switch default: `key - 0x40` is written for `lo ≤ key < hi`, the key itself otherwise. -/\ndef ctrlDefaultRange : Int × Int := " + defaultRange + "\n\n")
	sb.WriteString("end VaxisModel.Gen.TermKeys\n")
	c.Write("TermKeys.lean", sb.String())
}

// ctrlDefaultRange recognises the default arm of the Ctrl switch of encodeXterm.
func ctrlDefaultRange(c *ex.Ctx, env *keyconst.Env, cc *ast.CaseClause) string {
	const sub = "buf.WriteRune(key.Keycode - 0x40)"
	const self = "buf.WriteRune(key.Keycode)"
	bad := func() string {
		c.Fail("%s: encodeXterm Ctrl switch default is neither `%s` nor `if key.Keycode >= LO && key.Keycode < HI { %s } else { %s }`", c.Pos(cc), sub, sub, self)
		return "(0, 0)"
	}
	if len(cc.Body) != 1 {
		return bad()
	}
	if c.Src(cc.Body[0]) == sub {
		return "(-2147483648, 2147483648)"
	}
	ifs, ok := cc.Body[0].(*ast.IfStmt)
	if !ok || ifs.Init != nil || ifs.Else == nil {
		return bad()
	}
	els, ok := ifs.Else.(*ast.BlockStmt)
	if !ok || len(ifs.Body.List) != 1 || len(els.List) != 1 || c.Src(ifs.Body.List[0]) != sub || c.Src(els.List[0]) != self {
		return bad()
	}
	and, ok := ifs.Cond.(*ast.BinaryExpr)
	if !ok || and.Op.String() != "&&" {
		return bad()
	}
	lo, ok1 := and.X.(*ast.BinaryExpr)
	hi, ok2 := and.Y.(*ast.BinaryExpr)
	if !ok1 || !ok2 || lo.Op.String() != ">=" || hi.Op.String() != "<" || c.Src(lo.X) != "key.Keycode" || c.Src(hi.X) != "key.Keycode" {
		return bad()
	}
	lv, err1 := env.Eval(lo.Y, 0)
	hv, err2 := env.Eval(hi.Y, 0)
	if err1 != nil || err2 != nil {
		return bad()
	}
	return fmt.Sprintf("(%d, %d)", lv, hv)
}

func strLit(e ast.Expr) (string, bool) {
	bl, ok := e.(*ast.BasicLit)
	if !ok {
		return "", false
	}
	s, err := strconv.Unquote(bl.Value)
	return s, err == nil
}

func sep(i, n int) string {
	if i == n-1 {
		return ""
	}
	return ","
}
