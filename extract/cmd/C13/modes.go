package main

// Gen/TermInputModes.lean: which input-mode fields the child's output sets and resets — the case tables of
// decset / decrst (mode.go), the "=" ">" "c" arms of esc (esc.go) and what ris() does to vt.mode.

import (
	"fmt"
	"go/ast"
	"go/token"
	"strings"

	"verifextract/ex"
)

// the mode fields Update / handleMouse / encodeXterm read, in the bit order of the drivers
var inputFields = []string{"deckpam", "decckm", "paste", "mouseButtons", "mouseDrag", "mouseMotion", "mouseSGR", "altScroll", "smcup"}

func fieldIdx(name string) int {
	for i, f := range inputFields {
		if f == name {
			return i
		}
	}
	return 99
}

type assign struct {
	field string
	val   bool
}

// modeAssigns lists the direct `vt.mode.<f> = true|false` statements of a statement list; whole is
// set when `vt.mode = mode{…}` occurs (its literal fields are returned instead).
func modeAssigns(c *ex.Ctx, stmts []ast.Stmt) (as []assign, whole bool, ok bool) {
	ok = true
	for _, st := range stmts {
		a, isA := st.(*ast.AssignStmt)
		if !isA || len(a.Lhs) != 1 || a.Tok != token.ASSIGN {
			continue
		}
		lhs := c.Src(a.Lhs[0])
		if lhs == "vt.mode" {
			cl, isCl := a.Rhs[0].(*ast.CompositeLit)
			if !isCl || c.Src(cl.Type) != "mode" {
				c.Fail("%s: vt.mode assigned something other than a mode{…} literal", c.Pos(a))
				return nil, false, false
			}
			whole = true
			as = nil
			for _, e := range cl.Elts {
				kv, isKV := e.(*ast.KeyValueExpr)
				if !isKV {
					c.Fail("%s: mode literal element is not field: value", c.Pos(e))
					return nil, false, false
				}
				v := c.Src(kv.Value)
				if v != "true" && v != "false" {
					c.Fail("%s: mode literal value is not a boolean literal", c.Pos(e))
					return nil, false, false
				}
				as = append(as, assign{c.Src(kv.Key), v == "true"})
			}
			continue
		}
		if strings.HasPrefix(lhs, "vt.mode.") {
			v := c.Src(a.Rhs[0])
			if v != "true" && v != "false" {
				c.Fail("%s: %s assigned a non-literal", c.Pos(a), lhs)
				return nil, false, false
			}
			as = append(as, assign{strings.TrimPrefix(lhs, "vt.mode."), v == "true"})
		}
	}
	return as, whole, ok
}

func leanAssigns(as []assign) string {
	var p []string
	for _, a := range as {
		p = append(p, fmt.Sprintf("(%d, %v)", fieldIdx(a.field), a.val))
	}
	return "[" + strings.Join(p, ", ") + "]"
}

func names(as []assign) string {
	var p []string
	for _, a := range as {
		p = append(p, fmt.Sprintf("%s=%v", a.field, a.val))
	}
	return strings.Join(p, " ")
}

func genModes(c *ex.Ctx) {
	mf := c.Parse("widgets/term/mode.go")
	ef := c.Parse("widgets/term/esc.go")
	if mf == nil || ef == nil {
		return
	}
	var sb strings.Builder
	sb.WriteString("namespace VaxisModel.Gen.TermInputModes\n\n")
	sb.WriteString("/-- Index of the input-mode fields: " + strings.Join(inputFields, ", ") + " (0…8); 99 = any other field of `mode`. -/\ndef fieldNames : List String := [")
	for i, f := range inputFields {
		if i > 0 {
			sb.WriteString(", ")
		}
		sb.WriteString(ex.LeanStr(f))
	}
	sb.WriteString("]\n\n")
	for _, fn := range []string{"decset", "decrst"} {
		fd := ex.FindFunc(mf, "Model", fn)
		if fd == nil {
			c.Fail("mode.go: %s not found", fn)
			return
		}
		var sw *ast.SwitchStmt
		ast.Inspect(fd.Body, func(n ast.Node) bool {
			if s, ok := n.(*ast.SwitchStmt); ok && sw == nil && s.Tag != nil && c.Src(s.Tag) == "param[0]" {
				sw = s
				return false
			}
			return true
		})
		if sw == nil {
			c.Fail("mode.go: %s: `switch param[0]` not found", fn)
			return
		}
		fmt.Fprintf(&sb, "/-- `%s`: for each case label, the (field, value) assignments to `vt.mode` in that case. -/\ndef %s : List (Int × List (Nat × Bool)) := [\n", fn, fn)
		var rows []string
		for _, st := range sw.Body.List {
			cc := st.(*ast.CaseClause)
			if cc.List == nil {
				continue
			}
			as, whole, ok := modeAssigns(c, cc.Body)
			if !ok {
				return
			}
			if whole {
				c.Fail("%s: %s assigns the whole mode struct", c.Pos(cc), fn)
				return
			}
			for _, l := range cc.List {
				rows = append(rows, fmt.Sprintf("  (%s, %s) -- %s", c.Src(l), leanAssigns(as), names(as)))
			}
		}
		for i, r := range rows {
			if i < len(rows)-1 {
				r = strings.Replace(r, ") --", "), --", 1)
			}
			sb.WriteString(r + "\n")
		}
		sb.WriteString("]\n\n")
	}
	// esc arms
	fd := ex.FindFunc(ef, "Model", "esc")
	if fd == nil {
		c.Fail("esc.go: esc not found")
		return
	}
	arms := map[string]*ast.CaseClause{}
	ast.Inspect(fd.Body, func(n ast.Node) bool {
		cc, ok := n.(*ast.CaseClause)
		if !ok {
			return true
		}
		for _, l := range cc.List {
			if s, ok := strLit(l); ok {
				arms[s] = cc
			}
		}
		return true
	})
	for _, a := range []struct{ lit, name string }{{"=", "deckpamArm"}, {">", "deckpnmArm"}} {
		cc := arms[a.lit]
		if cc == nil {
			c.Fail("esc.go: esc has no case %q", a.lit)
			return
		}
		as, whole, ok := modeAssigns(c, cc.Body)
		if !ok || whole {
			c.Fail("esc.go: case %q not understood", a.lit)
			return
		}
		fmt.Fprintf(&sb, "/-- `ESC %s`. -/\ndef %s : List (Nat × Bool) := %s -- %s\n\n", a.lit, a.name, leanAssigns(as), names(as))
	}
	cc := arms["c"]
	if cc == nil || len(cc.Body) != 1 || c.Src(cc.Body[0]) != "vt.ris()" {
		c.Fail("esc.go: case \"c\" is not a single call of vt.ris()")
		return
	}
	rd := ex.FindFunc(ef, "Model", "ris")
	if rd == nil {
		c.Fail("esc.go: ris not found")
		return
	}
	as, whole, ok := modeAssigns(c, rd.Body.List)
	if !ok {
		return
	}
	fmt.Fprintf(&sb, "/-- `ris()` (ESC c): `true` iff it assigns a fresh `mode{…}` literal to `vt.mode` (every field not\n    listed becomes false); otherwise only the listed fields are assigned. -/\ndef risWhole : Bool := %v\ndef risAssigns : List (Nat × Bool) := %s -- %s\n\n", whole, leanAssigns(as), names(as))
	sb.WriteString("end VaxisModel.Gen.TermInputModes\n")
	c.Write("TermInputModes.lean", sb.String())
}
