// Round 4: Gen/SurfaceBodies.lean — the bodies of the vxfw Surface functions and of the built-in
// widgets' Draw functions, translated statement by statement into the tree syntax of
// lean/VaxisModel/Model/SurfLang.lean, which lean/VaxisModel/Model/SurfExec.lean EXECUTES
// (Props/C14Body: `*_body_eq_model`).
//
// Normal forms (none can change the meaning): receiver -> "r", every other variable declared in
// the function -> v0, v1, … in order of first appearance (by object, so shadowing cannot collide);
// `a < b` -> `b > a`, `a <= b` -> `b >= a`; `x++` / `x = x + e` -> `x += e`; parentheses dropped;
// `break L` where L labels the innermost enclosing loop -> `break`.  Anything outside the subset
// becomes `.unknown "src"` — the extractor never fails on a shape; `bodies_fully_recognised` and the
// body theorems do.
package main

import (
	"fmt"
	"go/ast"
	"go/token"
	"strconv"
	"strings"

	"verifextract/ex"
)

type btr struct {
	c      *ex.Ctx
	locals map[*ast.Object]string
	// labels of the loops enclosing the statement being translated (innermost last; "" = unlabelled loop)
	loops []string
}

func bstr(s string) string { return ex.LeanStr(strings.Join(strings.Fields(s), " ")) }

func (k *btr) src(n ast.Node) string { return bstr(k.c.Src(n)) }

func (k *btr) isLocal(id *ast.Ident) bool {
	if id.Obj == nil {
		return false
	}
	_, ok := k.locals[id.Obj]
	return ok
}

// pkgChain: a selector chain whose root is not a local variable (package, type) -> "a.b.c"
func (k *btr) pkgChain(e ast.Expr) (string, bool) {
	switch v := e.(type) {
	case *ast.Ident:
		if k.isLocal(v) {
			return "", false
		}
		return v.Name, true
	case *ast.SelectorExpr:
		if p, ok := k.pkgChain(v.X); ok {
			return p + "." + v.Sel.Name, true
		}
	}
	return "", false
}

func typeName(c *ex.Ctx, e ast.Expr) string { return strings.ReplaceAll(c.Src(e), " ", "") }

func (k *btr) args(head string, as []string) string {
	s := head
	for _, a := range as {
		s = "(.arg " + s + " " + a + ")"
	}
	return "(.app " + s + ")"
}

// less: `func(i int, j int) bool { return X[i].F < X[j].F }` -> (X, F)
func (k *btr) lessFunc(f *ast.FuncLit) (string, bool) {
	ps := []string{}
	for _, p := range f.Type.Params.List {
		for _, n := range p.Names {
			ps = append(ps, n.Name)
		}
	}
	if len(ps) != 2 || len(f.Body.List) != 1 {
		return "", false
	}
	r, ok := f.Body.List[0].(*ast.ReturnStmt)
	if !ok || len(r.Results) != 1 {
		return "", false
	}
	b, ok := r.Results[0].(*ast.BinaryExpr)
	if !ok {
		return "", false
	}
	side := func(e ast.Expr) (coll ast.Expr, idx, fld string, ok bool) {
		s, ok1 := e.(*ast.SelectorExpr)
		if !ok1 {
			return nil, "", "", false
		}
		ix, ok2 := s.X.(*ast.IndexExpr)
		if !ok2 {
			return nil, "", "", false
		}
		id, ok3 := ix.Index.(*ast.Ident)
		if !ok3 {
			return nil, "", "", false
		}
		return ix.X, id.Name, s.Sel.Name, true
	}
	cx, ix, fx, ok1 := side(b.X)
	cy, iy, fy, ok2 := side(b.Y)
	if !ok1 || !ok2 || fx != fy || k.c.Src(cx) != k.c.Src(cy) {
		return "", false
	}
	// X[i].F < X[j].F  or  X[j].F > X[i].F
	if (b.Op == token.LSS && ix == ps[0] && iy == ps[1]) || (b.Op == token.GTR && ix == ps[1] && iy == ps[0]) {
		return k.args("(.fn "+bstr("less:"+fx)+")", []string{k.expr(cx)}), true
	}
	return "", false
}

func (k *btr) expr(e ast.Expr) string {
	switch v := e.(type) {
	case *ast.ParenExpr:
		return k.expr(v.X)
	case *ast.Ident:
		if k.isLocal(v) {
			return "(.var " + bstr(v.Name) + ")"
		}
		return "(.con " + bstr(v.Name) + ")"
	case *ast.SelectorExpr:
		if p, ok := k.pkgChain(v); ok {
			return "(.con " + bstr(p) + ")"
		}
		return "(.sel " + k.expr(v.X) + " " + bstr(v.Sel.Name) + ")"
	case *ast.BasicLit:
		switch v.Kind {
		case token.INT:
			if n, err := strconv.ParseUint(v.Value, 10, 64); err == nil {
				return fmt.Sprintf("(.int %d)", n)
			}
		case token.STRING:
			if s, err := strconv.Unquote(v.Value); err == nil {
				return "(.str " + ex.LeanStr(s) + ")"
			}
		}
	case *ast.UnaryExpr:
		return "(.un " + bstr(v.Op.String()) + " " + k.expr(v.X) + ")"
	case *ast.BinaryExpr:
		switch v.Op {
		case token.LSS:
			return "(.bin \">\" " + k.expr(v.Y) + " " + k.expr(v.X) + ")"
		case token.LEQ:
			return "(.bin \">=\" " + k.expr(v.Y) + " " + k.expr(v.X) + ")"
		}
		return "(.bin " + bstr(v.Op.String()) + " " + k.expr(v.X) + " " + k.expr(v.Y) + ")"
	case *ast.IndexExpr:
		return "(.idx " + k.expr(v.X) + " " + k.expr(v.Index) + ")"
	case *ast.FuncLit:
		if s, ok := k.lessFunc(v); ok {
			return s
		}
	case *ast.CompositeLit:
		if v.Type == nil {
			break
		}
		as := []string{}
		for _, el := range v.Elts {
			kv, ok := el.(*ast.KeyValueExpr)
			if !ok {
				return "(.unknown " + k.src(e) + ")"
			}
			id, ok := kv.Key.(*ast.Ident)
			if !ok {
				return "(.unknown " + k.src(e) + ")"
			}
			as = append(as, "(.fld "+bstr(id.Name)+" "+k.expr(kv.Value)+")")
		}
		return k.args("(.fn "+bstr("lit:"+typeName(k.c, v.Type))+")", as)
	case *ast.CallExpr:
		if v.Ellipsis != token.NoPos {
			break
		}
		as := []string{}
		for _, a := range v.Args {
			as = append(as, k.expr(a))
		}
		switch f := v.Fun.(type) {
		case *ast.Ident:
			if !k.isLocal(f) {
				if f.Name == "make" && len(v.Args) == 2 {
					return k.args("(.fn "+bstr("make:"+typeName(k.c, v.Args[0]))+")", as[1:])
				}
				return k.args("(.fn "+bstr(f.Name)+")", as)
			}
		case *ast.SelectorExpr:
			if p, ok := k.pkgChain(f); ok {
				return k.args("(.fn "+bstr(p)+")", as)
			}
			// method (or func-valued field) of a value: the receiver is the first argument
			return k.args("(.fn "+bstr("meth:"+f.Sel.Name)+")", append([]string{k.expr(f.X)}, as...))
		case *ast.ArrayType:
			return k.args("(.fn "+bstr("conv:"+typeName(k.c, f))+")", as)
		}
	}
	return "(.unknown " + k.src(e) + ")"
}

func (k *btr) name(e ast.Expr) (string, bool) {
	if e == nil {
		return "_", true
	}
	id, ok := e.(*ast.Ident)
	if !ok {
		return "", false
	}
	return id.Name, true
}

func (k *btr) seq(ss []ast.Stmt) string {
	if len(ss) == 0 {
		return ".skip"
	}
	if len(ss) == 1 {
		return k.stmt(ss[0])
	}
	return "(.seq " + k.stmt(ss[0]) + "\n " + k.seq(ss[1:]) + ")"
}

func (k *btr) block(b *ast.BlockStmt) string {
	if b == nil {
		return ".skip"
	}
	return k.seq(b.List)
}

func (k *btr) loopBody(label string, b *ast.BlockStmt) string {
	k.loops = append(k.loops, label)
	s := k.block(b)
	k.loops = k.loops[:len(k.loops)-1]
	return s
}

func (k *btr) switchChain(cs []ast.Stmt) (string, bool) {
	if len(cs) == 0 {
		return ".skip", true
	}
	cc, ok := cs[0].(*ast.CaseClause)
	if !ok {
		return "", false
	}
	for _, st := range cc.Body {
		if b, ok := st.(*ast.BranchStmt); ok && (b.Tok == token.FALLTHROUGH || b.Tok == token.BREAK) {
			return "", false
		}
	}
	if cc.List == nil { // default
		if len(cs) != 1 {
			return "", false
		}
		return k.seq(cc.Body), true
	}
	if len(cc.List) != 1 {
		return "", false
	}
	rest, ok := k.switchChain(cs[1:])
	if !ok {
		return "", false
	}
	return "(.ite " + k.expr(cc.List[0]) + "\n " + k.seq(cc.Body) + "\n " + rest + ")", true
}

func (k *btr) unknownStmt(s ast.Stmt) string { return "(.unknown " + k.src(s) + ")" }

func (k *btr) stmt(s ast.Stmt) string { return k.stmtL("", s) }

func (k *btr) stmtL(label string, s ast.Stmt) string {
	switch v := s.(type) {
	case *ast.LabeledStmt:
		switch v.Stmt.(type) {
		case *ast.ForStmt, *ast.RangeStmt:
			return k.stmtL(v.Label.Name, v.Stmt)
		}
	case *ast.AssignStmt:
		switch {
		case v.Tok == token.ASSIGN && len(v.Lhs) == 1 && len(v.Rhs) == 1:
			if b, ok := v.Rhs[0].(*ast.BinaryExpr); ok && (b.Op == token.ADD || b.Op == token.SUB) && k.c.Src(b.X) == k.c.Src(v.Lhs[0]) {
				return "(.opAssign " + bstr(b.Op.String()) + " " + k.expr(v.Lhs[0]) + " " + k.expr(b.Y) + ")"
			}
			return "(.assign " + k.expr(v.Lhs[0]) + " " + k.expr(v.Rhs[0]) + ")"
		case v.Tok == token.DEFINE && len(v.Lhs) == 1 && len(v.Rhs) == 1:
			if x, ok := k.name(v.Lhs[0]); ok {
				return "(.define " + bstr(x) + " " + k.expr(v.Rhs[0]) + ")"
			}
		case v.Tok == token.DEFINE && len(v.Lhs) == 2 && len(v.Rhs) == 1:
			x, ok1 := k.name(v.Lhs[0])
			y, ok2 := k.name(v.Lhs[1])
			if ok1 && ok2 {
				return "(.define2 " + bstr(x) + " " + bstr(y) + " " + k.expr(v.Rhs[0]) + ")"
			}
		case v.Tok == token.ASSIGN && len(v.Lhs) == 4 && len(v.Rhs) == 1:
			ns := []string{}
			for _, l := range v.Lhs {
				x, ok := k.name(l)
				if !ok {
					return k.unknownStmt(s)
				}
				ns = append(ns, bstr(x))
			}
			return "(.assign4 " + strings.Join(ns, " ") + " " + k.expr(v.Rhs[0]) + ")"
		case (v.Tok == token.ADD_ASSIGN || v.Tok == token.SUB_ASSIGN) && len(v.Lhs) == 1 && len(v.Rhs) == 1:
			op := "+"
			if v.Tok == token.SUB_ASSIGN {
				op = "-"
			}
			return "(.opAssign " + bstr(op) + " " + k.expr(v.Lhs[0]) + " " + k.expr(v.Rhs[0]) + ")"
		}
	case *ast.IncDecStmt:
		op := "+"
		if v.Tok == token.DEC {
			op = "-"
		}
		return "(.opAssign " + bstr(op) + " " + k.expr(v.X) + " (.int 1))"
	case *ast.ExprStmt:
		if call, ok := v.X.(*ast.CallExpr); ok {
			if id, ok := call.Fun.(*ast.Ident); ok && id.Name == "panic" && !k.isLocal(id) && len(call.Args) == 1 {
				if bl, ok := call.Args[0].(*ast.BasicLit); ok && bl.Kind == token.STRING {
					if msg, err := strconv.Unquote(bl.Value); err == nil {
						return "(.panicS " + ex.LeanStr(msg) + ")"
					}
				}
			}
		}
		return "(.exprS " + k.expr(v.X) + ")"
	case *ast.ReturnStmt:
		switch len(v.Results) {
		case 0:
			return ".ret0"
		case 1:
			return "(.ret " + k.expr(v.Results[0]) + ")"
		case 2:
			return "(.ret2 " + k.expr(v.Results[0]) + " " + k.expr(v.Results[1]) + ")"
		}
	case *ast.BranchStmt:
		switch v.Tok {
		case token.BREAK:
			if len(k.loops) > 0 && (v.Label == nil || v.Label.Name == k.loops[len(k.loops)-1]) {
				return ".brk"
			}
		case token.CONTINUE:
			if len(k.loops) > 0 && (v.Label == nil || v.Label.Name == k.loops[len(k.loops)-1]) {
				return ".cont"
			}
		}
	case *ast.BlockStmt:
		return "(.block " + k.block(v) + ")"
	case *ast.IfStmt:
		if v.Init != nil {
			break
		}
		els := ".skip"
		if v.Else != nil {
			if eb, ok := v.Else.(*ast.BlockStmt); ok {
				els = k.block(eb)
			} else {
				els = k.stmt(v.Else)
			}
		}
		return "(.ite " + k.expr(v.Cond) + "\n " + k.block(v.Body) + "\n " + els + ")"
	case *ast.SwitchStmt:
		// a tagless switch whose cases have one condition each and whose default (if any) comes last is an if / else-if chain
		if v.Init != nil || v.Tag != nil {
			break
		}
		out, ok := k.switchChain(v.Body.List)
		if ok {
			return out
		}
	case *ast.ForStmt:
		if v.Init != nil || v.Post != nil || v.Cond == nil {
			break
		}
		return "(.forCond " + k.expr(v.Cond) + "\n " + k.loopBody(label, v.Body) + ")"
	case *ast.RangeStmt:
		if v.Tok != token.DEFINE {
			break
		}
		x, ok1 := k.name(v.Key)
		y, ok2 := k.name(v.Value)
		if !ok1 || !ok2 {
			break
		}
		return "(.range " + bstr(x) + " " + bstr(y) + " " + k.expr(v.X) + "\n " + k.loopBody(label, v.Body) + ")"
	case *ast.DeclStmt:
		gd, ok := v.Decl.(*ast.GenDecl)
		if !ok || gd.Tok != token.VAR || len(gd.Specs) == 0 {
			break
		}
		// `var ( a T; b = e; … )`: one declaration after the other (`var x = e` is `x := e`)
		parts := []string{}
		for _, sp := range gd.Specs {
			vs, ok := sp.(*ast.ValueSpec)
			if !ok || len(vs.Names) != 1 {
				return k.unknownStmt(s)
			}
			switch {
			case len(vs.Values) == 0 && vs.Type != nil:
				parts = append(parts, "(.varDecl "+bstr(vs.Names[0].Name)+" "+bstr(typeName(k.c, vs.Type))+")")
			case len(vs.Values) == 1 && vs.Type == nil:
				parts = append(parts, "(.define "+bstr(vs.Names[0].Name)+" "+k.expr(vs.Values[0])+")")
			default:
				return k.unknownStmt(s)
			}
		}
		out := parts[len(parts)-1]
		for i := len(parts) - 2; i >= 0; i-- {
			out = "(.seq " + parts[i] + "\n " + out + ")"
		}
		return out
	}
	return k.unknownStmt(s)
}

// renameBody: receiver -> r, every other variable declared in fd -> v0, v1, … in order of first
// appearance; returns the objects that are local variables of fd.
func renameBody(fd *ast.FuncDecl) map[*ast.Object]string {
	names := map[*ast.Object]string{}
	if fd.Recv != nil && len(fd.Recv.List) == 1 && len(fd.Recv.List[0].Names) == 1 {
		if o := fd.Recv.List[0].Names[0].Obj; o != nil {
			names[o] = "r"
		}
	}
	keys := map[*ast.Ident]bool{}
	ast.Inspect(fd, func(x ast.Node) bool {
		if cl, ok := x.(*ast.CompositeLit); ok {
			for _, el := range cl.Elts {
				if kv, ok := el.(*ast.KeyValueExpr); ok {
					if id, ok := kv.Key.(*ast.Ident); ok {
						keys[id] = true
					}
				}
			}
		}
		return true
	})
	n := 0
	ast.Inspect(fd, func(x ast.Node) bool {
		id, ok := x.(*ast.Ident)
		if !ok || keys[id] || id.Obj == nil || id.Obj.Kind != ast.Var || id.Name == "_" {
			return true
		}
		if id.Obj.Pos() < fd.Pos() || id.Obj.Pos() > fd.End() {
			return true
		}
		if _, seen := names[id.Obj]; !seen {
			names[id.Obj] = fmt.Sprintf("v%d", n)
			n++
		}
		return true
	})
	ast.Inspect(fd, func(x ast.Node) bool {
		if id, ok := x.(*ast.Ident); ok && id.Obj != nil && !keys[id] {
			if nm, ok := names[id.Obj]; ok {
				id.Name = nm
			}
		}
		return true
	})
	return names
}

// genBodies writes Gen/SurfaceBodies.lean.
func genBodies(c *ex.Ctx) {
	type fn struct{ file, recv, goName, lean string }
	fns := []fn{
		{"vxfw/vxfw.go", "", "NewSurface", "newSurface"},
		{"vxfw/vxfw.go", "", "NewSubSurface", "newSubSurface"},
		{"vxfw/vxfw.go", "Surface", "AddChild", "addChild"},
		{"vxfw/vxfw.go", "Surface", "WriteCell", "writeCell"},
		{"vxfw/vxfw.go", "Surface", "Fill", "fill"},
		{"vxfw/vxfw.go", "Surface", "render", "render"},
		{"vxfw/vxfw.go", "Size", "HasUnboundedWidth", "hasUnboundedWidth"},
		{"vxfw/vxfw.go", "Size", "HasUnboundedHeight", "hasUnboundedHeight"},
		{"vxfw/center/center.go", "Center", "Draw", "centerDraw"},
		{"vxfw/button/button.go", "Button", "Draw", "buttonDraw"},
		{"vxfw/textfield/textfield.go", "TextField", "Draw", "textfieldDraw"},
		{"vxfw/text/text.go", "Text", "Draw", "textDraw"},
		{"vxfw/text/text.go", "Text", "drawSoftwrap", "textDrawSoftwrap"},
		{"vxfw/text/text.go", "Text", "findContainerSize", "textFindContainerSize"},
		{"vxfw/richtext/richtext.go", "RichText", "Draw", "richDraw"},
		{"vxfw/richtext/richtext.go", "RichText", "drawSoftwrap", "richDrawSoftwrap"},
		{"vxfw/richtext/richtext.go", "RichText", "findContainerSize", "richFindContainerSize"},
	}
	var sb strings.Builder
	sb.WriteString("import VaxisModel.Model.SurfLang\n\n/-! The bodies of the vxfw Surface functions and of the built-in widgets' Draw functions, translated\n    statement by statement (receiver renamed to r, parameters and locals to v0, v1, … in order of\n    first appearance). Executed by `Model/SurfExec.lean`. -/\nnamespace VaxisModel.Gen.SurfaceBodies\nopen VaxisModel.Model VaxisModel.Model.SurfLang\n")
	files := map[string]*ast.File{}
	for _, f := range fns {
		// a fresh parse per file: renaming edits the tree in place and must not disturb the other recognisers
		file, ok := files[f.file]
		if !ok {
			file = c.Parse(f.file)
			files[f.file] = file
		}
		fmt.Fprintf(&sb, "\n/-- `%s.%s` (%s) -/\ndef %s : St :=\n ", f.recv, f.goName, f.file, f.lean)
		var fd *ast.FuncDecl
		if file != nil {
			fd = ex.FindFunc(file, f.recv, f.goName)
		}
		if fd == nil || fd.Body == nil {
			sb.WriteString("(.unknown \"function not found\")\n")
			continue
		}
		k := &btr{c: c, locals: renameBody(fd)}
		sb.WriteString(k.block(fd.Body) + "\n")
		// the parameter names, in order (after renaming)
		ps := []string{}
		if fd.Recv != nil {
			for _, p := range fd.Recv.List {
				for _, n := range p.Names {
					ps = append(ps, ex.LeanStr(n.Name))
				}
			}
		}
		for _, p := range fd.Type.Params.List {
			for _, n := range p.Names {
				ps = append(ps, ex.LeanStr(n.Name))
			}
		}
		fmt.Fprintf(&sb, "\ndef %sParams : List String := [%s]\n", f.lean, strings.Join(ps, ", "))
	}
	sb.WriteString("\nend VaxisModel.Gen.SurfaceBodies\n")
	c.Write("SurfaceBodies.lean", sb.String())
}
