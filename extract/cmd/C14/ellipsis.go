// Round 3: the condition under which the hard-wrap Draw of Text / RichText writes the ellipsis, as a
// list of atoms the model interprets (Model.Layout.evalEll), read from the `if` whose body builds the
// "…" cell.  The conjuncts are classified against the function's own skeleton (alpha-normalised
// names), so renaming a variable or reordering the conjuncts changes nothing, while another
// comparison, another operand or a dropped conjunct changes the model.
package main

import (
	"fmt"
	"go/ast"
	"go/token"
	"regexp"
	"strings"

	"verifextract/ex"
)

const ellAtomDecl = "/-- One conjunct of the condition of the ellipsis branch of the hard-wrap Draw loops:\n" +
	"`reach` = `col+uint16(char.Width) >= ctx.Max.Width`; `idxLtLen` = `i < len(chars)` (always true inside the\n" +
	"range loop); `idxLtLenM1` = `i < len(chars)-1` (not the last character); `lineTooWide` = a local assigned\n" +
	"`lineWidth > int(ctx.Max.Width)` before the loop, `lineWidth` being the int sum of the widths of the line;\n" +
	"`other` = a shape the extractor does not know. -/\n" +
	"inductive EllAtom where\n  | reach | idxLtLen | idxLtLenM1 | lineTooWide\n  | other (src : String)\nderiving DecidableEq, Repr\n\n"

func conjuncts(e ast.Expr) []ast.Expr {
	if b, ok := e.(*ast.BinaryExpr); ok && b.Op == token.LAND {
		return append(conjuncts(b.X), conjuncts(b.Y)...)
	}
	if p, ok := e.(*ast.ParenExpr); ok {
		return conjuncts(p.X)
	}
	return []ast.Expr{e}
}

// skelRecorder prints the skeleton of fd and remembers the normalised condition of every `if`.
type ifRec struct {
	st   *ast.IfStmt
	cond []string // normalised conjuncts
}

var (
	reReach  = regexp.MustCompile(`^\(\((L\d+)\+uint16\((L\d+)\.Width\)\)>=P0\.Max\.Width\)$`)
	reIdx    = regexp.MustCompile(`^\(len\((L\d+)\)>(L\d+)\)$`)
	reIdxM1  = regexp.MustCompile(`^\(\(len\((L\d+)\)-1\)>(L\d+)\)$`)
	reIdent  = regexp.MustCompile(`^L\d+$`)
	reRange  = regexp.MustCompile(`^for (_|L\d+),(L\d+):=range (L\d+) \{$`)
	reAssign = regexp.MustCompile(`^(L\d+):=\((L\d+)>int\(P0\.Max\.Width\)\)$`)
)

// ellipsisCond returns the atoms of the ellipsis condition of fd (Text.Draw / RichText.Draw).
func ellipsisCond(c *ex.Ctx, fd *ast.FuncDecl, where string) []string {
	// normalise with the skeleton's names: print the whole body first so that every local has its
	// name, then print the condition's conjuncts with the same table
	s := newSkel(c, fd)
	s.block(fd.Body)
	lines := s.out
	var target *ast.IfStmt
	ast.Inspect(fd.Body, func(n ast.Node) bool {
		is, ok := n.(*ast.IfStmt)
		if !ok || target != nil {
			return true
		}
		if strings.Contains(c.Src(is.Body), "\"…\"") && !strings.Contains(c.Src(is.Cond), "\"…\"") {
			// the innermost such `if`: its body builds the ellipsis cell
			inner := false
			ast.Inspect(is.Body, func(m ast.Node) bool {
				if js, ok := m.(*ast.IfStmt); ok && strings.Contains(c.Src(js.Body), "\"…\"") {
					inner = true
				}
				return true
			})
			if !inner {
				target = is
			}
		}
		return true
	})
	if target == nil {
		c.Fail("%s: no ellipsis branch found", where)
		return []string{".other \"?unrecognised\""}
	}
	// the loop the branch sits in: the range statement whose value variable the reach atom names
	has := func(re *regexp.Regexp, pred func(m []string) bool) bool {
		for _, l := range lines {
			if m := re.FindStringSubmatch(l); m != nil && pred(m) {
				return true
			}
		}
		return false
	}
	hasLine := func(want string) bool {
		for _, l := range lines {
			if l == want {
				return true
			}
		}
		return false
	}
	// the line the cols loop ranges over (for the idx / lineTooWide atoms)
	loopOver := ""
	var atoms []string
	cs := conjuncts(target.Cond)
	norm := make([]string, len(cs))
	for i, e := range cs {
		norm[i] = s.expr(e)
		if m := reReach.FindStringSubmatch(norm[i]); m != nil {
			for _, l := range lines {
				if r := reRange.FindStringSubmatch(l); r != nil && r[2] == m[2] {
					loopOver = r[3]
				}
			}
		}
	}
	for _, n := range norm {
		other := func() { atoms = append(atoms, ".other "+ex.LeanStr(n)) }
		switch {
		case reReach.MatchString(n):
			m := reReach.FindStringSubmatch(n)
			// col is a uint16 local advanced by the width of the same character
			if hasLine("var "+m[1]+" uint16") && hasLine(m[1]+"+=uint16("+m[2]+".Width)") && loopOver != "" {
				atoms = append(atoms, ".reach")
			} else {
				other()
			}
		case reIdx.MatchString(n), reIdxM1.MatchString(n):
			re, atom := reIdx, ".idxLtLen"
			if reIdxM1.MatchString(n) {
				re, atom = reIdxM1, ".idxLtLenM1"
			}
			m := re.FindStringSubmatch(n) // canonical orientation: len(X) > K
			if m[1] == loopOver && has(reRange, func(r []string) bool { return r[1] == m[2] && r[3] == loopOver }) {
				atoms = append(atoms, atom)
			} else {
				other()
			}
		case reIdent.MatchString(n):
			// n := (sum > int(ctx.Max.Width)), sum an int summed over the same line
			ok := false
			for i, l := range lines {
				a := reAssign.FindStringSubmatch(l)
				if a == nil || a[1] != n || i < 4 {
					continue
				}
				r := reRange.FindStringSubmatch(lines[i-3])
				if r != nil && r[1] == "_" && r[3] == loopOver && loopOver != "" &&
					lines[i-4] == "var "+a[2]+" int" && lines[i-2] == a[2]+"+="+r[2]+".Width" && lines[i-1] == "}" {
					ok = true
				}
				// assigned once only
				for j, l2 := range lines {
					if j != i && (strings.HasPrefix(l2, n+"=") || strings.HasPrefix(l2, n+":=")) {
						ok = false
					}
				}
			}
			if ok {
				atoms = append(atoms, ".lineTooWide")
			} else {
				other()
			}
		default:
			other()
		}
	}
	for _, a := range atoms {
		if strings.HasPrefix(a, ".other") {
			c.Fail("%s: unrecognised conjunct of the ellipsis condition: %s", where, a)
		}
	}
	return atoms
}

func genEllipsis(c *ex.Ctx, sbp *strings.Builder) {
	txt := c.Parse("vxfw/text/text.go")
	rich := c.Parse("vxfw/richtext/richtext.go")
	sbp.WriteString(ellAtomDecl)
	for _, it := range []struct {
		f          *ast.File
		recv, lean string
	}{{txt, "Text", "textEllipsisCond"}, {rich, "RichText", "richEllipsisCond"}} {
		if it.f == nil {
			continue
		}
		fd := ex.FindFunc(it.f, it.recv, "Draw")
		if fd == nil {
			c.Fail("%s.Draw not found", it.recv)
			continue
		}
		atoms := ellipsisCond(c, fd, it.recv+".Draw")
		fmt.Fprintf(sbp, "/-- %s: the conjuncts of the condition of the ellipsis branch. -/\ndef %s : List EllAtom := [%s]\n\n", c.Pos(fd), it.lean, strings.Join(atoms, ", "))
	}
}
