// Extractor for C14: Gen/SurfaceFacts.lean — how vxfw.NewSurface / WriteCell / render compute
// lengths, guards and indices, the height guards of Text / RichText findContainerSize and Draw,
// and Center's offset expressions.
//
// Identifiers are normalised by role: receiver -> R, parameters -> P0,P1,…; range key -> K,
// range value -> E.
package main

import (
	"fmt"
	"go/ast"
	"go/token"
	"regexp"
	"sort"
	"strings"

	"verifextract/ex"
)

func main() { ex.Main([]string{"SurfaceFacts.lean", "SurfaceBodies.lean"}, gen) }

type renamer map[string]string

func roles(fd *ast.FuncDecl) renamer {
	r := renamer{}
	if fd.Recv != nil && len(fd.Recv.List) == 1 && len(fd.Recv.List[0].Names) == 1 {
		r[fd.Recv.List[0].Names[0].Name] = "R"
	}
	i := 0
	for _, p := range fd.Type.Params.List {
		for _, n := range p.Names {
			r[n.Name] = fmt.Sprintf("P%d", i)
			i++
		}
	}
	return r
}

// withLocals adds every identifier declared in fd's body (`:=`, `var`, range variables) to r as
// L0, L1, … in source order, unless r already names it: renaming a local changes no fact.
func withLocals(r renamer, fd *ast.FuncDecl) renamer {
	n := 0
	add := func(e ast.Expr) {
		if id, ok := e.(*ast.Ident); ok && id.Name != "_" {
			if _, known := r[id.Name]; !known {
				r[id.Name] = fmt.Sprintf("L%d", n)
				n++
			}
		}
	}
	ast.Inspect(fd.Body, func(nd ast.Node) bool {
		switch x := nd.(type) {
		case *ast.AssignStmt:
			if x.Tok == token.DEFINE {
				for _, l := range x.Lhs {
					add(l)
				}
			}
		case *ast.ValueSpec:
			for _, nm := range x.Names {
				add(nm)
			}
		case *ast.RangeStmt:
			if x.Tok == token.DEFINE {
				add(x.Key)
				add(x.Value)
			}
		case *ast.FuncLit:
			for _, p := range x.Type.Params.List {
				for _, nm := range p.Names {
					add(nm)
				}
			}
		}
		return true
	})
	return r
}

func norm(c *ex.Ctx, r renamer, e ast.Expr) string {
	var f func(e ast.Expr) string
	f = func(e ast.Expr) string {
		switch e := e.(type) {
		case *ast.Ident:
			if v, ok := r[e.Name]; ok {
				return v
			}
			return e.Name
		case *ast.BasicLit:
			return e.Value
		case *ast.ParenExpr:
			return f(e.X) // precedence is re-established by full parenthesisation of binaries
		case *ast.SelectorExpr:
			return f(e.X) + "." + e.Sel.Name
		case *ast.BinaryExpr:
			// `a < b` is printed as `b > a`, `a <= b` as `b >= a` (round 3): the orientation of a
			// comparison changes no fact
			switch e.Op {
			case token.LSS:
				return "(" + f(e.Y) + ">" + f(e.X) + ")"
			case token.LEQ:
				return "(" + f(e.Y) + ">=" + f(e.X) + ")"
			}
			return "(" + f(e.X) + e.Op.String() + f(e.Y) + ")"
		case *ast.UnaryExpr:
			return e.Op.String() + f(e.X)
		case *ast.IndexExpr:
			return f(e.X) + "[" + f(e.Index) + "]"
		case *ast.CallExpr:
			var as []string
			for _, a := range e.Args {
				as = append(as, f(a))
			}
			return f(e.Fun) + "(" + strings.Join(as, ",") + ")"
		case *ast.ArrayType:
			return "[]" + f(e.Elt)
		}
		c.Fail("%s: unsupported expression %s", c.Pos(e), c.Src(e))
		return "?"
	}
	return f(e)
}

func disjuncts(e ast.Expr) []ast.Expr {
	if b, ok := e.(*ast.BinaryExpr); ok && b.Op == token.LOR {
		return append(disjuncts(b.X), disjuncts(b.Y)...)
	}
	if p, ok := e.(*ast.ParenExpr); ok {
		return disjuncts(p.X)
	}
	return []ast.Expr{e}
}

func leanList(xs []string) string {
	q := make([]string, len(xs))
	for i, x := range xs {
		q[i] = ex.LeanStr(x)
	}
	return "[" + strings.Join(q, ", ") + "]"
}

func oneOf(s string, xs ...string) bool {
	for _, x := range xs {
		if s == x {
			return true
		}
	}
	return false
}

// heightGuards returns, in source order, every `if` condition in fd that compares something with
// ctx.Max.Height (the DrawContext parameter is renamed to CTX).
func heightGuards(c *ex.Ctx, fd *ast.FuncDecl) []string {
	r := roles(fd)
	for k, v := range r {
		if v != "R" {
			r[k] = "CTX"
		}
	}
	// the ctx parameter is the last one
	var out []string
	ast.Inspect(fd, func(n ast.Node) bool {
		if is, ok := n.(*ast.IfStmt); ok {
			s := norm(c, r, is.Cond)
			if strings.Contains(s, "Max.Height") {
				out = append(out, s)
			}
		}
		return true
	})
	return out
}

// guardRe: a height guard compares a local (the row counter) or a local's Height field (the size
// being computed) with ctx.Max.Height; the local's name does not matter.
var guardRe = regexp.MustCompile(`^\(([A-Za-z_]\w*)(\.Height)?(>=|>)CTX\.Max\.Height\)$`)

func strictOf(c *ex.Ctx, where string, guards []string, lhs string, want int) []bool {
	if len(guards) != want {
		c.Fail("%s: expected %d height guards, found %v", where, want, guards)
		return make([]bool, want)
	}
	out := make([]bool, want)
	for i, g := range guards {
		m := guardRe.FindStringSubmatch(g)
		if m == nil || (m[2] == ".Height") != strings.HasSuffix(lhs, ".Height") {
			c.Fail("%s: unrecognised height guard %s", where, g)
			continue
		}
		out[i] = m[3] == ">="
	}
	return out
}

// required: every definition the Lean side refers to. gen always writes the file; what could not
// be recognised gets "?unrecognised" (Bools: the value of the current, fixed code), the error goes to
// extractErrors and the extractor still exits non-zero: the facts theorems fail, but model and
// driver keep building so that the correspondence run can look for a concrete failing input.
var required = []struct{ name, typ string }{
	{"newSurfaceLen", "S"}, {"wideLen", "B"}, {"writeCellReject", "L"}, {"writeCellIndex", "S"}, {"strictRow", "B"}, {"wideIdx", "B"},
	{"renderFacts", "L"},
	{"textSizeGuards", "L"}, {"textSizeSoftStrict", "B"}, {"textSizeHardStrict", "B"},
	{"textDrawHardGuards", "L"}, {"textDrawHardStrict", "F"}, {"textDrawSoftGuards", "L"}, {"textDrawSoftStrict", "F"},
	{"richSizeGuards", "L"}, {"richSizeSoftStrict", "B"}, {"richSizeHardStrict", "B"},
	{"richDrawHardGuards", "L"}, {"richDrawHardStrict", "F"}, {"richDrawSoftGuards", "L"}, {"richDrawSoftStrict", "F"},
	{"centerFacts", "L"}, {"textFieldFacts", "L"},
	// round 2 (skeleton.go)
	{"sizeFields", "L"}, {"relativePointFields", "L"}, {"subSurfaceFields", "L"},
	{"runRenderWin", "S"}, {"runRenderClipsRoot", "B"}, {"runFrame", "L"}, {"hookRenderRootWin", "S"}, {"hookRenderWin", "S"},
	{"renderBody", "L"}, {"drawWidgets", "L"}, {"boundedGuards", "P"}, {"boundedPanicWidgets", "L"}, {"newSurfaceArgs", "P"}, {"surfaceSizes", "Z"},
	{"buttonDrawBody", "L"}, {"centerDrawBody", "L"}, {"richtextDrawBody", "L"}, {"richtextDrawSoftwrapBody", "L"},
	{"richtextFindContainerSizeBody", "L"}, {"textDrawBody", "L"}, {"textDrawSoftwrapBody", "L"}, {"textFindContainerSizeBody", "L"},
	{"textfieldDrawBody", "L"}, {"dynamicChildCtx", "L"},
	// round 3 (ellipsis.go)
	{"textEllipsisCond", "E"}, {"richEllipsisCond", "E"}, {"textHardLinesBody", "L"},
}

func gen(c *ex.Ctx) {
	genBodies(c) // round 4 (bodies.go): Gen/SurfaceBodies.lean
	var sb strings.Builder
	sb.WriteString("namespace VaxisModel.Gen.SurfaceFacts\n\n")
	genBody(c, &sb)
	for _, r := range required {
		if strings.Contains(sb.String(), "\ndef "+r.name+" :") {
			continue
		}
		c.Fail("no value extracted for %s", r.name)
		switch r.typ {
		case "L":
			fmt.Fprintf(&sb, "def %s : List String := [\"?unrecognised\"]\n", r.name)
		case "S":
			fmt.Fprintf(&sb, "def %s : String := \"?unrecognised\"\n", r.name)
		case "Z":
			if !strings.Contains(sb.String(), "\ninductive SzArg where") {
				sb.WriteString("inductive SzArg where\n  | maxW | maxH | sizeW | sizeH | childH\n  | lit (n : Nat)\n  | other (src : String)\nderiving DecidableEq, Repr\n")
			}
			fmt.Fprintf(&sb, "def %s : List (String × SzArg × SzArg) := []\n", r.name)
		case "P":
			fmt.Fprintf(&sb, "def %s : List (String × String) := [(\"?unrecognised\", \"?unrecognised\")]\n", r.name)
		case "E":
			if !strings.Contains(sb.String(), "\ninductive EllAtom where") {
				sb.WriteString(ellAtomDecl)
			}
			fmt.Fprintf(&sb, "def %s : List EllAtom := [.other \"?unrecognised\"]\n", r.name)
		case "B":
			fmt.Fprintf(&sb, "def %s : Bool := true\n", r.name)
		case "F":
			fmt.Fprintf(&sb, "def %s : Bool := false\n", r.name)
		}
	}
	fmt.Fprintf(&sb, "\n/-- What the extractor could not recognise (empty when the source has the expected shape). -/\ndef extractErrors : List String := %s\n\n", leanList(c.Errs))
	sb.WriteString("end VaxisModel.Gen.SurfaceFacts\n")
	c.Write("SurfaceFacts.lean", sb.String())
}

func genBody(c *ex.Ctx, sbp *strings.Builder) {
	defer genEllipsis(c, sbp)
	defer genRound2(c, sbp)
	vx := c.Parse("vxfw/vxfw.go")
	txt := c.Parse("vxfw/text/text.go")
	rich := c.Parse("vxfw/richtext/richtext.go")
	cen := c.Parse("vxfw/center/center.go")
	tf := c.Parse("vxfw/textfield/textfield.go")
	if vx == nil || txt == nil || rich == nil || cen == nil || tf == nil {
		return
	}
	// NewSurface: the length expression of make([]vaxis.Cell, …)
	if fd := ex.FindFunc(vx, "", "NewSurface"); fd == nil {
		c.Fail("NewSurface not found")
	} else {
		r := roles(fd)
		lenExpr := ""
		ast.Inspect(fd, func(n ast.Node) bool {
			if ce, ok := n.(*ast.CallExpr); ok {
				if id, ok := ce.Fun.(*ast.Ident); ok && id.Name == "make" && len(ce.Args) == 2 {
					lenExpr = norm(c, r, ce.Args[1])
				}
			}
			return true
		})
		wide := false
		switch {
		case oneOf(lenExpr, "(P1*P0)", "(P0*P1)"):
		case oneOf(lenExpr, "(int(P1)*int(P0))", "(int(P0)*int(P1))"):
			wide = true
		default:
			// round 4: another way of writing the length is judged by Props.C14Body.newSurface_body_eq_model
			// (the executed body), not by this recogniser: the model keeps the int arithmetic
			wide = true
		}
		fmt.Fprintf(sbp, "/-- %s: length of the buffer (P0 = width, P1 = height, both uint16). -/\ndef newSurfaceLen : String := %s\ndef wideLen : Bool := %v\n\n", c.Pos(fd), ex.LeanStr(lenExpr), wide)
	}

	// WriteCell: guard atoms and the index expression
	if fd := ex.FindFunc(vx, "Surface", "WriteCell"); fd == nil {
		c.Fail("WriteCell not found")
	} else {
		r := roles(fd)
		var atoms []string
		idx := ""
		for _, s := range fd.Body.List {
			switch s := s.(type) {
			case *ast.IfStmt:
				for _, d := range disjuncts(s.Cond) {
					atoms = append(atoms, norm(c, r, d))
				}
			case *ast.AssignStmt:
				if len(s.Lhs) == 1 && len(s.Rhs) == 1 {
					if id, ok := s.Lhs[0].(*ast.Ident); ok && s.Tok == token.DEFINE {
						idx = norm(c, r, s.Rhs[0])
						r[id.Name] = "IDX"
					}
				}
			}
		}
		sort.Strings(atoms)
		strict, wide := false, false
		switch {
		case len(atoms) == 2 && atoms[0] == "(P0>=R.Size.Width)" && atoms[1] == "(P1>R.Size.Height)":
		case len(atoms) == 2 && atoms[0] == "(P0>=R.Size.Width)" && atoms[1] == "(P1>=R.Size.Height)":
			strict = true
		default:
			// round 4: judged by Props.C14Body.writeCell_body_eq_model (the executed body)
			strict = true
		}
		switch {
		case oneOf(idx, "((P1*R.Size.Width)+P0)"):
		case oneOf(idx, "((int(P1)*int(R.Size.Width))+int(P0))"):
			wide = true
		default:
			wide = true
		}
		fmt.Fprintf(sbp, "/-- %s: reject guards (P0 = col, P1 = row) and the index. -/\ndef writeCellReject : List String := %s\ndef writeCellIndex : String := %s\ndef strictRow : Bool := %v\ndef wideIdx : Bool := %v\n\n",
			c.Pos(fd), leanList(atoms), ex.LeanStr(idx), strict, wide)
	}

	// render: row/col expressions, comparator, child window
	if fd := ex.FindFunc(vx, "Surface", "render"); fd == nil {
		c.Fail("render not found")
	} else {
		r := roles(fd)
		// range variables are K / E (both loops), the other locals L0, L1, …
		ast.Inspect(fd, func(n ast.Node) bool {
			if s, ok := n.(*ast.RangeStmt); ok {
				if id, ok := s.Key.(*ast.Ident); ok && id.Name != "_" {
					r[id.Name] = "K"
				}
				if id, ok := s.Value.(*ast.Ident); ok {
					r[id.Name] = "E"
				}
			}
			return true
		})
		r = withLocals(r, fd)
		var facts []string
		ast.Inspect(fd, func(n ast.Node) bool {
			switch s := n.(type) {
			case *ast.RangeStmt:
				if id, ok := s.Key.(*ast.Ident); ok && id.Name != "_" {
					r[id.Name] = "K"
				}
				if id, ok := s.Value.(*ast.Ident); ok {
					r[id.Name] = "E"
				}
				facts = append(facts, "range "+norm(c, r, s.X))
			case *ast.AssignStmt:
				if len(s.Lhs) == 1 && len(s.Rhs) == 1 && s.Tok == token.DEFINE {
					facts = append(facts, norm(c, r, s.Lhs[0])+":="+norm(c, r, s.Rhs[0]))
				}
			case *ast.ReturnStmt:
				if len(s.Results) == 1 {
					facts = append(facts, "less "+norm(c, r, s.Results[0]))
				}
			case *ast.ExprStmt:
				if ce, ok := s.X.(*ast.CallExpr); ok {
					if se, ok := ce.Fun.(*ast.SelectorExpr); ok && (se.Sel.Name == "SetCell" || se.Sel.Name == "render" || se.Sel.Name == "Slice") {
						if se.Sel.Name == "Slice" {
							facts = append(facts, "sort.Slice "+norm(c, r, ce.Args[0]))
						} else {
							facts = append(facts, norm(c, r, ce))
						}
					}
				}
			}
			return true
		})
		fmt.Fprintf(sbp, "/-- %s: the loops of render (K/E = range key/value). -/\ndef renderFacts : List String := %s\n\n", c.Pos(fd), leanList(facts))
	}

	// Text / RichText: height guards of findContainerSize (soft loop first, then hard) and of Draw
	type hg struct {
		f          *ast.File
		recv, name string
		lhs        string
		n          int
		lean       string
	}
	for _, it := range []hg{
		{txt, "Text", "findContainerSize", "size.Height", 2, "textSize"},
		{txt, "Text", "Draw", "row", 1, "textDrawHard"},
		{txt, "Text", "drawSoftwrap", "row", 1, "textDrawSoft"},
		{rich, "RichText", "findContainerSize", "size.Height", 2, "richSize"},
		{rich, "RichText", "Draw", "row", 1, "richDrawHard"},
		{rich, "RichText", "drawSoftwrap", "row", 1, "richDrawSoft"},
	} {
		fd := ex.FindFunc(it.f, it.recv, it.name)
		if fd == nil {
			c.Fail("%s.%s not found", it.recv, it.name)
			continue
		}
		gs := heightGuards(c, fd)
		st := strictOf(c, it.recv+"."+it.name, gs, it.lhs, it.n)
		fmt.Fprintf(sbp, "/-- %s: conditions on ctx.Max.Height, in source order. -/\ndef %sGuards : List String := %s\n", c.Pos(fd), it.lean, leanList(gs))
		if it.n == 2 {
			fmt.Fprintf(sbp, "def %sSoftStrict : Bool := %v\ndef %sHardStrict : Bool := %v\n\n", it.lean, st[0], it.lean, st[1])
		} else {
			fmt.Fprintf(sbp, "def %sStrict : Bool := %v\n\n", it.lean, st[0])
		}
	}

	// Center.Draw: offsets, surface size, bounded-constraint panic
	if fd := ex.FindFunc(cen, "Center", "Draw"); fd == nil {
		c.Fail("Center.Draw not found")
	} else {
		r := withLocals(roles(fd), fd)
		var facts []string
		ast.Inspect(fd, func(n ast.Node) bool {
			switch s := n.(type) {
			case *ast.IfStmt:
				if len(s.Body.List) == 1 {
					if es, ok := s.Body.List[0].(*ast.ExprStmt); ok {
						if ce, ok := es.X.(*ast.CallExpr); ok {
							if id, ok := ce.Fun.(*ast.Ident); ok && id.Name == "panic" {
								facts = append(facts, "panic if "+norm(c, r, s.Cond))
							}
						}
					}
				}
			case *ast.AssignStmt:
				if len(s.Lhs) == 1 && len(s.Rhs) == 1 && s.Tok == token.DEFINE {
					if _, ok := s.Rhs[0].(*ast.CompositeLit); ok {
						return true
					}
					facts = append(facts, norm(c, r, s.Lhs[0])+":="+norm(c, r, s.Rhs[0]))
				}
			case *ast.ExprStmt:
				if ce, ok := s.X.(*ast.CallExpr); ok {
					if se, ok := ce.Fun.(*ast.SelectorExpr); ok && se.Sel.Name == "AddChild" {
						facts = append(facts, norm(c, r, ce))
					}
				}
			case *ast.KeyValueExpr:
				if id, ok := s.Key.(*ast.Ident); ok && (id.Name == "Max" || id.Name == "Min") {
					facts = append(facts, "child ctx "+id.Name+":"+norm(c, r, s.Value))
				}
			}
			return true
		})
		fmt.Fprintf(sbp, "/-- %s. -/\ndef centerFacts : List String := %s\n\n", c.Pos(fd), leanList(facts))
	}

	// TextField.Draw: zero-constraint return, surface size, writes
	if fd := ex.FindFunc(tf, "TextField", "Draw"); fd == nil {
		c.Fail("TextField.Draw not found")
	} else {
		r := withLocals(roles(fd), fd)
		var facts []string
		ast.Inspect(fd, func(n ast.Node) bool {
			switch s := n.(type) {
			case *ast.IfStmt:
				cond := norm(c, r, s.Cond)
				if strings.Contains(cond, "Max.") {
					facts = append(facts, "if "+cond)
				}
			case *ast.CallExpr:
				if se, ok := s.Fun.(*ast.SelectorExpr); ok && (se.Sel.Name == "NewSurface" || se.Sel.Name == "WriteCell") {
					facts = append(facts, norm(c, r, s))
				}
			case *ast.AssignStmt:
				if len(s.Lhs) == 1 && len(s.Rhs) == 1 && s.Tok == token.ADD_ASSIGN {
					facts = append(facts, norm(c, r, s.Lhs[0])+"+="+norm(c, r, s.Rhs[0]))
				}
			}
			return true
		})
		fmt.Fprintf(sbp, "/-- %s. -/\ndef textFieldFacts : List String := %s\n\n", c.Pos(fd), leanList(facts))
	}

}
