#!/usr/bin/env python3
"""Re-pin lean/VaxisModel/Model/SurfaceSource.lean to the skeletons in Gen/SurfaceFacts.lean.

Run after a deliberate change to one of the pinned function bodies in /repo (Surface.render, the
frame clause of App.Run, the Draw / drawSoftwrap / findContainerSize of text, richtext, center,
button, textfield) — once the transcription in Model/Surface.lean / Model/Layout.lean has been
compared with the new body:
    cd /verif/extract && go run ./cmd/C14 /repo /verif/lean/VaxisModel/Gen && python3 cmd/C14/repin.py
"""
import os
import re

ROOT = os.path.join(os.path.dirname(os.path.abspath(__file__)), "..", "..", "..", "lean", "VaxisModel")
gen = open(os.path.join(ROOT, "Gen", "SurfaceFacts.lean"), encoding="utf-8").read()
path = os.path.join(ROOT, "Model", "SurfaceSource.lean")
src = open(path, encoding="utf-8").read()

def repl(m):
    name = m.group(1)
    g = re.search(r"^def " + name + r" : List String := (\[.*\])$", gen, re.M)
    if not g:
        raise SystemExit("no Gen value for " + name)
    items = re.findall(r'"((?:[^"\\]|\\.)*)"', g.group(1))
    return "def %s : List String := [\n%s]\n" % (name, ",\n".join('  "%s"' % i for i in items))

new = re.sub(r"^def (\w+) : List String := \[\n(?:  \".*\"[,\]]\n)+", repl, src, flags=re.M)
if new != src:
    open(path, "w", encoding="utf-8").write(new)
    print("re-pinned", path)
else:
    print("unchanged")
