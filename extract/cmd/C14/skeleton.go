// Structural facts for C14 (round 2): statement skeletons of the Draw / findContainerSize / render
// bodies, the NewSurface argument expressions per widget, the bounded-constraint panic guards, the
// window argument of App.Run's render call, the widget inventory and the field types the size
// arithmetic is computed in.
//
// A skeleton is the body of a function printed statement by statement, alpha-normalised: receiver
// -> R, parameters -> P0,P1,…, locals -> L0,L1,… in order of declaration, labels -> B0,…  Renaming
// a variable does not change it, nor do the rewrites the printer normalises (round 3: `a < b` / `b > a`,
// `x++` / `x += 1` / `x = x + 1`, the order of the operands of `==` and of `&&` / `||` between operands
// that can neither panic nor have an effect); any other change to the control flow, a comparison, a
// conversion or an arithmetic operator does.  What the printer does not know is written as "?unrecognised" and
// reported through extractErrors; it never stops the extractor.
package main

import (
	"fmt"
	"go/ast"
	"go/token"
	"os"
	"path/filepath"
	"sort"
	"strconv"
	"strings"

	"verifextract/ex"
)

type skel struct {
	c      *ex.Ctx
	names  map[string]string
	nLocal int
	nLabel int
	out    []string
	bad    bool
}

func newSkel(c *ex.Ctx, fd *ast.FuncDecl) *skel {
	s := &skel{c: c, names: map[string]string{}}
	for k, v := range roles(fd) {
		s.names[k] = v
	}
	return s
}

func (s *skel) local(id *ast.Ident) string {
	if id.Name == "_" {
		return "_"
	}
	n := fmt.Sprintf("L%d", s.nLocal)
	s.nLocal++
	s.names[id.Name] = n
	return n
}

func (s *skel) unknown(n ast.Node, what string) string {
	s.bad = true
	s.c.Fail("%s: skeleton: unsupported %s %T", s.c.Pos(n), what, n)
	return "?unrecognised"
}

func (s *skel) exprs(es []ast.Expr) string {
	out := make([]string, len(es))
	for i, e := range es {
		out[i] = s.expr(e)
	}
	return strings.Join(out, ",")
}

func (s *skel) expr(e ast.Expr) string {
	switch e := e.(type) {
	case nil:
		return ""
	case *ast.Ident:
		if v, ok := s.names[e.Name]; ok {
			return v
		}
		return e.Name
	case *ast.BasicLit:
		return e.Value
	case *ast.ParenExpr:
		return s.expr(e.X)
	case *ast.SelectorExpr:
		return s.expr(e.X) + "." + e.Sel.Name
	case *ast.BinaryExpr:
		// canonical forms (round 3) so that rewrites which cannot change the meaning do not change the
		// skeleton: `a < b` is printed as `b > a` and `a <= b` as `b >= a`; the operands of `==`, `!=` and
		// of `&&` / `||` between side-effect-free, panic-free operands are printed in sorted order
		x, y, op := s.expr(e.X), s.expr(e.Y), e.Op
		switch op {
		case token.LSS:
			x, y, op = y, x, token.GTR
		case token.LEQ:
			x, y, op = y, x, token.GEQ
		case token.EQL, token.NEQ:
			if pureExpr(e.X) && pureExpr(e.Y) && y < x {
				x, y = y, x
			}
		case token.LAND, token.LOR:
			if pureExpr(e.X) && pureExpr(e.Y) {
				var parts []string
				for _, o := range flattenOp(e, op) {
					parts = append(parts, s.expr(o))
				}
				sort.Strings(parts)
				return "(" + strings.Join(parts, op.String()) + ")"
			}
		}
		return "(" + x + op.String() + y + ")"
	case *ast.UnaryExpr:
		return e.Op.String() + s.expr(e.X)
	case *ast.StarExpr:
		return "*" + s.expr(e.X)
	case *ast.IndexExpr:
		return s.expr(e.X) + "[" + s.expr(e.Index) + "]"
	case *ast.SliceExpr:
		return s.expr(e.X) + "[" + s.expr(e.Low) + ":" + s.expr(e.High) + "]"
	case *ast.CallExpr:
		return s.expr(e.Fun) + "(" + s.exprs(e.Args) + ")"
	case *ast.ArrayType:
		return "[]" + s.expr(e.Elt)
	case *ast.KeyValueExpr:
		k := ""
		if id, ok := e.Key.(*ast.Ident); ok {
			k = id.Name // a field name, never a variable
		} else {
			k = s.expr(e.Key)
		}
		return k + ":" + s.expr(e.Value)
	case *ast.CompositeLit:
		return s.expr(e.Type) + "{" + s.exprs(e.Elts) + "}"
	case *ast.TypeAssertExpr:
		return s.expr(e.X) + ".(" + s.expr(e.Type) + ")"
	case *ast.FuncLit:
		// parameters of the literal are locals; its body is printed inline
		saved := s.out
		s.out = nil
		var ps []string
		for _, p := range e.Type.Params.List {
			for _, n := range p.Names {
				ps = append(ps, s.local(n))
			}
		}
		s.block(e.Body)
		body := strings.Join(s.out, ";")
		s.out = saved
		return "func(" + strings.Join(ps, ",") + "){" + body + "}"
	}
	return s.unknown(e, "expression")
}

// pureExpr: no side effect and no run-time panic possible — identifiers, literals, field selections,
// comparisons and arithmetic without division, conversions to the basic integer types, len(), and the
// calls of the two Size predicates.  (No index, slice, dereference or other call.)
func pureExpr(e ast.Expr) bool {
	switch e := e.(type) {
	case *ast.Ident, *ast.BasicLit:
		return true
	case *ast.ParenExpr:
		return pureExpr(e.X)
	case *ast.SelectorExpr:
		return pureExpr(e.X)
	case *ast.UnaryExpr:
		return (e.Op == token.NOT || e.Op == token.SUB) && pureExpr(e.X)
	case *ast.BinaryExpr:
		if e.Op == token.QUO || e.Op == token.REM || e.Op == token.SHL || e.Op == token.SHR {
			return false
		}
		return pureExpr(e.X) && pureExpr(e.Y)
	case *ast.CallExpr:
		switch f := e.Fun.(type) {
		case *ast.Ident:
			switch f.Name {
			case "len", "int", "uint", "uint16", "uint8", "int64", "uint64":
				return len(e.Args) == 1 && pureExpr(e.Args[0])
			}
		case *ast.SelectorExpr:
			if (f.Sel.Name == "HasUnboundedHeight" || f.Sel.Name == "HasUnboundedWidth") && len(e.Args) == 0 {
				return pureExpr(f.X)
			}
		}
	}
	return false
}

// flattenOp lists the operands of a chain of the same associative operator.
func flattenOp(e ast.Expr, op token.Token) []ast.Expr {
	if p, ok := e.(*ast.ParenExpr); ok {
		return flattenOp(p.X, op)
	}
	if b, ok := e.(*ast.BinaryExpr); ok && b.Op == op {
		return append(flattenOp(b.X, op), flattenOp(b.Y, op)...)
	}
	return []ast.Expr{e}
}

func (s *skel) emit(format string, a ...interface{}) {
	s.out = append(s.out, fmt.Sprintf(format, a...))
}

func (s *skel) block(b *ast.BlockStmt) {
	if b == nil {
		return
	}
	for _, st := range b.List {
		s.stmt(st)
	}
}

func (s *skel) simple(st ast.Stmt) string {
	if st == nil {
		return ""
	}
	saved := s.out
	s.out = nil
	s.stmt(st)
	r := strings.Join(s.out, ";")
	s.out = saved
	return r
}

func (s *skel) stmt(st ast.Stmt) {
	switch st := st.(type) {
	case *ast.BlockStmt:
		s.emit("{")
		s.block(st)
		s.emit("}")
	case *ast.ExprStmt:
		s.emit("%s", s.expr(st.X))
	case *ast.IncDecStmt:
		// `x++` is printed as `x+=1`
		if st.Tok == token.INC {
			s.emit("%s+=1", s.expr(st.X))
		} else {
			s.emit("%s-=1", s.expr(st.X))
		}
	case *ast.AssignStmt:
		// `x = x + e` / `x = x - e` is printed as `x+=e` / `x-=e`
		if st.Tok == token.ASSIGN && len(st.Lhs) == 1 && len(st.Rhs) == 1 {
			if b, ok := st.Rhs[0].(*ast.BinaryExpr); ok && (b.Op == token.ADD || b.Op == token.SUB) && pureExpr(st.Lhs[0]) && s.expr(b.X) == s.expr(st.Lhs[0]) {
				s.emit("%s%s=%s", s.expr(st.Lhs[0]), b.Op.String(), s.expr(b.Y))
				return
			}
		}
		rhs := s.exprs(st.Rhs) // evaluated before the new names exist
		var lhs []string
		for _, l := range st.Lhs {
			if id, ok := l.(*ast.Ident); ok && st.Tok == token.DEFINE {
				if _, known := s.names[id.Name]; !known {
					lhs = append(lhs, s.local(id))
					continue
				}
			}
			lhs = append(lhs, s.expr(l))
		}
		s.emit("%s%s%s", strings.Join(lhs, ","), st.Tok.String(), rhs)
	case *ast.DeclStmt:
		gd, ok := st.Decl.(*ast.GenDecl)
		if !ok || gd.Tok != token.VAR {
			s.emit("%s", s.unknown(st, "declaration"))
			return
		}
		for _, sp := range gd.Specs {
			vs, ok := sp.(*ast.ValueSpec)
			if !ok {
				s.emit("%s", s.unknown(sp, "declaration"))
				continue
			}
			vals := s.exprs(vs.Values)
			var ns []string
			for _, n := range vs.Names {
				ns = append(ns, s.local(n))
			}
			line := "var " + strings.Join(ns, ",")
			if vs.Type != nil {
				line += " " + s.expr(vs.Type)
			}
			if vals != "" {
				line += "=" + vals
			}
			s.emit("%s", line)
		}
	case *ast.ReturnStmt:
		s.emit("return %s", s.exprs(st.Results))
	case *ast.BranchStmt:
		if st.Label != nil {
			s.emit("%s %s", st.Tok.String(), s.expr(st.Label))
		} else {
			s.emit("%s", st.Tok.String())
		}
	case *ast.LabeledStmt:
		n := fmt.Sprintf("B%d", s.nLabel)
		s.nLabel++
		s.names[st.Label.Name] = n
		s.emit("%s:", n)
		s.stmt(st.Stmt)
	case *ast.IfStmt:
		h := "if "
		if st.Init != nil {
			h += s.simple(st.Init) + ";"
		}
		s.emit("%s%s {", h, s.expr(st.Cond))
		s.block(st.Body)
		switch e := st.Else.(type) {
		case nil:
			s.emit("}")
		case *ast.BlockStmt:
			s.emit("} else {")
			s.block(e)
			s.emit("}")
		default:
			s.emit("} else")
			s.stmt(e)
		}
	case *ast.ForStmt:
		init, post := s.simple(st.Init), ""
		cond := s.expr(st.Cond)
		if st.Post != nil {
			post = s.simple(st.Post)
		}
		s.emit("for %s;%s;%s {", init, cond, post)
		s.block(st.Body)
		s.emit("}")
	case *ast.RangeStmt:
		x := s.expr(st.X)
		k, v := "_", "_"
		if id, ok := st.Key.(*ast.Ident); ok {
			k = s.local(id)
		}
		if id, ok := st.Value.(*ast.Ident); ok {
			v = s.local(id)
		}
		s.emit("for %s,%s:=range %s {", k, v, x)
		s.block(st.Body)
		s.emit("}")
	case *ast.SwitchStmt:
		h := "switch "
		if st.Init != nil {
			h += s.simple(st.Init) + ";"
		}
		s.emit("%s%s {", h, s.expr(st.Tag))
		for _, cc := range st.Body.List {
			cl, ok := cc.(*ast.CaseClause)
			if !ok {
				s.emit("%s", s.unknown(cc, "clause"))
				continue
			}
			if cl.List == nil {
				s.emit("default:")
			} else {
				s.emit("case %s:", s.exprs(cl.List))
			}
			for _, b := range cl.Body {
				s.stmt(b)
			}
		}
		s.emit("}")
	case *ast.EmptyStmt:
	default:
		s.emit("%s", s.unknown(st, "statement"))
	}
}

// skeletonOf prints the body of fd.
func skeletonOf(c *ex.Ctx, fd *ast.FuncDecl) []string {
	s := newSkel(c, fd)
	s.block(fd.Body)
	return s.out
}

// fieldTypes lists "Field:type" of a struct type declared in f.
func fieldTypes(c *ex.Ctx, f *ast.File, name string) []string {
	var out []string
	found := false
	ast.Inspect(f, func(n ast.Node) bool {
		ts, ok := n.(*ast.TypeSpec)
		if !ok || ts.Name.Name != name {
			return true
		}
		st, ok := ts.Type.(*ast.StructType)
		if !ok {
			return true
		}
		found = true
		for _, fl := range st.Fields.List {
			for _, nm := range fl.Names {
				out = append(out, nm.Name+":"+c.Src(fl.Type))
			}
		}
		return false
	})
	if !found {
		c.Fail("struct type %s not found", name)
		return []string{"?unrecognised"}
	}
	return out
}

type widgetSrc struct {
	pkg, typ string
	file     *ast.File
	draw     *ast.FuncDecl
}

func recvType(fd *ast.FuncDecl) string {
	if fd.Recv == nil || len(fd.Recv.List) != 1 {
		return ""
	}
	t := fd.Recv.List[0].Type
	if st, ok := t.(*ast.StarExpr); ok {
		t = st.X
	}
	if id, ok := t.(*ast.Ident); ok {
		return id.Name
	}
	return ""
}

func isSel(e ast.Expr, x, sel string) bool {
	se, ok := e.(*ast.SelectorExpr)
	if !ok || se.Sel.Name != sel {
		return false
	}
	id, ok := se.X.(*ast.Ident)
	return ok && id.Name == x
}

// isDrawMethod: func (…) Draw(ctx vxfw.DrawContext) (vxfw.Surface, error)
func isDrawMethod(fd *ast.FuncDecl) bool {
	if fd.Name.Name != "Draw" || fd.Recv == nil || fd.Type.Params == nil || fd.Type.Results == nil {
		return false
	}
	ps, rs := fd.Type.Params.List, fd.Type.Results.List
	if len(ps) != 1 || len(ps[0].Names) > 1 || len(rs) != 2 {
		return false
	}
	if !isSel(ps[0].Type, "vxfw", "DrawContext") || !isSel(rs[0].Type, "vxfw", "Surface") {
		return false
	}
	id, ok := rs[1].Type.(*ast.Ident)
	return ok && id.Name == "error"
}

// drawWidgets finds every type in a sub-package of vxfw with a Draw method of the Widget interface.
func drawWidgets(c *ex.Ctx) []widgetSrc {
	var out []widgetSrc
	dirs, err := os.ReadDir(filepath.Join(c.Repo, "vxfw"))
	if err != nil {
		c.Fail("read vxfw: %v", err)
		return nil
	}
	for _, d := range dirs {
		if !d.IsDir() {
			continue
		}
		files, err := os.ReadDir(filepath.Join(c.Repo, "vxfw", d.Name()))
		if err != nil {
			c.Fail("read vxfw/%s: %v", d.Name(), err)
			continue
		}
		for _, fe := range files {
			n := fe.Name()
			if fe.IsDir() || !strings.HasSuffix(n, ".go") || strings.HasSuffix(n, "_test.go") {
				continue
			}
			f := c.Parse(filepath.Join("vxfw", d.Name(), n))
			if f == nil {
				continue
			}
			for _, dl := range f.Decls {
				if fd, ok := dl.(*ast.FuncDecl); ok && isDrawMethod(fd) {
					out = append(out, widgetSrc{pkg: f.Name.Name, typ: recvType(fd), file: f, draw: fd})
				}
			}
		}
	}
	sort.Slice(out, func(i, j int) bool { return out[i].pkg+"."+out[i].typ < out[j].pkg+"."+out[j].typ })
	return out
}

// boundedGuard recognises `if P0.Max.HasUnboundedHeight() || P0.Max.HasUnboundedWidth() { panic("…") }`
// as the first statement of fd; returns the normalised condition and the message.
func boundedGuard(c *ex.Ctx, fd *ast.FuncDecl) (cond, msg string, ok bool) {
	if fd.Body == nil || len(fd.Body.List) == 0 {
		return "", "", false
	}
	is, isIf := fd.Body.List[0].(*ast.IfStmt)
	if !isIf || len(is.Body.List) != 1 || is.Else != nil {
		return "", "", false
	}
	es, isE := is.Body.List[0].(*ast.ExprStmt)
	if !isE {
		return "", "", false
	}
	ce, isC := es.X.(*ast.CallExpr)
	if !isC || len(ce.Args) != 1 {
		return "", "", false
	}
	if id, isI := ce.Fun.(*ast.Ident); !isI || id.Name != "panic" {
		return "", "", false
	}
	lit, isL := ce.Args[0].(*ast.BasicLit)
	if !isL {
		return "", "", false
	}
	return norm(c, roles(fd), is.Cond), strings.Trim(lit.Value, "\""), true
}

// newSurfaceCalls: the first two arguments of every vxfw.NewSurface call in fd, in source order,
// alpha-normalised like the skeleton of fd.
func newSurfaceCalls(c *ex.Ctx, fd *ast.FuncDecl, alpha bool) []string {
	// run the skeleton printer to get the same names for the locals (alpha = false: locals keep
	// their source names, for bodies whose skeleton is not a C14 fact)
	s := newSkel(c, fd)
	if alpha {
		s.block(fd.Body)
		s.bad = false
	}
	var out []string
	ast.Inspect(fd, func(n ast.Node) bool {
		ce, ok := n.(*ast.CallExpr)
		if !ok || !isSel(ce.Fun, "vxfw", "NewSurface") {
			return true
		}
		if len(ce.Args) != 3 {
			out = append(out, "?unrecognised")
			c.Fail("%s: NewSurface with %d arguments", c.Pos(ce), len(ce.Args))
			return true
		}
		out = append(out, s.expr(ce.Args[0])+" x "+s.expr(ce.Args[1]))
		return true
	})
	return out
}

// szTerm turns one normalised size argument into a SzArg term. sizeLocal = the local that holds the
// result of findContainerSize in that function ("" if none).
func szTerm(c *ex.Ctx, fn, e, sizeLocal string) string {
	switch {
	case e == "P0.Max.Width":
		return ".maxW"
	case e == "P0.Max.Height":
		return ".maxH"
	case sizeLocal != "" && e == sizeLocal+".Width":
		return ".sizeW"
	case sizeLocal != "" && e == sizeLocal+".Height":
		return ".sizeH"
	case e == "ch.Surface.Size.Height" && fn == "list.Dynamic.Draw":
		return ".childH"
	}
	if n, err := strconv.ParseUint(e, 10, 16); err == nil {
		return fmt.Sprintf("(.lit %d)", n)
	}
	c.Fail("%s: unrecognised NewSurface size argument %s", fn, e)
	return "(.other " + ex.LeanStr(e) + ")"
}

func pairList(xs [][2]string) string {
	q := make([]string, len(xs))
	for i, x := range xs {
		q[i] = "(" + ex.LeanStr(x[0]) + ", " + ex.LeanStr(x[1]) + ")"
	}
	return "[" + strings.Join(q, ", ") + "]"
}

// runRender finds the single `X.render(win, focused)` call in App.Run and classifies its window
// argument. WIN = the local assigned from `….Window()` (Run) or the vaxis.Window parameter (hook);
// S = the receiver of the render call.
func renderCallWin(c *ex.Ctx, fd *ast.FuncDecl, where string) (string, bool) {
	var calls []*ast.CallExpr
	wins := map[string]bool{}
	if fd.Type.Params != nil {
		for _, p := range fd.Type.Params.List {
			if isSel(p.Type, "vaxis", "Window") {
				for _, n := range p.Names {
					wins[n.Name] = true
				}
			}
		}
	}
	ast.Inspect(fd, func(n ast.Node) bool {
		switch x := n.(type) {
		case *ast.AssignStmt:
			if len(x.Lhs) == 1 && len(x.Rhs) == 1 {
				if ce, ok := x.Rhs[0].(*ast.CallExpr); ok {
					if se, ok := ce.Fun.(*ast.SelectorExpr); ok && se.Sel.Name == "Window" && len(ce.Args) == 0 {
						if id, ok := x.Lhs[0].(*ast.Ident); ok {
							wins[id.Name] = true
						}
					}
				}
			}
		case *ast.CallExpr:
			if se, ok := x.Fun.(*ast.SelectorExpr); ok && se.Sel.Name == "render" {
				calls = append(calls, x)
			}
		}
		return true
	})
	if len(calls) != 1 || len(calls[0].Args) != 2 {
		c.Fail("%s: expected exactly one render(win, focused) call, found %d", where, len(calls))
		return "?unrecognised", false
	}
	r := renamer{}
	for w := range wins {
		r[w] = "WIN"
	}
	if id, ok := calls[0].Fun.(*ast.SelectorExpr).X.(*ast.Ident); ok {
		r[id.Name] = "S"
	}
	return norm(c, r, calls[0].Args[0]), true
}

const winClipped = "WIN.New(0,0,int(S.Size.Width),int(S.Size.Height))"

// frameBlock: the statements of the clause of Run's select that paints a frame (the clause that
// contains the render call), as a skeleton.
func frameBlock(c *ex.Ctx, fd *ast.FuncDecl) []string {
	var clause *ast.CommClause
	ast.Inspect(fd, func(n ast.Node) bool {
		cc, ok := n.(*ast.CommClause)
		if !ok {
			return true
		}
		has := false
		ast.Inspect(cc, func(m ast.Node) bool {
			if ce, ok := m.(*ast.CallExpr); ok {
				if se, ok := ce.Fun.(*ast.SelectorExpr); ok && se.Sel.Name == "render" {
					has = true
				}
			}
			return true
		})
		if has {
			clause = cc
		}
		return true
	})
	if clause == nil {
		c.Fail("App.Run: no select clause with a render call")
		return []string{"?unrecognised"}
	}
	s := newSkel(c, fd)
	// locals of Run declared before the loop keep their source names (s, err, mh): name them here
	for _, nm := range []string{"s", "err", "mh"} {
		s.names[nm] = strings.ToUpper(nm)
	}
	s.emit("case %s:", s.simple(clause.Comm))
	for _, st := range clause.Body {
		s.stmt(st)
	}
	return s.out
}

// bodyPrefix: the widgets whose function bodies the C14 model transcribes (their skeletons are
// emitted as <prefix><Function>Body). A widget type that is not listed still appears in drawWidgets
// (widget_inventory_complete then fails) but gets no skeleton.
var bodyPrefix = map[string]string{
	"button.Button": "button", "center.Center": "center", "richtext.RichText": "richtext",
	"text.Text": "text", "textfield.TextField": "textfield",
}

func genRound2(c *ex.Ctx, sbp *strings.Builder) {
	vx := c.Parse("vxfw/vxfw.go")
	if vx == nil {
		return
	}
	// field types the size arithmetic is computed in
	fmt.Fprintf(sbp, "/-- vxfw/vxfw.go: field types of Size, RelativePoint, SubSurface. -/\ndef sizeFields : List String := %s\ndef relativePointFields : List String := %s\ndef subSurfaceFields : List String := %s\n\n",
		leanList(fieldTypes(c, vx, "Size")), leanList(fieldTypes(c, vx, "RelativePoint")), leanList(fieldTypes(c, vx, "SubSurface")))

	// App.Run: window argument of the render call, and the frame clause
	if fd := ex.FindFunc(vx, "App", "Run"); fd == nil {
		c.Fail("App.Run not found")
	} else {
		w, ok := renderCallWin(c, fd, "App.Run")
		clips := true
		switch {
		case !ok:
		case w == winClipped:
		case w == "WIN":
			clips = false
		default:
			c.Fail("App.Run: unrecognised window argument of render: %s", w)
			w = "?unrecognised: " + w
		}
		fmt.Fprintf(sbp, "/-- %s: the window App.Run renders the root surface into (WIN = a.vx.Window(), S = the root surface). -/\ndef runRenderWin : String := %s\ndef runRenderClipsRoot : Bool := %v\n", c.Pos(fd), ex.LeanStr(w), clips)
		fmt.Fprintf(sbp, "def runFrame : List String := %s\n\n", leanList(frameBlock(c, fd)))
	}
	if hk := c.Parse("vxfw/verif_hooks_c14.go"); hk != nil {
		for _, it := range [][2]string{{"VerifC14RenderRoot", "hookRenderRootWin"}, {"VerifC14Render", "hookRenderWin"}} {
			if fd := ex.FindFunc(hk, "", it[0]); fd == nil {
				c.Fail("hook %s not found", it[0])
			} else {
				w, _ := renderCallWin(c, fd, it[0])
				fmt.Fprintf(sbp, "/-- %s: the window the harness hook %s renders into. -/\ndef %s : String := %s\n\n", c.Pos(fd), it[0], it[1], ex.LeanStr(w))
			}
		}
	}

	// render skeleton
	if fd := ex.FindFunc(vx, "Surface", "render"); fd != nil {
		fmt.Fprintf(sbp, "/-- %s: Surface.render, statement skeleton. -/\ndef renderBody : List String := %s\n\n", c.Pos(fd), leanList(skeletonOf(c, fd)))
	}

	// widget inventory, bounded-constraint guards, NewSurface arguments, skeletons
	ws := drawWidgets(c)
	var names []string
	var guards, surfaces [][2]string
	type bodyT struct {
		lean string
		fd   *ast.FuncDecl
	}
	var bodies []bodyT
	sizeLocals := map[string]string{}
	for _, w := range ws {
		full := w.pkg + "." + w.typ
		names = append(names, full)
		if cond, msg, ok := boundedGuard(c, w.draw); ok {
			guards = append(guards, [2]string{full, cond + " => " + msg})
		}
		if _, known := bodyPrefix[full]; !known && full != "list.Dynamic" {
			c.Fail("%s: widget type %s has a Draw method but is not modelled", c.Pos(w.draw), full)
		}
		fns := []string{"Draw"}
		switch full {
		case "text.Text", "richtext.RichText":
			fns = append(fns, "drawSoftwrap", "findContainerSize")
		case "list.Dynamic":
			fns = append(fns, "insertChildren")
		}
		for _, fn := range fns {
			fd := ex.FindFunc(w.file, w.typ, fn)
			if fd == nil {
				c.Fail("%s.%s not found", full, fn)
				continue
			}
			for _, a := range newSurfaceCalls(c, fd, full != "list.Dynamic") {
				surfaces = append(surfaces, [2]string{full + "." + fn, a})
			}
			// the local assigned from R.findContainerSize(…), by its skeleton name
			for _, line := range skeletonOf(c, fd) {
				if k := strings.Index(line, ":=R.findContainerSize("); k > 0 {
					sizeLocals[full+"."+fn] = line[:k]
				}
			}
			// list.Dynamic's scrolling logic belongs to C19: only its guard, surfaces and child
			// constraints are C14 facts (below), not the whole body
			if prefix, ok := bodyPrefix[full]; ok {
				bodies = append(bodies, bodyT{lean: prefix + strings.ToUpper(fn[:1]) + fn[1:] + "Body", fd: fd})
			}
		}
	}
	fmt.Fprintf(sbp, "/-- Every type in a sub-package of vxfw with a method Draw(vxfw.DrawContext) (vxfw.Surface, error). -/\ndef drawWidgets : List String := %s\n\n", leanList(names))
	fmt.Fprintf(sbp, "/-- Widgets whose Draw starts with a panic on an unbounded constraint: (widget, condition => message). -/\ndef boundedGuards : List (String × String) := %s\ndef boundedPanicWidgets : List String := %s\n\n",
		pairList(guards), leanList(func() []string {
			var o []string
			for _, g := range guards {
				if strings.HasPrefix(g[1], "(P0.Max.HasUnboundedHeight()||P0.Max.HasUnboundedWidth()) => ") {
					o = append(o, g[0])
				} else {
					c.Fail("%s: unrecognised bounded-constraint guard %s", g[0], g[1])
				}
			}
			return o
		}()))
	fmt.Fprintf(sbp, "/-- The size arguments of every vxfw.NewSurface call, per function, in source order. -/\ndef newSurfaceArgs : List (String × String) := %s\n\n", pairList(surfaces))
	// the same as terms the model evaluates
	var terms []string
	for _, sf := range surfaces {
		ab := strings.SplitN(sf[1], " x ", 2)
		if len(ab) != 2 {
			ab = []string{"?unrecognised", "?unrecognised"}
		}
		terms = append(terms, fmt.Sprintf("(%s, %s, %s)", ex.LeanStr(sf[0]), szTerm(c, sf[0], ab[0], sizeLocals[sf[0]]), szTerm(c, sf[0], ab[1], sizeLocals[sf[0]])))
	}
	fmt.Fprintf(sbp, "/-- A size argument of NewSurface: the constraint's Max, the size findContainerSize returned, a literal,\nthe height of the child being wrapped; `other` = a shape the extractor does not know. -/\ninductive SzArg where\n  | maxW | maxH | sizeW | sizeH | childH\n  | lit (n : Nat)\n  | other (src : String)\nderiving DecidableEq, Repr\n\n")
	fmt.Fprintf(sbp, "/-- newSurfaceArgs as terms: (function, width, height), in source order. -/\ndef surfaceSizes : List (String × SzArg × SzArg) := [%s]\n\n", strings.Join(terms, ", "))
	for _, b := range bodies {
		fmt.Fprintf(sbp, "/-- %s: statement skeleton. -/\ndef %s : List String := %s\n\n", c.Pos(b.fd), b.lean, leanList(skeletonOf(c, b.fd)))
	}

	// text.hardLines: the line splitter of a Text that is not soft-wrapped (Model.Wrap.textHardLoop)
	if txt := c.Parse("vxfw/text/text.go"); txt != nil {
		if fd := ex.FindFunc(txt, "", "hardLines"); fd == nil {
			c.Fail("text.hardLines not found")
		} else {
			fmt.Fprintf(sbp, "/-- %s: statement skeleton. -/\ndef textHardLinesBody : List String := %s\n\n", c.Pos(fd), leanList(skeletonOf(c, fd)))
		}
	}

	// list.Dynamic: the constraints handed to the children (every DrawContext literal in Draw and
	// insertChildren), and the colOffset the width is reduced by
	for _, w := range ws {
		if w.pkg+"."+w.typ != "list.Dynamic" {
			continue
		}
		var facts []string
		for _, fn := range []string{"Draw", "insertChildren"} {
			fd := ex.FindFunc(w.file, w.typ, fn)
			if fd == nil {
				continue
			}
			r := roles(fd)
			ast.Inspect(fd, func(n ast.Node) bool {
				switch x := n.(type) {
				case *ast.CompositeLit:
					if isSel(x.Type, "vxfw", "DrawContext") {
						for _, el := range x.Elts {
							if kv, ok := el.(*ast.KeyValueExpr); ok {
								if id, ok := kv.Key.(*ast.Ident); ok && (id.Name == "Max" || id.Name == "Min") {
									facts = append(facts, fn+": child ctx "+id.Name+":"+normLit(c, r, kv.Value))
								}
							}
						}
					}
				case *ast.IfStmt:
					if id, ok := x.Cond.(*ast.SelectorExpr); ok && id.Sel.Name == "DrawCursor" && len(x.Body.List) == 1 {
						if as, ok := x.Body.List[0].(*ast.AssignStmt); ok && len(as.Lhs) == 1 && len(as.Rhs) == 1 {
							facts = append(facts, fn+": if "+norm(c, r, x.Cond)+" "+norm(c, r, as.Lhs[0])+as.Tok.String()+norm(c, r, as.Rhs[0]))
						}
					}
				}
				return true
			})
		}
		fmt.Fprintf(sbp, "/-- vxfw/list/list.go: constraints Dynamic hands to its children. -/\ndef dynamicChildCtx : List String := %s\n\n", leanList(facts))
	}
}

// normLit normalises an expression that may contain a composite literal.
func normLit(c *ex.Ctx, r renamer, e ast.Expr) string {
	if cl, ok := e.(*ast.CompositeLit); ok {
		var parts []string
		for _, el := range cl.Elts {
			if kv, ok := el.(*ast.KeyValueExpr); ok {
				parts = append(parts, norm(c, r, kv.Key)+":"+normLit(c, r, kv.Value))
			} else {
				parts = append(parts, normLit(c, r, el))
			}
		}
		return norm(c, r, cl.Type) + "{" + strings.Join(parts, ",") + "}"
	}
	return norm(c, r, e)
}
