// extract-C15 <repo> <gen-dir>: the arms of the two type switches the C15 model transcribes —
// the event switch of App.Run and App.handleCommand — as Gen/VxfwCases.lean: for every case
// clause its label(s) and, in source order, the fields it assigns (`set x.y`) and the functions
// it calls (`call name`; only the final selector component, so renaming a local variable is not a change). Theorems in Props/C15Gen.lean
// compare these with the arms the model was written against, so adding, removing or re-wiring an
// arm makes a proof obligation fail. Everything inside the called functions is tied by the
// correspondence streams, not here.
package main

import (
	"bytes"
	"go/ast"
	"go/printer"
	"go/token"
	"strings"

	"verifextract/ex"
)

var fset *token.FileSet

func show(n ast.Node) string {
	var b bytes.Buffer
	printer.Fprint(&b, fset, n)
	return strings.Join(strings.Fields(b.String()), " ")
}

// last2 is the final selector component (receiver / variable names are not part of the tie).
func last2(e ast.Expr) string {
	parts := strings.Split(show(e), ".")
	return parts[len(parts)-1]
}

func caseLabel(cc *ast.CaseClause) string {
	if cc.List == nil {
		return "default"
	}
	var l []string
	for _, e := range cc.List {
		l = append(l, show(e))
	}
	return strings.Join(l, ",")
}

// armActs: assignments to fields and calls, in source order.
func armActs(body []ast.Stmt) []string {
	var out []string
	for _, s := range body {
		ast.Inspect(s, func(n ast.Node) bool {
			switch n := n.(type) {
			case *ast.AssignStmt:
				for _, l := range n.Lhs {
					if _, ok := l.(*ast.SelectorExpr); ok {
						out = append(out, "set "+last2(l))
					}
				}
			case *ast.CallExpr:
				if _, ok := n.Fun.(*ast.SelectorExpr); ok {
					out = append(out, "call "+last2(n.Fun))
				}
			case *ast.RangeStmt:
				out = append(out, "range")
			}
			return true
		})
	}
	return out
}

func firstTypeSwitch(fd *ast.FuncDecl) *ast.TypeSwitchStmt {
	var ts *ast.TypeSwitchStmt
	ast.Inspect(fd, func(n ast.Node) bool {
		if t, ok := n.(*ast.TypeSwitchStmt); ok && ts == nil {
			ts = t
		}
		return ts == nil
	})
	return ts
}

func leanArms(name string, ts *ast.TypeSwitchStmt) string {
	var b strings.Builder
	b.WriteString("def " + name + " : List (String × List String) := [\n")
	for i, c := range ts.Body.List {
		cc := c.(*ast.CaseClause)
		var items []string
		for _, a := range armActs(cc.Body) {
			items = append(items, ex.LeanStr(a))
		}
		b.WriteString("  (" + ex.LeanStr(caseLabel(cc)) + ", [" + strings.Join(items, ", ") + "])")
		if i+1 < len(ts.Body.List) {
			b.WriteString(",")
		}
		b.WriteString("\n")
	}
	b.WriteString("]\n\n")
	return b.String()
}

// skeleton: the statements of a function body in source order, flattened: `let x` (short variable
// declaration), `set f` (assignment to a field; final selector component), `call name` (final
// selector component or plain function name), `if`, `for`, `range local` / `range field f`,
// `index local` / `index field f` (what a loop ranges over / what is indexed: a local variable or a
// field — this is what distinguishes iterating over a snapshot from iterating over the live
// field), `return`. Names of local variables are not part of the tie.
func skeleton(fd *ast.FuncDecl) []string {
	var out []string
	base := func(e ast.Expr) string {
		switch e := e.(type) {
		case *ast.Ident:
			return "local"
		case *ast.SelectorExpr:
			return "field " + e.Sel.Name
		}
		return "expr"
	}
	ast.Inspect(fd.Body, func(n ast.Node) bool {
		switch n := n.(type) {
		case *ast.AssignStmt:
			for _, l := range n.Lhs {
				switch l := l.(type) {
				case *ast.SelectorExpr:
					out = append(out, "set "+l.Sel.Name)
				case *ast.Ident:
					if n.Tok == token.DEFINE && l.Name != "_" && l.Name != "err" && l.Name != "ok" {
						out = append(out, "let")
					}
				}
			}
		case *ast.CallExpr:
			switch f := n.Fun.(type) {
			case *ast.SelectorExpr:
				out = append(out, "call "+f.Sel.Name)
			case *ast.Ident:
				out = append(out, "call "+f.Name)
			}
		case *ast.RangeStmt:
			out = append(out, "range "+base(n.X))
		case *ast.ForStmt:
			out = append(out, "for")
		case *ast.IfStmt:
			out = append(out, "if")
		case *ast.IndexExpr:
			out = append(out, "index "+base(n.X))
		case *ast.ReturnStmt:
			out = append(out, "return")
		}
		return true
	})
	return out
}

// runParts: the actions (armActs) of App.Run's statements before its `for` loop, and of the select
// arm that waits on time.After (the frame step). Anything not found degrades to ["?missing"].
func runParts(fd *ast.FuncDecl) (pro, frame []string) {
	missing := []string{ex.LeanStr("?missing")}
	if fd == nil || fd.Body == nil {
		return missing, missing
	}
	var before []ast.Stmt
	for _, st := range fd.Body.List {
		if _, ok := st.(*ast.ForStmt); ok {
			break
		}
		before = append(before, st)
	}
	for _, a := range armActs(before) {
		pro = append(pro, ex.LeanStr(a))
	}
	found := false
	ast.Inspect(fd.Body, func(n ast.Node) bool {
		cc, ok := n.(*ast.CommClause)
		if !ok || found || cc.Comm == nil {
			return true
		}
		if strings.Contains(show(cc.Comm), "time.After") {
			found = true
			for _, a := range armActs(cc.Body) {
				frame = append(frame, ex.LeanStr(a))
			}
		}
		return true
	})
	if !found {
		frame = missing
	}
	if len(pro) == 0 {
		pro = missing
	}
	return pro, frame
}

func main() { ex.Main([]string{"VxfwCases.lean", "VxfwBodies.lean"}, gen) }

func gen(c *ex.Ctx) {
	fset = c.Fset
	f := c.Parse("vxfw/vxfw.go")
	if f == nil {
		return
	}
	// the bodies of the dispatchers as syntax (a second parse: the translation renames identifiers in place)
	if f2 := c.Parse("vxfw/vxfw.go"); f2 != nil {
		genBodies(c, f2)
	}
	var b strings.Builder
	b.WriteString("namespace VaxisModel.Gen.VxfwCases\n\n")
	for _, x := range []struct{ recv, name, lean string }{
		{"App", "Run", "runArms"},
		{"App", "handleCommand", "handleCommandArms"},
	} {
		// A function or switch that is no longer there degrades to the single arm "?missing" (the
		// covering theorems then fail; the Gen file is still written so that the drivers build and
		// the correspondence streams can look for a failing input).
		fd := ex.FindFunc(f, x.recv, x.name)
		var ts *ast.TypeSwitchStmt
		if fd == nil {
			c.Fail("vxfw.go: func (%s) %s not found", x.recv, x.name)
		} else if ts = firstTypeSwitch(fd); ts == nil {
			c.Fail("vxfw.go: no type switch in (%s).%s", x.recv, x.name)
		}
		if ts == nil {
			b.WriteString("def " + x.lean + " : List (String × List String) := [(\"?missing\", [])]\n\n")
			continue
		}
		b.WriteString(leanArms(x.lean, ts))
	}
	// the sort used by Surface.render on the children
	fd := ex.FindFunc(f, "Surface", "render")
	var sorts []string
	if fd == nil {
		c.Fail("vxfw.go: func (Surface) render not found")
		sorts = append(sorts, ex.LeanStr("?missing"))
		fd = &ast.FuncDecl{Body: &ast.BlockStmt{}}
	}
	ast.Inspect(fd.Body, func(n ast.Node) bool {
		if ce, ok := n.(*ast.CallExpr); ok && strings.HasPrefix(show(ce.Fun), "sort.") {
			sorts = append(sorts, ex.LeanStr(show(ce.Fun)))
		}
		return true
	})
	b.WriteString("def renderSorts : List String := [" + strings.Join(sorts, ", ") + "]\n\n")
	// statement skeletons of the functions the model transcribes statement by statement; a
	// function that is missing gets the skeleton ["?missing"] (the theorems then fail, the
	// extractor does not).
	b.WriteString("def skeletons : List (String × List String) := [\n")
	sk := []struct{ recv, name string }{
		{"focusHandler", "handleEvent"}, {"focusHandler", "updatePath"}, {"focusHandler", "findPath"},
		{"focusHandler", "childHasFocus"}, {"focusHandler", "focusWidget"},
		{"mouseHandler", "handleEvent"}, {"mouseHandler", "update"}, {"mouseHandler", "mouseExit"},
		{"mouseHandler", "mouseEnter"}, {"", "hitTest"},
	}
	for i, x := range sk {
		items := []string{ex.LeanStr("?missing")}
		if fd := ex.FindFunc(f, x.recv, x.name); fd != nil && fd.Body != nil {
			items = nil
			for _, a := range skeleton(fd) {
				items = append(items, ex.LeanStr(a))
			}
		}
		nm := x.name
		if x.recv != "" {
			nm = x.recv + "." + x.name
		}
		b.WriteString("  (" + ex.LeanStr(nm) + ", [" + strings.Join(items, ", ") + "])")
		if i+1 < len(sk) {
			b.WriteString(",")
		}
		b.WriteString("\n")
	}
	b.WriteString("]\n\n")
	// App.Run outside the event switch: what it does before the loop, and the timer arm of the select
	// (the frame step) — field assignments and method calls in source order (as for the arms).
	pro, frame := runParts(ex.FindFunc(f, "App", "Run"))
	b.WriteString("def runPrologueActs : List String := [" + strings.Join(pro, ", ") + "]\n\n")
	b.WriteString("def runFrameActs : List String := [" + strings.Join(frame, ", ") + "]\n\n")
	b.WriteString("end VaxisModel.Gen.VxfwCases\n")
	c.Write("VxfwCases.lean", b.String())
}
