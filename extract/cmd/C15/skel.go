// Structural translation of the bodies of vxfw's event dispatchers into the tiny syntax of
// lean/VaxisModel/Model/GoSyn.lean (Gen/VxfwBodies.lean) — the translator of extract/cmd/C19/skel.go,
// copied (package main cannot be imported), plus type assertions `x.(T)` as `assert(x, T)`. Locals are renamed in order of first
// appearance (receiver → d, parameters and locals → v0, v1, …) so that a consistent renaming is
// not a change. Anything outside the translated subset becomes `.unknown "src"` — the extractor
// never fails on an unknown shape; the theorem `fully_recognised` does.
package main

import (
	"fmt"
	"go/ast"
	"go/token"
	"strings"

	"verifextract/ex"
)

type skel struct {
	c     *ex.Ctx
	lines []string
	// labels of the enclosing loops, innermost last ("" = unlabelled); pending = the label of the
	// labelled statement being translated
	loops   []string
	pending string
}

func lstr(s string) string { return ex.LeanStr(strings.Join(strings.Fields(s), " ")) }

// norm prints a node and collapses all white space.
func norm(c *ex.Ctx, n ast.Node) string {
	return strings.Join(strings.Fields(c.Src(n)), " ")
}

// selector chain of identifiers → "a.b.c"
func chain(e ast.Expr) (string, bool) {
	switch v := e.(type) {
	case *ast.Ident:
		return v.Name, true
	case *ast.SelectorExpr:
		if p, ok := chain(v.X); ok {
			return p + "." + v.Sel.Name, true
		}
	}
	return "", false
}

func (k *skel) expr(e ast.Expr) string {
	if e == nil {
		return ".none"
	}
	switch v := e.(type) {
	case *ast.ParenExpr:
		return k.expr(v.X)
	case *ast.Ident:
		return "(.var " + lstr(v.Name) + ")"
	case *ast.SelectorExpr:
		if p, ok := chain(v); ok {
			return "(.var " + lstr(p) + ")"
		}
		return "(.sel " + k.expr(v.X) + " " + lstr(v.Sel.Name) + ")"
	case *ast.BasicLit:
		if v.Kind == token.INT {
			var n uint64
			if _, err := fmt.Sscan(v.Value, &n); err == nil && fmt.Sprint(n) == v.Value {
				return fmt.Sprintf("(.int %d)", n)
			}
		}
		return "(.lit " + lstr(v.Value) + ")"
	case *ast.CompositeLit:
		return "(.lit " + lstr(strings.ReplaceAll(strings.ReplaceAll(norm(k.c, v), " ", ""), ",}", "}")) + ")"
	case *ast.UnaryExpr:
		return "(.un " + lstr(v.Op.String()) + " " + k.expr(v.X) + ")"
	case *ast.StarExpr:
		return "(.un \"*\" " + k.expr(v.X) + ")"
	case *ast.BinaryExpr:
		return "(.bin " + lstr(v.Op.String()) + " " + k.expr(v.X) + " " + k.expr(v.Y) + ")"
	case *ast.IndexExpr:
		return "(.index " + k.expr(v.X) + " " + k.expr(v.Index) + ")"
	case *ast.CallExpr:
		if v.Ellipsis != token.NoPos {
			break
		}
		s := "(.call " + k.expr(v.Fun) + ")"
		for _, a := range v.Args {
			s = "(.arg " + s + " " + k.expr(a) + ")"
		}
		return s
	case *ast.TypeAssertExpr:
		if v.Type != nil {
			return "(.arg (.arg (.call (.var \"assert\")) " + k.expr(v.X) + ") " + k.expr(v.Type) + ")"
		}
	case *ast.ArrayType, *ast.MapType, *ast.InterfaceType, *ast.StructType, *ast.FuncType, *ast.ChanType:
		return "(.lit " + lstr(norm(k.c, v)) + ")"
	}
	return "(.unknown " + lstr(norm(k.c, e)) + ")"
}

func (k *skel) tuple(es []ast.Expr) string {
	if len(es) == 0 {
		return ".none"
	}
	s := k.expr(es[0])
	for _, e := range es[1:] {
		s = "(.pair " + s + " " + k.expr(e) + ")"
	}
	return s
}

func (k *skel) line(depth int, kind, e1, e2 string) {
	k.lines = append(k.lines, fmt.Sprintf("⟨%d, .%s, %s, %s⟩", depth, kind, e1, e2))
}

func (k *skel) unknownStmt(depth int, s ast.Stmt) {
	k.line(depth, "unknown", "(.unknown "+lstr(norm(k.c, s))+")", ".none")
}

func (k *skel) block(depth int, b *ast.BlockStmt) {
	if b == nil {
		return
	}
	for _, s := range b.List {
		k.stmt(depth, s)
	}
}

func (k *skel) stmt(depth int, s ast.Stmt) {
	switch v := s.(type) {
	case *ast.AssignStmt:
		kind := map[token.Token]string{token.ASSIGN: "assign", token.DEFINE: "define", token.ADD_ASSIGN: "addAssign", token.SUB_ASSIGN: "subAssign"}[v.Tok]
		if kind == "" {
			k.unknownStmt(depth, s)
			return
		}
		// normal form: `x = x + e` is `x += e`, `x = x - e` is `x -= e`
		if v.Tok == token.ASSIGN && len(v.Lhs) == 1 && len(v.Rhs) == 1 {
			if b, ok := v.Rhs[0].(*ast.BinaryExpr); ok && (b.Op == token.ADD || b.Op == token.SUB) && norm(k.c, b.X) == norm(k.c, v.Lhs[0]) {
				kind = "addAssign"
				if b.Op == token.SUB {
					kind = "subAssign"
				}
				k.line(depth, kind, k.expr(v.Lhs[0]), k.expr(b.Y))
				return
			}
		}
		k.line(depth, kind, k.tuple(v.Lhs), k.tuple(v.Rhs))
	case *ast.IncDecStmt:
		// normal form: `x++` is `x += 1`, `x--` is `x -= 1`
		if v.Tok == token.INC {
			k.line(depth, "addAssign", k.expr(v.X), "(.int 1)")
		} else {
			k.line(depth, "subAssign", k.expr(v.X), "(.int 1)")
		}
	case *ast.ExprStmt:
		k.line(depth, "exprS", k.expr(v.X), ".none")
	case *ast.ReturnStmt:
		k.line(depth, "returnS", k.tuple(v.Results), ".none")
	case *ast.BranchStmt:
		switch {
		case v.Tok == token.BREAK && v.Label == nil:
			k.line(depth, "breakS", ".none", ".none")
		case v.Tok == token.CONTINUE && v.Label == nil:
			k.line(depth, "continueS", ".none", ".none")
		case v.Tok == token.CONTINUE && v.Label != nil:
			// `continue L`: the number of loops to leave before continuing (0 = the innermost
			// enclosing loop carries the label); the label's name is not part of the tie (as for locals)
			for i := len(k.loops) - 1; i >= 0; i-- {
				if k.loops[i] == v.Label.Name {
					k.line(depth, "continueS", "(.var \"L\")", fmt.Sprintf("(.int %d)", len(k.loops)-1-i))
					return
				}
			}
			k.unknownStmt(depth, s)
		default:
			k.unknownStmt(depth, s)
		}
	case *ast.LabeledStmt:
		// only loops carry labels here; the label is resolved at each `continue L`
		switch v.Stmt.(type) {
		case *ast.ForStmt, *ast.RangeStmt:
			k.pending = v.Label.Name
			k.stmt(depth, v.Stmt)
		default:
			k.unknownStmt(depth, s)
		}
	case *ast.BlockStmt:
		k.line(depth, "blockS", ".none", ".none")
		k.block(depth+1, v)
	case *ast.IfStmt:
		if v.Init != nil {
			k.unknownStmt(depth, s)
			return
		}
		k.line(depth, "ifS", k.expr(v.Cond), ".none")
		k.block(depth+1, v.Body)
		if v.Else != nil {
			k.line(depth, "elseS", ".none", ".none")
			if eb, ok := v.Else.(*ast.BlockStmt); ok {
				k.block(depth+1, eb)
			} else {
				k.stmt(depth+1, v.Else)
			}
		}
	case *ast.ForStmt:
		if v.Init != nil {
			k.line(depth, "forInit", ".none", ".none")
			k.stmt(depth+1, v.Init)
		}
		cond := "(.var \"true\")"
		if v.Cond != nil {
			cond = k.expr(v.Cond)
		}
		k.line(depth, "forS", cond, ".none")
		k.loops = append(k.loops, k.pending)
		k.pending = ""
		k.block(depth+1, v.Body)
		k.loops = k.loops[:len(k.loops)-1]
		if v.Post != nil {
			k.line(depth+1, "forPost", ".none", ".none")
			k.stmt(depth+2, v.Post)
		}
	case *ast.RangeStmt:
		if v.Tok != token.DEFINE {
			k.unknownStmt(depth, s)
			return
		}
		k.line(depth, "rangeS", "(.pair "+k.expr(v.Key)+" "+k.expr(v.Value)+")", k.expr(v.X))
		k.loops = append(k.loops, k.pending)
		k.pending = ""
		k.block(depth+1, v.Body)
		k.loops = k.loops[:len(k.loops)-1]
	case *ast.DeclStmt:
		gd, ok := v.Decl.(*ast.GenDecl)
		if !ok || gd.Tok != token.VAR || len(gd.Specs) != 1 {
			k.unknownStmt(depth, s)
			return
		}
		vs := gd.Specs[0].(*ast.ValueSpec)
		if len(vs.Names) != 1 || len(vs.Values) != 0 || vs.Type == nil {
			k.unknownStmt(depth, s)
			return
		}
		k.line(depth, "varS", "(.var "+lstr(vs.Names[0].Name)+")", "(.lit "+lstr(norm(k.c, vs.Type))+")")
	case *ast.SwitchStmt:
		if v.Init != nil {
			k.unknownStmt(depth, s)
			return
		}
		k.line(depth, "switchS", k.expr(v.Tag), ".none")
		k.cases(depth+1, v.Body)
	case *ast.TypeSwitchStmt:
		if v.Init != nil {
			k.unknownStmt(depth, s)
			return
		}
		k.line(depth, "typeSwitchS", "(.lit "+lstr(norm(k.c, v.Assign))+")", ".none")
		k.cases(depth+1, v.Body)
	default:
		k.unknownStmt(depth, s)
	}
}

func (k *skel) cases(depth int, b *ast.BlockStmt) {
	for _, s := range b.List {
		cc, ok := s.(*ast.CaseClause)
		if !ok {
			k.unknownStmt(depth, s)
			continue
		}
		if cc.List == nil {
			k.line(depth, "caseS", "(.var \"default\")", ".none")
		} else {
			k.line(depth, "caseS", k.tuple(cc.List), ".none")
		}
		for _, st := range cc.Body {
			k.stmt(depth+1, st)
		}
	}
}

// rename renames the receiver to r and every other variable declared inside fd to v0, v1, … in
// order of first appearance.
func rename(fd *ast.FuncDecl) {
	names := map[*ast.Object]string{}
	if fd.Recv != nil && len(fd.Recv.List) == 1 && len(fd.Recv.List[0].Names) == 1 {
		if o := fd.Recv.List[0].Names[0].Obj; o != nil {
			names[o] = "r"
		}
	}
	n := 0
	ast.Inspect(fd, func(x ast.Node) bool {
		id, ok := x.(*ast.Ident)
		if !ok || id.Obj == nil || id.Obj.Kind != ast.Var || id.Name == "_" {
			return true
		}
		if id.Obj.Pos() < fd.Pos() || id.Obj.Pos() > fd.End() {
			return true
		}
		if _, seen := names[id.Obj]; !seen {
			names[id.Obj] = fmt.Sprintf("v%d", n)
			n++
		}
		return true
	})
	ast.Inspect(fd, func(x ast.Node) bool {
		if id, ok := x.(*ast.Ident); ok && id.Obj != nil {
			if nm, ok := names[id.Obj]; ok {
				id.Name = nm
			}
		}
		return true
	})
}

// runBlocks: the bodies of the two comm clauses of the select in App.Run (nil if not found).
func runBlocks(c *ex.Ctx, d *ast.File) (ev, frame []string) {
	fd := ex.FindFunc(d, "App", "Run")
	if fd == nil || fd.Body == nil {
		return nil, nil
	}
	rename(fd)
	ast.Inspect(fd.Body, func(n ast.Node) bool {
		cc, ok := n.(*ast.CommClause)
		if !ok || cc.Comm == nil {
			return true
		}
		k := &skel{c: c}
		for _, st := range cc.Body {
			k.stmt(0, st)
		}
		src := norm(c, cc.Comm)
		switch {
		case strings.Contains(src, "time.After") && frame == nil:
			frame = k.lines
		case strings.Contains(src, "Events()") && ev == nil:
			ev = k.lines
		}
		return true
	})
	return ev, frame
}

// genBodies writes Gen/VxfwBodies.lean.
func genBodies(c *ex.Ctx, d *ast.File) {
	var sb strings.Builder
	sb.WriteString("import VaxisModel.Model.GoSyn\n\n/-! The bodies of vxfw/vxfw.go's event dispatchers, translated statement by statement\n    (receiver renamed to r, parameters and locals to v0, v1, … in order of first appearance). -/\nnamespace VaxisModel.Gen.VxfwBodies\nopen VaxisModel.Model.GoSyn\n")
	methods := []struct{ recv, goName, leanName string }{
		{"focusHandler", "handleEvent", "focusHandleEvent"},
		{"mouseHandler", "handleEvent", "mouseHandleEvent"},
		{"focusHandler", "focusWidget", "focusWidget"},
		{"focusHandler", "updatePath", "updatePath"},
		{"mouseHandler", "mouseExit", "mouseExit"},
		{"mouseHandler", "mouseEnter", "mouseEnter"},
		{"mouseHandler", "update", "mouseUpdate"},
		{"App", "handleCommand", "handleCommand"},
		{"", "hitTest", "hitTest"},
		{"SubSurface", "containsPoint", "containsPoint"},
		{"focusHandler", "childHasFocus", "childHasFocus"},
		{"focusHandler", "findPath", "findPath"},
	}
	for _, m := range methods {
		fd := ex.FindFunc(d, m.recv, m.goName)
		fmt.Fprintf(&sb, "\n/-- `%s.%s` -/\ndef %s : List Line := [", m.recv, m.goName, m.leanName)
		if fd == nil || fd.Body == nil {
			sb.WriteString("\n  ⟨0, .unknown, (.unknown \"method not found\"), .none⟩]\n")
			continue
		}
		rename(fd)
		k := &skel{c: c}
		k.block(0, fd.Body)
		for i, l := range k.lines {
			if i > 0 {
				sb.WriteString(",")
			}
			sb.WriteString("\n  " + l)
		}
		sb.WriteString("]\n")
	}
	// App.Run: the two arms of its select as separate statement lists (the select itself, the channel receive and the
	// timer are not in the translated subset): the body of the event arm (the type switch and the shouldQuit test) and
	// the body of the time.After arm (the frame step).
	evBlk, frBlk := runBlocks(c, d)
	for _, x := range []struct {
		name, doc string
		lines []string
	}{{"runEventBlock", "App.Run, the arm `case ev := <-a.vx.Events()`", evBlk}, {"runFrameBlock", "App.Run, the arm `case <-time.After(…)`", frBlk}} {
		fmt.Fprintf(&sb, "\n/-- %s -/\ndef %s : List Line := [", x.doc, x.name)
		if x.lines == nil {
			sb.WriteString("\n  ⟨0, .unknown, (.unknown \"block not found\"), .none⟩]\n")
			continue
		}
		for i, l := range x.lines {
			if i > 0 {
				sb.WriteString(",")
			}
			sb.WriteString("\n  " + l)
		}
		sb.WriteString("]\n")
	}
	sb.WriteString("\nend VaxisModel.Gen.VxfwBodies\n")
	c.Write("VxfwBodies.lean", sb.String())
}
