// Extractor for C16: Gen/WrapFacts.lean — the statement structure of both SoftwrapScanner.Scan
// functions (vxfw/text, vxfw/richtext), richtext.firstLineSegment, HardwrapScanner.Scan and the
// row loops of drawSoftwrap / findContainerSize, as lists of (guard, actions) steps.
//
// Normalisation (identical for both packages, so that the two Scan functions yield literally equal
// facts where they are the same algorithm):
//   - receiver -> R, the vxfw.DrawContext parameter -> CTX, range key -> K, range value -> E;
//   - whitespace and comments dropped, binary expressions fully parenthesised, redundant parens dropped;
//   - `[]T{}` -> EMPTY; `append(x, []byte(E.Grapheme)...)` -> `append(x,E)` (append one element);
//   - a local defined as `ctx.Characters(string(Y))` is an alias of Y (text.go re-clusters the word it
//     has just cut; recorded in <pfx>Aliases);
//   - a guard is (connective, atoms): connective "" (one atom), "&&", "||", "range", "always";
//     an atom is (lhs, op, rhs) for a comparison and (expr, "", "") otherwise.
//
// An unrecognised shape does not stop the extractor: the fact gets the value "unknown:<source>" and a
// line is added to extractErrors (theorem fully_recognised); every definition the Lean side refers to is
// always written.
package main

import (
	"fmt"
	"go/ast"
	"go/token"
	"regexp"
	"strings"

	"verifextract/ex"
)

func main() { ex.Main([]string{"WrapFacts.lean"}, gen) }

// ---------- normalising printer ----------

type atom [3]string
type guard struct {
	conn  string
	atoms []atom
}
type step struct {
	g    guard
	acts []string
	node ast.Stmt
}
type logged struct {
	node *ast.AssignStmt
	lhs  []string
	text string
}

type env struct {
	c    *ex.Ctx
	ren  map[string]string
	soft *[]string
	log  []logged
}

func (v *env) unknown(n ast.Node, why string) string {
	src := strings.Join(strings.Fields(v.c.Src(n)), " ")
	if len(src) > 120 {
		src = src[:120] + "…"
	}
	*v.soft = append(*v.soft, fmt.Sprintf("%s: %s: %s", v.c.Pos(n), why, src))
	return "unknown:" + src
}

func newEnv(c *ex.Ctx, fd *ast.FuncDecl, soft *[]string) *env {
	v := &env{c: c, ren: map[string]string{}, soft: soft}
	if fd.Recv != nil && len(fd.Recv.List) == 1 && len(fd.Recv.List[0].Names) == 1 {
		v.ren[fd.Recv.List[0].Names[0].Name] = "R"
	}
	for _, p := range fd.Type.Params.List {
		if strings.HasSuffix(c.Src(p.Type), "DrawContext") {
			for _, n := range p.Names {
				v.ren[n.Name] = "CTX"
			}
		}
	}
	return v
}

func unparen(e ast.Expr) ast.Expr {
	for {
		p, ok := e.(*ast.ParenExpr)
		if !ok {
			return e
		}
		e = p.X
	}
}

// elemOf: `[]byte(X.Grapheme)` spread into an append = "append the element X".
func (v *env) elemOf(e ast.Expr) string {
	ce, ok := unparen(e).(*ast.CallExpr)
	if !ok || len(ce.Args) != 1 {
		return ""
	}
	at, ok := ce.Fun.(*ast.ArrayType)
	if !ok || at.Len != nil {
		return ""
	}
	if id, ok := at.Elt.(*ast.Ident); !ok || id.Name != "byte" {
		return ""
	}
	se, ok := unparen(ce.Args[0]).(*ast.SelectorExpr)
	if !ok || se.Sel.Name != "Grapheme" {
		return ""
	}
	return v.expr(se.X)
}

func (v *env) exprs(es []ast.Expr) string {
	var out []string
	for _, e := range es {
		out = append(out, v.expr(e))
	}
	return strings.Join(out, ",")
}

func (v *env) expr(e ast.Expr) string {
	switch e := e.(type) {
	case nil:
		return ""
	case *ast.Ident:
		if r, ok := v.ren[e.Name]; ok {
			return r
		}
		return e.Name
	case *ast.BasicLit:
		return e.Value
	case *ast.ParenExpr:
		return v.expr(e.X)
	case *ast.SelectorExpr:
		return v.expr(e.X) + "." + e.Sel.Name
	case *ast.BinaryExpr:
		return "(" + v.expr(e.X) + e.Op.String() + v.expr(e.Y) + ")"
	case *ast.UnaryExpr:
		return e.Op.String() + v.expr(e.X)
	case *ast.StarExpr:
		return "*" + v.expr(e.X)
	case *ast.IndexExpr:
		return v.expr(e.X) + "[" + v.expr(e.Index) + "]"
	case *ast.SliceExpr:
		s := v.expr(e.X) + "[" + v.expr(e.Low) + ":" + v.expr(e.High)
		if e.Slice3 {
			s += ":" + v.expr(e.Max)
		}
		return s + "]"
	case *ast.ArrayType:
		return "[" + v.expr(e.Len) + "]" + v.expr(e.Elt)
	case *ast.KeyValueExpr:
		k := v.c.Src(e.Key)
		return k + ":" + v.expr(e.Value)
	case *ast.CompositeLit:
		if at, ok := e.Type.(*ast.ArrayType); ok && at.Len == nil && len(e.Elts) == 0 {
			return "EMPTY"
		}
		return v.expr(e.Type) + "{" + v.exprs(e.Elts) + "}"
	case *ast.TypeAssertExpr:
		return v.expr(e.X) + ".(" + v.expr(e.Type) + ")"
	case *ast.CallExpr:
		var as []string
		for i, a := range e.Args {
			s := v.expr(a)
			if e.Ellipsis.IsValid() && i == len(e.Args)-1 {
				if el := v.elemOf(a); el != "" {
					s = el
				} else {
					s += "..."
				}
			}
			as = append(as, s)
		}
		return v.expr(e.Fun) + "(" + strings.Join(as, ",") + ")"
	}
	return v.unknown(e, "unsupported expression")
}

// withRange renames the range key / value to K / E inside fn.
func (v *env) withRange(rs *ast.RangeStmt, fn func()) {
	saved := map[string]*string{}
	set := func(x ast.Expr, to string) {
		id, ok := x.(*ast.Ident)
		if !ok || id.Name == "_" {
			return
		}
		if old, ok := v.ren[id.Name]; ok {
			o := old
			saved[id.Name] = &o
		} else {
			saved[id.Name] = nil
		}
		v.ren[id.Name] = to
	}
	set(rs.Key, "K")
	set(rs.Value, "E")
	fn()
	for k, o := range saved {
		if o == nil {
			delete(v.ren, k)
		} else {
			v.ren[k] = *o
		}
	}
}

func (v *env) rangeHeader(rs *ast.RangeStmt) string {
	kv := ""
	if rs.Key != nil {
		kv = v.expr(rs.Key)
		if rs.Value != nil {
			kv += "," + v.expr(rs.Value)
		}
		kv += rs.Tok.String()
	}
	return "for " + kv + "range "
}

func (v *env) flat(ss []ast.Stmt) []string {
	out := []string{}
	for _, s := range ss {
		out = append(out, v.flat1(s)...)
	}
	return out
}

func (v *env) flat1(s ast.Stmt) []string {
	switch s := s.(type) {
	case nil:
		return nil
	case *ast.EmptyStmt:
		return nil
	case *ast.ExprStmt:
		return []string{v.expr(s.X)}
	case *ast.AssignStmt:
		var lhs []string
		for _, l := range s.Lhs {
			lhs = append(lhs, v.expr(l))
		}
		t := strings.Join(lhs, ",") + s.Tok.String() + v.exprs(s.Rhs)
		v.log = append(v.log, logged{s, lhs, t})
		return []string{t}
	case *ast.IncDecStmt:
		return []string{v.expr(s.X) + s.Tok.String()}
	case *ast.ReturnStmt:
		if len(s.Results) == 0 {
			return []string{"return"}
		}
		return []string{"return " + v.exprs(s.Results)}
	case *ast.BranchStmt:
		t := s.Tok.String()
		if s.Label != nil {
			t += " " + s.Label.Name
		}
		return []string{t}
	case *ast.LabeledStmt:
		return append([]string{s.Label.Name + ":"}, v.flat1(s.Stmt)...)
	case *ast.BlockStmt:
		return append(append([]string{"{"}, v.flat(s.List)...), "}")
	case *ast.DeclStmt:
		gd, ok := s.Decl.(*ast.GenDecl)
		if !ok || gd.Tok != token.VAR {
			return []string{v.unknown(s, "unsupported declaration")}
		}
		var out []string
		for _, sp := range gd.Specs {
			vs := sp.(*ast.ValueSpec)
			for i, n := range vs.Names {
				t := "var " + n.Name
				if vs.Type != nil {
					t += " " + v.expr(vs.Type)
				}
				if i < len(vs.Values) {
					t += "=" + v.expr(vs.Values[i])
				}
				out = append(out, t)
			}
		}
		return out
	case *ast.IfStmt:
		h := "if "
		if s.Init != nil {
			h += strings.Join(v.flat1(s.Init), ";") + ";"
		}
		out := append([]string{h + v.expr(s.Cond) + " {"}, v.flat(s.Body.List)...)
		if s.Else != nil {
			out = append(out, "} else {")
			if b, ok := s.Else.(*ast.BlockStmt); ok {
				out = append(out, v.flat(b.List)...)
			} else {
				out = append(out, v.flat1(s.Else)...)
			}
		}
		return append(out, "}")
	case *ast.ForStmt:
		h := "for " + strings.Join(v.flat1(s.Init), ";") + ";" + v.expr(s.Cond) + ";" + strings.Join(v.flat1(s.Post), ";") + " {"
		if s.Init == nil && s.Post == nil {
			h = "for " + v.expr(s.Cond) + " {"
		}
		return append(append([]string{h}, v.flat(s.Body.List)...), "}")
	case *ast.RangeStmt:
		x := v.expr(s.X)
		var out []string
		v.withRange(s, func() {
			out = append([]string{v.rangeHeader(s) + x + " {"}, v.flat(s.Body.List)...)
		})
		return append(out, "}")
	}
	return []string{v.unknown(s, "unsupported statement")}
}

var cmpOps = map[token.Token]bool{token.EQL: true, token.NEQ: true, token.LSS: true, token.LEQ: true, token.GTR: true, token.GEQ: true}

func (v *env) atom(e ast.Expr) atom {
	e = unparen(e)
	if b, ok := e.(*ast.BinaryExpr); ok && cmpOps[b.Op] {
		return atom{v.expr(b.X), b.Op.String(), v.expr(b.Y)}
	}
	return atom{v.expr(e), "", ""}
}

func (v *env) guard(e ast.Expr) guard {
	e = unparen(e)
	if b, ok := e.(*ast.BinaryExpr); ok && (b.Op == token.LAND || b.Op == token.LOR) {
		var parts []ast.Expr
		var collect func(x ast.Expr)
		collect = func(x ast.Expr) {
			x = unparen(x)
			if bb, ok := x.(*ast.BinaryExpr); ok && bb.Op == b.Op {
				collect(bb.X)
				collect(bb.Y)
				return
			}
			parts = append(parts, x)
		}
		collect(b)
		g := guard{conn: b.Op.String()}
		for _, p := range parts {
			g.atoms = append(g.atoms, v.atom(p))
		}
		return g
	}
	return guard{"", []atom{v.atom(e)}}
}

var always = guard{"always", nil}

// steps: one step per statement, in source order. `if c { … }` -> (guard c, body);
// `for … range X { … }` -> (("range",[X]), body); anything else -> (always, [stmt]).
func (v *env) steps(ss []ast.Stmt) []step {
	out := []step{}
	for _, s := range ss {
		switch t := s.(type) {
		case *ast.IfStmt:
			if t.Init == nil && t.Else == nil {
				out = append(out, step{v.guard(t.Cond), v.flat(t.Body.List), s})
				continue
			}
		case *ast.RangeStmt:
			x := v.expr(t.X)
			var acts []string
			v.withRange(t, func() { acts = v.flat(t.Body.List) })
			out = append(out, step{guard{"range", []atom{{x, "", ""}}}, acts, s})
			continue
		}
		out = append(out, step{always, v.flat1(s), s})
	}
	return out
}

// ---------- Lean output ----------

func lstr(s string) string { return ex.LeanStr(s) }

func llist(xs []string) string {
	q := make([]string, len(xs))
	for i, x := range xs {
		q[i] = lstr(x)
	}
	return "[" + strings.Join(q, ", ") + "]"
}

func lguard(g guard) string {
	q := make([]string, len(g.atoms))
	for i, a := range g.atoms {
		q[i] = "(" + lstr(a[0]) + ", " + lstr(a[1]) + ", " + lstr(a[2]) + ")"
	}
	return "(" + lstr(g.conn) + ", [" + strings.Join(q, ", ") + "])"
}

func lsteps(ss []step) string {
	if len(ss) == 0 {
		return "[]"
	}
	q := make([]string, len(ss))
	for i, s := range ss {
		q[i] = "  (" + lguard(s.g) + ", " + llist(s.acts) + ")"
	}
	return "[\n" + strings.Join(q, ",\n") + "]"
}

func lpairs(ps [][2]string) string {
	q := make([]string, len(ps))
	for i, p := range ps {
		q[i] = "(" + lstr(p[0]) + ", " + lstr(p[1]) + ")"
	}
	return "[" + strings.Join(q, ", ") + "]"
}

func lquads(ps [][4]string) string {
	q := make([]string, len(ps))
	for i, p := range ps {
		q[i] = "(" + lstr(p[0]) + ", " + lstr(p[1]) + ", " + lstr(p[2]) + ", " + lstr(p[3]) + ")"
	}
	return "[" + strings.Join(q, ", ") + "]"
}

type out struct {
	sb      strings.Builder
	have    map[string]bool
	pending string // doc comment for the next def (dropped if none follows)
}

func (o *out) def(name, typ, val string) {
	if o.have[name] {
		return
	}
	o.have[name] = true
	o.sb.WriteString(o.pending)
	o.pending = ""
	fmt.Fprintf(&o.sb, "def %s : %s := %s\n", name, typ, val)
}
func (o *out) doc(format string, a ...interface{}) {
	o.pending = fmt.Sprintf("\n/-- "+format+" -/\n", a...)
}
func (o *out) section(title string) {
	o.pending = ""
	o.sb.WriteString("\n/-! ### " + title + " -/\n")
}

const (
	tS  = "String"
	tB  = "Bool"
	tL  = "List String"
	tG  = "Guard"
	tSt = "List Step"
	tP  = "List (String × String)"
	tQ  = "List (String × String × String × String)"
)

func missing(typ string) string {
	switch typ {
	case tS:
		return `"unknown:missing"`
	case tB:
		return "false"
	case tL:
		return `["unknown:missing"]`
	case tG:
		return `("unknown:missing", [])`
	case tSt:
		return `[(("unknown:missing", []), [])]`
	case tP:
		return `[("unknown:missing", "")]`
	case tQ:
		return `[("unknown:missing", "", "", "")]`
	}
	return "default"
}

var scanDefs = [][2]string{
	{"Fields", tP}, {"Entry", tG}, {"EntryActs", tL}, {"Init", tL}, {"WidthDef", tS}, {"AccTypes", tP},
	{"Prelude", tL}, {"Aliases", tP}, {"TrSpaceDef", tS}, {"Sums", tQ}, {"SumStmts", tL}, {"Conversions", tL}, {"SumsInInt", tB},
	{"LoopFull", tSt}, {"Loop", tSt}, {"StateAssigns", tP}, {"Strip", tL},
	{"LongPre", tL}, {"LongRange", tS}, {"LongBody", tSt}, {"LongPost", tL},
}
var loopDefs = [][2]string{{"Pre", tL}, {"Cond", tS}, {"Rows", tSt}, {"Cols", tSt}, {"Post", tL}}

func required() [][2]string {
	r := [][2]string{{"characterFields", tP}}
	for _, p := range []string{"text", "rich"} {
		for _, d := range scanDefs {
			r = append(r, [2]string{p + d[0], d[1]})
		}
		for _, k := range []string{"Draw", "Size"} {
			for _, d := range loopDefs {
				r = append(r, [2]string{p + k + d[0], d[1]})
			}
		}
	}
	r = append(r, [][2]string{{"flsPre", tL}, {"flsRange", tS}, {"flsBody", tSt}, {"flsPost", tL},
		{"hardFields", tP}, {"hardEntry", tG}, {"hardEntryActs", tL}, {"hardPre", tL}, {"hardRange", tS}, {"hardBody", tSt}, {"hardPost", tL}}...)
	return r
}

// ---------- facts ----------

func structFields(v *env, f *ast.File, name string) ([][2]string, bool) {
	for _, d := range f.Decls {
		gd, ok := d.(*ast.GenDecl)
		if !ok {
			continue
		}
		for _, s := range gd.Specs {
			ts, ok := s.(*ast.TypeSpec)
			if !ok || ts.Name.Name != name {
				continue
			}
			st, ok := ts.Type.(*ast.StructType)
			if !ok {
				return nil, false
			}
			out := [][2]string{}
			for _, fl := range st.Fields.List {
				for _, n := range fl.Names {
					out = append(out, [2]string{n.Name, v.expr(fl.Type)})
				}
			}
			return out, true
		}
	}
	return nil, false
}

var convRe = regexp.MustCompile(`(^|[^A-Za-z0-9_.])(u?int(8|16|32|64)?|uintptr|float(32|64)|byte|rune)\(`)

func lastIsReturn(b *ast.BlockStmt) bool {
	if b == nil || len(b.List) == 0 {
		return false
	}
	_, ok := b.List[len(b.List)-1].(*ast.ReturnStmt)
	return ok
}

var accNames = []string{"w", "wordLen", "spaceLen"}

func isAcc(s string) bool {
	for _, a := range accNames {
		if s == a {
			return true
		}
	}
	return false
}

// noState drops the assignments to R.state (text.go only; they are reported in <pfx>StateAssigns).
func noState(xs []string) []string {
	out := []string{}
	for _, x := range xs {
		if !strings.HasPrefix(x, "R.state=") {
			out = append(out, x)
		}
	}
	return out
}

// scanner extracts the facts of one SoftwrapScanner.Scan.
func scanner(c *ex.Ctx, o *out, soft *[]string, f *ast.File, pfx, rel string, charWidthType string) {
	fd := ex.FindFunc(f, "SoftwrapScanner", "Scan")
	if fd == nil || fd.Body == nil {
		*soft = append(*soft, rel+": func (*SoftwrapScanner) Scan not found")
		return
	}
	v := newEnv(c, fd, soft)
	o.doc("%s: fields of SoftwrapScanner.", rel)
	if fs, ok := structFields(v, f, "SoftwrapScanner"); ok {
		o.def(pfx+"Fields", tP, lpairs(fs))
	} else {
		*soft = append(*soft, rel+": type SoftwrapScanner struct not found")
	}
	body := fd.Body.List

	// entry guard
	o.doc("%s: the entry guard of Scan (disjuncts) and what it does.", c.Pos(fd))
	if len(body) > 0 {
		if is, ok := body[0].(*ast.IfStmt); ok && is.Init == nil && is.Else == nil {
			o.def(pfx+"Entry", tG, lguard(v.guard(is.Cond)))
			o.def(pfx+"EntryActs", tL, llist(v.flat(is.Body.List)))
		} else {
			v.unknown(body[0], "Scan does not start with a plain if")
		}
	}
	// the `for { … }`
	fi := -1
	for i, s := range body {
		if fs, ok := s.(*ast.ForStmt); ok && fs.Init == nil && fs.Cond == nil && fs.Post == nil {
			fi = i
			break
		}
	}
	if fi < 1 {
		*soft = append(*soft, c.Pos(fd)+": no `for { … }` loop in Scan")
		return
	}
	if fi != len(body)-1 {
		v.unknown(body[fi+1], "statements after the for loop of Scan")
	}
	o.doc("Statements between the entry guard and the loop; the definition of `width`; declared types of the accumulators.")
	o.def(pfx+"Init", tL, llist(v.flat(body[1:fi])))
	widthDef := "unknown:no `width :=` before the loop"
	for _, s := range body[1:fi] {
		if as, ok := s.(*ast.AssignStmt); ok && as.Tok == token.DEFINE && len(as.Lhs) == 1 && len(as.Rhs) == 1 {
			if id, ok := as.Lhs[0].(*ast.Ident); ok && id.Name == "width" {
				widthDef = v.expr(as.Rhs[0])
			}
		}
	}
	if strings.HasPrefix(widthDef, "unknown:") {
		*soft = append(*soft, c.Pos(fd)+": "+widthDef)
	}
	o.def(pfx+"WidthDef", tS, lstr(widthDef))
	types := map[string]string{}
	ast.Inspect(fd.Body, func(n ast.Node) bool {
		switch n := n.(type) {
		case *ast.ValueSpec:
			for i, id := range n.Names {
				if !isAcc(id.Name) {
					continue
				}
				if n.Type != nil {
					types[id.Name] = v.expr(n.Type)
				} else if i < len(n.Values) {
					types[id.Name] = "inferred:" + v.expr(n.Values[i])
				}
			}
		case *ast.AssignStmt:
			if n.Tok == token.DEFINE {
				for i, l := range n.Lhs {
					if id, ok := l.(*ast.Ident); ok && isAcc(id.Name) && len(n.Lhs) == len(n.Rhs) {
						types[id.Name] = "inferred:" + v.expr(n.Rhs[i])
					}
				}
			}
		}
		return true
	})
	acc := [][2]string{}
	allInt := true
	for _, a := range accNames {
		t, ok := types[a]
		if !ok {
			t = "unknown:undeclared"
			*soft = append(*soft, c.Pos(fd)+": accumulator "+a+" is not declared")
		}
		if t != "int" {
			allInt = false
		}
		acc = append(acc, [2]string{a, t})
	}
	o.def(pfx+"AccTypes", tP, lpairs(acc))

	// loop body: prelude (segmentation, trim, sums) then the chain of guards
	lb := body[fi].(*ast.ForStmt).Body.List
	cs := -1
	for i, s := range lb {
		if is, ok := s.(*ast.IfStmt); ok && lastIsReturn(is.Body) {
			cs = i
			break
		}
	}
	if cs < 0 {
		v.unknown(body[fi], "no returning if in the loop of Scan")
		return
	}
	prelude := []string{}
	aliases := [][2]string{}
	sums := [][4]string{}
	trSpace := "unknown:no `trSpace :=`"
	for _, s := range lb[:cs] {
		if rs, ok := s.(*ast.RangeStmt); ok && len(rs.Body.List) == 1 {
			if as, ok := rs.Body.List[0].(*ast.AssignStmt); ok && len(as.Lhs) == 1 && len(as.Rhs) == 1 {
				x := v.expr(rs.X)
				v.withRange(rs, func() {
					sums = append(sums, [4]string{x, v.expr(as.Lhs[0]), as.Tok.String(), v.expr(as.Rhs[0])})
				})
			}
		}
		prelude = append(prelude, v.flat1(s)...)
		as, ok := s.(*ast.AssignStmt)
		if !ok || as.Tok != token.DEFINE || len(as.Lhs) != 1 || len(as.Rhs) != 1 {
			continue
		}
		id, ok := as.Lhs[0].(*ast.Ident)
		if !ok {
			continue
		}
		if id.Name == "trSpace" {
			trSpace = v.expr(as.Rhs[0])
		}
		// alias: X := ctx.Characters(string(Y))
		if ce, ok := as.Rhs[0].(*ast.CallExpr); ok && len(ce.Args) == 1 && strings.HasSuffix(v.expr(ce.Fun), "CTX.Characters") {
			if in, ok := ce.Args[0].(*ast.CallExpr); ok && len(in.Args) == 1 && v.expr(in.Fun) == "string" {
				if y, ok := in.Args[0].(*ast.Ident); ok {
					aliases = append(aliases, [2]string{id.Name, v.expr(ce)})
					v.ren[id.Name] = v.expr(y)
				}
			}
		}
	}
	if strings.HasPrefix(trSpace, "unknown:") {
		*soft = append(*soft, c.Pos(fd)+": "+trSpace)
	}
	o.doc("The loop body up to the first returning `if`: segmentation call, trimming, width sums (flat skeleton).")
	o.def(pfx+"Prelude", tL, llist(prelude))
	o.doc("Locals defined as `CTX.Characters(string(Y))`, read as Y from there on.")
	o.def(pfx+"Aliases", tP, lpairs(aliases))
	o.def(pfx+"TrSpaceDef", tS, lstr(trSpace))
	o.doc("Summation loops of the prelude: (range expression, accumulator, operator, summand).")
	o.def(pfx+"Sums", tQ, lquads(sums))

	chain := v.steps(lb[cs:])
	// long-word branch: the step whose body holds one range loop
	var longNode *ast.IfStmt
	var longGuards []step
	for i := range chain {
		is, ok := chain[i].node.(*ast.IfStmt)
		if !ok || chain[i].g.conn == "always" {
			continue
		}
		ri, n := -1, 0
		for j, s := range is.Body.List {
			if _, ok := s.(*ast.RangeStmt); ok {
				ri = j
				n++
			}
		}
		if n != 1 {
			continue
		}
		longNode = is
		rs := is.Body.List[ri].(*ast.RangeStmt)
		o.doc("%s: the long-word branch: statements before the loop, what it ranges over, its body as steps, statements after it (assignments to R.state left out, see %sStateAssigns).", c.Pos(is), pfx)
		o.def(pfx+"LongPre", tL, llist(noState(v.flat(is.Body.List[:ri]))))
		o.def(pfx+"LongRange", tS, lstr(v.expr(rs.X)))
		var lbody []step
		v.withRange(rs, func() { lbody = v.steps(rs.Body.List) })
		kept := []step{}
		for _, st := range lbody {
			st.acts = noState(st.acts)
			if len(st.acts) > 0 || st.g.conn != "always" {
				kept = append(kept, st)
			}
		}
		lbody = kept
		o.def(pfx+"LongBody", tSt, lsteps(lbody))
		o.def(pfx+"LongPost", tL, llist(noState(v.flat(is.Body.List[ri+1:]))))
		chain[i].acts = []string{"LONG"}
		longGuards = lbody
		break
	}
	if longNode == nil {
		*soft = append(*soft, c.Pos(fd)+": no long-word branch (an if holding one range loop) in the loop of Scan")
	}
	// hard-break branch: `if br { <strip>; R.token = append(…); return true }`
	strip := []string{"unknown:no `if br` step"}
	for i := range chain {
		is, ok := chain[i].node.(*ast.IfStmt)
		g := chain[i].g
		if !ok || g.conn != "" || len(g.atoms) != 1 || g.atoms[0][1] != "" || is == longNode {
			continue
		}
		for j, s := range is.Body.List {
			if as, ok := s.(*ast.AssignStmt); ok && len(as.Lhs) == 1 && v.expr(as.Lhs[0]) == "R.token" {
				strip = v.flat(is.Body.List[:j])
				if j > 0 {
					chain[i].acts = append([]string{"STRIPBREAK"}, v.flat(is.Body.List[j:])...)
				}
				break
			}
		}
		break
	}
	if len(strip) == 1 && strings.HasPrefix(strip[0], "unknown:") {
		*soft = append(*soft, c.Pos(fd)+": "+strip[0])
	}
	// assignments to R.state
	isState := func(s ast.Stmt) bool {
		as, ok := s.(*ast.AssignStmt)
		if !ok {
			return false
		}
		for _, l := range as.Lhs {
			if v.expr(l) == "R.state" {
				return true
			}
		}
		return false
	}
	loop := []step{}
	for _, s := range chain {
		if s.g.conn == "always" && isState(s.node) {
			continue
		}
		loop = append(loop, s)
	}
	o.doc("%s: the loop body from the first returning `if` on, one step per statement (LONG = the long-word branch, STRIPBREAK = %sStrip).", c.Pos(lb[cs]), pfx)
	o.def(pfx+"LoopFull", tSt, lsteps(chain))
	o.doc("The same without the assignments to R.state (compared between the two packages).")
	o.def(pfx+"Loop", tSt, lsteps(loop))
	o.doc("Removal of the trailing hard break in the `br` step.")
	o.def(pfx+"Strip", tL, llist(strip))

	// whole-function pass: every assignment, with scoped renaming
	v.log = nil
	v.flat(body)
	stateAssigns := [][2]string{}
	sumStmts := []string{}
	for _, l := range v.log {
		st := false
		for _, x := range l.lhs {
			if x == "R.state" {
				st = true
			}
		}
		if st {
			where := "other"
			for i, s := range chain {
				if s.node == ast.Stmt(l.node) {
					where = fmt.Sprintf("loop:%d", i)
				}
			}
			if longNode != nil && l.node.Pos() >= longNode.Pos() && l.node.End() <= longNode.End() {
				where = "long"
			}
			stateAssigns = append(stateAssigns, [2]string{where, l.text})
		}
		if len(l.lhs) >= 1 && l.node.Tok != token.DEFINE {
			for _, x := range l.lhs {
				if isAcc(x) {
					sumStmts = append(sumStmts, l.text)
					break
				}
			}
		}
	}
	o.doc("Every assignment to R.state in Scan: (where, statement); where = loop:<index in %sLoopFull> | long | other.", pfx)
	o.def(pfx+"StateAssigns", tP, lpairs(stateAssigns))
	o.doc("Every assignment to w / wordLen / spaceLen in Scan, in source order.")
	o.def(pfx+"SumStmts", tL, llist(sumStmts))
	// type conversions inside the sums and the guards over them
	conv := []string{}
	seen := map[string]bool{}
	chk := func(s string) {
		if convRe.MatchString(s) && !seen[s] {
			seen[s] = true
			conv = append(conv, s)
		}
	}
	for _, s := range sumStmts {
		chk(s)
	}
	for _, q := range sums {
		chk(q[3])
	}
	for _, ss := range [][]step{chain, longGuards} {
		for _, s := range ss {
			for _, a := range s.g.atoms {
				chk(a[0])
				chk(a[2])
			}
		}
	}
	o.doc("Numeric conversions occurring in those sums or in a guard of the loop / the long-word loop (none: all operands have the declared types).")
	o.def(pfx+"Conversions", tL, llist(conv))
	o.doc("w, wordLen, spaceLen declared int; width := int(R.width); Character.Width is int; no conversion in the sums.")
	o.def(pfx+"SumsInInt", tB, fmt.Sprint(allInt && widthDef == "int(R.width)" && charWidthType == "int" && len(conv) == 0))
}

// loopOf: facts of `pre…; for COND { rows } post…` where rows may hold one range loop (cols).
func loopOf(v *env, o *out, pfx string, where ast.Node, ss []ast.Stmt, inlineCols bool) {
	li := -1
	for i, s := range ss {
		if fs, ok := s.(*ast.ForStmt); ok && fs.Cond != nil && strings.Contains(v.expr(fs.Cond), ".Scan(") {
			li = i
			break
		}
	}
	if li < 0 {
		v.unknown(where, "no `for scanner.Scan()` loop")
		return
	}
	fs := ss[li].(*ast.ForStmt)
	if fs.Init != nil || fs.Post != nil {
		v.unknown(fs, "for loop with init/post")
	}
	o.def(pfx+"Pre", tL, llist(v.flat(ss[:li])))
	o.def(pfx+"Cond", tS, lstr(v.expr(fs.Cond)))
	rows := v.steps(fs.Body.List)
	cols := []step{}
	if !inlineCols {
		n := 0
		for i := range rows {
			if rs, ok := rows[i].node.(*ast.RangeStmt); ok {
				n++
				if n == 1 {
					v.withRange(rs, func() { cols = v.steps(rs.Body.List) })
					rows[i].acts = []string{"COLS"}
				}
			}
		}
		if n != 1 {
			v.unknown(fs, "expected one range loop in the row loop")
		}
	}
	o.def(pfx+"Rows", tSt, lsteps(rows))
	o.def(pfx+"Cols", tSt, lsteps(cols))
	o.def(pfx+"Post", tL, llist(v.flat(ss[li+1:])))
}

func gen(c *ex.Ctx) {
	o := &out{have: map[string]bool{}}
	soft := []string{}
	o.sb.WriteString("namespace VaxisModel.Gen.WrapFacts\n\n")
	o.sb.WriteString("/-- (lhs, operator, rhs) of a comparison; (expression, \"\", \"\") for any other condition. -/\nabbrev Atom := String × String × String\n")
	o.sb.WriteString("/-- (connective, atoms): \"\" = the one atom, \"&&\" / \"||\" = all / any of them, \"range\" = loop over the atom's expression, \"always\" = unconditional. -/\nabbrev Guard := String × List Atom\n")
	o.sb.WriteString("/-- One statement of a body: its guard and the flat, normalised skeleton of what it executes. -/\nabbrev Step := Guard × List String\n")
	genBody(c, o, &soft)
	any := false
	o.pending = ""
	for _, r := range required() {
		if !o.have[r[0]] {
			if !any {
				o.sb.WriteString("\n-- not extracted (see extractErrors)\n")
				any = true
			}
			soft = append(soft, "no value extracted for "+r[0])
			o.def(r[0], r[1], missing(r[1]))
		}
	}
	soft = append(soft, c.Errs...)
	soft = dedup(soft)
	fmt.Fprintf(&o.sb, "\n/-- What the extractor could not recognise (empty when the source has the expected shape). -/\ndef extractErrors : List String := %s\n\nend VaxisModel.Gen.WrapFacts\n", llist(soft))
	c.Write("WrapFacts.lean", o.sb.String())
	for _, e := range soft {
		fmt.Println("C16 extractor: unrecognised:", e)
	}
}

func dedup(xs []string) []string {
	seen := map[string]bool{}
	out := []string{}
	for _, x := range xs {
		if !seen[x] {
			seen[x] = true
			out = append(out, x)
		}
	}
	return out
}

func genBody(c *ex.Ctx, o *out, soft *[]string) {
	charWidth := ""
	if ch := c.Parse("character.go"); ch != nil {
		v := &env{c: c, ren: map[string]string{}, soft: soft}
		if fs, ok := structFields(v, ch, "Character"); ok {
			o.doc("character.go: fields of vaxis.Character (the type of `E.Width` in the sums).")
			o.def("characterFields", tP, lpairs(fs))
			for _, f := range fs {
				if f[0] == "Width" {
					charWidth = f[1]
				}
			}
		} else {
			*soft = append(*soft, "character.go: type Character struct not found")
		}
	}
	txt := c.Parse("vxfw/text/text.go")
	rich := c.Parse("vxfw/richtext/richtext.go")
	type pk struct {
		f         *ast.File
		pfx, rel  string
		recv      string
		inlineRow bool
	}
	for _, p := range []pk{{txt, "text", "vxfw/text/text.go", "Text", false}, {rich, "rich", "vxfw/richtext/richtext.go", "RichText", false}} {
		if p.f == nil {
			continue
		}
		o.section(p.rel)
		scanner(c, o, soft, p.f, p.pfx, p.rel, charWidth)
		// drawSoftwrap
		if fd := ex.FindFunc(p.f, p.recv, "drawSoftwrap"); fd == nil || fd.Body == nil {
			*soft = append(*soft, p.rel+": drawSoftwrap not found")
		} else {
			v := newEnv(c, fd, soft)
			o.doc("%s: drawSoftwrap: statements before the row loop, its condition, the row loop body (COLS = the column loop), the column loop body, statements after.", c.Pos(fd))
			loopOf(v, o, p.pfx+"Draw", fd, fd.Body.List, false)
		}
		// findContainerSize, soft-wrap branch
		if fd := ex.FindFunc(p.f, p.recv, "findContainerSize"); fd == nil || fd.Body == nil {
			*soft = append(*soft, p.rel+": findContainerSize not found")
		} else {
			v := newEnv(c, fd, soft)
			var br *ast.IfStmt
			for _, s := range fd.Body.List {
				if is, ok := s.(*ast.IfStmt); ok && v.expr(is.Cond) == "R.Softwrap" {
					br = is
					break
				}
			}
			if br == nil {
				v.unknown(fd.Name, "no `if R.Softwrap` in findContainerSize")
			} else {
				o.doc("%s: findContainerSize, the `if R.Softwrap` branch: statements before the loop, its condition, the loop body, statements after.", c.Pos(br))
				loopOf(v, o, p.pfx+"Size", br, br.Body.List, true)
			}
		}
	}
	if rich == nil {
		return
	}
	o.section("richtext: firstLineSegment, HardwrapScanner")
	if fd := ex.FindFunc(rich, "", "firstLineSegment"); fd == nil || fd.Body == nil {
		*soft = append(*soft, "richtext.go: firstLineSegment not found")
	} else {
		v := newEnv(c, fd, soft)
		rangeFacts(v, o, "fls", fd, fd.Body.List)
	}
	if fd := ex.FindFunc(rich, "HardwrapScanner", "Scan"); fd == nil || fd.Body == nil {
		*soft = append(*soft, "richtext.go: HardwrapScanner.Scan not found")
	} else {
		v := newEnv(c, fd, soft)
		if fs, ok := structFields(v, rich, "HardwrapScanner"); ok {
			o.doc("richtext.go: fields of HardwrapScanner.")
			o.def("hardFields", tP, lpairs(fs))
		}
		body := fd.Body.List
		var is *ast.IfStmt
		if len(body) > 1 {
			is, _ = body[0].(*ast.IfStmt)
		}
		if is != nil && is.Init == nil && is.Else == nil {
			o.doc("%s: HardwrapScanner.Scan.", c.Pos(fd))
			o.def("hardEntry", tG, lguard(v.guard(is.Cond)))
			o.def("hardEntryActs", tL, llist(v.flat(is.Body.List)))
			rangeFacts(v, o, "hard", fd, body[1:])
		} else {
			v.unknown(fd.Name, "HardwrapScanner.Scan does not start with a plain if")
		}
	}
}

// rangeFacts: `pre…; for K, E := range X { body } post…`.
func rangeFacts(v *env, o *out, pfx string, fd *ast.FuncDecl, ss []ast.Stmt) {
	ri := -1
	for i, s := range ss {
		if _, ok := s.(*ast.RangeStmt); ok {
			ri = i
			break
		}
	}
	if ri < 0 {
		v.unknown(fd.Name, "no range loop")
		return
	}
	rs := ss[ri].(*ast.RangeStmt)
	o.doc("%s: statements before the range loop, what it ranges over (K, E = index, element), its body as steps, statements after it.", v.c.Pos(rs))
	o.def(pfx+"Pre", tL, llist(v.flat(ss[:ri])))
	x := v.expr(rs.X)
	var body []step
	v.withRange(rs, func() {
		o.def(pfx+"Range", tS, lstr(v.rangeHeader(rs)+x))
		body = v.steps(rs.Body.List)
	})
	o.def(pfx+"Body", tSt, lsteps(body))
	o.def(pfx+"Post", tL, llist(v.flat(ss[ri+1:])))
}
