// Gen/EditorLang.lean: the functions of the two line editors translated statement by statement into
// the small language of lean/VaxisModel/Model/EdLang.lean.  The receiver is renamed tf / m, parameters
// p0, p1, …, locals l0, l1, … in order of declaration (renaming a variable is silent).  Anything the
// translator does not know becomes `.unknown "<source>"` (never a failure of the extractor): the
// interpreter has no meaning for it and the `…_fully_recognised` theorem fails.
package main

import (
	"fmt"
	"go/ast"
	"go/token"
	"regexp"
	"strconv"
	"strings"

	"verifextract/ex"
)

type tr struct {
	c       *ex.Ctx
	recv    string // receiver identifier in the source
	canon   string // its canonical name (tf / m)
	names   map[string]string
	nLocal  int
	nMatch  int
	pre     []string // statements to be emitted before the current one (for-loop initialisers)
	isField map[string]bool
	drawn   map[string]bool // loop variables ranging over ctx.Characters(…)
}

func q(s string) string { return ex.LeanStr(s) }

func (t *tr) flat(n ast.Node) string { return strings.Join(strings.Fields(t.c.Src(n)), " ") }

func (t *tr) unknownE(n ast.Node) string { return "(.unknown " + q(t.flat(n)) + ")" }

// selPath: x.a.b -> ("x", "a.b")
func selPath(e ast.Expr) (string, string, bool) {
	switch x := e.(type) {
	case *ast.SelectorExpr:
		if id, ok := x.X.(*ast.Ident); ok {
			return id.Name, x.Sel.Name, true
		}
		if b, p, ok := selPath(x.X); ok {
			return b, p + "." + x.Sel.Name, true
		}
	}
	return "", "", false
}

func (t *tr) local(name string) string {
	if name == "_" {
		return "_"
	}
	cn := fmt.Sprintf("l%d", t.nLocal)
	t.nLocal++
	t.names[name] = cn
	return cn
}

// lhs gives the canonical name of an assignable expression ("" if it is not one we know)
func (t *tr) lhs(e ast.Expr, define bool) string {
	switch x := e.(type) {
	case *ast.Ident:
		if x.Name == "_" {
			return "_"
		}
		if define {
			return t.local(x.Name)
		}
		if cn, ok := t.names[x.Name]; ok {
			return cn
		}
	case *ast.SelectorExpr:
		if id, ok := x.X.(*ast.Ident); ok && id.Name == t.recv {
			return t.canon + "." + x.Sel.Name
		}
		if base, path, ok := selPath(x); ok && base != t.recv {
			if cn, ok := t.names[base]; ok {
				return cn + "." + path
			}
		}
	}
	return ""
}

func isMatchesExpr(t *tr, e ast.Expr) bool {
	switch x := e.(type) {
	case *ast.ParenExpr:
		return isMatchesExpr(t, x.X)
	case *ast.BinaryExpr:
		return (x.Op == token.LOR || x.Op == token.LAND) && isMatchesExpr(t, x.X) && isMatchesExpr(t, x.Y)
	case *ast.CallExpr:
		if se, ok := x.Fun.(*ast.SelectorExpr); ok && se.Sel.Name == "Matches" {
			if id, ok := se.X.(*ast.Ident); ok {
				_, isParam := t.names[id.Name]
				return isParam
			}
		}
	}
	return false
}

func (t *tr) expr(e ast.Expr) string {
	switch x := e.(type) {
	case *ast.ParenExpr:
		return t.expr(x.X)
	case *ast.Ident:
		if x.Name == "nil" {
			return ".nilV"
		}
		if x.Name == "true" {
			return ".tt"
		}
		if x.Name == "false" {
			return ".ff"
		}
		if x.Name == t.recv && t.recv != "" {
			return "(.opaque \"receiver\")"
		}
		if cn, ok := t.names[x.Name]; ok {
			return "(.v " + q(cn) + ")"
		}
	case *ast.BasicLit:
		switch x.Kind {
		case token.INT:
			if n, err := strconv.ParseInt(x.Value, 0, 64); err == nil {
				return fmt.Sprintf("(.num %d)", n)
			}
		case token.STRING:
			if s, err := strconv.Unquote(x.Value); err == nil {
				if s == "" {
					return ".emptyStr"
				}
				return "(.strLit " + q(s) + ")"
			}
		}
	case *ast.UnaryExpr:
		if x.Op == token.SUB {
			if bl, ok := x.X.(*ast.BasicLit); ok && bl.Kind == token.INT {
				if n, err := strconv.ParseInt(bl.Value, 0, 64); err == nil {
					return fmt.Sprintf("(.num (%d))", -n)
				}
			}
		}
		if x.Op == token.NOT {
			return "(.not " + t.expr(x.X) + ")"
		}
	case *ast.BinaryExpr:
		if isMatchesExpr(t, e) {
			t.nMatch++
			return "(.v " + q(fmt.Sprintf("match%d", t.nMatch-1)) + ")"
		}
		// len(x) > 0
		if x.Op == token.GTR {
			if ce, ok := x.X.(*ast.CallExpr); ok && len(ce.Args) == 1 {
				if id, ok := ce.Fun.(*ast.Ident); ok && id.Name == "len" {
					if bl, ok := x.Y.(*ast.BasicLit); ok && bl.Value == "0" {
						return "(.nonEmpty " + t.expr(ce.Args[0]) + ")"
					}
				}
			}
		}
		// msg.Modifiers&vaxis.ModCtrl != 0
		if x.Op == token.NEQ {
			if be, ok := x.X.(*ast.BinaryExpr); ok && be.Op == token.AND {
				if bl, ok := x.Y.(*ast.BasicLit); ok && bl.Value == "0" {
					if se, ok := be.Y.(*ast.SelectorExpr); ok {
						if pk, ok := se.X.(*ast.Ident); ok && pk.Name == "vaxis" && strings.HasPrefix(se.Sel.Name, "Mod") {
							if l, ok := be.X.(*ast.SelectorExpr); ok && l.Sel.Name == "Modifiers" {
								if id, ok := l.X.(*ast.Ident); ok {
									if cn, ok := t.names[id.Name]; ok {
										return "(.v " + q(cn+".mod."+se.Sel.Name) + ")"
									}
								}
							}
						}
					}
				}
			}
		}
		switch x.Op {
		case token.ADD:
			return "(.add " + t.expr(x.X) + " " + t.expr(x.Y) + ")"
		case token.SUB:
			return "(.sub " + t.expr(x.X) + " " + t.expr(x.Y) + ")"
		case token.EQL, token.NEQ, token.LSS, token.LEQ, token.GTR, token.GEQ:
			return "(.cmp " + q(x.Op.String()) + " " + t.expr(x.X) + " " + t.expr(x.Y) + ")"
		case token.LAND:
			return "(.and " + t.expr(x.X) + " " + t.expr(x.Y) + ")"
		case token.LOR:
			return "(.or " + t.expr(x.X) + " " + t.expr(x.Y) + ")"
		}
	case *ast.SelectorExpr:
		// char.Width of a drawn character
		if id, ok := x.X.(*ast.Ident); ok && x.Sel.Name == "Width" && t.drawn[id.Name] {
			return "(.width (.v " + q(t.names[id.Name]) + "))"
		}
		// ch.Grapheme of a character ranged over: a character is known by its grapheme
		if id, ok := x.X.(*ast.Ident); ok && x.Sel.Name == "Grapheme" && t.drawn[id.Name] {
			return "(.v " + q(t.names[id.Name]) + ")"
		}
		// a path of fields from a parameter or local (ctx.Max.Width)
		if base, path, ok := selPath(x); ok && base != t.recv {
			if cn, ok := t.names[base]; ok {
				return "(.v " + q(cn+"."+path) + ")"
			}
		}
		if id, ok := x.X.(*ast.Ident); ok {
			if id.Name == t.recv {
				return "(.v " + q(t.canon+"."+x.Sel.Name) + ")"
			}
			if cn, ok := t.names[id.Name]; ok {
				return "(.v " + q(cn+"."+x.Sel.Name) + ")"
			}
			if id.Name == "vaxis" || id.Name == "vxfw" {
				return "(.strLit " + q(id.Name+"."+x.Sel.Name) + ")"
			}
		}
	case *ast.IndexExpr:
		return "(.index " + t.expr(x.X) + " " + t.expr(x.Index) + ")"
	case *ast.SliceExpr:
		if x.Slice3 {
			break
		}
		lo, hi := ".absent", ".absent"
		if x.Low != nil {
			lo = t.expr(x.Low)
		}
		if x.High != nil {
			hi = t.expr(x.High)
		}
		return "(.slice " + t.expr(x.X) + " " + lo + " " + hi + ")"
	case *ast.CompositeLit:
		ty := t.flat(x.Type)
		switch {
		case ty == "strings.Builder" && len(x.Elts) == 0:
			return ".builderNew"
		case ty == "[]rune" && len(x.Elts) == 0:
			return ".emptyStr"
		case ty == "Model" && len(x.Elts) == 1:
			// Model{content: e}: a value with nothing but its content
			if kv, ok := x.Elts[0].(*ast.KeyValueExpr); ok && t.flat(kv.Key) == "content" {
				return t.expr(kv.Value)
			}
		case ty == "[]vxfw.Command" && len(x.Elts) == 2:
			return "(.pair " + t.expr(x.Elts[0]) + " " + t.expr(x.Elts[1]) + ")"
		case ty == "vxfw.Surface" || ty == "vaxis.Cell":
			// values the editor's state does not depend on
			return "(.opaque " + q(ty+"{…}") + ")"
		}
	case *ast.CallExpr:
		return t.call(x)
	}
	return t.unknownE(e)
}

func (t *tr) args2(args []ast.Expr) (string, string, bool) {
	a, b := ".absent", ".absent"
	if len(args) > 2 {
		return a, b, false
	}
	if len(args) > 0 {
		a = t.expr(args[0])
	}
	if len(args) > 1 {
		b = t.expr(args[1])
	}
	return a, b, true
}

func (t *tr) call(x *ast.CallExpr) string {
	if isMatchesExpr(t, x) {
		t.nMatch++
		return "(.v " + q(fmt.Sprintf("match%d", t.nMatch-1)) + ")"
	}
	switch f := x.Fun.(type) {
	case *ast.ArrayType:
		if t.flat(f) == "[]rune" && len(x.Args) == 1 {
			return "(.runes " + t.expr(x.Args[0]) + ")"
		}
	case *ast.Ident:
		switch {
		case f.Name == "len" && len(x.Args) == 1:
			return "(.len " + t.expr(x.Args[0]) + ")"
		case (f.Name == "uint" || f.Name == "int" || f.Name == "uint16") && len(x.Args) == 1:
			return t.expr(x.Args[0])
		case f.Name == "string" && len(x.Args) == 1:
			return "(.str " + t.expr(x.Args[0]) + ")"
		case f.Name == "append" && len(x.Args) == 2 && x.Ellipsis.IsValid():
			return "(.append " + t.expr(x.Args[0]) + " " + t.expr(x.Args[1]) + ")"
		case f.Name == "graphemeCountInString" || f.Name == "isAlphaNumeric" || f.Name == "widthToCursor":
			if a, b, ok := t.args2(x.Args); ok {
				return "(.call " + q(f.Name) + " " + a + " " + b + ")"
			}
		}
	case *ast.SelectorExpr:
		id, _ := f.X.(*ast.Ident)
		if id == nil {
			break
		}
		switch {
		case id.Name == "unicode" && (f.Sel.Name == "IsLetter" || f.Sel.Name == "IsNumber") && len(x.Args) == 1:
			return "(.call " + q("unicode."+f.Sel.Name) + " " + t.expr(x.Args[0]) + " .absent)"
		case id.Name == "vxfw" && f.Sel.Name == "ConsumeAndRedraw" && len(x.Args) == 0:
			return ".redraw"
		case id.Name == "vxfw" && f.Sel.Name == "NewSurface":
			return "(.opaque \"vxfw.NewSurface(…)\")"
		case f.Sel.Name == "Characters" && len(x.Args) == 1 && (id.Name == "vaxis" || t.names[id.Name] != ""):
			return "(.chars " + t.expr(x.Args[0]) + ")"
		case id.Name == "slices" && f.Sel.Name == "Insert" && len(x.Args) == 3:
			k := ".insert1 "
			if x.Ellipsis.IsValid() {
				k = ".insert "
			}
			return "(" + k + t.expr(x.Args[0]) + " " + t.expr(x.Args[1]) + " " + t.expr(x.Args[2]) + ")"
		case f.Sel.Name == "String" && len(x.Args) == 0:
			if id.Name == t.recv {
				// m.String(): the concatenation of the content's graphemes
				return "(.str (.v " + q(t.canon+".content") + "))"
			}
			if cn, ok := t.names[id.Name]; ok {
				if strings.HasPrefix(cn, "p") {
					return "(.v " + q(cn+".String()") + ")"
				}
				return "(.str (.v " + q(cn) + "))"
			}
		case id.Name == t.recv:
			if a, b, ok := t.args2(x.Args); ok {
				return "(.call " + q(f.Sel.Name) + " " + a + " " + b + ")"
			}
		}
	}
	return t.unknownE(x)
}

func (t *tr) block(l []ast.Stmt) string {
	var parts []string
	for _, s := range l {
		st := t.stmt(s)
		parts = append(parts, t.pre...)
		t.pre = nil
		parts = append(parts, st...)
	}
	return "(" + strings.Join(append(parts, "B.nil"), " ;;\n    ") + ")"
}

func (t *tr) unknownS(n ast.Node) []string { return []string{"S.unknown " + q(t.flat(n))} }

func (t *tr) stmt(s ast.Stmt) []string {
	switch x := s.(type) {
	case *ast.AssignStmt:
		def := x.Tok == token.DEFINE
		if len(x.Lhs) == 4 && len(x.Rhs) == 1 {
			if ce, ok := x.Rhs[0].(*ast.CallExpr); ok && t.flat(ce.Fun) == "uniseg.FirstGraphemeClusterInString" && len(ce.Args) == 2 && !def {
				cl, rest, st := t.lhs(x.Lhs[0], false), t.lhs(x.Lhs[1], false), t.lhs(x.Lhs[3], false)
				if cl != "" && rest != "" && st != "" && t.flat(x.Lhs[2]) == "_" && t.expr(ce.Args[0]) == "(.v "+q(rest)+")" && t.expr(ce.Args[1]) == "(.v "+q(st)+")" {
					return []string{"S.nextCluster " + q(cl) + " " + q(rest)}
				}
			}
			return t.unknownS(s)
		}
		if len(x.Lhs) == 2 && len(x.Rhs) == 1 && def {
			// cmd2, err := tf.OnChange(tf.Value): the callback's results
			if ce, ok := x.Rhs[0].(*ast.CallExpr); ok {
				rhs := t.call(ce)
				a, b := t.lhs(x.Lhs[0], true), t.lhs(x.Lhs[1], true)
				both := a + "," + b
				if strings.HasPrefix(rhs, "(.call ") {
					rhs = "S.assignCall " + q(both) + " " + strings.TrimSuffix(strings.TrimPrefix(rhs, "(.call "), ")")
				} else {
					rhs = "S.assign " + q(both) + " " + rhs
				}
				return []string{rhs,
					"S.assign " + q(a) + " (.fst (.v " + q(both) + "))",
					"S.assign " + q(b) + " (.snd (.v " + q(both) + "))"}
			}
			return t.unknownS(s)
		}
		if len(x.Lhs) != 1 || len(x.Rhs) != 1 {
			return t.unknownS(s)
		}
		// x.f = &T{a: u, b: v}: the fields one by one
		if ue, ok := x.Rhs[0].(*ast.UnaryExpr); ok && ue.Op == token.AND && !def {
			if cl, ok := ue.X.(*ast.CompositeLit); ok {
				name := t.lhs(x.Lhs[0], false)
				if name == "" {
					return t.unknownS(s)
				}
				var out []string
				for _, e := range cl.Elts {
					kv, ok := e.(*ast.KeyValueExpr)
					if !ok {
						return t.unknownS(s)
					}
					v := t.expr(kv.Value)
					if strings.HasPrefix(v, "(.strLit ") {
						v = "(.opaque " + q(t.flat(kv.Value)) + ")"
					}
					out = append(out, "S.assign "+q(name+"."+t.flat(kv.Key))+" "+v)
				}
				return out
			}
		}
		rhs := t.expr(x.Rhs[0]) // before the definition: `i := i + 1` reads the old i
		name := t.lhs(x.Lhs[0], def)
		if name == "" {
			return t.unknownS(s)
		}
		switch x.Tok {
		case token.ASSIGN, token.DEFINE:
			if strings.HasPrefix(rhs, "(.call ") && !strings.HasPrefix(rhs, "(.call \"isAlphaNumeric\"") {
				return []string{"S.assignCall " + q(name) + " " + strings.TrimSuffix(strings.TrimPrefix(rhs, "(.call "), ")")}
			}
			return []string{"S.assign " + q(name) + " " + rhs}
		case token.ADD_ASSIGN:
			return []string{"S.addAssign " + q(name) + " " + rhs}
		case token.SUB_ASSIGN:
			return []string{"S.subAssign " + q(name) + " " + rhs}
		}
	case *ast.IncDecStmt:
		name := t.lhs(x.X, false)
		if name == "" {
			return t.unknownS(s)
		}
		if x.Tok == token.INC {
			return []string{"S.addAssign " + q(name) + " (.num 1)"}
		}
		return []string{"S.subAssign " + q(name) + " (.num 1)"}
	case *ast.DeclStmt:
		gd, ok := x.Decl.(*ast.GenDecl)
		if !ok || gd.Tok != token.VAR {
			return t.unknownS(s)
		}
		var out []string
		for _, sp := range gd.Specs {
			vs, ok := sp.(*ast.ValueSpec)
			if !ok || len(vs.Names) != 1 || len(vs.Values) > 1 {
				return t.unknownS(s)
			}
			val := ""
			if len(vs.Values) == 1 {
				val = t.expr(vs.Values[0])
			} else {
				switch t.flat(vs.Type) {
				case "uint", "int", "uint16":
					val = "(.num 0)"
				case "string":
					val = ".emptyStr"
				default:
					return t.unknownS(s)
				}
			}
			out = append(out, "S.assign "+q(t.local(vs.Names[0].Name))+" "+val)
		}
		return out
	case *ast.ExprStmt:
		ce, ok := x.X.(*ast.CallExpr)
		if !ok {
			return t.unknownS(s)
		}
		if se, ok := ce.Fun.(*ast.SelectorExpr); ok {
			if id, ok := se.X.(*ast.Ident); ok {
				if se.Sel.Name == "WriteCell" && t.names[id.Name] != "" {
					return []string{"S.effect " + q("WriteCell")}
				}
				if se.Sel.Name == "WriteString" && len(ce.Args) == 1 {
					if cn, ok := t.names[id.Name]; ok {
						return []string{"S.write " + q(cn) + " " + t.expr(ce.Args[0])}
					}
				}
				if id.Name == t.recv {
					if a, b, ok := t.args2(ce.Args); ok {
						return []string{"S.exprCall " + q(se.Sel.Name) + " " + a + " " + b}
					}
				}
			}
		}
		return t.unknownS(s)
	case *ast.DeferStmt:
		if se, ok := x.Call.Fun.(*ast.SelectorExpr); ok && len(x.Call.Args) == 0 {
			if id, ok := se.X.(*ast.Ident); ok && id.Name == t.recv {
				return []string{"S.deferCall " + q(se.Sel.Name)}
			}
		}
		return t.unknownS(s)
	case *ast.IfStmt:
		if x.Init != nil {
			return t.unknownS(s)
		}
		c := t.expr(x.Cond)
		th := t.block(x.Body.List)
		el := "B.nil"
		switch e := x.Else.(type) {
		case nil:
		case *ast.BlockStmt:
			el = t.block(e.List)
		default:
			el = t.block([]ast.Stmt{e})
		}
		return []string{"S.ite " + c + "\n    " + th + "\n    " + el}
	case *ast.ForStmt:
		var init []string
		if x.Init != nil {
			init = t.stmt(x.Init)
		}
		c := ".absent"
		if x.Cond != nil {
			c = t.expr(x.Cond)
		}
		post := "B.nil"
		if x.Post != nil {
			post = t.block([]ast.Stmt{x.Post})
		}
		body := t.block(x.Body.List)
		t.pre = append(t.pre, init...)
		return []string{"S.loop " + c + " " + post + "\n    " + body}
	case *ast.RangeStmt:
		if x.Key != nil && t.flat(x.Key) != "_" && x.Value != nil && x.Tok == token.DEFINE {
			// for i, ch := range chars
			e := t.expr(x.X)
			ki := t.lhs(x.Key, true)
			v := t.lhs(x.Value, true)
			if vid, ok := x.Value.(*ast.Ident); ok {
				t.drawn[vid.Name] = true
			}
			return []string{"S.rangeIdx " + q(ki) + " " + q(v) + " " + e + "\n    " + t.block(x.Body.List)}
		}
		if x.Key != nil && t.flat(x.Key) != "_" || x.Value == nil || x.Tok != token.DEFINE {
			return t.unknownS(s)
		}
		if ce, ok := x.X.(*ast.CallExpr); ok && len(ce.Args) == 1 {
			if se, ok := ce.Fun.(*ast.SelectorExpr); ok && se.Sel.Name == "Characters" {
				if id, ok := se.X.(*ast.Ident); ok && strings.HasPrefix(t.names[id.Name], "p") {
					arg := t.expr(ce.Args[0])
					v := t.lhs(x.Value, true)
					if vid, ok := x.Value.(*ast.Ident); ok {
						t.drawn[vid.Name] = true
					}
					return []string{"S.rangeDrawn " + q(v) + " " + arg + "\n    " + t.block(x.Body.List)}
				}
			}
		}
		e := t.expr(x.X)
		v := t.lhs(x.Value, true)
		if vid, ok := x.Value.(*ast.Ident); ok {
			t.drawn[vid.Name] = true
		}
		return []string{"S.range " + q(v) + " " + e + "\n    " + t.block(x.Body.List)}
	case *ast.BranchStmt:
		if x.Label != nil {
			return t.unknownS(s)
		}
		if x.Tok == token.BREAK {
			return []string{"S.brk"}
		}
		if x.Tok == token.CONTINUE {
			return []string{"S.cont"}
		}
	case *ast.ReturnStmt:
		switch len(x.Results) {
		case 0:
			return []string{"S.retNone"}
		case 1:
			r := t.expr(x.Results[0])
			if strings.HasPrefix(r, "(.call ") {
				return []string{"S.retCall " + strings.TrimSuffix(strings.TrimPrefix(r, "(.call "), ")")}
			}
			return []string{"S.ret " + r}
		case 2:
			r := t.expr(x.Results[0])
			if strings.HasPrefix(r, "(.call ") {
				return []string{"S.retCallPair " + strings.TrimSuffix(strings.TrimPrefix(r, "(.call "), ")") + " " + t.expr(x.Results[1])}
			}
			return []string{"S.ret (.pair " + r + " " + t.expr(x.Results[1]) + ")"}
		}
	case *ast.SwitchStmt:
		if x.Init != nil {
			return t.unknownS(s)
		}
		tag := ""
		if x.Tag != nil {
			tag = t.expr(x.Tag)
		}
		return t.caseChain(x.Body.List, func(e ast.Expr) string {
			if tag == "" {
				return t.expr(e)
			}
			return "(.cmp \"==\" " + tag + " " + t.expr(e) + ")"
		}, s)
	case *ast.TypeSwitchStmt:
		// switch msg := msg.(type): the dynamic type as a name
		var subj ast.Expr
		switch a := x.Assign.(type) {
		case *ast.AssignStmt:
			if len(a.Rhs) == 1 && len(a.Lhs) == 1 {
				if ta, ok := a.Rhs[0].(*ast.TypeAssertExpr); ok && ta.Type == nil {
					subj = ta.X
					// the new variable is the old one with its dynamic type
					if l, ok := a.Lhs[0].(*ast.Ident); ok {
						if id, ok := ta.X.(*ast.Ident); ok {
							if cn, ok := t.names[id.Name]; ok {
								t.names[l.Name] = cn
							}
						}
					}
				}
			}
		case *ast.ExprStmt:
			if ta, ok := a.X.(*ast.TypeAssertExpr); ok && ta.Type == nil {
				subj = ta.X
			}
		}
		id, _ := subj.(*ast.Ident)
		if id == nil || t.names[id.Name] == "" {
			return t.unknownS(s)
		}
		tv := "(.v " + q(t.names[id.Name]+".type") + ")"
		return t.caseChain(x.Body.List, func(e ast.Expr) string {
			return "(.cmp \"==\" " + tv + " (.strLit " + q(t.flat(e)) + "))"
		}, s)
	case *ast.BlockStmt:
		return []string{"S.ite (.cmp \"==\" (.num 0) (.num 0))\n    " + t.block(x.List) + "\n    B.nil"}
	}
	return t.unknownS(s)
}

// caseChain turns the clauses of a switch into an if / else-if chain (no clause here falls through
// or breaks out of the switch: a `break` directly inside a clause is reported as unknown).
func (t *tr) caseChain(clauses []ast.Stmt, cond func(ast.Expr) string, whole ast.Stmt) []string {
	type arm struct {
		c, body string
	}
	var arms []arm
	def := "B.nil"
	for _, cl := range clauses {
		cc, ok := cl.(*ast.CaseClause)
		if !ok {
			return t.unknownS(whole)
		}
		for _, b := range cc.Body {
			if br, ok := b.(*ast.BranchStmt); ok && (br.Tok == token.BREAK || br.Tok == token.FALLTHROUGH) {
				return t.unknownS(whole)
			}
		}
		if cc.List == nil {
			def = t.block(cc.Body)
			continue
		}
		c := cond(cc.List[0])
		for _, e := range cc.List[1:] {
			c = "(.or " + c + " " + cond(e) + ")"
		}
		arms = append(arms, arm{c, t.block(cc.Body)})
	}
	// a default clause is last in the code at hand; if it is not, the order of evaluation is the same
	// (the labels are constants), so the chain is still the switch
	if len(arms) == 0 {
		return []string{"S.ite (.cmp \"==\" (.num 0) (.num 0))\n    " + def + "\n    B.nil"}
	}
	els := def
	st := ""
	for i := len(arms) - 1; i >= 0; i-- {
		st = "S.ite " + arms[i].c + "\n    " + arms[i].body + "\n    " + els
		els = "(" + st + " ;; B.nil)"
	}
	return []string{st}
}

func genLang(c *ex.Ctx) {
	var sb strings.Builder
	drawText := ""
	sb.WriteString("import VaxisModel.Model.EdLang\n\n/-! The functions of vxfw/textfield/textfield.go and widgets/textinput/textinput.go, translated statement by\n    statement (receiver tf / m, parameters p0 …, locals l0 … in order of declaration). -/\nnamespace VaxisModel.Gen.EditorLang\nopen VaxisModel.Model.EdLang\n\n")
	emit := func(f *ast.File, file, recvT, canon, name, lean string) {
		fmt.Fprintf(&sb, "/-- `%s` (%s) -/\ndef %s : Fn :=\n", name, file, lean)
		var fd *ast.FuncDecl
		if f != nil {
			fd = ex.FindFunc(f, recvT, name)
		}
		if fd == nil || fd.Body == nil {
			fmt.Fprintf(&sb, "  Fn.missing %s\n\n", q("func "+name+" not found in "+file))
			return
		}
		t := &tr{c: c, canon: canon, names: map[string]string{}, drawn: map[string]bool{}}
		if fd.Recv != nil && len(fd.Recv.List) > 0 && len(fd.Recv.List[0].Names) > 0 {
			t.recv = fd.Recv.List[0].Names[0].Name
		}
		var params []string
		if fd.Type.Params != nil {
			for _, fl := range fd.Type.Params.List {
				for _, n := range fl.Names {
					cn := fmt.Sprintf("p%d", len(params))
					t.names[n.Name] = cn
					params = append(params, q(cn))
				}
			}
		}
		body := t.block(fd.Body.List)
		if name == "Draw" && recvT == "TextField" {
			drawText = body
		}
		fmt.Fprintf(&sb, "  ⟨[%s],\n    %s⟩\n\n", strings.Join(params, ", "), body)
	}
	tf := c.Parse("vxfw/textfield/textfield.go")
	for _, fn := range []string{"HandleEvent", "checkChanged", "Reset", "InsertStringAtCursor", "CursorTo", "DeleteCharRightOfCursor",
		"DeleteCharLeftOfCursor", "DeleteCursorToEndOfLine", "insertStringAtCursor", "Draw"} {
		nm := "tf" + strings.ToUpper(fn[:1]) + fn[1:]
		if fn == "insertStringAtCursor" {
			nm = "tfInsertLoop"
		}
		emit(tf, "vxfw/textfield/textfield.go", "TextField", "tf", fn, nm)
	}
	emit(tf, "vxfw/textfield/textfield.go", "", "tf", "graphemeCountInString", "tfGraphemeCount")
	ti := c.Parse("widgets/textinput/textinput.go")
	for _, fn := range []string{"SetContent", "Update", "resegment", "String", "CursorPosition"} {
		emit(ti, "widgets/textinput/textinput.go", "Model", "m", fn, "ti"+strings.ToUpper(fn[:1])+fn[1:])
	}
	emit(ti, "widgets/textinput/textinput.go", "", "m", "isAlphaNumeric", "tiIsAlphaNumeric")
	emit(ti, "widgets/textinput/textinput.go", "", "m", "widthToCursor", "tiWidthToCursor")
	// the variable Draw keeps the cursor column in: the left side of its `….Cursor.Col = …` assignments
	key := "unknown"
	if m := regexp.MustCompile(`S\.assign "([^"]*\.Cursor\.Col)"`).FindStringSubmatch(drawText); m != nil {
		key = m[1]
	}
	fmt.Fprintf(&sb, "/-- where `TextField.Draw` keeps the cursor column -/\ndef tfDrawCursorKey : String := %s\n\n", q(key))
	sb.WriteString("end VaxisModel.Gen.EditorLang\n")
	c.Write("EditorLang.lean", sb.String())
}
