// Extractor for C17: Gen/EditorKeys.lean — which key strings / Matches patterns reach which arm of
// textinput.Update and TextField.HandleEvent, in source order, and the scrolloff constants.
package main

import (
	"fmt"
	"go/ast"
	"go/token"
	"strconv"
	"strings"

	"verifextract/ex"
)

func main() { ex.Main([]string{"EditorKeys.lean"}, gen) }

func gen(c *ex.Ctx) {
	var sb strings.Builder
	sb.WriteString("namespace VaxisModel.Gen.EditorKeys\n\n")

	// ---- widgets/textinput: switch msg.String() ----
	f := c.Parse("widgets/textinput/textinput.go")
	if f == nil {
		return
	}
	upd := ex.FindFunc(f, "Model", "Update")
	if upd == nil {
		c.Fail("textinput.go: func (*Model) Update not found")
		return
	}
	var sw *ast.SwitchStmt
	ast.Inspect(upd.Body, func(n ast.Node) bool {
		if s, ok := n.(*ast.SwitchStmt); ok && s.Tag != nil && c.Src(s.Tag) == "msg.String()" {
			sw = s
			return false
		}
		return true
	})
	if sw == nil {
		c.Fail("textinput.go: `switch msg.String()` not found in Update")
		return
	}
	sb.WriteString("/-- case labels of `switch msg.String()` in textinput.Update, in source order (`[]` = default) -/\n")
	sb.WriteString("def updateCases : List (List String) := [\n")
	var guards []string
	for i, st := range sw.Body.List {
		cc, ok := st.(*ast.CaseClause)
		if !ok {
			c.Fail("textinput.go: unexpected statement in switch")
			return
		}
		var labels []string
		for _, e := range cc.List {
			bl, ok := e.(*ast.BasicLit)
			if !ok || bl.Kind != token.STRING {
				c.Fail("%s: case label is not a string literal", c.Pos(e))
				return
			}
			s, _ := strconv.Unquote(bl.Value)
			labels = append(labels, ex.LeanStr(s))
		}
		if cc.List == nil {
			// default arm: the modifier guards, in order
			for _, b := range cc.Body {
				ifs, ok := b.(*ast.IfStmt)
				if !ok {
					continue
				}
				src := c.Src(ifs.Cond)
				if strings.HasPrefix(src, "msg.Modifiers&") {
					guards = append(guards, ex.LeanStr(src))
				}
			}
		}
		sep := ","
		if i == len(sw.Body.List)-1 {
			sep = ""
		}
		fmt.Fprintf(&sb, "  [%s]%s\n", strings.Join(labels, ", "), sep)
	}
	sb.WriteString("]\n\n")
	fmt.Fprintf(&sb, "/-- the `return` guards of the default arm, in order -/\ndef updateDefaultGuards : List String := [%s]\n\n", strings.Join(guards, ", "))
	if v, ok := ex.FindVarValue(f, "scrolloff").(*ast.BasicLit); ok {
		fmt.Fprintf(&sb, "def textinputScrolloff : Nat := %s\n\n", v.Value)
	} else {
		c.Fail("textinput.go: const scrolloff not a literal")
	}
	// the scroll loop condition of Draw
	drw := ex.FindFunc(f, "Model", "Draw")
	if drw == nil {
		c.Fail("textinput.go: Draw not found")
		return
	}
	var loops []string
	ast.Inspect(drw.Body, func(n ast.Node) bool {
		if fs, ok := n.(*ast.ForStmt); ok && fs.Init == nil && fs.Post == nil && fs.Cond != nil {
			loops = append(loops, ex.LeanStr(c.Src(fs.Cond)))
		}
		return true
	})
	fmt.Fprintf(&sb, "/-- conditions of the `for cond { … }` loops of textinput.Draw -/\ndef drawLoopConds : List String := [%s]\n\n", strings.Join(loops, ", "))

	// ---- vxfw/textfield: HandleEvent ----
	g := c.Parse("vxfw/textfield/textfield.go")
	if g == nil {
		return
	}
	he := ex.FindFunc(g, "TextField", "HandleEvent")
	if he == nil {
		c.Fail("textfield.go: HandleEvent not found")
		return
	}
	var keyCase *ast.CaseClause
	ast.Inspect(he.Body, func(n ast.Node) bool {
		if cc, ok := n.(*ast.CaseClause); ok && len(cc.List) == 1 && c.Src(cc.List[0]) == "vaxis.Key" {
			keyCase = cc
			return false
		}
		return true
	})
	if keyCase == nil {
		c.Fail("textfield.go: `case vaxis.Key:` not found")
		return
	}
	sb.WriteString("/-- the `if` chain of TextField.HandleEvent for a vaxis.Key, in source order: (condition, first call on tf in the body) -/\n")
	sb.WriteString("def handleEventBindings : List (String × String) := [\n")
	var rows []string
	for _, st := range keyCase.Body {
		ifs, ok := st.(*ast.IfStmt)
		if !ok {
			c.Fail("%s: unexpected statement in the key case of HandleEvent", c.Pos(st))
			return
		}
		first := ""
		ast.Inspect(ifs.Body, func(n ast.Node) bool {
			if first != "" {
				return false
			}
			if ce, ok := n.(*ast.CallExpr); ok {
				if se, ok := ce.Fun.(*ast.SelectorExpr); ok {
					if id, ok := se.X.(*ast.Ident); ok && id.Name == "tf" && se.Sel.Name != "checkChanged" {
						first = c.Src(ce)
						return false
					}
				}
			}
			return true
		})
		rows = append(rows, fmt.Sprintf("  (%s, %s)", ex.LeanStr(c.Src(ifs.Cond)), ex.LeanStr(first)))
	}
	sb.WriteString(strings.Join(rows, ",\n"))
	sb.WriteString("\n]\n\n")
	sb.WriteString("end VaxisModel.Gen.EditorKeys\n")
	c.Write("EditorKeys.lean", sb.String())
}
