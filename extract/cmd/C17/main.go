// Extractor for C17: Gen/EditorKeys.lean — which key strings / Matches patterns reach which arm of
// textinput.Update and TextField.HandleEvent, in source order, and the scrolloff constants.
package main

import (
	"fmt"
	"go/ast"
	"go/scanner"
	"go/token"
	"strconv"
	"strings"

	"verifextract/ex"
)

func main() {
	ex.Main([]string{"EditorKeys.lean", "EditorBodies.lean", "EditorLang.lean"}, func(c *ex.Ctx) { gen(c); genBodies(c); genLang(c) })
}

func gen(c *ex.Ctx) {
	var sb strings.Builder
	sb.WriteString("namespace VaxisModel.Gen.EditorKeys\n\n")

	// ---- widgets/textinput: switch msg.String() ----
	f := c.Parse("widgets/textinput/textinput.go")
	if f == nil {
		return
	}
	upd := ex.FindFunc(f, "Model", "Update")
	if upd == nil {
		c.Fail("textinput.go: func (*Model) Update not found")
		return
	}
	var sw *ast.SwitchStmt
	ast.Inspect(upd.Body, func(n ast.Node) bool {
		if s, ok := n.(*ast.SwitchStmt); ok && s.Tag != nil && c.Src(s.Tag) == "msg.String()" {
			sw = s
			return false
		}
		return true
	})
	if sw == nil {
		c.Fail("textinput.go: `switch msg.String()` not found in Update")
		return
	}
	sb.WriteString("/-- case labels of `switch msg.String()` in textinput.Update, in source order (`[]` = default) -/\n")
	sb.WriteString("def updateCases : List (List String) := [\n")
	var guards []string
	for i, st := range sw.Body.List {
		cc, ok := st.(*ast.CaseClause)
		if !ok {
			c.Fail("textinput.go: unexpected statement in switch")
			return
		}
		var labels []string
		for _, e := range cc.List {
			bl, ok := e.(*ast.BasicLit)
			if !ok || bl.Kind != token.STRING {
				c.Fail("%s: case label is not a string literal", c.Pos(e))
				return
			}
			s, _ := strconv.Unquote(bl.Value)
			labels = append(labels, ex.LeanStr(s))
		}
		if cc.List == nil {
			// default arm: the modifier guards, in order
			for _, b := range cc.Body {
				ifs, ok := b.(*ast.IfStmt)
				if !ok {
					continue
				}
				src := c.Src(ifs.Cond)
				if strings.HasPrefix(src, "msg.Modifiers&") {
					guards = append(guards, ex.LeanStr(src))
				}
			}
		}
		sep := ","
		if i == len(sw.Body.List)-1 {
			sep = ""
		}
		fmt.Fprintf(&sb, "  [%s]%s\n", strings.Join(labels, ", "), sep)
	}
	sb.WriteString("]\n\n")
	fmt.Fprintf(&sb, "/-- the `return` guards of the default arm, in order -/\ndef updateDefaultGuards : List String := [%s]\n\n", strings.Join(guards, ", "))
	if v, ok := ex.FindVarValue(f, "scrolloff").(*ast.BasicLit); ok {
		fmt.Fprintf(&sb, "def textinputScrolloff : Nat := %s\n\n", v.Value)
	} else {
		c.Fail("textinput.go: const scrolloff not a literal")
	}
	// the scroll loop condition of Draw
	drw := ex.FindFunc(f, "Model", "Draw")
	if drw == nil {
		c.Fail("textinput.go: Draw not found")
		return
	}
	var loops []string
	ast.Inspect(drw.Body, func(n ast.Node) bool {
		if fs, ok := n.(*ast.ForStmt); ok && fs.Init == nil && fs.Post == nil && fs.Cond != nil {
			loops = append(loops, ex.LeanStr(c.Src(fs.Cond)))
		}
		return true
	})
	fmt.Fprintf(&sb, "/-- conditions of the `for cond { … }` loops of textinput.Draw -/\ndef drawLoopConds : List String := [%s]\n\n", strings.Join(loops, ", "))

	// ---- vxfw/textfield: HandleEvent ----
	g := c.Parse("vxfw/textfield/textfield.go")
	if g == nil {
		return
	}
	he := ex.FindFunc(g, "TextField", "HandleEvent")
	if he == nil {
		c.Fail("textfield.go: HandleEvent not found")
		return
	}
	var keyCase *ast.CaseClause
	ast.Inspect(he.Body, func(n ast.Node) bool {
		if cc, ok := n.(*ast.CaseClause); ok && len(cc.List) == 1 && c.Src(cc.List[0]) == "vaxis.Key" {
			keyCase = cc
			return false
		}
		return true
	})
	if keyCase == nil {
		c.Fail("textfield.go: `case vaxis.Key:` not found")
		return
	}
	sb.WriteString("/-- the `if` chain of TextField.HandleEvent for a vaxis.Key, in source order: (condition, first call on tf in the body) -/\n")
	sb.WriteString("def handleEventBindings : List (String × String) := [\n")
	var rows []string
	for _, st := range keyCase.Body {
		ifs, ok := st.(*ast.IfStmt)
		if !ok {
			c.Fail("%s: unexpected statement in the key case of HandleEvent", c.Pos(st))
			return
		}
		first := ""
		ast.Inspect(ifs.Body, func(n ast.Node) bool {
			if first != "" {
				return false
			}
			if ce, ok := n.(*ast.CallExpr); ok {
				if se, ok := ce.Fun.(*ast.SelectorExpr); ok {
					if id, ok := se.X.(*ast.Ident); ok && id.Name == "tf" && se.Sel.Name != "checkChanged" {
						first = c.Src(ce)
						return false
					}
				}
			}
			return true
		})
		rows = append(rows, fmt.Sprintf("  (%s, %s)", ex.LeanStr(c.Src(ifs.Cond)), ex.LeanStr(first)))
	}
	sb.WriteString(strings.Join(rows, ",\n"))
	sb.WriteString("\n]\n\n")
	sb.WriteString("end VaxisModel.Gen.EditorKeys\n")
	c.Write("EditorKeys.lean", sb.String())
}

// ---- Gen/EditorBodies.lean: statement skeletons of the functions the models transcribe ----

// curNames: the variables of the function being printed (receiver, parameters, locals in order of
// declaration) and their canonical names; the statement texts are printed with these substituted, so
// that renaming a variable is silent (round 4).
var curNames map[string]string

// localNames collects the function's own variables in order of declaration.
func localNames(fd *ast.FuncDecl, recvCanon string) map[string]string {
	m := map[string]string{}
	np, nl := 0, 0
	add := func(id *ast.Ident, param bool) {
		if id == nil || id.Name == "_" {
			return
		}
		if _, ok := m[id.Name]; ok {
			return
		}
		if param {
			m[id.Name] = fmt.Sprintf("p%d", np)
			np++
		} else {
			m[id.Name] = fmt.Sprintf("l%d", nl)
			nl++
		}
	}
	if fd.Recv != nil && len(fd.Recv.List) > 0 && len(fd.Recv.List[0].Names) > 0 && recvCanon != "" {
		m[fd.Recv.List[0].Names[0].Name] = recvCanon
	}
	if fd.Type.Params != nil {
		for _, f := range fd.Type.Params.List {
			for _, n := range f.Names {
				add(n, true)
			}
		}
	}
	ast.Inspect(fd.Body, func(n ast.Node) bool {
		switch x := n.(type) {
		case *ast.AssignStmt:
			if x.Tok == token.DEFINE {
				for _, l := range x.Lhs {
					if id, ok := l.(*ast.Ident); ok {
						add(id, false)
					}
				}
			}
		case *ast.ValueSpec:
			for _, id := range x.Names {
				add(id, false)
			}
		case *ast.RangeStmt:
			if x.Tok == token.DEFINE {
				if id, ok := x.Key.(*ast.Ident); ok {
					add(id, false)
				}
				if id, ok := x.Value.(*ast.Ident); ok {
					add(id, false)
				}
			}
		}
		return true
	})
	return m
}

// canonText substitutes the canonical names into a piece of source text: identifiers that are not
// selected fields (`x.f`) and not keys of a composite literal (`f: v`).
func canonText(src string) string {
	if len(curNames) == 0 {
		return src
	}
	fset := token.NewFileSet()
	file := fset.AddFile("", fset.Base(), len(src))
	var sc scanner.Scanner
	sc.Init(file, []byte(src), nil, 0)
	type tk struct {
		off int
		tok token.Token
		lit string
	}
	var toks []tk
	for {
		pos, tok, lit := sc.Scan()
		if tok == token.EOF {
			break
		}
		toks = append(toks, tk{file.Offset(pos), tok, lit})
	}
	out := src
	for i := len(toks) - 1; i >= 0; i-- {
		t := toks[i]
		if t.tok != token.IDENT {
			continue
		}
		cn, ok := curNames[t.lit]
		if !ok {
			continue
		}
		if i > 0 && toks[i-1].tok == token.PERIOD {
			continue
		}
		if i+1 < len(toks) && toks[i+1].tok == token.COLON {
			continue
		}
		out = out[:t.off] + cn + out[t.off+len(t.lit):]
	}
	return out
}


// skel flattens a statement into lines: control statements become "if COND {" … "}" / "for … {" … "}"
// with their bodies flattened in between, every other statement is its source text with white space
// collapsed.  Statement kinds it does not know are emitted as their source text (never a crash).
func skel(c *ex.Ctx, st ast.Stmt, out *[]string) {
	flat := func(n ast.Node) string { return strings.Join(strings.Fields(canonText(c.Src(n))), " ") }
	block := func(b *ast.BlockStmt) {
		if b == nil {
			return
		}
		for _, x := range b.List {
			skel(c, x, out)
		}
	}
	switch x := st.(type) {
	case *ast.IfStmt:
		h := "if "
		if x.Init != nil {
			h += flat(x.Init) + "; "
		}
		*out = append(*out, h+flat(x.Cond)+" {")
		block(x.Body)
		switch e := x.Else.(type) {
		case nil:
		case *ast.BlockStmt:
			*out = append(*out, "} else {")
			block(e)
		default:
			*out = append(*out, "} else")
			skel(c, e, out)
			return
		}
		*out = append(*out, "}")
	case *ast.ForStmt:
		h := "for"
		if x.Init != nil || x.Post != nil {
			i, p, cd := "", "", ""
			if x.Init != nil {
				i = flat(x.Init)
			}
			if x.Cond != nil {
				cd = flat(x.Cond)
			}
			if x.Post != nil {
				p = flat(x.Post)
			}
			h += " " + i + "; " + cd + "; " + p
		} else if x.Cond != nil {
			h += " " + flat(x.Cond)
		}
		*out = append(*out, h+" {")
		block(x.Body)
		*out = append(*out, "}")
	case *ast.RangeStmt:
		k, v := "_", "_"
		if x.Key != nil {
			k = flat(x.Key)
		}
		if x.Value != nil {
			v = flat(x.Value)
		}
		*out = append(*out, "for "+k+", "+v+" := range "+flat(x.X)+" {")
		block(x.Body)
		*out = append(*out, "}")
	case *ast.SwitchStmt:
		h := "switch"
		if x.Tag != nil {
			h += " " + flat(x.Tag)
		}
		*out = append(*out, h+" {")
		block(x.Body)
		*out = append(*out, "}")
	case *ast.TypeSwitchStmt:
		*out = append(*out, "switch "+flat(x.Assign)+" {")
		block(x.Body)
		*out = append(*out, "}")
	case *ast.CaseClause:
		if x.List == nil {
			*out = append(*out, "default:")
		} else {
			var ls []string
			for _, e := range x.List {
				ls = append(ls, flat(e))
			}
			*out = append(*out, "case "+strings.Join(ls, ", ")+":")
		}
		for _, b := range x.Body {
			skel(c, b, out)
		}
	case *ast.BlockStmt:
		*out = append(*out, "{")
		block(x)
		*out = append(*out, "}")
	default:
		*out = append(*out, flat(st))
	}
}

// writes collects, in source order, what a method does to its receiver's state: every assignment or
// ++/-- whose left side is a field of the receiver, every call of a receiver method used as a
// statement (also deferred), every `return`, the `case` labels that delimit switch arms — and every
// loop in full (skel).  Guards outside loops are not recorded: rewriting one is not a change of the
// bookkeeping (the correspondence run judges behaviour), dropping or changing a state update is.
func writes(c *ex.Ctx, recv string, st ast.Stmt, out *[]string) {
	flat := func(n ast.Node) string { return strings.Join(strings.Fields(canonText(c.Src(n))), " ") }
	onRecv := func(e ast.Expr) bool {
		for {
			switch x := e.(type) {
			case *ast.SelectorExpr:
				if id, ok := x.X.(*ast.Ident); ok && id.Name == recv {
					return true
				}
				e = x.X
			case *ast.IndexExpr:
				e = x.X
			default:
				return false
			}
		}
	}
	recvCall := func(e ast.Expr) bool {
		ce, ok := e.(*ast.CallExpr)
		if !ok {
			return false
		}
		se, ok := ce.Fun.(*ast.SelectorExpr)
		if !ok {
			return false
		}
		id, ok := se.X.(*ast.Ident)
		return ok && id.Name == recv
	}
	list := func(l []ast.Stmt) {
		for _, x := range l {
			writes(c, recv, x, out)
		}
	}
	switch x := st.(type) {
	case *ast.ForStmt, *ast.RangeStmt:
		skel(c, st, out)
	case *ast.IfStmt:
		if x.Body != nil {
			list(x.Body.List)
		}
		if x.Else != nil {
			writes(c, recv, x.Else, out)
		}
	case *ast.BlockStmt:
		list(x.List)
	case *ast.SwitchStmt:
		if x.Body != nil {
			list(x.Body.List)
		}
	case *ast.TypeSwitchStmt:
		if x.Body != nil {
			list(x.Body.List)
		}
	case *ast.CaseClause:
		if x.List == nil {
			*out = append(*out, "default:")
		} else {
			var ls []string
			for _, e := range x.List {
				ls = append(ls, flat(e))
			}
			*out = append(*out, "case "+strings.Join(ls, ", ")+":")
		}
		list(x.Body)
	case *ast.AssignStmt:
		for _, l := range x.Lhs {
			if onRecv(l) {
				*out = append(*out, flat(st))
				return
			}
		}
		for _, r := range x.Rhs {
			if recvCall(r) {
				*out = append(*out, flat(st))
				return
			}
		}
	case *ast.IncDecStmt:
		if onRecv(x.X) {
			*out = append(*out, flat(st))
		}
	case *ast.ExprStmt:
		if recvCall(x.X) {
			*out = append(*out, flat(st))
		}
	case *ast.DeferStmt:
		if recvCall(x.Call) {
			*out = append(*out, flat(st))
		}
	case *ast.ReturnStmt:
		*out = append(*out, flat(st))
	}
}

func genBodies(c *ex.Ctx) {
	var sb strings.Builder
	sb.WriteString("namespace VaxisModel.Gen.EditorBodies\n\n")
	emit := func(name, doc string, lines []string) {
		fmt.Fprintf(&sb, "/-- %s -/\ndef %s : List String := [\n", doc, name)
		for i, l := range lines {
			sep := ","
			if i == len(lines)-1 {
				sep = ""
			}
			fmt.Fprintf(&sb, "  %s%s\n", ex.LeanStr(l), sep)
		}
		sb.WriteString("]\n\n")
	}
	body := func(f *ast.File, file, recv, name string) []string {
		if f == nil {
			return []string{"unknown: " + file + " does not parse"}
		}
		fd := ex.FindFunc(f, recv, name)
		if fd == nil || fd.Body == nil {
			return []string{"unknown: func " + name + " not found in " + file}
		}
		var out []string
		canon := ""
		if recv == "TextField" {
			canon = "tf"
		} else if recv == "Model" {
			canon = "m"
		}
		curNames = localNames(fd, canon)
		defer func() { curNames = nil }()
		if recv == "" {
			for _, st := range fd.Body.List {
				skel(c, st, &out)
			}
			return out
		}
		rn := ""
		if fd.Recv != nil && len(fd.Recv.List) > 0 && len(fd.Recv.List[0].Names) > 0 {
			rn = fd.Recv.List[0].Names[0].Name
		}
		if rn == "" {
			return []string{"unknown: func " + name + " has no named receiver"}
		}
		for _, st := range fd.Body.List {
			writes(c, rn, st, &out)
		}
		return out
	}
	tf := c.Parse("vxfw/textfield/textfield.go")
	for _, fn := range []string{"HandleEvent", "checkChanged", "Reset", "InsertStringAtCursor", "CursorTo", "DeleteCharRightOfCursor",
		"DeleteCharLeftOfCursor", "DeleteCursorToEndOfLine", "Draw", "insertStringAtCursor"} {
		nm := "tf" + strings.ToUpper(fn[:1]) + fn[1:]
		if fn == "insertStringAtCursor" {
			nm = "tfInsertLoop"
		}
		emit(nm, "state writes, receiver calls, returns and loops of TextField."+fn+" (vxfw/textfield/textfield.go), in source order", body(tf, "textfield.go", "TextField", fn))
	}
	emit("tfGraphemeCount", "statement skeleton of graphemeCountInString", body(tf, "textfield.go", "", "graphemeCountInString"))
	ti := c.Parse("widgets/textinput/textinput.go")
	for _, fn := range []string{"SetContent", "Update", "resegment", "Draw"} {
		emit("ti"+strings.ToUpper(fn[:1])+fn[1:], "state writes, receiver calls, returns and loops of textinput.Model."+fn+" (widgets/textinput/textinput.go), in source order", body(ti, "textinput.go", "Model", fn))
	}
	emit("tiIsAlphaNumeric", "statement skeleton of isAlphaNumeric", body(ti, "textinput.go", "", "isAlphaNumeric"))
	emit("tiWidthToCursor", "statement skeleton of widthToCursor", body(ti, "textinput.go", "", "widthToCursor"))
	sb.WriteString("end VaxisModel.Gen.EditorBodies\n")
	c.Write("EditorBodies.lean", sb.String())
}
