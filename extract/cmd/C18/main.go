// Extractor for C18 (shared with the renderer properties): Gen/Sequences.lean and Gen/SgrCases.lean.
//
// Gen/Sequences.lean: every string const/var and every integer const (mode numbers) of sequences.go,
// the string consts of styled_string.go, and for every string of the shape `ESC [ params m` (an SGR
// sequence, possibly with %d verbs) its parsed parameter template.
//
// Gen/SgrCases.lean: attribute bits / underline styles of style.go; the first-parameter `case` labels,
// sub-parameter arities and `4:n` sub-labels of the three SGR consumers (cell.go parseSGR,
// styled_string.go NewStyledString, widgets/term/sgr.go sgr); the ordered list of sequence constants
// each of the three producers references (cell.go EncodeCells, styled_string.go Encode, vaxis.go render)
// and the mutation sites of the SGR format variables (quirks.go).
//
// Fails closed on any shape it does not recognise.
package main

import (
	"fmt"
	"go/ast"
	"go/token"
	"sort"
	"strconv"
	"strings"

	"verifextract/ex"
)

func main() { ex.Main([]string{"Sequences.lean", "SgrCases.lean"}, gen) }

type strConst struct {
	name, val, file string
	isVar           bool
}
type intConst struct {
	name string
	val  int64
}

// piece of an SGR template sub-parameter: a decimal digit or a %d hole
type piece struct {
	hole  bool
	digit int
}

func sep(i, n int) string {
	if i == n-1 {
		return ""
	}
	return ","
}

// collectConsts returns the string and int constants/variables declared at top level of f, in source order.
func collectConsts(c *ex.Ctx, f *ast.File, file string) (ss []strConst, is []intConst) {
	for _, d := range f.Decls {
		gd, ok := d.(*ast.GenDecl)
		if !ok || (gd.Tok != token.CONST && gd.Tok != token.VAR) {
			continue
		}
		for _, s := range gd.Specs {
			vs, ok := s.(*ast.ValueSpec)
			if !ok {
				continue
			}
			for i, n := range vs.Names {
				if i >= len(vs.Values) {
					continue
				}
				bl, ok := vs.Values[i].(*ast.BasicLit)
				if !ok {
					if file == "sequences.go" {
						c.Fail("%s: %s is not a literal", c.Pos(vs), n.Name)
					}
					continue
				}
				switch bl.Kind {
				case token.STRING:
					v, err := strconv.Unquote(bl.Value)
					if err != nil {
						c.Fail("%s: %v", c.Pos(bl), err)
						continue
					}
					ss = append(ss, strConst{n.Name, v, file, gd.Tok == token.VAR})
				case token.INT:
					v, err := strconv.ParseInt(bl.Value, 0, 64)
					if err != nil {
						c.Fail("%s: %v", c.Pos(bl), err)
						continue
					}
					is = append(is, intConst{n.Name, v})
				default:
					if file == "sequences.go" {
						c.Fail("%s: %s has an unexpected literal kind", c.Pos(bl), n.Name)
					}
				}
			}
		}
	}
	return
}

// sgrTemplate parses `ESC [ params m` where params are made of digits, ';', ':' and `%d`.
// ok=false if the string is not of that shape.
func sgrTemplate(s string) (t [][][]piece, ok bool) {
	if !strings.HasPrefix(s, "\x1b[") || !strings.HasSuffix(s, "m") || len(s) < 3 {
		return nil, false
	}
	body := s[2 : len(s)-1]
	if body == "" {
		return [][][]piece{}, true
	}
	for _, p := range strings.Split(body, ";") {
		var param [][]piece
		for _, sub := range strings.Split(p, ":") {
			var ps []piece
			for i := 0; i < len(sub); i++ {
				ch := sub[i]
				switch {
				case ch >= '0' && ch <= '9':
					ps = append(ps, piece{digit: int(ch - '0')})
				case ch == '%' && i+1 < len(sub) && sub[i+1] == 'd':
					ps = append(ps, piece{hole: true})
					i++
				default:
					return nil, false
				}
			}
			param = append(param, ps)
		}
		t = append(t, param)
	}
	return t, true
}

func leanTemplate(t [][][]piece) string {
	var sb strings.Builder
	sb.WriteString("[")
	for i, p := range t {
		if i > 0 {
			sb.WriteString(", ")
		}
		sb.WriteString("[")
		for j, sub := range p {
			if j > 0 {
				sb.WriteString(", ")
			}
			sb.WriteString("[")
			for k, pc := range sub {
				if k > 0 {
					sb.WriteString(", ")
				}
				if pc.hole {
					sb.WriteString(".hole")
				} else {
					fmt.Fprintf(&sb, ".d %d", pc.digit)
				}
			}
			sb.WriteString("]")
		}
		sb.WriteString("]")
	}
	sb.WriteString("]")
	return sb.String()
}

func gen(c *ex.Ctx) {
	fSeq := c.Parse("sequences.go")
	fSS := c.Parse("styled_string.go")
	fCell := c.Parse("cell.go")
	fStyle := c.Parse("style.go")
	fVx := c.Parse("vaxis.go")
	fSgr := c.Parse("widgets/term/sgr.go")
	fQuirks := c.Parse("quirks.go")
	if fSeq == nil || fSS == nil || fCell == nil || fStyle == nil || fVx == nil || fSgr == nil || fQuirks == nil {
		return
	}
	strs, ints := collectConsts(c, fSeq, "sequences.go")
	ssStrs, _ := collectConsts(c, fSS, "styled_string.go")
	strs = append(strs, ssStrs...)
	if len(strs) < 60 || len(ints) < 10 {
		c.Fail("sequences.go: unexpectedly few constants (%d strings, %d ints)", len(strs), len(ints))
		return
	}
	sgrNames := map[string]bool{}
	genSequences(c, strs, ints, sgrNames)
	genSgrCases(c, fCell, fSS, fStyle, fVx, fSgr, fQuirks, strs, sgrNames)
}

func genSequences(c *ex.Ctx, strs []strConst, ints []intConst, sgrNames map[string]bool) {
	var sb strings.Builder
	sb.WriteString("namespace VaxisModel.Gen.Sequences\n\n")
	sb.WriteString("/-- One character of an SGR template sub-parameter: a decimal digit or a `%d` verb. -/\n")
	sb.WriteString("inductive Piece where\n  | d (n : Nat)\n  | hole\n  deriving DecidableEq, Repr\n\n")
	sb.WriteString("/-- `ESC [ p ; p ; … m` with each parameter `p` a `:`-separated list of sub-parameters. -/\nabbrev Template := List (List (List Piece))\n\n")
	sb.WriteString("/-! String constants and variables of sequences.go and styled_string.go (Go name, value). -/\n")
	for _, s := range strs {
		fmt.Fprintf(&sb, "def «%s» : String := %s\n", s.name, ex.LeanStr(s.val))
	}
	sb.WriteString("\ndef strings : List (String × String) := [\n")
	for i, s := range strs {
		fmt.Fprintf(&sb, "  (%s, %s)%s\n", ex.LeanStr(s.name), ex.LeanStr(s.val), sep(i, len(strs)))
	}
	sb.WriteString("]\n\n/-- Names declared with `var` (mutable at run time: quirks). -/\ndef mutableStrings : List String := [")
	first := true
	for _, s := range strs {
		if s.isVar {
			if !first {
				sb.WriteString(", ")
			}
			first = false
			sb.WriteString(ex.LeanStr(s.name))
		}
	}
	sb.WriteString("]\n\n/-! Integer constants of sequences.go (private mode numbers, DSR codes). -/\n")
	for _, k := range ints {
		fmt.Fprintf(&sb, "def «%s» : Nat := %d\n", k.name, k.val)
	}
	sb.WriteString("\ndef numbers : List (String × Nat) := [")
	for i, k := range ints {
		fmt.Fprintf(&sb, "(%s, %d)%s", ex.LeanStr(k.name), k.val, sep(i, len(ints)))
	}
	sb.WriteString("]\n\n/-! Parsed parameter templates of every string of the shape `ESC [ params m`. -/\n")
	var tn []string
	for _, s := range strs {
		t, ok := sgrTemplate(s.val)
		if !ok {
			continue
		}
		sgrNames[s.name] = true
		tn = append(tn, s.name)
		fmt.Fprintf(&sb, "def «%s_t» : Template := %s\n", s.name, leanTemplate(t))
	}
	sb.WriteString("\ndef sgrTemplates : List (String × Template) := [\n")
	for i, n := range tn {
		fmt.Fprintf(&sb, "  (%s, «%s_t»)%s\n", ex.LeanStr(n), n, sep(i, len(tn)))
	}
	sb.WriteString("]\n\nend VaxisModel.Gen.Sequences\n")
	if len(tn) < 25 {
		c.Fail("sequences.go: only %d SGR-shaped strings found", len(tn))
		return
	}
	c.Write("Sequences.lean", sb.String())
}

// ---- consumers -------------------------------------------------------------------------------

type arity struct {
	label  int
	lens   []int
	orMore bool // the last length stands for "that many or more" (an `if len(x) > n` test)
}

type consumer struct {
	name      string
	labels    []int
	arities   []arity
	ulSubs    []int // labels of the `4:n` sub-switch
	ulDefault bool  // the `4:n` sub-switch has a default clause
	ext       []extForm
	extUnk    []string // shapes under case 38 / 48 / 58 that were not recognised (degrades; `facts_ext_forms` then fails)
}

// extForm (round 4): the numbers in the body of `case 38 / 48 / 58` of the two [][]int consumers: the two bounds checks of the legacy
// form (`len(params[i:]) < N` before reading the selector, and under selector 2), the `i += K` jumps (selector 5, selector 2),
// and the selector each colon form (3, 5, 6 sub-parameters) insists on (`params[i][1] != V` ⇒ return).
type extForm struct {
	label                                            int
	legacyMin, rgbMin, idxSkip, rgbSkip, s3, s5, s6 int
}

// restLenLess recognises `len(params[i:]) < N`.
func restLenLess(c *ex.Ctx, e ast.Expr) (int, bool) {
	be, ok := e.(*ast.BinaryExpr)
	if !ok || be.Op != token.LSS || c.Src(be.X) != "len(params[i:])" {
		return 0, false
	}
	bl, ok := be.Y.(*ast.BasicLit)
	if !ok {
		return 0, false
	}
	n, err := strconv.Atoi(bl.Value)
	return n, err == nil
}

func returnsAtEnd(b *ast.BlockStmt) bool {
	if b == nil || len(b.List) == 0 {
		return false
	}
	_, ok := b.List[len(b.List)-1].(*ast.ReturnStmt)
	return ok
}

// skipOf finds `i += K` among the statements.
func skipOf(c *ex.Ctx, l []ast.Stmt) (int, bool) {
	for _, st := range l {
		as, ok := st.(*ast.AssignStmt)
		if ok && as.Tok == token.ADD_ASSIGN && len(as.Lhs) == 1 && c.Src(as.Lhs[0]) == "i" {
			if bl, ok := as.Rhs[0].(*ast.BasicLit); ok {
				n, err := strconv.Atoi(bl.Value)
				return n, err == nil
			}
		}
	}
	return 0, false
}

func extractExt(c *ex.Ctx, co *consumer, label int, lenSw *ast.SwitchStmt) {
	f := extForm{label: label}
	unk := func(format string, a ...any) {
		co.extUnk = append(co.extUnk, fmt.Sprintf("case %d: ", label)+fmt.Sprintf(format, a...))
	}
	for _, st := range lenSw.Body.List {
		cc := st.(*ast.CaseClause)
		if len(cc.List) != 1 {
			continue
		}
		n, _ := strconv.Atoi(c.Src(cc.List[0]))
		switch n {
		case 1:
			okMin, okSel := false, false
			for _, b := range cc.Body {
				switch s := b.(type) {
				case *ast.IfStmt:
					if k, ok := restLenLess(c, s.Cond); ok && returnsAtEnd(s.Body) && !okMin {
						f.legacyMin, okMin = k, true
					} else {
						unk("legacy form: unrecognised test `%s`", norm(c, s.Cond))
					}
				case *ast.SwitchStmt:
					if s.Tag == nil || c.Src(s.Tag) != "params[i+1][0]" {
						unk("legacy form: unrecognised switch `%s`", norm(c, s.Tag))
						continue
					}
					okSel = true
					for _, st2 := range s.Body.List {
						cc2 := st2.(*ast.CaseClause)
						if cc2.List == nil {
							if len(cc2.Body) == 0 {
								unk("legacy form: empty default clause")
							} else if _, ok := cc2.Body[len(cc2.Body)-1].(*ast.ReturnStmt); !ok {
								unk("legacy form: default clause does not return")
							}
							continue
						}
						if len(cc2.List) != 1 {
							unk("legacy form: multi-label selector clause")
							continue
						}
						switch c.Src(cc2.List[0]) {
						case "2":
							found := false
							for _, b2 := range cc2.Body {
								if is, ok := b2.(*ast.IfStmt); ok {
									if k, ok := restLenLess(c, is.Cond); ok && returnsAtEnd(is.Body) && !found {
										f.rgbMin, found = k, true
									} else {
										unk("legacy RGB form: unrecognised test `%s`", norm(c, is.Cond))
									}
								}
							}
							if !found {
								unk("legacy RGB form: no bounds check")
							}
							if k, ok := skipOf(c, cc2.Body); ok {
								f.rgbSkip = k
							} else {
								unk("legacy RGB form: no `i += K`")
							}
						case "5":
							for _, b2 := range cc2.Body {
								if is, ok := b2.(*ast.IfStmt); ok {
									unk("legacy index form: unexpected test `%s`", norm(c, is.Cond))
								}
							}
							if k, ok := skipOf(c, cc2.Body); ok {
								f.idxSkip = k
							} else {
								unk("legacy index form: no `i += K`")
							}
						default:
							unk("legacy form: selector %s", c.Src(cc2.List[0]))
						}
					}
				}
			}
			if !okMin {
				unk("legacy form: no bounds check before the selector")
			}
			if !okSel {
				unk("legacy form: no selector switch")
			}
		case 3, 5, 6:
			got := false
			for _, b := range cc.Body {
				if is, ok := b.(*ast.IfStmt); ok {
					be, ok := is.Cond.(*ast.BinaryExpr)
					if ok && be.Op == token.NEQ && c.Src(be.X) == "params[i][1]" && returnsAtEnd(is.Body) && !got {
						if v, err := strconv.Atoi(c.Src(be.Y)); err == nil {
							got = true
							switch n {
							case 3:
								f.s3 = v
							case 5:
								f.s5 = v
							case 6:
								f.s6 = v
							}
							continue
						}
					}
					unk("colon form with %d sub-parameters: unrecognised test `%s`", n, norm(c, is.Cond))
				}
			}
			if !got {
				unk("colon form with %d sub-parameters: no selector test", n)
			}
		}
	}
	co.ext = append(co.ext, f)
}

func labelOf(c *ex.Ctx, e ast.Expr, asString bool) (int, bool) {
	bl, ok := e.(*ast.BasicLit)
	if !ok {
		c.Fail("%s: case label %s is not a literal", c.Pos(e), c.Src(e))
		return 0, false
	}
	txt := bl.Value
	if asString {
		if bl.Kind != token.STRING {
			c.Fail("%s: case label %s is not a string literal", c.Pos(e), txt)
			return 0, false
		}
		s, err := strconv.Unquote(txt)
		if err != nil {
			c.Fail("%s: %v", c.Pos(e), err)
			return 0, false
		}
		n, err := strconv.Atoi(s)
		if err != nil || strconv.Itoa(n) != s || n < 0 {
			c.Fail("%s: string case label %q is not a canonical decimal number", c.Pos(e), s)
			return 0, false
		}
		return n, true
	}
	if bl.Kind != token.INT {
		c.Fail("%s: case label %s is not an integer literal", c.Pos(e), txt)
		return 0, false
	}
	n, err := strconv.Atoi(txt)
	if err != nil || n < 0 {
		c.Fail("%s: case label %s", c.Pos(e), txt)
		return 0, false
	}
	return n, true
}

// findSwitch finds the first switch statement under n whose tag prints as one of tags.
func findSwitch(c *ex.Ctx, n ast.Node, tags ...string) *ast.SwitchStmt {
	var res *ast.SwitchStmt
	ast.Inspect(n, func(m ast.Node) bool {
		if res != nil {
			return false
		}
		sw, ok := m.(*ast.SwitchStmt)
		if !ok || sw.Tag == nil {
			return true
		}
		src := c.Src(sw.Tag)
		for _, t := range tags {
			if src == t {
				res = sw
				return false
			}
		}
		return true
	})
	return res
}

func extractConsumer(c *ex.Ctx, fd *ast.FuncDecl, name, tag, lenTag, subTag string, asString bool) *consumer {
	if fd == nil {
		c.Fail("%s: function not found", name)
		return nil
	}
	sw := findSwitch(c, fd.Body, tag)
	if sw == nil {
		c.Fail("%s: no `switch %s`", name, tag)
		return nil
	}
	co := &consumer{name: name}
	for _, st := range sw.Body.List {
		cc := st.(*ast.CaseClause)
		if cc.List == nil {
			c.Fail("%s: `switch %s` has a default clause (not modelled)", c.Pos(cc), tag)
			return nil
		}
		var ls []int
		for _, e := range cc.List {
			n, ok := labelOf(c, e, asString)
			if !ok {
				return nil
			}
			ls = append(ls, n)
		}
		co.labels = append(co.labels, ls...)
		// arity: a `switch len(...)` directly in the clause body, or `if len(...) > k {…} else {…}`
		var ar *arity
		for _, b := range cc.Body {
			switch s := b.(type) {
			case *ast.SwitchStmt:
				if s.Tag != nil && c.Src(s.Tag) == lenTag {
					ar = &arity{}
					if !asString && len(ls) == 1 && (ls[0] == 38 || ls[0] == 48 || ls[0] == 58) {
						extractExt(c, co, ls[0], s)
					}
					for _, st2 := range s.Body.List {
						cc2 := st2.(*ast.CaseClause)
						if cc2.List == nil {
							c.Fail("%s: `switch %s` has a default clause (not modelled)", c.Pos(cc2), lenTag)
							return nil
						}
						for _, e := range cc2.List {
							n, ok := labelOf(c, e, false)
							if !ok {
								return nil
							}
							ar.lens = append(ar.lens, n)
						}
					}
				}
			case *ast.IfStmt:
				be, ok := s.Cond.(*ast.BinaryExpr)
				if ok && c.Src(be.X) == lenTag && be.Op == token.GTR {
					k, ok := labelOf(c, be.Y, false)
					if !ok {
						return nil
					}
					if s.Else == nil {
						c.Fail("%s: `if %s > %d` without else (not modelled)", c.Pos(s), lenTag, k)
						return nil
					}
					ar = &arity{orMore: true}
					for i := 1; i <= k+1; i++ {
						ar.lens = append(ar.lens, i)
					}
				}
			}
		}
		if ar != nil {
			if len(ls) != 1 {
				c.Fail("%s: arity switch under a multi-label case", c.Pos(cc))
				return nil
			}
			ar.label = ls[0]
			co.arities = append(co.arities, *ar)
			if ls[0] == 4 {
				sub := findSwitch(c, cc, subTag)
				if sub == nil {
					c.Fail("%s: case 4 has no `switch %s`", c.Pos(cc), subTag)
					return nil
				}
				for _, st3 := range sub.Body.List {
					cc3 := st3.(*ast.CaseClause)
					if cc3.List == nil {
						co.ulDefault = true
						continue
					}
					for _, e := range cc3.List {
						n, ok := labelOf(c, e, asString)
						if !ok {
							return nil
						}
						co.ulSubs = append(co.ulSubs, n)
					}
				}
			}
		}
	}
	if len(co.labels) < 30 {
		c.Fail("%s: only %d case labels found", name, len(co.labels))
		return nil
	}
	return co
}

func natList(l []int) string {
	s := make([]string, len(l))
	for i, v := range l {
		s[i] = strconv.Itoa(v)
	}
	return "[" + strings.Join(s, ", ") + "]"
}

func strList(l []string) string {
	s := make([]string, len(l))
	for i, v := range l {
		s[i] = ex.LeanStr(v)
	}
	return "[" + strings.Join(s, ", ") + "]"
}

// refs lists, in source order, the identifiers under n that name a sequences.go/styled_string.go string.
func refs(n ast.Node, names map[string]bool) []string {
	var out []string
	ast.Inspect(n, func(m ast.Node) bool {
		if id, ok := m.(*ast.Ident); ok && names[id.Name] {
			out = append(out, id.Name)
		}
		return true
	})
	return out
}

// evalConst evaluates the small constant expressions of style.go (`1 << iota`, `iota`, literals).
func evalConst(e ast.Expr, iota int) (int, bool) {
	switch v := e.(type) {
	case *ast.BasicLit:
		if v.Kind == token.INT {
			n, err := strconv.ParseInt(v.Value, 0, 64)
			return int(n), err == nil
		}
	case *ast.Ident:
		if v.Name == "iota" {
			return iota, true
		}
	case *ast.ParenExpr:
		return evalConst(v.X, iota)
	case *ast.BinaryExpr:
		a, ok1 := evalConst(v.X, iota)
		b, ok2 := evalConst(v.Y, iota)
		if ok1 && ok2 {
			switch v.Op {
			case token.SHL:
				return a << uint(b), true
			case token.ADD:
				return a + b, true
			case token.OR:
				return a | b, true
			}
		}
	}
	return 0, false
}

func styleConsts(c *ex.Ctx, f *ast.File) (out []intConst) {
	for _, d := range f.Decls {
		gd, ok := d.(*ast.GenDecl)
		if !ok || gd.Tok != token.CONST {
			continue
		}
		var last ast.Expr
		for i, s := range gd.Specs {
			vs := s.(*ast.ValueSpec)
			if len(vs.Values) > 0 {
				last = vs.Values[0]
			}
			if last == nil || len(vs.Names) != 1 {
				c.Fail("%s: unsupported const spec", c.Pos(vs))
				return nil
			}
			v, ok := evalConst(last, i)
			if !ok {
				c.Fail("%s: cannot evaluate %s", c.Pos(vs), c.Src(last))
				return nil
			}
			out = append(out, intConst{vs.Names[0].Name, int64(v)})
		}
	}
	return
}

func genSgrCases(c *ex.Ctx, fCell, fSS, fStyle, fVx, fSgr, fQuirks *ast.File, strs []strConst, sgrNames map[string]bool) {
	var sb strings.Builder
	sb.WriteString("import VaxisModel.Gen.Sequences\n\nnamespace VaxisModel.Gen.SgrCases\n\n/-! style.go constants. -/\n")
	sc := styleConsts(c, fStyle)
	var attrs, uls []intConst
	for _, k := range sc {
		switch {
		case strings.HasPrefix(k.name, "Attr"):
			attrs = append(attrs, k)
		case strings.HasPrefix(k.name, "Underline"):
			uls = append(uls, k)
		}
		fmt.Fprintf(&sb, "def %s : Nat := %d\n", k.name, k.val)
	}
	if len(attrs) != 8 || len(uls) != 6 {
		c.Fail("style.go: expected 8 Attr* and 6 Underline* constants, found %d and %d", len(attrs), len(uls))
		return
	}
	sb.WriteString("\ndef attrConsts : List (String × Nat) := [")
	for i, k := range attrs {
		fmt.Fprintf(&sb, "(%s, %d)%s", ex.LeanStr(k.name), k.val, sep(i, len(attrs)))
	}
	sb.WriteString("]\ndef underlineConsts : List (String × Nat) := [")
	for i, k := range uls {
		fmt.Fprintf(&sb, "(%s, %d)%s", ex.LeanStr(k.name), k.val, sep(i, len(uls)))
	}
	sb.WriteString("]\n\n")

	cons := []*consumer{
		extractConsumer(c, ex.FindFunc(fCell, "", "parseSGR"), "parseSGR", "params[i][0]", "len(params[i])", "params[i][1]", false),
		extractConsumer(c, ex.FindFunc(fSS, "Vaxis", "NewStyledString"), "ssParse", "subs[0]", "len(subs)", "subs[1]", true),
		extractConsumer(c, ex.FindFunc(fSgr, "Model", "sgr"), "emuSgr", "params[i][0]", "len(params[i])", "params[i][1]", false),
	}
	sb.WriteString("/-! SGR consumers: handled first-parameter labels (source order), per-label accepted\n    sub-parameter counts `(label, lengths, orMore)` and the labels of the `4:n` sub-switch. -/\n")
	for _, co := range cons {
		if co == nil {
			return
		}
		fmt.Fprintf(&sb, "def %sLabels : List Nat := %s\n", co.name, natList(co.labels))
		fmt.Fprintf(&sb, "def %sArities : List (Nat × List Nat × Bool) := [", co.name)
		for i, a := range co.arities {
			fmt.Fprintf(&sb, "(%d, %s, %v)%s", a.label, natList(a.lens), a.orMore, sep(i, len(co.arities)))
		}
		sb.WriteString("]\n")
		fmt.Fprintf(&sb, "def %sUlSubs : List Nat := %s\n", co.name, natList(co.ulSubs))
		fmt.Fprintf(&sb, "def %sUlDefault : Bool := %v\n", co.name, co.ulDefault)
		if co.name != "ssParse" {
			// round 4: (label, [legacyMin, rgbMin, idxSkip, rgbSkip, selector of the 3-, 5-, 6-sub-parameter colon forms])
			fmt.Fprintf(&sb, "def %sExt : List (Nat × List Nat) := [", co.name)
			for i, f := range co.ext {
				fmt.Fprintf(&sb, "(%d, %s)%s", f.label, natList([]int{f.legacyMin, f.rgbMin, f.idxSkip, f.rgbSkip, f.s3, f.s5, f.s6}), sep(i, len(co.ext)))
			}
			sb.WriteString("]\n")
			fmt.Fprintf(&sb, "def %sExtUnknown : List String := %s\n", co.name, strList(co.extUnk))
		}
		sb.WriteString("\n")
	}

	// producers
	all := map[string]bool{}
	isVar := map[string]bool{}
	for _, s := range strs {
		all[s.name] = true
		isVar[s.name] = s.isVar
	}
	prods := []struct {
		name string
		fd   *ast.FuncDecl
	}{
		{"encodeCells", ex.FindFunc(fCell, "", "EncodeCells")},
		{"ssEncode", ex.FindFunc(fSS, "StyledString", "Encode")},
		{"render", ex.FindFunc(fVx, "Vaxis", "render")},
	}
	sb.WriteString("/-! SGR producers: the sequence constants each one references, in source order\n    (`…Sgr`: only those of SGR shape; `…All`: every sequences.go / styled_string.go string). -/\n")
	for _, p := range prods {
		if p.fd == nil {
			c.Fail("producer %s not found", p.name)
			return
		}
		sg := refs(p.fd.Body, sgrNames)
		if len(sg) < 30 {
			c.Fail("producer %s references only %d SGR constants", p.name, len(sg))
			return
		}
		fmt.Fprintf(&sb, "def %sSgr : List String := %s\n", p.name, strList(sg))
		fmt.Fprintf(&sb, "def %sAll : List String := %s\n", p.name, strList(refs(p.fd.Body, all)))
		// the extended-colour format each producer uses in its foreground / background blocks, and
		// whether that name is a `var` (rewritten by applyQuirks under VAXIS_FORCE_LEGACY_SGR)
		want := map[int]string{0: "fgReset", 1: "fgSet", 2: "fgBrightSet", 5: "bgReset", 6: "bgSet", 7: "bgBrightSet"}
		for i, w := range want {
			if sg[i] != w {
				c.Fail("producer %s: SGR reference %d is %s, expected %s (colour blocks not recognised)", p.name, i, sg[i], w)
				return
			}
		}
		for _, sl := range []struct {
			slot string
			at   int
		}{{"FgIndex", 3}, {"FgRGB", 4}, {"BgIndex", 8}, {"BgRGB", 9}} {
			nm := sg[sl.at]
			fmt.Fprintf(&sb, "def %s%s_t : Sequences.Template := Sequences.«%s_t»\n", p.name, sl.slot, nm)
			fmt.Fprintf(&sb, "def %s%sMutable : Bool := %v\n", p.name, sl.slot, isVar[nm])
			fmt.Fprintf(&sb, "def %s%s_s : String := Sequences.«%s»\n", p.name, sl.slot, nm)
		}
		sb.WriteString("\n")
	}

	// who else writes SGR-shaped strings: every function of the root package files we parsed that
	// references an SGR constant (so a new producer does not go unnoticed)
	users := map[string]bool{}
	for _, f := range []*ast.File{fCell, fSS, fVx, fQuirks} {
		for _, d := range f.Decls {
			fd, ok := d.(*ast.FuncDecl)
			if !ok || fd.Body == nil {
				continue
			}
			if len(refs(fd.Body, sgrNames)) > 0 {
				users[fd.Name.Name] = true
			}
		}
	}
	var ul []string
	for k := range users {
		ul = append(ul, k)
	}
	sort.Strings(ul)
	fmt.Fprintf(&sb, "/-- Functions of cell.go, styled_string.go, vaxis.go, quirks.go that reference an SGR-shaped constant. -/\ndef sgrUsers : List String := %s\n\n", strList(ul))

	// quirks: which format variables are rewritten and how (strings.ReplaceAll(x, a, b))
	fq := ex.FindFunc(fQuirks, "Vaxis", "applyQuirks")
	if fq == nil {
		c.Fail("quirks.go: applyQuirks not found")
		return
	}
	type rw struct{ name, from, to string }
	var rws []rw
	ast.Inspect(fq.Body, func(m ast.Node) bool {
		as, ok := m.(*ast.AssignStmt)
		if !ok || len(as.Lhs) != 1 || len(as.Rhs) != 1 {
			return true
		}
		id, ok := as.Lhs[0].(*ast.Ident)
		if !ok || !all[id.Name] {
			return true
		}
		call, ok := as.Rhs[0].(*ast.CallExpr)
		if !ok || c.Src(call.Fun) != "strings.ReplaceAll" || len(call.Args) != 3 || c.Src(call.Args[0]) != id.Name {
			c.Fail("%s: unrecognised rewrite of %s", c.Pos(as), id.Name)
			return true
		}
		a, ok1 := call.Args[1].(*ast.BasicLit)
		b, ok2 := call.Args[2].(*ast.BasicLit)
		if !ok1 || !ok2 {
			c.Fail("%s: unrecognised rewrite of %s", c.Pos(as), id.Name)
			return true
		}
		from, _ := strconv.Unquote(a.Value)
		to, _ := strconv.Unquote(b.Value)
		rws = append(rws, rw{id.Name, from, to})
		return true
	})
	sb.WriteString("/-- `VAXIS_FORCE_LEGACY_SGR`: (variable, replaced, replacement) rewrites in applyQuirks. -/\ndef quirkRewrites : List (String × String × String) := [")
	for i, r := range rws {
		fmt.Fprintf(&sb, "(%s, %s, %s)%s", ex.LeanStr(r.name), ex.LeanStr(r.from), ex.LeanStr(r.to), sep(i, len(rws)))
	}
	sb.WriteString("]\n\n")
	genSkeletons(c, &sb, fCell, fSS)
	sb.WriteString("end VaxisModel.Gen.SgrCases\n")
	c.Write("SgrCases.lean", sb.String())
}

// ---- statement skeletons (round 2) of the string-level code that Model/SgrBytes.lean and Model/SgrLinks.lean
// transcribe by hand: normalised source text, never fails (not found ⇒ empty list; the facts_* theorems of
// Props/C18Bytes.lean say what the model assumes).

func norm(c *ex.Ctx, n ast.Node) string { return strings.Join(strings.Fields(c.Src(n)), " ") }

func stmtTexts(c *ex.Ctx, l []ast.Stmt) []string {
	out := make([]string, 0, len(l))
	for _, s := range l {
		out = append(out, norm(c, s))
	}
	return out
}

// head: the text of a compound statement without its body, other statements whole.
func head(c *ex.Ctx, s ast.Stmt) string {
	switch v := s.(type) {
	case *ast.ForStmt:
		h := "for"
		if v.Init != nil {
			h += " " + norm(c, v.Init) + ";"
		}
		if v.Cond != nil {
			h += " " + norm(c, v.Cond)
		}
		if v.Post != nil {
			h += "; " + norm(c, v.Post)
		}
		return h
	case *ast.RangeStmt:
		h := "for " + norm(c, v.Key)
		if v.Value != nil {
			h += ", " + norm(c, v.Value)
		}
		return h + " := range " + norm(c, v.X)
	case *ast.SwitchStmt:
		if v.Tag != nil {
			return "switch " + norm(c, v.Tag)
		}
		return "switch"
	case *ast.TypeSwitchStmt:
		return "switch " + norm(c, v.Assign)
	}
	return norm(c, s)
}

func genSkeletons(c *ex.Ctx, sb *strings.Builder, fCell, fSS *ast.File) {
	emit := func(name, doc string, l []string) {
		q := make([]string, len(l))
		for i, s := range l {
			q[i] = ex.LeanStr(s)
		}
		fmt.Fprintf(sb, "/-- %s -/\ndef %s : List String := [%s]\n\n", doc, name, strings.Join(q, ",\n  "))
	}
	var nssCases, nssCsi, nssOsc, nssDefault, legacy, encEnd, ssEncEnd, parseLoop []string
	if fd := ex.FindFunc(fSS, "Vaxis", "NewStyledString"); fd != nil && fd.Body != nil {
		ast.Inspect(fd.Body, func(m ast.Node) bool {
			sw, ok := m.(*ast.SwitchStmt)
			if !ok || sw.Tag != nil || len(nssCases) > 0 {
				return true
			}
			for _, st := range sw.Body.List {
				cc := st.(*ast.CaseClause)
				cond := "default"
				if len(cc.List) == 1 {
					cond = norm(c, cc.List[0])
				}
				nssCases = append(nssCases, cond)
				var texts []string
				for _, b := range cc.Body {
					texts = append(texts, head(c, b))
				}
				switch {
				case strings.Contains(cond, `"\x1b["`):
					nssCsi = texts
				case strings.Contains(cond, `"\x1b]8;"`):
					nssOsc = texts
				case cond == "default":
					if len(texts) > 0 {
						nssDefault = texts[:1]
					}
				}
			}
			return false
		})
	}
	if fd := ex.FindFunc(fSS, "", "legacySGRColor"); fd != nil && fd.Body != nil {
		for _, st := range fd.Body.List {
			if sw, ok := st.(*ast.SwitchStmt); ok && sw.Tag == nil {
				for _, cl := range sw.Body.List {
					cc := cl.(*ast.CaseClause)
					if len(cc.List) == 1 {
						legacy = append(legacy, "case "+norm(c, cc.List[0])+": "+strings.Join(stmtTexts(c, cc.Body), "; "))
					}
				}
			} else {
				legacy = append(legacy, norm(c, st))
			}
		}
	}
	tail := func(fd *ast.FuncDecl) []string {
		if fd == nil || fd.Body == nil {
			return nil
		}
		l := fd.Body.List
		for i, st := range l {
			if _, ok := st.(*ast.RangeStmt); ok {
				return stmtTexts(c, l[i+1:])
			}
		}
		return nil
	}
	encEnd = tail(ex.FindFunc(fCell, "", "EncodeCells"))
	ssEncEnd = tail(ex.FindFunc(fSS, "StyledString", "Encode"))
	if fd := ex.FindFunc(fCell, "", "ParseStyledString"); fd != nil && fd.Body != nil {
		for _, st := range fd.Body.List {
			if rs, ok := st.(*ast.RangeStmt); ok {
				parseLoop = append(parseLoop, head(c, rs))
				for _, b := range rs.Body.List {
					if ts, ok := b.(*ast.TypeSwitchStmt); ok {
						for _, cl := range ts.Body.List {
							cc := cl.(*ast.CaseClause)
							lab := "default"
							if len(cc.List) == 1 {
								lab = "case " + norm(c, cc.List[0])
							}
							parseLoop = append(parseLoop, lab+": "+strings.Join(stmtTexts(c, cc.Body), "; "))
						}
					} else {
						parseLoop = append(parseLoop, norm(c, b))
					}
				}
			}
		}
	}
	// How ParseStyledString builds the reader it hands to ansi.NewParser (the parser's grapheme look-ahead only sees what that
	// reader has buffered): "whole-string" = a bufio.Reader sized to hold the whole string (one read delivers everything;
	// since the fix: for F122), "default-buffer" = strings.NewReader directly (the parser's own 4096-byte reader: reads of at
	// most the buffer size), "unknown" = any other shape (the model then has no reader: Props.C18Reader.reader_recognised fails).
	reader := "unknown"
	if fd := ex.FindFunc(fCell, "", "ParseStyledString"); fd != nil && fd.Body != nil {
		defs := map[string]string{}
		ast.Inspect(fd.Body, func(m ast.Node) bool {
			switch v := m.(type) {
			case *ast.AssignStmt:
				if len(v.Lhs) == 1 && len(v.Rhs) == 1 {
					if id, ok := v.Lhs[0].(*ast.Ident); ok {
						defs[id.Name] = norm(c, v.Rhs[0])
					}
				}
			case *ast.CallExpr:
				if norm(c, v.Fun) == "ansi.NewParser" && len(v.Args) == 1 {
					arg := norm(c, v.Args[0])
					if id, ok := v.Args[0].(*ast.Ident); ok {
						if d, ok := defs[id.Name]; ok {
							arg = d
						}
					}
					param := "s"
					if fd.Type.Params != nil && len(fd.Type.Params.List) == 1 && len(fd.Type.Params.List[0].Names) == 1 {
						param = fd.Type.Params.List[0].Names[0].Name
					}
					switch arg {
					case "bufio.NewReaderSize(strings.NewReader(" + param + "), len(" + param + "))":
						reader = "whole-string"
					case "strings.NewReader(" + param + ")":
						reader = "default-buffer"
					}
				}
			}
			return true
		})
	}
	fmt.Fprintf(sb, "/-- How ParseStyledString builds the reader of its parser: \"whole-string\" (bufio.NewReaderSize(strings.NewReader(s), len(s)):\n    everything arrives in one read), \"default-buffer\" (strings.NewReader(s): reads of at most bufio's default buffer size) or \"unknown\". -/\ndef parseStyledReader : String := %s\n\n", ex.LeanStr(reader))
	emit("nssCases", "NewStyledString: the conditions of the outer `switch` in the `for len(s) > 0` loop, in order", nssCases)
	emit("nssCsi", "NewStyledString, case CSI: statement heads (= SgrBytes.hasCsiPrefix / cutM / the two early exits / splitParams / the i-loop)", nssCsi)
	emit("nssOsc8", "NewStyledString, case OSC 8 (= SgrBytes.hasOsc8Prefix / cutST)", nssOsc)
	emit("nssDefault", "NewStyledString, default: the clustering call", nssDefault)
	emit("legacySGRColorBody", "legacySGRColor (= Model.Sgr.ssLegacy)", legacy)
	emit("encodeCellsTail", "EncodeCells after the loop over the cells (= SgrLinks.encodeFromBL, nil case)", encEnd)
	emit("ssEncodeTail", "StyledString.Encode after the loop over the cells", ssEncEnd)
	emit("parseStyledLoop", "ParseStyledString: the loop over the parser's items (= SgrBytes.cellsOf)", parseLoop)
}
