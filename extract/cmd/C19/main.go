// Extractor for C19: Gen/ListFacts.lean.
//
//   - widgets/list/list.go: the right-hand sides of the `m.index = …` assignments of
//     Down/Up/Home/End/PageDown/PageUp/SetItems are TRANSLATED into Lean functions of
//     (n = len of the items, index = m.index, height = window height); the helper functions
//     min/max and the body of Draw are compared with the shapes the hand-written model transcribes
//     (fail closed), except for the optional empty-list guard at the top of Draw which is reported
//     as a Bool.
//   - widgets/pager/pager.go: Layout/Draw/ScrollDown/ScrollUp are compared with the transcribed
//     shape; whether Layout appends a non-empty unterminated last line is reported as a Bool.
//   - widgets/scrollbar/scrollbar.go: Draw compared with the transcribed shape.
package main

import (
	"fmt"
	"go/ast"
	"go/parser"
	"go/token"
	"os"
	"regexp"
	"strings"

	"verifextract/ex"
)

var emptyGuard = regexp.MustCompile(`^if len\((\w+)\.items\) == 0 \{ return \}$`)
var flushLast = regexp.MustCompile(`^if len\((\w+)\.characters\) > 0 \{ (\w+)\.lines = append\((\w+)\.lines, (\w+)\) \}$`)

func main() { ex.Main([]string{"ListFacts.lean", "DynSkel.lean", "WidSkel.lean"}, gen) }

// norm prints a node and collapses all white space.
func norm(c *ex.Ctx, n ast.Node) string {
	return strings.Join(strings.Fields(c.Src(n)), " ")
}

func normStr(s string) string { return strings.Join(strings.Fields(s), " ") }

// canon prints a function body with its local variables (receiver, parameters, locals — everything
// the parser resolves to a variable declared inside the function) renamed to v0, v1, … in order of
// first appearance, so that a consistent renaming of locals is not a change.
func canon(c *ex.Ctx, fd *ast.FuncDecl) string {
	names := map[*ast.Object]string{}
	ast.Inspect(fd, func(n ast.Node) bool {
		id, ok := n.(*ast.Ident)
		if !ok || id.Obj == nil || id.Obj.Kind != ast.Var || id.Name == "_" {
			return true
		}
		if id.Obj.Pos() < fd.Pos() || id.Obj.Pos() > fd.End() {
			return true
		}
		if _, seen := names[id.Obj]; !seen {
			names[id.Obj] = fmt.Sprintf("v%d", len(names))
		}
		return true
	})
	ast.Inspect(fd, func(n ast.Node) bool {
		if id, ok := n.(*ast.Ident); ok && id.Obj != nil {
			if nm, ok := names[id.Obj]; ok {
				id.Name = nm
			}
		}
		return true
	})
	// the printer lays composite literals out differently depending on line information: squash
	return strings.ReplaceAll(strings.ReplaceAll(norm(c, fd.Body), " ", ""), ",}", "}")
}

// wantFunc compares the body of fd (optional statements already removed) with the body the model
// transcribes (wantBodies[key], Go source), modulo renaming of locals. sig is the Go signature
// under which the expected body is parsed.
func wantFunc(c *ex.Ctx, key string, fd *ast.FuncDecl, sig string) bool {
	if os.Getenv("VERIF_C19_DUMP") != "" {
		fmt.Printf("\t%q: `%s`,\n", key, c.Src(fd.Body))
		return true
	}
	want, ok := wantBodies[key]
	if !ok {
		c.Fail("%s: internal: no expected body", key)
		return false
	}
	src := "package p\n" + sig + " " + want + "\n"
	f2, err := parser.ParseFile(token.NewFileSet(), "want.go", src, 0)
	if err != nil {
		c.Fail("%s: internal: expected text does not parse: %v", key, err)
		return false
	}
	fd2 := f2.Decls[0].(*ast.FuncDecl)
	c2 := &ex.Ctx{Fset: token.NewFileSet()}
	got, exp := canon(c, fd), canon(c2, fd2)
	if got != exp {
		c.Fail("%s (%s) differs from what the model transcribes:\n    got  %s\n    want %s", key, c.Pos(fd), got, exp)
		return false
	}
	return true
}

type names struct{ recv, items, height string }

func expr(c *ex.Ctx, nm names, e ast.Expr) (string, bool) {
	switch v := e.(type) {
	case *ast.ParenExpr:
		return expr(c, nm, v.X)
	case *ast.BasicLit:
		if v.Kind == token.INT {
			return v.Value, true
		}
	case *ast.Ident:
		if nm.height != "" && v.Name == nm.height {
			return "height", true
		}
	case *ast.SelectorExpr:
		if norm(c, v) == nm.recv+".index" {
			return "index", true
		}
	case *ast.BinaryExpr:
		a, ok1 := expr(c, nm, v.X)
		b, ok2 := expr(c, nm, v.Y)
		if ok1 && ok2 && (v.Op == token.ADD || v.Op == token.SUB) {
			return "(" + a + " " + v.Op.String() + " " + b + ")", true
		}
	case *ast.CallExpr:
		fn, ok := v.Fun.(*ast.Ident)
		if !ok {
			break
		}
		if fn.Name == "len" && len(v.Args) == 1 {
			s := norm(c, v.Args[0])
			if s == nm.recv+".items" || (nm.items != "" && s == nm.items) {
				return "n", true
			}
		}
		if (fn.Name == "min" || fn.Name == "max") && len(v.Args) == 2 {
			a, ok1 := expr(c, nm, v.Args[0])
			b, ok2 := expr(c, nm, v.Args[1])
			if ok1 && ok2 {
				return "(" + fn.Name + " " + a + " " + b + ")", true
			}
		}
	}
	// outside the translated subset: the caller degrades the definition (see `degrade`), the extractor does not fail
	return "", false
}

// degrade writes a placeholder for an index expression that could not be translated: the model then differs from the
// code (correspondence) and Props/C19Wid.list_rhs_is_gen fails, naming what changed; the extractor goes on.
func degrade(sb *strings.Builder, leanName, why string) {
	fmt.Fprintf(sb, "def %s (n index height : Int) : Int := 0  -- UNTRANSLATED: %s\n", leanName, strings.Join(strings.Fields(why), " "))
}

// wantBodies: the bodies the hand-written models transcribe (widgets/list New/Index/Draw/min/max, widgets/pager
// Layout/Draw/Scroll*, widgets/scrollbar Draw), without the optional repair statements reported as Bools.
var wantBodies = map[string]string{
	"list.go min": `{
	if a < b {
		return a
	}
	return b
}`,
	"list.go max": `{
	if a > b {
		return a
	}
	return b
}`,
	"list.go New": `{
	return List{
		items: items,
	}
}`,
	"list.go Index": `{
	return m.index
}`,
	"list.go Draw": `{
	_, height := win.Size()

	if m.index >= m.offset+height {
		m.offset = m.index - height + 1
	} else if m.index < m.offset {
		m.offset = m.index
	}

	defaultStyle := vaxis.Style{}
	selectedStyle := vaxis.Style{Attribute: vaxis.AttrReverse}

	index := m.index - m.offset
	for i, subject := range m.items[m.offset:] {
		var style vaxis.Style
		if i == index {
			style = selectedStyle
		} else {
			style = defaultStyle
		}
		win.Println(i, vaxis.Segment{Text: subject, Style: style})
	}

}`,
	"pager.go Layout": `{
	m.lines = []*line{}
	l := &line{}
	col := 0
	for _, seg := range m.Segments {
		for _, char := range vaxis.Characters(seg.Text) {
			if strings.ContainsRune(char.Grapheme, '\n') {
				m.lines = append(m.lines, l)
				l = &line{}
				col = 0
				continue
			}
			cell := vaxis.Cell{
				Character:	char,
				Style:		seg.Style,
			}
			l.append(cell)
			col += char.Width
			if col >= m.width {
				m.lines = append(m.lines, l)
				l = &line{}
				col = 0
			}
		}
	}

}`,
	"pager.go Draw": `{
	w, h := win.Size()
	if w != m.width {
		m.width = w
		m.Layout()
	}
	if len(m.lines)-m.Offset < h {
		m.Offset = len(m.lines) - h
	}
	if m.Offset < 0 {
		m.Offset = 0
	}
	if m.Fill.Grapheme == "" {
		m.Fill.Character = defaultFill
	}
	win.Fill(m.Fill)
	for row, l := range m.lines {
		if row < m.Offset {
			continue
		}
		if (row - m.Offset) >= h {
			return
		}
		col := 0
		for _, cell := range l.characters {
			win.SetCell(col, row-m.Offset, cell)
			col += cell.Width
		}
	}
}`,
	"pager.go ScrollDown": `{
	m.Offset += 1
}`,
	"pager.go ScrollUp": `{
	m.Offset -= 1
}`,
	"scrollbar.go Draw": `{
	if m.TotalHeight < 1 {
		return
	}

	if m.ViewHeight >= m.TotalHeight {

		return
	}
	_, h := win.Size()
	barH := (m.ViewHeight * h) / m.TotalHeight
	if barH < 1 {
		barH = 1
	}
	barTop := (m.Top * h) / m.TotalHeight

	if m.Character.Grapheme == "" {
		m.Character = defaultChar
	}
	for i := 0; i < barH; i += 1 {
		cell := vaxis.Cell{
			Character:	m.Character,
			Style:		m.Style,
		}
		win.SetCell(0, barTop+i, cell)
	}
}`,
}

func gen(c *ex.Ctx) {
	var sb strings.Builder
	// the widgets bodies as syntax (fresh parses: the code below renames and edits its ASTs)
	genWidSkel(c, c.Parse("widgets/list/list.go"), c.Parse("widgets/pager/pager.go"), c.Parse("widgets/scrollbar/scrollbar.go"))
	sb.WriteString("namespace VaxisModel.Gen.ListFacts\n\n")

	// ---------------------------------------------------------------- widgets/list
	f := c.Parse("widgets/list/list.go")
	if f == nil {
		return
	}
	// min/max/New/Index/Draw, pager Layout/Draw/Scroll*, scrollbar Draw are no longer compared textually here: their bodies
	// are translated into Gen/WidSkel.lean (genWidSkel), executed by Model/WidExec.lean and proved equal to the models
	// (Props/C19Wid.lean); a change of the source makes `wid_bodies_as_expected` fail instead of this extractor.
	methods := []struct{ goName, leanName string }{
		{"Down", "down"}, {"Up", "up"}, {"Home", "home"}, {"End", "«end»"},
		{"PageDown", "pageDown"}, {"PageUp", "pageUp"}, {"SetItems", "setItems"},
	}
	sb.WriteString("/-! `m.index = …` right-hand sides of widgets/list/list.go, as functions of\n    n = len(items) (the NEW items for SetItems), index = m.index, height = the window height. -/\n")
	for _, m := range methods {
		fd := ex.FindFunc(f, "List", m.goName)
		if fd == nil {
			degrade(&sb, m.leanName, "List."+m.goName+" not found")
			continue
		}
		var rhs ast.Expr
		odd := ""
		nm := names{}
		if fd.Recv != nil && len(fd.Recv.List) == 1 && len(fd.Recv.List[0].Names) == 1 {
			nm.recv = fd.Recv.List[0].Names[0].Name
		} else {
			degrade(&sb, m.leanName, "List."+m.goName+" has no named receiver")
			continue
		}
		winName := ""
		if ps := fd.Type.Params.List; len(ps) == 1 && len(ps[0].Names) == 1 {
			if m.goName == "SetItems" {
				nm.items = ps[0].Names[0].Name
			} else {
				winName = ps[0].Names[0].Name
			}
		}
		for i, s := range fd.Body.List {
			t := norm(c, s)
			as, isAssign := s.(*ast.AssignStmt)
			switch {
			case (m.goName == "PageDown" || m.goName == "PageUp") && i == 0 && isAssign && as.Tok == token.DEFINE &&
				len(as.Lhs) == 2 && norm(c, as.Lhs[0]) == "_" && len(as.Rhs) == 1 && norm(c, as.Rhs[0]) == winName+".Size()":
				nm.height = norm(c, as.Lhs[1])
			case t == nm.recv+".items = "+nm.items && m.goName == "SetItems" && i == 0:
			default:
				if !isAssign || as.Tok != token.ASSIGN || len(as.Lhs) != 1 || len(as.Rhs) != 1 || norm(c, as.Lhs[0]) != nm.recv+".index" || rhs != nil || i != len(fd.Body.List)-1 {
					odd = "statement " + t + " is not the single final index assignment"
					continue
				}
				rhs = as.Rhs[0]
			}
		}
		if odd != "" {
			degrade(&sb, m.leanName, odd)
			continue
		}
		if rhs == nil {
			degrade(&sb, m.leanName, "no index assignment")
			continue
		}
		if s, ok := expr(c, nm, rhs); ok {
			fmt.Fprintf(&sb, "def %s (n index height : Int) : Int := %s  -- %s\n", m.leanName, s, norm(c, rhs))
		} else {
			degrade(&sb, m.leanName, "expression "+norm(c, rhs)+" is outside the translated subset")
		}
	}
	guard := false
	if fd := ex.FindFunc(f, "List", "Draw"); fd != nil {
		st := fd.Body.List
		if len(st) > 1 && emptyGuard.MatchString(norm(c, st[1])) {
			guard = true
		}
	}
	fmt.Fprintf(&sb, "\n/-- `Draw` starts with `if len(m.items) == 0 { return }` (after reading the window size). -/\ndef drawEmptyGuard : Bool := %v\n", guard)

	// ---------------------------------------------------------------- widgets/pager
	p := c.Parse("widgets/pager/pager.go")
	if p == nil {
		return
	}
	flush := false
	if fd := ex.FindFunc(p, "Model", "Layout"); fd != nil {
		st := fd.Body.List
		if n := len(st); n > 0 && flushLast.MatchString(norm(c, st[n-1])) {
			flush = true
		}
	}
	fmt.Fprintf(&sb, "\n/-- `Layout` ends with `if len(l.characters) > 0 { m.lines = append(m.lines, l) }`. -/\ndef layoutFlushesLast : Bool := %v\n", flush)

	// ---------------------------------------------------------------- vxfw/list
	d := c.Parse("vxfw/list/list.go")
	if d == nil {
		return
	}
	// everything the hand-written model transcribes is translated structurally into Gen/DynSkel.lean
	// (skel.go) and pinned there by theorems (Props/C19Tie.lean); the five repair facts are read off
	// the skeleton in Lean (Model/ListGen.lean)
	genSkel(c, d)
	sb.WriteString("\nend VaxisModel.Gen.ListFacts\n")
	c.Write("ListFacts.lean", sb.String())
}
