// Extractor for C19: Gen/ListFacts.lean.
//
//   - widgets/list/list.go: the right-hand sides of the `m.index = …` assignments of
//     Down/Up/Home/End/PageDown/PageUp/SetItems are TRANSLATED into Lean functions of
//     (n = len of the items, index = m.index, height = window height); the helper functions
//     min/max and the body of Draw are compared with the shapes the hand-written model transcribes
//     (fail closed), except for the optional empty-list guard at the top of Draw which is reported
//     as a Bool.
//   - widgets/pager/pager.go: Layout/Draw/ScrollDown/ScrollUp are compared with the transcribed
//     shape; whether Layout appends a non-empty unterminated last line is reported as a Bool.
//   - widgets/scrollbar/scrollbar.go: Draw compared with the transcribed shape.
package main

import (
	"crypto/sha256"
	"fmt"
	"go/ast"
	"go/token"
	"strings"

	"verifextract/ex"
)

func main() { ex.Main([]string{"ListFacts.lean"}, gen) }

// norm prints a node and collapses all white space.
func norm(c *ex.Ctx, n ast.Node) string {
	return strings.Join(strings.Fields(c.Src(n)), " ")
}

func normStr(s string) string { return strings.Join(strings.Fields(s), " ") }

// expr translates the tiny expression language of the index assignments.
func expr(c *ex.Ctx, e ast.Expr) (string, bool) {
	switch v := e.(type) {
	case *ast.ParenExpr:
		return expr(c, v.X)
	case *ast.BasicLit:
		if v.Kind == token.INT {
			return v.Value, true
		}
	case *ast.Ident:
		if v.Name == "height" {
			return "height", true
		}
	case *ast.SelectorExpr:
		if norm(c, v) == "m.index" {
			return "index", true
		}
	case *ast.BinaryExpr:
		a, ok1 := expr(c, v.X)
		b, ok2 := expr(c, v.Y)
		if ok1 && ok2 && (v.Op == token.ADD || v.Op == token.SUB) {
			return "(" + a + " " + v.Op.String() + " " + b + ")", true
		}
	case *ast.CallExpr:
		fn, ok := v.Fun.(*ast.Ident)
		if !ok {
			break
		}
		if fn.Name == "len" && len(v.Args) == 1 {
			s := norm(c, v.Args[0])
			if s == "m.items" || s == "items" {
				return "n", true
			}
		}
		if (fn.Name == "min" || fn.Name == "max") && len(v.Args) == 2 {
			a, ok1 := expr(c, v.Args[0])
			b, ok2 := expr(c, v.Args[1])
			if ok1 && ok2 {
				return "(" + fn.Name + " " + a + " " + b + ")", true
			}
		}
	}
	c.Fail("%s: expression %q is outside the translated subset", c.Pos(e), norm(c, e))
	return "", false
}

func wantBody(c *ex.Ctx, what string, stmts []ast.Stmt, want []string) bool {
	if len(stmts) != len(want) {
		c.Fail("%s: %d statements, the model transcribes %d", what, len(stmts), len(want))
		return false
	}
	ok := true
	for i, s := range stmts {
		if got := norm(c, s); got != normStr(want[i]) {
			c.Fail("%s (%s): statement %d is\n    %s\n  the model transcribes\n    %s", what, c.Pos(s), i, got, normStr(want[i]))
			ok = false
		}
	}
	return ok
}

func gen(c *ex.Ctx) {
	var sb strings.Builder
	sb.WriteString("namespace VaxisModel.Gen.ListFacts\n\n")

	// ---------------------------------------------------------------- widgets/list
	f := c.Parse("widgets/list/list.go")
	if f == nil {
		return
	}
	for nm, cmp := range map[string]string{"min": "<", "max": ">"} {
		fd := ex.FindFunc(f, "", nm)
		if fd == nil {
			c.Fail("widgets/list/list.go: helper %s not found", nm)
			continue
		}
		wantBody(c, "list.go "+nm, fd.Body.List, []string{"if a " + cmp + " b { return a }", "return b"})
	}
	methods := []struct{ goName, leanName string }{
		{"Down", "down"}, {"Up", "up"}, {"Home", "home"}, {"End", "«end»"},
		{"PageDown", "pageDown"}, {"PageUp", "pageUp"}, {"SetItems", "setItems"},
	}
	sb.WriteString("/-! `m.index = …` right-hand sides of widgets/list/list.go, as functions of\n    n = len(items) (the NEW items for SetItems), index = m.index, height = the window height. -/\n")
	for _, m := range methods {
		fd := ex.FindFunc(f, "List", m.goName)
		if fd == nil {
			c.Fail("widgets/list/list.go: List.%s not found", m.goName)
			continue
		}
		var rhs ast.Expr
		for i, s := range fd.Body.List {
			t := norm(c, s)
			switch {
			case t == "_, height := win.Size()" && (m.goName == "PageDown" || m.goName == "PageUp") && i == 0:
			case t == "m.items = items" && m.goName == "SetItems" && i == 0:
			default:
				as, ok := s.(*ast.AssignStmt)
				if !ok || as.Tok != token.ASSIGN || len(as.Lhs) != 1 || len(as.Rhs) != 1 || norm(c, as.Lhs[0]) != "m.index" || rhs != nil || i != len(fd.Body.List)-1 {
					c.Fail("%s: List.%s statement %q is not the single final `m.index = …`", c.Pos(s), m.goName, t)
					continue
				}
				rhs = as.Rhs[0]
			}
		}
		if rhs == nil {
			c.Fail("widgets/list/list.go: List.%s has no `m.index = …`", m.goName)
			continue
		}
		if s, ok := expr(c, rhs); ok {
			fmt.Fprintf(&sb, "def %s (n index height : Int) : Int := %s  -- %s\n", m.leanName, s, norm(c, rhs))
		}
	}
	if fd := ex.FindFunc(f, "", "New"); fd != nil {
		wantBody(c, "list.go New", fd.Body.List, []string{"return List{ items: items, }"})
	} else {
		c.Fail("widgets/list/list.go: New not found")
	}
	if fd := ex.FindFunc(f, "List", "Index"); fd != nil {
		wantBody(c, "list.go Index", fd.Body.List, []string{"return m.index"})
	}
	guard := false
	if fd := ex.FindFunc(f, "List", "Draw"); fd != nil {
		st := fd.Body.List
		if len(st) > 1 && norm(c, st[1]) == "if len(m.items) == 0 { return }" {
			guard = true
			st = append([]ast.Stmt{st[0]}, st[2:]...)
		}
		wantBody(c, "list.go Draw", st, []string{
			"_, height := win.Size()",
			"if m.index >= m.offset+height { m.offset = m.index - height + 1 } else if m.index < m.offset { m.offset = m.index }",
			"defaultStyle := vaxis.Style{}",
			"selectedStyle := vaxis.Style{Attribute: vaxis.AttrReverse}",
			"index := m.index - m.offset",
			"for i, subject := range m.items[m.offset:] { var style vaxis.Style if i == index { style = selectedStyle } else { style = defaultStyle } win.Println(i, vaxis.Segment{Text: subject, Style: style}) }",
		})
	} else {
		c.Fail("widgets/list/list.go: List.Draw not found")
	}
	fmt.Fprintf(&sb, "\n/-- `Draw` starts with `if len(m.items) == 0 { return }` (after reading the window size). -/\ndef drawEmptyGuard : Bool := %v\n", guard)

	// ---------------------------------------------------------------- widgets/pager
	p := c.Parse("widgets/pager/pager.go")
	if p == nil {
		return
	}
	flush := false
	if fd := ex.FindFunc(p, "Model", "Layout"); fd != nil {
		st := fd.Body.List
		if n := len(st); n > 0 && norm(c, st[n-1]) == "if len(l.characters) > 0 { m.lines = append(m.lines, l) }" {
			flush = true
			st = st[:n-1]
		}
		wantBody(c, "pager.go Layout", st, []string{
			"m.lines = []*line{}",
			"l := &line{}",
			"col := 0",
			"for _, seg := range m.Segments { for _, char := range vaxis.Characters(seg.Text) { if strings.ContainsRune(char.Grapheme, '\\n') { m.lines = append(m.lines, l) l = &line{} col = 0 continue } cell := vaxis.Cell{ Character: char, Style: seg.Style, } l.append(cell) col += char.Width if col >= m.width { m.lines = append(m.lines, l) l = &line{} col = 0 } } }",
		})
	} else {
		c.Fail("widgets/pager/pager.go: Model.Layout not found")
	}
	if fd := ex.FindFunc(p, "Model", "Draw"); fd != nil {
		wantBody(c, "pager.go Draw", fd.Body.List, []string{
			"w, h := win.Size()",
			"if w != m.width { m.width = w m.Layout() }",
			"if len(m.lines)-m.Offset < h { m.Offset = len(m.lines) - h }",
			"if m.Offset < 0 { m.Offset = 0 }",
			"if m.Fill.Grapheme == \"\" { m.Fill.Character = defaultFill }",
			"win.Fill(m.Fill)",
			"for row, l := range m.lines { if row < m.Offset { continue } if (row - m.Offset) >= h { return } col := 0 for _, cell := range l.characters { win.SetCell(col, row-m.Offset, cell) col += cell.Width } }",
		})
	} else {
		c.Fail("widgets/pager/pager.go: Model.Draw not found")
	}
	if fd := ex.FindFunc(p, "Model", "ScrollDown"); fd != nil {
		wantBody(c, "pager.go ScrollDown", fd.Body.List, []string{"m.Offset += 1"})
	} else {
		c.Fail("pager.go: ScrollDown not found")
	}
	if fd := ex.FindFunc(p, "Model", "ScrollUp"); fd != nil {
		wantBody(c, "pager.go ScrollUp", fd.Body.List, []string{"m.Offset -= 1"})
	} else {
		c.Fail("pager.go: ScrollUp not found")
	}
	fmt.Fprintf(&sb, "\n/-- `Layout` ends with `if len(l.characters) > 0 { m.lines = append(m.lines, l) }`. -/\ndef layoutFlushesLast : Bool := %v\n", flush)

	// ---------------------------------------------------------------- widgets/scrollbar
	s := c.Parse("widgets/scrollbar/scrollbar.go")
	if s == nil {
		return
	}
	if fd := ex.FindFunc(s, "Model", "Draw"); fd != nil {
		wantBody(c, "scrollbar.go Draw", fd.Body.List, []string{
			"if m.TotalHeight < 1 { return }",
			"if m.ViewHeight >= m.TotalHeight { return }",
			"_, h := win.Size()",
			"barH := (m.ViewHeight * h) / m.TotalHeight",
			"if barH < 1 { barH = 1 }",
			"barTop := (m.Top * h) / m.TotalHeight",
			"if m.Character.Grapheme == \"\" { m.Character = defaultChar }",
			"for i := 0; i < barH; i += 1 { cell := vaxis.Cell{ Character: m.Character, Style: m.Style, } win.SetCell(0, barTop+i, cell) }",
		})
	} else {
		c.Fail("widgets/scrollbar/scrollbar.go: Model.Draw not found")
	}

	// ---------------------------------------------------------------- vxfw/list
	d := c.Parse("vxfw/list/list.go")
	if d == nil {
		return
	}
	const plainCond = "int(idx) < len(s.Children)"
	const guardCond = "d.cursor >= d.scroll.top && int(idx) < len(s.Children)"
	dynGuard := false
	found := 0
	if fd := ex.FindFunc(d, "Dynamic", "Draw"); fd != nil {
		// the cursor-gutter block: `if d.DrawCursor { … idx := d.cursor - d.scroll.top; if COND { ch := s.Children[idx] …`
		ast.Inspect(fd.Body, func(n ast.Node) bool {
			outer, ok := n.(*ast.IfStmt)
			if !ok || norm(c, outer.Cond) != "d.DrawCursor" {
				return true
			}
			for _, st := range outer.Body.List {
				if in, ok := st.(*ast.IfStmt); ok && len(in.Body.List) > 0 && norm(c, in.Body.List[0]) == "ch := s.Children[idx]" {
					found++
					switch norm(c, in.Cond) {
					case plainCond:
					case guardCond:
						dynGuard = true
						in.Cond = &ast.Ident{Name: "VERIF_CURSOR_COND"}
					default:
						c.Fail("%s: cursor-gutter condition %q not recognised", c.Pos(in), norm(c, in.Cond))
					}
					if !dynGuard {
						in.Cond = &ast.Ident{Name: "VERIF_CURSOR_COND"}
					}
				}
			}
			return false
		})
		if found != 1 {
			c.Fail("vxfw/list/list.go: Dynamic.Draw: %d cursor-gutter blocks found, want 1", found)
		}
	}
	// everything else the hand-written model transcribes is pinned by a digest of its normalised
	// source (the cursor-gutter condition replaced by a placeholder)
	want := map[string]string{
		"Draw": "7c45c32bef536afd", "insertChildren": "7678979b363d2833", "NextItem": "e34eaeaf692e3c3c",
		"PrevItem": "e74d468d037bab6f", "ensureScroll": "0c111be144cb6386", "SetCursor": "d8b2192baad44df3",
		"SetPendingScroll": "7814a9c73572b722", "HandleEvent": "0a27d1f9a4445972", "CaptureEvent": "a8cf03d3671103a9",
		"Cursor": "742c0785f4dd7ef8", "Offset": "2b9243bfdb8a7789",
	}
	for _, nm := range []string{"Draw", "insertChildren", "NextItem", "PrevItem", "ensureScroll", "SetCursor", "SetPendingScroll", "HandleEvent", "CaptureEvent", "Cursor", "Offset"} {
		fd := ex.FindFunc(d, "Dynamic", nm)
		if fd == nil {
			c.Fail("vxfw/list/list.go: Dynamic.%s not found", nm)
			continue
		}
		got := fmt.Sprintf("%x", sha256.Sum256([]byte(norm(c, fd.Body))))[:16]
		if got != want[nm] {
			c.Fail("vxfw/list/list.go: Dynamic.%s changed (digest %s, the model transcribes %s): re-read the function and update Model/DynList.lean", nm, got, want[nm])
		}
	}
	fmt.Fprintf(&sb, "\n/-- The cursor-gutter block of `Dynamic.Draw` tests `d.cursor >= d.scroll.top &&` before indexing. -/\ndef dynCursorGuard : Bool := %v\n", dynGuard)

	sb.WriteString("\nend VaxisModel.Gen.ListFacts\n")
	c.Write("ListFacts.lean", sb.String())
}
