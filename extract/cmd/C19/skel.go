// Structural translation of vxfw/list Dynamic's method bodies into the tiny syntax of
// lean/VaxisModel/Model/GoSyn.lean (Gen/DynSkel.lean). Locals are renamed in order of first
// appearance (receiver → d, parameters and locals → v0, v1, …) so that a consistent renaming is
// not a change. Anything outside the translated subset becomes `.unknown "src"` — the extractor
// never fails on an unknown shape; the theorem `fully_recognised` does.
package main

import (
	"fmt"
	"go/ast"
	"go/token"
	"sort"
	"strings"

	"verifextract/ex"
)

type skel struct {
	c     *ex.Ctx
	lines []string
	// structLits: keyed composite literals `T{K: e, …}` become `T{}(K, e)…` (a call of the literal
	// `T{}` with one `pair (var K) e` argument per field) instead of squashed source text. Used for
	// the widgets bodies (Gen/WidSkel.lean) only, so that Gen/DynSkel.lean keeps its shape.
	structLits bool
}

func lstr(s string) string { return ex.LeanStr(strings.Join(strings.Fields(s), " ")) }

// selector chain of identifiers → "a.b.c"
func chain(e ast.Expr) (string, bool) {
	switch v := e.(type) {
	case *ast.Ident:
		return v.Name, true
	case *ast.SelectorExpr:
		if p, ok := chain(v.X); ok {
			return p + "." + v.Sel.Name, true
		}
	}
	return "", false
}

func (k *skel) expr(e ast.Expr) string {
	if e == nil {
		return ".none"
	}
	switch v := e.(type) {
	case *ast.ParenExpr:
		return k.expr(v.X)
	case *ast.Ident:
		return "(.var " + lstr(v.Name) + ")"
	case *ast.SelectorExpr:
		if p, ok := chain(v); ok {
			return "(.var " + lstr(p) + ")"
		}
		return "(.sel " + k.expr(v.X) + " " + lstr(v.Sel.Name) + ")"
	case *ast.BasicLit:
		if v.Kind == token.INT {
			var n uint64
			if _, err := fmt.Sscan(v.Value, &n); err == nil && fmt.Sprint(n) == v.Value {
				return fmt.Sprintf("(.int %d)", n)
			}
		}
		return "(.lit " + lstr(v.Value) + ")"
	case *ast.CompositeLit:
		if k.structLits && len(v.Elts) > 0 && v.Type != nil {
			keyed := true
			for _, el := range v.Elts {
				kv, ok := el.(*ast.KeyValueExpr)
				if !ok {
					keyed = false
					break
				}
				if _, ok := kv.Key.(*ast.Ident); !ok {
					keyed = false
					break
				}
			}
			if keyed {
				// normal form: the fields in the order of their names (the order in which a keyed literal lists its
				// fields is not a change; the field expressions of these bodies have no side effects)
				elts := append([]ast.Expr{}, v.Elts...)
				sort.SliceStable(elts, func(i, j int) bool {
					return elts[i].(*ast.KeyValueExpr).Key.(*ast.Ident).Name < elts[j].(*ast.KeyValueExpr).Key.(*ast.Ident).Name
				})
				s := "(.call (.lit " + lstr(strings.ReplaceAll(norm(k.c, v.Type), " ", "")+"{}") + "))"
				for _, el := range elts {
					kv := el.(*ast.KeyValueExpr)
					s = "(.arg " + s + " (.pair (.var " + lstr(kv.Key.(*ast.Ident).Name) + ") " + k.expr(kv.Value) + "))"
				}
				return s
			}
		}
		return "(.lit " + lstr(strings.ReplaceAll(strings.ReplaceAll(norm(k.c, v), " ", ""), ",}", "}")) + ")"
	case *ast.UnaryExpr:
		return "(.un " + lstr(v.Op.String()) + " " + k.expr(v.X) + ")"
	case *ast.StarExpr:
		return "(.un \"*\" " + k.expr(v.X) + ")"
	case *ast.BinaryExpr:
		return "(.bin " + lstr(v.Op.String()) + " " + k.expr(v.X) + " " + k.expr(v.Y) + ")"
	case *ast.IndexExpr:
		return "(.index " + k.expr(v.X) + " " + k.expr(v.Index) + ")"
	case *ast.SliceExpr:
		if v.Slice3 {
			break
		}
		return "(.bin \"[:]\" " + k.expr(v.X) + " (.pair " + k.expr(v.Low) + " " + k.expr(v.High) + "))"
	case *ast.CallExpr:
		if v.Ellipsis != token.NoPos {
			break
		}
		s := "(.call " + k.expr(v.Fun) + ")"
		for _, a := range v.Args {
			s = "(.arg " + s + " " + k.expr(a) + ")"
		}
		return s
	case *ast.ArrayType, *ast.MapType, *ast.InterfaceType, *ast.StructType, *ast.FuncType, *ast.ChanType:
		return "(.lit " + lstr(norm(k.c, v)) + ")"
	}
	return "(.unknown " + lstr(norm(k.c, e)) + ")"
}

func (k *skel) tuple(es []ast.Expr) string {
	if len(es) == 0 {
		return ".none"
	}
	s := k.expr(es[0])
	for _, e := range es[1:] {
		s = "(.pair " + s + " " + k.expr(e) + ")"
	}
	return s
}

func (k *skel) line(depth int, kind, e1, e2 string) {
	k.lines = append(k.lines, fmt.Sprintf("⟨%d, .%s, %s, %s⟩", depth, kind, e1, e2))
}

func (k *skel) unknownStmt(depth int, s ast.Stmt) {
	k.line(depth, "unknown", "(.unknown "+lstr(norm(k.c, s))+")", ".none")
}

func (k *skel) block(depth int, b *ast.BlockStmt) {
	if b == nil {
		return
	}
	for _, s := range b.List {
		k.stmt(depth, s)
	}
}

func (k *skel) stmt(depth int, s ast.Stmt) {
	switch v := s.(type) {
	case *ast.AssignStmt:
		kind := map[token.Token]string{token.ASSIGN: "assign", token.DEFINE: "define", token.ADD_ASSIGN: "addAssign", token.SUB_ASSIGN: "subAssign"}[v.Tok]
		if kind == "" {
			k.unknownStmt(depth, s)
			return
		}
		// normal form: `x = x + e` is `x += e`, `x = x - e` is `x -= e`
		if v.Tok == token.ASSIGN && len(v.Lhs) == 1 && len(v.Rhs) == 1 {
			if b, ok := v.Rhs[0].(*ast.BinaryExpr); ok && (b.Op == token.ADD || b.Op == token.SUB) && norm(k.c, b.X) == norm(k.c, v.Lhs[0]) {
				kind = "addAssign"
				if b.Op == token.SUB {
					kind = "subAssign"
				}
				k.line(depth, kind, k.expr(v.Lhs[0]), k.expr(b.Y))
				return
			}
		}
		k.line(depth, kind, k.tuple(v.Lhs), k.tuple(v.Rhs))
	case *ast.IncDecStmt:
		// normal form: `x++` is `x += 1`, `x--` is `x -= 1`
		if v.Tok == token.INC {
			k.line(depth, "addAssign", k.expr(v.X), "(.int 1)")
		} else {
			k.line(depth, "subAssign", k.expr(v.X), "(.int 1)")
		}
	case *ast.ExprStmt:
		k.line(depth, "exprS", k.expr(v.X), ".none")
	case *ast.ReturnStmt:
		k.line(depth, "returnS", k.tuple(v.Results), ".none")
	case *ast.BranchStmt:
		switch {
		case v.Tok == token.BREAK && v.Label == nil:
			k.line(depth, "breakS", ".none", ".none")
		case v.Tok == token.CONTINUE && v.Label == nil:
			k.line(depth, "continueS", ".none", ".none")
		default:
			k.unknownStmt(depth, s)
		}
	case *ast.BlockStmt:
		k.line(depth, "blockS", ".none", ".none")
		k.block(depth+1, v)
	case *ast.IfStmt:
		if v.Init != nil {
			k.unknownStmt(depth, s)
			return
		}
		k.line(depth, "ifS", k.expr(v.Cond), ".none")
		k.block(depth+1, v.Body)
		if v.Else != nil {
			k.line(depth, "elseS", ".none", ".none")
			if eb, ok := v.Else.(*ast.BlockStmt); ok {
				k.block(depth+1, eb)
			} else {
				k.stmt(depth+1, v.Else)
			}
		}
	case *ast.ForStmt:
		if v.Init != nil {
			k.line(depth, "forInit", ".none", ".none")
			k.stmt(depth+1, v.Init)
		}
		cond := "(.var \"true\")"
		if v.Cond != nil {
			cond = k.expr(v.Cond)
		}
		k.line(depth, "forS", cond, ".none")
		k.block(depth+1, v.Body)
		if v.Post != nil {
			k.line(depth+1, "forPost", ".none", ".none")
			k.stmt(depth+2, v.Post)
		}
	case *ast.RangeStmt:
		if v.Tok != token.DEFINE {
			k.unknownStmt(depth, s)
			return
		}
		k.line(depth, "rangeS", "(.pair "+k.expr(v.Key)+" "+k.expr(v.Value)+")", k.expr(v.X))
		k.block(depth+1, v.Body)
	case *ast.DeclStmt:
		gd, ok := v.Decl.(*ast.GenDecl)
		if !ok || gd.Tok != token.VAR || len(gd.Specs) != 1 {
			k.unknownStmt(depth, s)
			return
		}
		vs := gd.Specs[0].(*ast.ValueSpec)
		if len(vs.Names) != 1 || len(vs.Values) != 0 || vs.Type == nil {
			k.unknownStmt(depth, s)
			return
		}
		k.line(depth, "varS", "(.var "+lstr(vs.Names[0].Name)+")", "(.lit "+lstr(norm(k.c, vs.Type))+")")
	case *ast.SwitchStmt:
		if v.Init != nil {
			k.unknownStmt(depth, s)
			return
		}
		k.line(depth, "switchS", k.expr(v.Tag), ".none")
		k.cases(depth+1, v.Body)
	case *ast.TypeSwitchStmt:
		if v.Init != nil {
			k.unknownStmt(depth, s)
			return
		}
		k.line(depth, "typeSwitchS", "(.lit "+lstr(norm(k.c, v.Assign))+")", ".none")
		k.cases(depth+1, v.Body)
	default:
		k.unknownStmt(depth, s)
	}
}

func (k *skel) cases(depth int, b *ast.BlockStmt) {
	for _, s := range b.List {
		cc, ok := s.(*ast.CaseClause)
		if !ok {
			k.unknownStmt(depth, s)
			continue
		}
		if cc.List == nil {
			k.line(depth, "caseS", "(.var \"default\")", ".none")
		} else {
			k.line(depth, "caseS", k.tuple(cc.List), ".none")
		}
		for _, st := range cc.Body {
			k.stmt(depth+1, st)
		}
	}
}

// rename renames the receiver to d and every other variable declared inside fd to v0, v1, … in
// order of first appearance.
func rename(fd *ast.FuncDecl) {
	names := map[*ast.Object]string{}
	if fd.Recv != nil && len(fd.Recv.List) == 1 && len(fd.Recv.List[0].Names) == 1 {
		if o := fd.Recv.List[0].Names[0].Obj; o != nil {
			names[o] = "d"
		}
	}
	n := 0
	// the parser resolves the KEY of `T{items: items}` to the variable `items` as well: keys keep their names
	keys := map[*ast.Ident]bool{}
	ast.Inspect(fd, func(x ast.Node) bool {
		if cl, ok := x.(*ast.CompositeLit); ok {
			for _, el := range cl.Elts {
				if kv, ok := el.(*ast.KeyValueExpr); ok {
					if id, ok := kv.Key.(*ast.Ident); ok {
						keys[id] = true
					}
				}
			}
		}
		return true
	})
	ast.Inspect(fd, func(x ast.Node) bool {
		id, ok := x.(*ast.Ident)
		if !ok || keys[id] || id.Obj == nil || id.Obj.Kind != ast.Var || id.Name == "_" {
			return true
		}
		if id.Obj.Pos() < fd.Pos() || id.Obj.Pos() > fd.End() {
			return true
		}
		if _, seen := names[id.Obj]; !seen {
			names[id.Obj] = fmt.Sprintf("v%d", n)
			n++
		}
		return true
	})
	ast.Inspect(fd, func(x ast.Node) bool {
		if id, ok := x.(*ast.Ident); ok && id.Obj != nil && !keys[id] {
			if nm, ok := names[id.Obj]; ok {
				id.Name = nm
			}
		}
		return true
	})
}

// genSkel writes Gen/DynSkel.lean.
func genSkel(c *ex.Ctx, d *ast.File) {
	var sb strings.Builder
	sb.WriteString("import VaxisModel.Model.GoSyn\n\n/-! The bodies of vxfw/list/list.go `Dynamic`'s methods, translated statement by statement\n    (receiver renamed to d, parameters and locals to v0, v1, … in order of first appearance). -/\nnamespace VaxisModel.Gen.DynSkel\nopen VaxisModel.Model.GoSyn\n")
	methods := []struct{ goName, leanName string }{
		{"Draw", "draw"}, {"insertChildren", "insertChildren"}, {"NextItem", "nextItem"}, {"PrevItem", "prevItem"},
		{"ensureScroll", "ensureScroll"}, {"SetCursor", "setCursor"}, {"SetPendingScroll", "setPendingScroll"},
		{"HandleEvent", "handleEvent"}, {"CaptureEvent", "captureEvent"}, {"Cursor", "cursor"}, {"Offset", "offset"},
	}
	for _, m := range methods {
		fd := ex.FindFunc(d, "Dynamic", m.goName)
		fmt.Fprintf(&sb, "\n/-- `Dynamic.%s` -/\ndef %s : List Line := [", m.goName, m.leanName)
		if fd == nil || fd.Body == nil {
			sb.WriteString("\n  ⟨0, .unknown, (.unknown \"method not found\"), .none⟩]\n")
			continue
		}
		rename(fd)
		k := &skel{c: c}
		k.block(0, fd.Body)
		for i, l := range k.lines {
			if i > 0 {
				sb.WriteString(",")
			}
			sb.WriteString("\n  " + l)
		}
		sb.WriteString("]\n")
	}
	sb.WriteString("\nend VaxisModel.Gen.DynSkel\n")
	c.Write("DynSkel.lean", sb.String())
}

// genWidSkel writes Gen/WidSkel.lean: the bodies of widgets/list, widgets/pager and widgets/scrollbar,
// translated statement by statement like Dynamic's (keyed composite literals structured).
func genWidSkel(c *ex.Ctx, list, pager, bar *ast.File) {
	var sb strings.Builder
	sb.WriteString("import VaxisModel.Model.GoSyn\n\n/-! The bodies of widgets/list/list.go, widgets/pager/pager.go and widgets/scrollbar/scrollbar.go,\n    translated statement by statement (receiver renamed to d, parameters and locals to v0, v1, … in\n    order of first appearance; keyed composite literals `T{K: e}` as `T{}(K, e)`). -/\nnamespace VaxisModel.Gen.WidSkel\nopen VaxisModel.Model.GoSyn\n")
	fns := []struct {
		f              *ast.File
		recv, goName   string
		leanName, what string
	}{
		{list, "", "min", "listMin", "widgets/list min"}, {list, "", "max", "listMax", "widgets/list max"},
		{list, "", "New", "listNew", "widgets/list New"}, {list, "List", "Index", "listIndex", "List.Index"},
		{list, "List", "Draw", "listDraw", "List.Draw"}, {list, "List", "Down", "listDown", "List.Down"},
		{list, "List", "Up", "listUp", "List.Up"}, {list, "List", "Home", "listHome", "List.Home"},
		{list, "List", "End", "listEnd", "List.End"}, {list, "List", "PageDown", "listPageDown", "List.PageDown"},
		{list, "List", "PageUp", "listPageUp", "List.PageUp"}, {list, "List", "SetItems", "listSetItems", "List.SetItems"},
		{pager, "Model", "Draw", "pagerDraw", "pager Model.Draw"}, {pager, "Model", "Layout", "pagerLayout", "pager Model.Layout"},
		{pager, "Model", "ScrollDown", "pagerScrollDown", "pager Model.ScrollDown"},
		{pager, "Model", "ScrollUp", "pagerScrollUp", "pager Model.ScrollUp"},
		{pager, "line", "append", "lineAppend", "pager line.append"},
		{bar, "Model", "Draw", "barDraw", "scrollbar Model.Draw"},
	}
	for _, m := range fns {
		var fd *ast.FuncDecl
		if m.f != nil {
			fd = ex.FindFunc(m.f, m.recv, m.goName)
		}
		fmt.Fprintf(&sb, "\n/-- `%s` -/\ndef %s : List Line := [", m.what, m.leanName)
		if fd == nil || fd.Body == nil {
			sb.WriteString("\n  ⟨0, .unknown, (.unknown \"function not found\"), .none⟩]\n")
			continue
		}
		rename(fd)
		k := &skel{c: c, structLits: true}
		k.block(0, fd.Body)
		for i, l := range k.lines {
			if i > 0 {
				sb.WriteString(",")
			}
			sb.WriteString("\n  " + l)
		}
		sb.WriteString("]\n")
	}
	sb.WriteString("\nend VaxisModel.Gen.WidSkel\n")
	c.Write("WidSkel.lean", sb.String())
}
